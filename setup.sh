#!/bin/sh
# offline setup: builds the Lean project, translators and harness caches
set -e
cd "$(dirname "$0")"
exec python3 ./check --setup
