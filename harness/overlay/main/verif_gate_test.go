//go:build verif

package main

// Session gate harness (C11): a fresh Session driven through the real Session.dispatch; the authenticator behind
// scheme "vfake" returns whatever outcome the op line asks for, the real "token" authenticator issues tokens.
// One output line per op: the replies (code), whether the request passed the gate and as whom, and the session state.

import (
	"encoding/base64"
	"encoding/json"
	"fmt"
	"strings"
	"testing"
	"time"

	"github.com/tinode/chat/server/auth"
	"github.com/tinode/chat/server/store"
	"github.com/tinode/chat/server/store/types"
)

type vFakeAuth struct{}

var vgUsers map[string]types.Uid
var vgNames map[types.Uid]string

func (vFakeAuth) Init(jsonconf json.RawMessage, name string) error { return nil }
func (vFakeAuth) IsInitialized() bool                             { return true }
func (vFakeAuth) AddRecord(rec *auth.Rec, secret []byte, remoteAddr string) (*auth.Rec, error) {
	return rec, nil
}
func (vFakeAuth) UpdateRecord(rec *auth.Rec, secret []byte, remoteAddr string) (*auth.Rec, error) {
	return rec, nil
}

// secret: "ok:U1:auth[:nologin][:validated][:undef]" | "err:<kind>" | "chal:U1"
func (vFakeAuth) Authenticate(secret []byte, remoteAddr string) (*auth.Rec, []byte, error) {
	p := strings.Split(string(secret), ":")
	switch p[0] {
	case "err":
		switch p[1] {
		case "failed":
			return nil, nil, types.ErrFailed
		case "expired":
			return nil, nil, types.ErrExpired
		case "malformed":
			return nil, nil, types.ErrMalformed
		case "internal":
			return nil, nil, types.ErrInternal
		case "notfound":
			return nil, nil, types.ErrNotFound
		default:
			return nil, nil, types.ErrPermissionDenied
		}
	case "ok", "chal":
		rec := &auth.Rec{Uid: vgUsers[p[1]], AuthLevel: auth.ParseAuthLevel(p[2]), State: types.StateOK, Lifetime: auth.Duration(time.Hour)}
		for _, f := range p[3:] {
			switch f {
			case "nologin":
				rec.Features |= auth.FeatureNoLogin
			case "validated":
				rec.Features |= auth.FeatureValidated
			case "undef":
				rec.State = types.StateUndefined
			case "susp":
				rec.State = types.StateSuspended
			case "deleted":
				rec.State = types.StateDeleted
			}
		}
		if p[0] == "chal" {
			return rec, []byte("challenge"), nil
		}
		return rec, nil, nil
	}
	return nil, nil, types.ErrMalformed
}
func (vFakeAuth) AsTag(token string) string                            { return "" }
func (vFakeAuth) IsUnique(secret []byte, remoteAddr string) (bool, error) { return true, nil }
func (vFakeAuth) GenSecret(rec *auth.Rec) ([]byte, time.Time, error) {
	return []byte("s"), time.Time{}, nil
}
func (vFakeAuth) DelRecords(uid types.Uid) error                  { return nil }
func (vFakeAuth) RestrictedTags() ([]string, error)               { return nil, nil }
func (vFakeAuth) GetResetParams(uid types.Uid) (map[string]any, error) { return nil, nil }
func (vFakeAuth) GetRealName() string                             { return "vfake" }

var vgRegistered bool
var vgSess *Session
var vgLastToken string

func vgReset() {
	vwReset(32)
	if !vgRegistered {
		store.RegisterAuthScheme("vfake", vFakeAuth{})
		key := base64.StdEncoding.EncodeToString([]byte("0123456789abcdef0123456789abcdef"))
		conf, _ := json.Marshal(map[string]any{"expire_in": 3600, "serial_num": 1, "key": key})
		if h := store.Store.GetAuthHandler("token"); h != nil {
			if err := h.Init(conf, "token"); err != nil {
				panic("token init: " + err.Error())
			}
		} else {
			panic("token authenticator is not linked in")
		}
		vgRegistered = true
	}
	vgUsers = map[string]types.Uid{}
	vgNames = map[types.Uid]string{}
	for _, n := range []string{"U1", "U2", "U3"} {
		uid := store.Store.GetUid()
		u := &types.User{}
		u.SetUid(uid)
		u.InitTimes()
		u.Access.Auth.UnmarshalText([]byte("JRWPAS"))
		u.Access.Anon.UnmarshalText([]byte("N"))
		if n == "U2" {
			u.State = types.StateSuspended
		}
		if err := vw.ad.UserCreate(u); err != nil {
			panic(err)
		}
		vgUsers[n] = uid
		vgNames[uid] = n
	}
	globals.authValidators = nil
	vgLastToken = ""
	vgSess = &Session{sid: "G1", send: make(chan any, 256), stop: make(chan any, 8), detach: make(chan string, 64),
		subs: make(map[string]*Subscription), userAgent: "", inflightReqs: newBoundedWaitGroup(1), bkgTimer: time.NewTimer(time.Hour)}
	vgSess.bkgTimer.Stop()
}

func vgName(uid types.Uid) string {
	if uid.IsZero() {
		return "-"
	}
	if n, ok := vgNames[uid]; ok {
		return n
	}
	return "U?"
}

func vgDrain() []string {
	var out []string
	for len(vgSess.send) > 0 {
		x := <-vgSess.send
		var msgs []*ServerComMessage
		switch v := x.(type) {
		case *ServerComMessage:
			msgs = []*ServerComMessage{v}
		case []*ServerComMessage:
			msgs = v
		}
		for _, m := range msgs {
			if m.Ctrl != nil {
				id := m.Ctrl.Id
				if id == "" {
					id = "-"
				}
				s := fmt.Sprintf("%d/%s", m.Ctrl.Code, id)
				if p, ok := m.Ctrl.Params.(map[string]any); ok {
					if u, ok := p["user"].(string); ok {
						s += " user=" + vgName(types.ParseUserId(u))
					}
					if l, ok := p["authlvl"].(string); ok {
						s += " authlvl=" + l
					}
					if t, ok := p["token"].([]byte); ok && len(t) > 0 {
						vgLastToken = string(t)
						s += " token"
					}
					if c, ok := p["cred"].([]string); ok {
						s += " cred=" + strings.Join(c, ",")
					}
				}
				out = append(out, s)
			} else {
				out = append(out, "other")
			}
		}
	}
	return out
}

func vgHubActivity() string {
	h := globals.hub
	var a []string
	for len(h.join) > 0 {
		m := <-h.join
		// what the hub does once the request has been handed to the topic
		if m.sess != nil && m.sess.inflightReqs != nil {
			m.sess.inflightReqs.Done()
		}
		a = append(a, "join")
	}
	for len(h.unreg) > 0 {
		<-h.unreg
		a = append(a, "unreg")
	}
	for len(h.meta) > 0 {
		<-h.meta
		a = append(a, "meta")
	}
	for len(h.routeCli) > 0 {
		<-h.routeCli
		a = append(a, "route")
	}
	return strings.Join(a, ",")
}

func vgOp(ws []string) (string, bool) {
	kv := vKV(ws[1:])
	if ws[0] == "reset" {
		vgReset()
		return "ok", true
	}
	if vgSess == nil {
		return "", false
	}
	switch ws[0] {
	case "validators":
		// the `auth` level requires a validated e-mail (tinode.conf: auth_config / validator "email": required ["auth"])
		if len(ws) > 1 && ws[1] == "on" {
			globals.authValidators = map[auth.Level][]string{auth.LevelAuth: {"email"}}
		} else {
			globals.authValidators = nil
		}
		return "ok", true
	case "cred":
		// the account has a validated e-mail
		uid, ok := vgUsers[ws[1]]
		if !ok {
			return "", false
		}
		c := &types.Credential{User: uid.String(), Method: "email", Value: strings.ToLower(ws[1]) + "@example.com", Done: true}
		c.InitTimes()
		if _, err := vw.ad.CredUpsert(c); err != nil && err != types.ErrDuplicate {
			return "cred: " + err.Error(), true
		}
		return "ok", true
	}
	s := vgSess
	msg := &ClientComMessage{}
	if as, ok := kv["as"]; ok {
		p := strings.SplitN(as, ":", 2)
		ex := &MsgClientExtra{}
		if uid, ok := vgUsers[p[0]]; ok {
			ex.AsUser = uid.UserId()
		} else {
			ex.AsUser = p[0] // raw, possibly ill-formed
		}
		if len(p) > 1 {
			ex.AuthLevel = p[1]
		}
		msg.Extra = ex
	}
	topic := "grpverifgatetopic"
	switch ws[0] {
	case "hi":
		msg.Hi = &MsgClientHi{Id: "1", Version: vOptStr(kvOr(kv, "ver")), UserAgent: "ua", Background: kv["bg"] == "1"}
	case "login":
		scheme := ws[1]
		secret := ""
		if len(ws) > 2 {
			secret = ws[2]
		}
		if scheme == "token" && len(secret) > 1 && secret[0] == 'z' {
			if n, ok := vInt(secret[1:]); ok {
				secret = strings.Repeat("A", n)
			}
		}
		if scheme == "token" && secret == "last" {
			secret = vgLastToken
			msg.Login = &MsgClientLogin{Id: "1", Scheme: scheme, Secret: []byte(secret)}
		} else {
			msg.Login = &MsgClientLogin{Id: "1", Scheme: scheme, Secret: []byte(secret)}
		}
	case "acc":
		tmpSecret := kv["tmpsecret"]
		if kv["tmp"] == "token" && len(tmpSecret) > 1 && tmpSecret[0] == 'z' {
			if n, ok := vInt(tmpSecret[1:]); ok {
				tmpSecret = strings.Repeat("A", n)
			}
		}
		msg.Acc = &MsgClientAcc{Id: "1", User: vOptStr(kvOr(kv, "user")), TmpScheme: kv["tmp"], TmpSecret: []byte(tmpSecret)}
		if kv["scheme"] != "" {
			msg.Acc.Scheme = kv["scheme"]
			msg.Acc.Secret = []byte(kv["secret"])
		}
	case "pub":
		msg.Pub = &MsgClientPub{Id: "1", Topic: topic, Content: "c", Head: map[string]any{"sender": "usrFORGED"}}
	case "sub":
		msg.Sub = &MsgClientSub{Id: "1", Topic: topic}
	case "leave":
		msg.Leave = &MsgClientLeave{Id: "1", Topic: topic}
	case "get":
		msg.Get = &MsgClientGet{Id: "1", Topic: topic, MsgGetQuery: MsgGetQuery{What: "desc"}}
	case "set":
		msg.Set = &MsgClientSet{Id: "1", Topic: topic, MsgSetQuery: MsgSetQuery{Desc: &MsgSetDesc{Private: "x"}}}
	case "del":
		msg.Del = &MsgClientDel{Id: "1", Topic: topic, What: "topic"}
	case "note":
		msg.Note = &MsgClientNote{Topic: topic, What: "recv", SeqId: 1}
	case "empty":
		// no payload at all
	default:
		return "", false
	}
	s.dispatch(msg)
	replies := vgDrain()
	hub := vgHubActivity()
	seen := "-"
	if msg.AsUser != "" {
		seen = vgName(types.ParseUserId(msg.AsUser))
	}
	uid := vgName(s.uid)
	return fmt.Sprintf("[%s] hub=%s seen=%s/%d | ver=%x uid=%s lvl=%d", strings.Join(replies, " "), hub, seen, msg.AuthLvl, s.ver, uid, int(s.authLvl)), true
}

func vOptStr(s string) string {
	if s == "-" {
		return ""
	}
	return s
}

func TestVerifGate(t *testing.T) {
	verifRun(t, vgOp)
}
