//go:build verif

package main

// Password authenticator harness (C12): the real `basic` authenticator over the in-memory adapter.

import (
	"encoding/json"
	"fmt"
	"testing"
	"time"

	"github.com/tinode/chat/server/auth"
	"github.com/tinode/chat/server/store"
	"github.com/tinode/chat/server/store/types"
)

var vbInit bool

func vbErr(err error) string {
	switch err {
	case nil:
		return "ok"
	case types.ErrFailed:
		return "failed"
	case types.ErrExpired:
		return "expired"
	case types.ErrMalformed:
		return "malformed"
	case types.ErrPolicy:
		return "policy"
	case types.ErrDuplicate:
		return "duplicate"
	case types.ErrNotFound:
		return "notfound"
	}
	return "err"
}

func vbOp(ws []string) (string, bool) {
	h := store.Store.GetAuthHandler("basic")
	if h == nil {
		return "nohandler", true
	}
	switch ws[0] {
	case "reset":
		vwReset(32)
		if !vbInit {
			conf, _ := json.Marshal(map[string]any{"add_to_tags": true, "min_login_length": 3, "min_password_length": 4})
			if err := h.Init(conf, "basic"); err != nil {
				panic(err)
			}
			vbInit = true
		}
		for _, u := range [][]string{{"user", "U1", "JRWPAS", "N"}, {"user", "U2", "JRWPAS", "N"}, {"user", "U3", "JRWPAS", "N"}} {
			vw.op(u)
		}
		return "ok", true
	case "add", "upd":
		// add U1 auth|root|none <secret> [expired]
		sec, ok := vHexDec(ws[3])
		if !ok {
			return "", false
		}
		rec := &auth.Rec{Uid: vw.users[ws[1]], AuthLevel: auth.ParseAuthLevel(ws[2])}
		if len(ws) > 4 && ws[4] == "expired" {
			rec.Lifetime = auth.Duration(time.Nanosecond)
		}
		var out *auth.Rec
		var err error
		if ws[0] == "add" {
			out, err = h.AddRecord(rec, sec, "")
		} else {
			out, err = h.UpdateRecord(rec, sec, "")
		}
		if err != nil {
			return vbErr(err), true
		}
		time.Sleep(2 * time.Millisecond)
		return fmt.Sprintf("ok lvl=%d", int(out.AuthLevel)), true
	case "auth":
		sec, ok := vHexDec(ws[1])
		if !ok {
			return "", false
		}
		rec, _, err := h.Authenticate(sec, "")
		if err != nil {
			return vbErr(err), true
		}
		return fmt.Sprintf("ok %s lvl=%d", vw.uname(rec.Uid), int(rec.AuthLevel)), true
	case "uniq":
		sec, ok := vHexDec(ws[1])
		if !ok {
			return "", false
		}
		u, err := h.IsUnique(sec, "")
		return fmt.Sprintf("%v %s", u, vbErr(err)), true
	}
	return "", false
}

func TestVerifBasic(t *testing.T) {
	verifRun(t, vbOp)
}
