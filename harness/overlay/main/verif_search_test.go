//go:build verif

package main

import (
	"sort"
	"strings"
)

func vStrList(s string) ([]string, bool) {
	if s == "-" {
		return []string{}, true
	}
	if s == "nil" {
		return nil, true
	}
	var out []string
	for _, t := range strings.Split(s, ",") {
		b, ok := vHexDec(t)
		if !ok {
			return nil, false
		}
		out = append(out, string(b))
	}
	return out, true
}

func vShowList(xs []string) string {
	if xs == nil {
		return "nil"
	}
	if len(xs) == 0 {
		return "-"
	}
	parts := make([]string, len(xs))
	for i, x := range xs {
		parts[i] = vHexEnc([]byte(x))
	}
	return strings.Join(parts, ",")
}

func verifSearch(ws []string) (string, bool) {
	switch ws[0] {
	case "q.parse":
		// q.parse <query>   (no validators, no authenticators configured: rewriteTag only validates)
		if len(ws) != 2 {
			return "", false
		}
		q, ok := vHexDec(ws[1])
		if !ok {
			return "", false
		}
		and, or, err := parseSearchQuery(string(q), "US", false)
		if err != nil {
			return "err", true
		}
		groups := make([]string, len(and))
		for i, g := range and {
			groups[i] = vShowList(g)
		}
		a := "-"
		if len(groups) > 0 {
			a = strings.Join(groups, ";")
		}
		o := "-"
		if len(or) > 0 {
			o = vShowList(or)
		}
		return "ok and=" + a + " or=" + o, true
	case "tags.norm":
		if len(ws) != 3 {
			return "", false
		}
		mx, ok1 := vInt(ws[1])
		src, ok2 := vStrList(ws[2])
		if !ok1 || !ok2 {
			return "", false
		}
		globals.maxTagCount = mx
		out := normalizeTags(src)
		return vShowList([]string(out)), true
	case "tags.restricted":
		// tags.restricted <namespaces> <old> <new>
		if len(ws) != 4 {
			return "", false
		}
		ns, ok0 := vStrList(ws[1])
		old, ok1 := vStrList(ws[2])
		nw, ok2 := vStrList(ws[3])
		if !ok0 || !ok1 || !ok2 {
			return "", false
		}
		m := map[string]bool{}
		for _, n := range ns {
			m[n] = true
		}
		f := filterRestrictedTags(nw, m)
		sort.Strings(f)
		eq := restrictedTagsEqual(old, nw, m)
		if eq {
			return "true " + vShowList(f), true
		}
		return "false " + vShowList(f), true
	}
	return "", false
}
