//go:build verif

package main

import (
	"strings"
	"testing"
)

// TestVerifStream serves the pure (stateless) ops of package main.
func TestVerifStream(t *testing.T) {
	verifInitGlobals()
	verifRun(t, func(ws []string) (string, bool) {
		switch {
		case strings.HasPrefix(ws[0], "q."), strings.HasPrefix(ws[0], "tags."):
			return verifSearch(ws)
		case strings.HasPrefix(ws[0], "key."):
			return verifKey(ws)
		case ws[0] == "ring.rehash":
			return verifRehash(ws)
		case strings.HasPrefix(ws[0], "pb."):
			return verifPb(ws)
		case strings.HasPrefix(ws[0], "sop."):
			return verifStoreOp(ws)
		}
		return "", false
	})
}

func verifInitGlobals() {
	globals.maxTagCount = 16
}
