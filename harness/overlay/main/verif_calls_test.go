//go:build verif

package main

// Call harness (C15): the real p2p topic code (handlePubBroadcast call gate, handleCallInvite, handleCallEvent,
// maybeEndCallInProgress, terminateCallInProgress, unregisterSession) driven through the world harness' pump.
// Setup ops (user, sess, attach, detach, newgrp) go through the world harness; call ops print a compact line:
//   frames | msgs[...] | call=...

import (
	"encoding/json"
	"fmt"
	"regexp"
	"sort"
	"strings"
	"testing"

	"github.com/tinode/chat/server/store/types"
)

func vcTopic(a, b string) *Topic {
	u1, u2 := vw.users[a], vw.users[b]
	name := u1.P2PName(u2)
	return globals.hub.topicGet(name)
}

// the two users of the call stream are fixed: the topic is P:U1:U2
func vcLine(frames []string) string {
	parts := append([]string{}, frames...)
	u1, u2 := vw.users["U1"], vw.users["U2"]
	name := u1.P2PName(u2)
	// stored messages of the p2p topic
	var ms []string
	for _, m := range vw.ad.Messages[name] {
		ms = append(ms, fmt.Sprintf("%d:%s:%s:%s", m.SeqId, vw.uname(types.ParseUid(m.From)), vHead(m.Head, vw), vTok(m.Content)))
	}
	parts = append(parts, "msgs["+strings.Join(ms, " ")+"]")
	call := "-"
	if t := globals.hub.topicGet(name); t != nil && t.currentCall != nil {
		var ps []string
		for sid, p := range t.currentCall.parties {
			o := ""
			if p.isOriginator {
				o = ":o"
			}
			ps = append(ps, sid+":"+vw.uname(p.uid)+o)
		}
		sort.Strings(ps)
		acc := 0
		if !t.currentCall.acceptedAt.IsZero() {
			acc = 1
		}
		call = fmt.Sprintf("seq=%d parties=[%s] accepted=%d", t.currentCall.seq, strings.Join(ps, " "), acc)
	}
	parts = append(parts, "call="+call)
	return strings.Join(parts, " | ")
}

func vcOp(ws []string) (string, bool) {
	kv := vKV(ws[1:])
	switch ws[0] {
	case "reset":
		vwReset(32)
		globals.iceServers = []iceServer{{Urls: []string{"stun:x"}}}
		globals.callEstablishmentTimeout = 30
		for _, u := range [][]string{{"user", "U1", "JRWPAS", "JR"}, {"user", "U2", "JRWPAS", "JR"}, {"user", "U3", "JRWPAS", "JR"}} {
			vw.op(u)
		}
		return "ok", true
	case "ice":
		if ws[1] == "on" {
			globals.iceServers = []iceServer{{Urls: []string{"stun:x"}}}
		} else {
			globals.iceServers = nil
		}
		return "ok", true
	case "sess":
		return vw.op(ws)
	case "attach":
		// attach S1 U2 : {sub topic=usrU2}
		vw.op([]string{"sub", ws[1], ws[2]})
		return "ok", true
	case "newgrp":
		vw.op([]string{"newgrp", ws[1]})
		return "ok", true
	}
	s := vw.sess[ws[1]]
	if s == nil {
		return "", false
	}
	peer := ws[2]
	topic := vw.realTopic(peer, s.uid)
	switch ws[0] {
	case "detach":
		vw.dispatch(s, &ClientComMessage{Leave: &MsgClientLeave{Id: "1", Topic: topic}})
	case "call":
		head := map[string]any{"webrtc": "started", "mime": "application/x-tinode-webrtc"}
		vw.dispatch(s, &ClientComMessage{Pub: &MsgClientPub{Id: "1", Topic: topic, Content: ws[3], Head: head, NoEcho: kv["noecho"] == "1"}})
	case "pub":
		vw.dispatch(s, &ClientComMessage{Pub: &MsgClientPub{Id: "1", Topic: topic, Content: ws[3]}})
	case "ev":
		// ev S1 U2 accept 3 [payload]
		seq, _ := vInt(ws[4])
		n := &MsgClientNote{Topic: topic, What: "call", Event: ws[3], SeqId: seq}
		if len(ws) > 5 && !strings.Contains(ws[5], "=") {
			n.Payload = json.RawMessage(`"` + ws[5] + `"`)
		}
		vw.dispatch(s, &ClientComMessage{Note: n})
	case "timeout":
		// the establishment timer of the topic fires
		// (it can fire only while it is armed: from the invitation until the call is accepted or over)
		if t := globals.hub.topicGet(s.uid.P2PName(vw.users[peer])); t != nil {
			if t.callEstablishmentTimer.Stop() {
				t.terminateCallInProgress(true)
				vw.pump()
			}
		}
	default:
		return "", false
	}
	frames := vw.drainSessions()
	vw.drainUsersUpdate()
	vw.ad.Calls = nil
	// the duration of a finished call is wall-clock time: not compared
	return vcDuration.ReplaceAllString(vcLine(frames), ""), true
}

var vcDuration = regexp.MustCompile(`;webrtc-duration=\d+`)

func TestVerifCalls(t *testing.T) {
	verifRun(t, vcOp)
}
