//go:build verif

package main

import (
	"fmt"
	"time"
)

// pb.bytes <utf8 string>   interfaceToBytes(string): the bytes put on the gRPC wire
// pb.rt <utf8 string>      bytesToInterface(interfaceToBytes(string)): what the other side reads back
// pb.time <ms>             timeToInt64(int64ToTime(ms)) and the sub-second part of int64ToTime(ms) in nanoseconds
func verifPb(ws []string) (string, bool) {
	switch ws[0] {
	case "pb.bytes", "pb.rt":
		b, ok := vHexDec(ws[1])
		if !ok {
			return "", false
		}
		out := interfaceToBytes(string(b))
		if ws[0] == "pb.bytes" {
			return vHexEnc(out), true
		}
		back := bytesToInterface(out)
		if s, ok := back.(string); ok {
			return vHexEnc([]byte(s)), true
		}
		return "!string", true
	case "pb.time":
		ms, ok := vInt(ws[1])
		if !ok {
			return "", false
		}
		t := int64ToTime(int64(ms))
		if t == nil {
			return "nil", true
		}
		var tt time.Time = *t
		return fmt.Sprintf("%d %d", timeToInt64(t), tt.Nanosecond()), true
	}
	return "", false
}
