//go:build verif

package main

import "fmt"

func verifKey(ws []string) (string, bool) {
	switch ws[0] {
	case "key.check":
		// key.check <salt> <apikey> <mac>
		if len(ws) != 4 {
			return "", false
		}
		salt, ok1 := vHexDec(ws[1])
		key, ok2 := vHexDec(ws[2])
		if !ok1 || !ok2 {
			return "", false
		}
		globals.apiKeySalt = salt
		v, r := checkAPIKey(string(key))
		return fmt.Sprintf("%v %v", v, r), true
	}
	return "", false
}
