//go:build verif

package main

// Sequential "world" harness: real Session, Topic, Hub and store code over the in-memory adapter.
// The topic actor loop (Topic.runLocal) and the hub loop (Hub.run) are single `select` loops; here their
// handlers are called one at a time, in a fixed order, by vwPump. One client op per line, one output line per op.

import (
	"strconv"
	"encoding/json"
	"fmt"
	"sort"
	"strings"
	"sync"
	"sync/atomic"
	"testing"
	"time"

	"github.com/tinode/chat/server/auth"
	"github.com/tinode/chat/server/push"
	"github.com/tinode/chat/server/store"
	"github.com/tinode/chat/server/store/types"
)

type vWorld struct {
	ad     *vMemAdapter
	users  map[string]types.Uid
	unames map[types.Uid]string
	sess   map[string]*Session
	order  []string // session names in creation order
	tnames map[string]string // real topic name -> symbolic
	treal  map[string]string // symbolic -> real
	toks   map[string]string // content/public/private token text -> same (identity), for rendering
	out    []string
	failK  int
	crashK int
	sessUid map[string]types.Uid // the user each session logged in as (a restart stands for new connections: logged in again)
	sessLvl map[string]auth.Level
	uaTimers map[*Topic]*time.Timer
	curUA  map[*Topic]*string
	holding bool                // a request is being held: dispatched, not processed
	blocked bool                // the request could not be dispatched: the session's single in-flight slot is taken
	closing []string            // frames sent to sessions as they were told to stop (eviction)
	created map[types.Uid]bool  // accounts which were created (a `state=missing` name never was)
	deleted map[types.Uid]bool  // accounts which were deleted since
	stalled map[string]bool     // sessions whose connection has stalled: the outgoing queue is full, nothing is read from it
}

// the registry of sessions (SessionStore.sessCache): every session of the stream is a connection
func (w *vWorld) registerSessions() {
	ss := globals.sessionStore
	ss.lock.Lock()
	ss.sessCache = map[string]*Session{}
	for sn, s := range w.sess {
		ss.sessCache[sn] = s
	}
	ss.lock.Unlock()
}

var vw *vWorld
var vwRegistered bool

func vwReset(maxSubs int) {
	ad := vmemNew()
	if !vwRegistered {
		store.RegisterAdapter(ad)
		vwRegistered = true
		conf, _ := json.Marshal(map[string]interface{}{
			"uid_key":     []byte("la6YsO+bNX/+XIkO"),
			"use_adapter": "vmem",
			"max_results": 1024,
		})
		if err := store.Store.Open(1, conf); err != nil {
			panic("store open: " + err.Error())
		}
		vwAdapter = ad
	} else {
		// keep the registered adapter object, reset its content
		vwAdapter.vmemRestore(ad)
		vwAdapter.Calls = nil
		vwAdapter.vmemDisarm()
		vwAdapter.CrashSnap = nil
		ad = vwAdapter
	}
	globals.hub = &Hub{
		topics:     &sync.Map{},
		routeCli:   make(chan *ClientComMessage, 4096),
		routeSrv:   make(chan *ServerComMessage, 4096),
		join:       make(chan *ClientComMessage, 256),
		unreg:      make(chan *topicUnreg, 256),
		rehash:     make(chan bool),
		meta:       make(chan *ClientComMessage, 128),
		userStatus: make(chan *userStatusReq, 128),
		shutdown:   make(chan chan<- bool),
	}
	if globals.sessionStore == nil {
		globals.sessionStore = NewSessionStore(time.Hour)
	}
	globals.usersUpdate = make(chan *UserCacheReq, 4096)
	globals.maxSubscriberCount = maxSubs
	globals.maxTagCount = 16
	globals.cluster = nil
	globals.immutableTagNS = map[string]bool{"basic": true}
	globals.maskedTagNS = map[string]bool{"rest": true}
	// owned topics are listed in the order they were made (T1, T2, …)
	vmemTopicLess = func(a, b string) bool {
		ord := func(n string) int {
			if vw != nil {
				if k, err := strconv.Atoi(strings.TrimPrefix(vw.tnames[n], "T")); err == nil {
					return k
				}
			}
			return 1 << 30
		}
		return ord(a) < ord(b)
	}
	globals.sessionStore.lock.Lock()
	globals.sessionStore.sessCache = map[string]*Session{}
	globals.sessionStore.lock.Unlock()
	vw = &vWorld{ad: ad, users: map[string]types.Uid{}, unames: map[types.Uid]string{}, sess: map[string]*Session{},
		tnames: map[string]string{}, treal: map[string]string{}, uaTimers: map[*Topic]*time.Timer{}, curUA: map[*Topic]*string{}}
}

var vwAdapter *vMemAdapter

// ---------------------------------------------------------------- names

func (w *vWorld) uname(uid types.Uid) string {
	if uid.IsZero() {
		return "-"
	}
	if n, ok := w.unames[uid]; ok {
		return n
	}
	return "U?" + uid.String()
}

func (w *vWorld) sname(s *Session) string {
	for n, x := range w.sess {
		if x == s {
			return n
		}
	}
	return "S?"
}

// symbolic form of any topic / user name appearing in a frame
func (w *vWorld) tname(name string) string {
	if name == "" {
		return "-"
	}
	if n, ok := w.tnames[name]; ok {
		return n
	}
	if strings.HasPrefix(name, "chn") {
		if n, ok := w.tnames[types.ChnToGrp(name)]; ok {
			return "chn:" + n
		}
	}
	if strings.HasPrefix(name, "usr") {
		if uid := types.ParseUserId(name); !uid.IsZero() {
			return w.uname(uid)
		}
	}
	if strings.HasPrefix(name, "fnd") && len(name) > 3 {
		if uid := types.ParseUid(name[3:]); !uid.IsZero() {
			return "fnd:" + w.uname(uid)
		}
	}
	if strings.HasPrefix(name, "p2p") {
		if u1, u2, err := types.ParseP2P(name); err == nil {
			a, b := w.uname(u1), w.uname(u2)
			if a > b {
				a, b = b, a
			}
			return "P:" + a + ":" + b
		}
	}
	if strings.HasPrefix(name, "grp") || strings.HasPrefix(name, "new") || strings.HasPrefix(name, "nch") {
		return "?" + name[:3]
	}
	return name
}

func (w *vWorld) realTopic(sym string, asUid types.Uid) string {
	if r, ok := w.treal[sym]; ok {
		return r
	}
	if strings.HasPrefix(sym, "chn:") {
		if r, ok := w.treal[sym[4:]]; ok {
			return types.GrpToChn(r)
		}
	}
	if uid, ok := w.users[sym]; ok {
		return uid.UserId()
	}
	if strings.HasPrefix(sym, "fnd:") {
		if uid, ok := w.users[sym[4:]]; ok {
			return uid.FndName()
		}
	}
	if strings.HasPrefix(sym, "P:") {
		if ps := strings.Split(sym, ":"); len(ps) == 3 {
			if u1, ok1 := w.users[ps[1]]; ok1 {
				if u2, ok2 := w.users[ps[2]]; ok2 {
					return u1.P2PName(u2)
				}
			}
		}
	}
	return sym // me, fnd, sys, new..., or a raw (possibly ill-formed) name
}

func vBit(b bool) string {
	if b {
		return "1"
	}
	return "0"
}

func vTok(v any) string {
	if v == nil {
		return "-"
	}
	if s, ok := v.(string); ok {
		if s == "" {
			return "''"
		}
		return strings.ReplaceAll(s, " ", "_")
	}
	b, _ := json.Marshal(v)
	return strings.ReplaceAll(string(b), " ", "_")
}

func vHead(h map[string]any, w *vWorld) string {
	if len(h) == 0 {
		return "-"
	}
	keys := make([]string, 0, len(h))
	for k := range h {
		keys = append(keys, k)
	}
	sort.Strings(keys)
	parts := []string{}
	for _, k := range keys {
		v := vTok(h[k])
		if k == "sender" {
			if s, ok := h[k].(string); ok {
				v = w.tname(s)
			}
		}
		parts = append(parts, k+"="+v)
	}
	return strings.Join(parts, ";")
}

func vMode(s string) string {
	if s == "" {
		return "_"
	}
	return s
}

func vAcs(a *MsgAccessMode) string {
	if a == nil {
		return "-"
	}
	return vMode(a.Want) + "/" + vMode(a.Given) + "/" + vMode(a.Mode)
}

// ---------------------------------------------------------------- rendering of server frames

func (w *vWorld) renderParams(p any) string {
	if p == nil {
		return ""
	}
	var m map[string]any
	b, _ := json.Marshal(p)
	if json.Unmarshal(b, &m) != nil {
		return " params=?"
	}
	keys := make([]string, 0, len(m))
	for k := range m {
		keys = append(keys, k)
	}
	sort.Strings(keys)
	out := ""
	for _, k := range keys {
		switch k {
		case "acs":
			am, _ := m[k].(map[string]any)
			g := func(x string) string { s, _ := am[x].(string); return vMode(s) }
			out += " acs=" + g("want") + "/" + g("given") + "/" + g("mode")
		case "user", "tmpname", "topic":
			s, _ := m[k].(string)
			if k == "tmpname" {
				out += " tmpname"
			} else {
				out += " " + k + "=" + w.tname(s)
			}
		default:
			out += fmt.Sprintf(" %s=%v", k, m[k])
		}
	}
	return out
}

func (w *vWorld) renderRanges(rs []MsgDelRange) string {
	parts := []string{}
	for _, r := range rs {
		parts = append(parts, fmt.Sprintf("%d:%d", r.LowId, r.HiId))
	}
	if len(parts) == 0 {
		return "-"
	}
	return strings.Join(parts, ",")
}

func (w *vWorld) renderMsg(m *ServerComMessage) string {
	switch {
	case m.Ctrl != nil:
		return fmt.Sprintf("ctrl %d %s%s", m.Ctrl.Code, w.tname(m.Ctrl.Topic), w.renderParams(m.Ctrl.Params))
	case m.Data != nil:
		return fmt.Sprintf("data %s from=%s seq=%d head=%s content=%s", w.tname(m.Data.Topic), w.tname(m.Data.From), m.Data.SeqId,
			vHead(m.Data.Head, w), vTok(m.Data.Content))
	case m.Info != nil:
		ev := ""
		if m.Info.Event != "" {
			ev = " event=" + m.Info.Event
		}
		if m.Info.Payload != nil {
			ev += " payload=" + vTok(string(m.Info.Payload))
		}
		src := ""
		if m.Info.Src != "" {
			// delivered on 'me': the topic the note is about
			src = " src=" + w.tname(m.Info.Src)
		}
		return fmt.Sprintf("info %s%s from=%s what=%s seq=%d%s", w.tname(m.Info.Topic), src, w.tname(m.Info.From), m.Info.What, m.Info.SeqId, ev)
	case m.Pres != nil:
		p := m.Pres
		s := fmt.Sprintf("pres %s src=%s what=%s", w.tname(p.Topic), w.tname(p.Src), p.What)
		if p.SeqId != 0 {
			s += fmt.Sprintf(" seq=%d", p.SeqId)
		}
		if p.DelId != 0 {
			s += fmt.Sprintf(" clear=%d:%s", p.DelId, w.renderRanges(p.DelSeq))
		}
		if p.Acs != nil {
			s += " dacs=" + vMode(p.Acs.Want) + "/" + vMode(p.Acs.Given)
		}
		if p.AcsTarget != "" {
			s += " tgt=" + w.tname(p.AcsTarget)
		}
		if p.AcsActor != "" {
			s += " act=" + w.tname(p.AcsActor)
		}
		return s
	case m.Meta != nil:
		mt := m.Meta
		s := "meta " + w.tname(mt.Topic)
		if d := mt.Desc; d != nil {
			s += fmt.Sprintf(" desc[acs=%s seq=%d read=%d recv=%d del=%d pub=%s tr=%s priv=%s", vAcs(d.Acs), d.SeqId, d.ReadSeqId,
				d.RecvSeqId, d.DelId, vTok(d.Public), vTok(d.Trusted), vTok(d.Private))
			if d.DefaultAcs != nil {
				s += " defacs=" + vMode(d.DefaultAcs.Auth) + "/" + vMode(d.DefaultAcs.Anon)
			}
			if d.Online {
				s += " online"
			}
			if d.IsChan {
				s += " chan"
			}
			s += "]"
		}
		if mt.Sub != nil {
			subs := []string{}
			for i := range mt.Sub {
				ms := &mt.Sub[i]
				who := w.tname(ms.User)
				if ms.User == "" {
					who = w.tname(ms.Topic)
				}
				e := fmt.Sprintf("%s:%s/%s/%s:r%d:v%d:d%d", who, vMode(ms.Acs.Want), vMode(ms.Acs.Given), vMode(ms.Acs.Mode), ms.ReadSeqId,
					ms.RecvSeqId, ms.DelId)
				if ms.Online {
					e += ":on"
				}
				if ms.Private != nil {
					e += ":priv=" + vTok(ms.Private)
				}
				if ms.DeletedAt != nil {
					e += ":deleted"
				}
				subs = append(subs, e)
			}
			sort.Strings(subs)
			s += " sub[" + strings.Join(subs, " ") + "]"
		}
		if mt.Tags != nil {
			s += " tags[" + strings.Join(mt.Tags, ",") + "]"
		}
		if mt.Del != nil {
			s += fmt.Sprintf(" del[%d:%s]", mt.Del.DelId, w.renderRanges(mt.Del.DelSeq))
		}
		return s
	}
	return "frame?"
}

// drain everything queued for the sessions; returns "S1<-frame; S1<-frame; S2<-frame"
func (w *vWorld) drainSessions() []string {
	var out []string
	for _, sn := range w.order {
		s := w.sess[sn]
		if w.stalled[sn] {
			continue // nobody reads: the queue stays full
		}
		for len(s.send) > 0 {
			item := <-s.send
			switch x := item.(type) {
			case *ServerComMessage:
				out = append(out, sn+"<-"+w.renderMsg(x))
			case []*ServerComMessage:
				for _, m := range x {
					out = append(out, sn+"<-"+w.renderMsg(m))
				}
			default:
				out = append(out, sn+"<-raw")
			}
		}
	}
	// What reaches a session through its `me` topic comes from several topics at once (presUsersOfInterest walks a map, every
	// contact answers on its own): the order of consecutive `me` notifications at a session is not defined; they are compared sorted.
	isMe := func(f string) bool {
		i := strings.Index(f, "<-")
		return i >= 0 && (strings.HasPrefix(f[i+2:], "pres me ") || strings.HasPrefix(f[i+2:], "info me "))
	}
	sidOf := func(f string) string { return f[:strings.Index(f, "<-")] }
	for i := 0; i < len(out); {
		if !isMe(out[i]) {
			i++
			continue
		}
		j := i
		for j < len(out) && isMe(out[j]) && sidOf(out[j]) == sidOf(out[i]) {
			j++
		}
		sort.Strings(out[i:j])
		i = j
	}
	return out
}

// push receipts and user-cache updates
func (w *vWorld) drainUsersUpdate() []string {
	var out []string
	for len(globals.usersUpdate) > 0 {
		upd := <-globals.usersUpdate
		if upd == nil || upd.PushRcpt == nil {
			continue
		}
		out = append(out, w.renderPush(upd.PushRcpt))
	}
	return out
}

func (w *vWorld) renderPush(r *push.Receipt) string {
	to := []string{}
	for uid := range r.To {
		to = append(to, w.uname(uid))
	}
	sort.Strings(to)
	ch := "-"
	if r.Channel != "" {
		ch = w.tname(types.ChnToGrp(r.Channel))
	}
	return fmt.Sprintf("push what=%s topic=%s seq=%d to={%s} chan=%s", r.Payload.What, w.tname(r.Payload.Topic), r.Payload.SeqId,
		strings.Join(to, ","), ch)
}

// ---------------------------------------------------------------- the pump: hub loop + topic loops, sequentially

func (w *vWorld) loadedTopics() []*Topic {
	var ts []*Topic
	globals.hub.topics.Range(func(_, t any) bool {
		ts = append(ts, t.(*Topic))
		return true
	})
	sort.Slice(ts, func(i, j int) bool { return w.tname(ts[i].name) < w.tname(ts[j].name) })
	return ts
}

// the body of topicInit (init_topic.go:21-132) with `go t.run(h)` replaced by the timers runLocal creates
func (w *vWorld) topicInit(t *Topic, join *ClientComMessage, h *Hub) {
	var subscribeReqIssued bool
	defer func() {
		if !subscribeReqIssued && join.Sub != nil && join.sess.inflightReqs != nil {
			join.sess.inflightReqs.Done()
		}
	}()
	timestamp := types.TimeNow()
	var err error
	switch {
	case t.xoriginal == "me":
		err = initTopicMe(t, join)
	case t.xoriginal == "fnd":
		err = initTopicFnd(t, join)
	case strings.HasPrefix(t.xoriginal, "usr") || strings.HasPrefix(t.xoriginal, "p2p"):
		err = initTopicP2P(t, join)
	case strings.HasPrefix(t.xoriginal, "new"):
		err = initTopicNewGrp(t, join, false)
	case strings.HasPrefix(t.xoriginal, "nch"):
		err = initTopicNewGrp(t, join, true)
	case strings.HasPrefix(t.xoriginal, "grp") || strings.HasPrefix(t.xoriginal, "chn"):
		err = initTopicGrp(t)
	case t.xoriginal == "sys":
		err = initTopicSys(t)
	default:
		err = types.ErrTopicNotFound
	}
	if err != nil {
		h.topicDel(join.RcptTo)
		join.sess.queueOut(decodeStoreErrorExplicitTs(err, join.Id, t.xoriginal, timestamp, join.Timestamp, nil))
		return
	}
	t.computePerUserAcsUnion()
	usersRegisterTopic(t, true)
	if join.Sub != nil {
		subscribeReqIssued = true
		t.reg <- join
	}
	t.markPaused(false)
	if t.cat == types.TopicCatFnd || t.cat == types.TopicCatSys {
		t.markLoaded()
	}
	// what runLocal sets up before entering its loop
	t.killTimer = time.NewTimer(time.Hour)
	t.killTimer.Stop()
	t.callEstablishmentTimer = time.NewTimer(time.Second)
	t.callEstablishmentTimer.Stop()
	ua := ""
	w.curUA[t] = &ua
	tm := time.NewTimer(time.Minute)
	tm.Stop()
	w.uaTimers[t] = tm
}

func (w *vWorld) pumpHub() bool {
	h := globals.hub
	progress := false
	for len(h.join) > 0 {
		join := <-h.join
		progress = true
		// hub.go:154-221
		t := h.topicGet(join.RcptTo)
		if t == nil {
			t = &Topic{
				name:      join.RcptTo,
				xoriginal: join.Original,
				sessions:  make(map[*Session]perSessionData),
				clientMsg: make(chan *ClientComMessage, 192),
				serverMsg: make(chan *ServerComMessage, 64),
				reg:       make(chan *ClientComMessage, 256),
				unreg:     make(chan *ClientComMessage, 256),
				meta:      make(chan *ClientComMessage, 64),
				perUser:   make(map[types.Uid]perUserData),
				exit:      make(chan *shutDown, 1),
			}
			t.markPaused(true)
			h.topicPut(join.RcptTo, t)
			w.topicInit(t, join, h)
			if strings.HasPrefix(join.Original, "new") || strings.HasPrefix(join.Original, "nch") {
				// (the creation may fail half-way and leave the topic's row behind: it has a name all the same)
				if h.topicGet(join.RcptTo) != nil || w.ad.Topics[join.RcptTo] != nil {
					w.nameNewTopic(join.RcptTo)
				}
			}
		} else {
			if t.isInactive() {
				if join.sess.inflightReqs != nil {
					join.sess.inflightReqs.Done()
				}
				join.sess.queueOut(ErrLockedReply(join, join.Timestamp))
				continue
			}
			t.reg <- join
		}
	}
	for len(h.routeCli) > 0 {
		msg := <-h.routeCli
		progress = true
		if dst := h.topicGet(msg.RcptTo); dst != nil {
			dst.clientMsg <- msg
		} else if msg.Note == nil {
			msg.sess.queueOut(NoErrAcceptedExplicitTs(msg.Id, msg.RcptTo, types.TimeNow(), msg.Timestamp))
		}
	}
	for len(h.routeSrv) > 0 {
		msg := <-h.routeSrv
		progress = true
		if dst := h.topicGet(msg.RcptTo); dst != nil {
			select {
			case dst.serverMsg <- msg:
			default:
			}
		} else {
			w.routed(msg)
		}
	}
	for len(h.meta) > 0 {
		msg := <-h.meta
		progress = true
		if msg.Get != nil {
			if msg.MetaWhat == constMsgMetaDesc {
				replyOfflineTopicGetDesc(msg.sess, msg)
			} else {
				replyOfflineTopicGetSub(msg.sess, msg)
			}
		} else if msg.Set != nil {
			replyOfflineTopicSetSub(msg.sess, msg)
		}
	}
	for len(h.unreg) > 0 {
		unreg := <-h.unreg
		progress = true
		reason := StopNone
		if unreg.del {
			reason = StopDeleted
		}
		if unreg.forUser.IsZero() {
			before := h.topicGet(unreg.rcptTo)
			h.topicUnreg(unreg.sess, unreg.rcptTo, unreg.pkt, reason)
			if before != nil && h.topicGet(unreg.rcptTo) == nil {
				// removed from the hub: its shutDown message is still to be processed by the topic's own loop
				listed := false
				for _, x := range vwExiting {
					if x == before {
						listed = true
					}
				}
				if !listed {
					vwExiting = append(vwExiting, before)
				}
			}
		}
	}
	return progress
}

// server messages addressed to topics that are not loaded (mostly presence for users' 'me' topics)
func (w *vWorld) routed(msg *ServerComMessage) {
	// recorded for the presence checks; not part of the per-op line in this stream
}

func (w *vWorld) nameNewTopic(real string) {
	if _, ok := w.tnames[real]; ok {
		return
	}
	n := fmt.Sprintf("T%d", len(w.tnames)+1)
	w.tnames[real] = n
	w.treal[n] = real
}

// one message of one queue of a topic, or false if that queue is empty. The real loop (Topic.runLocal) is a `select` over these
// queues: whichever is ready may be taken; here the caller names the queue.
func (w *vWorld) topicStep(t *Topic, q string) bool {
	switch q {
	case "reg":
		select {
		case msg := <-t.reg:
			t.registerSession(msg)
			return true
		default:
		}
	case "unreg":
		select {
		case msg := <-t.unreg:
			t.unregisterSession(msg)
			return true
		default:
		}
	case "pub":
		select {
		case msg := <-t.clientMsg:
			t.handleClientMsg(msg)
			return true
		default:
		}
	case "srv":
		select {
		case msg := <-t.serverMsg:
			t.handleServerMsg(msg)
			return true
		default:
		}
	case "meta":
		select {
		case msg := <-t.meta:
			t.handleMeta(msg)
			return true
		default:
		}
	case "exit":
		select {
		case sd := <-t.exit:
			t.handleTopicTermination(sd)
			delete(w.uaTimers, t)
			delete(w.curUA, t)
			return true
		default:
		}
	case "supd":
		if t.supd != nil {
			select {
			case upd := <-t.supd:
				t.handleSessionUpdate(upd, w.curUA[t], w.uaTimers[t])
				return true
			default:
			}
		}
	}
	return false
}

// the queues of a topic in the order this pump serves them
var vwTopicQueues = []string{"reg", "unreg", "pub", "srv", "meta", "exit", "supd"}

func (w *vWorld) pumpTopics() bool {
	progress := false
	for _, t := range w.loadedTopics() {
		for {
			step := false
			for _, q := range vwTopicQueues {
				if w.topicStep(t, q) {
					step = true
					break
				}
			}
			if !step {
				break
			}
			progress = true
		}
	}
	// a topic that terminated is no longer in the hub; its exit channel was handled above only if it was still listed.
	return progress
}

// the notifications between topics only (hub.routeSrv and the topics' serverMsg queues): what a held request or a single step
// has set in motion is delivered, the requests which are held stay where they are
func (w *vWorld) pumpPres() {
	h := globals.hub
	for i := 0; i < 1000; i++ {
		// (as in pump: the sessions take their detach notices before the hub routes what the handler has sent)
		progress := w.pumpSessions()
		for len(h.routeSrv) > 0 {
			msg := <-h.routeSrv
			progress = true
			if dst := h.topicGet(msg.RcptTo); dst != nil {
				select {
				case dst.serverMsg <- msg:
				default:
				}
			} else {
				w.routed(msg)
			}
		}
		for _, t := range w.loadedTopics() {
			for w.topicStep(t, "srv") {
				progress = true
			}
		}
		if w.pumpSessions() {
			progress = true
		}
		if !progress {
			return
		}
	}
	panic("pumpPres: no quiescence")
}

// what is held, for the digest: the hub's queues, the queues of the loaded topics and of those which are shutting down
func (w *vWorld) heldDigest() []string {
	h := globals.hub
	parts := []string{}
	if len(h.join) > 0 || len(h.unreg) > 0 {
		parts = append(parts, fmt.Sprintf("hub[join=%d unreg=%d]", len(h.join), len(h.unreg)))
	}
	one := func(t *Topic, tag string) {
		if n := len(t.reg) + len(t.unreg) + len(t.clientMsg) + len(t.meta) + len(t.exit); n > 0 {
			parts = append(parts, fmt.Sprintf("%s%s[reg=%d unreg=%d pub=%d meta=%d exit=%d]", tag, w.tname(t.name), len(t.reg), len(t.unreg),
				len(t.clientMsg), len(t.meta), len(t.exit)))
		}
	}
	for _, t := range w.loadedTopics() {
		one(t, "")
	}
	ex := append([]*Topic{}, vwExiting...)
	sort.Slice(ex, func(i, j int) bool { return w.tname(ex[i].name) < w.tname(ex[j].name) })
	for _, t := range ex {
		one(t, "x:")
	}
	if len(parts) == 0 {
		return nil
	}
	return []string{"held " + strings.Join(parts, " ")}
}

func (w *vWorld) anythingHeld() bool { return len(w.heldDigest()) > 0 }

func (w *vWorld) pumpSessions() bool {
	progress := false
	for _, sn := range w.order {
		s := w.sess[sn]
		for len(s.detach) > 0 {
			name := <-s.detach
			s.delSub(name)
			progress = true
		}
	}
	return progress
}

func (w *vWorld) pump() {
	pending := w.pendingExits()
	for i := 0; i < 1000; i++ {
		p1 := w.pumpHub()
		p2 := w.pumpTopics()
		p3 := w.pumpExits(&pending)
		p4 := w.pumpSessions()
		if !p1 && !p2 && !p3 && !p4 {
			return
		}
	}
	panic("pump: no quiescence")
}

// topics removed from the hub by topicUnreg still have a shutDown message to process
var vwExiting []*Topic

func (w *vWorld) pendingExits() []*Topic { return nil }

func (w *vWorld) pumpExits(p *[]*Topic) bool {
	progress := false
	keep := vwExiting[:0]
	for _, t := range vwExiting {
		select {
		case sd := <-t.exit:
			t.handleTopicTermination(sd)
			progress = true
		default:
			keep = append(keep, t)
		}
	}
	vwExiting = keep
	return progress
}

// ---------------------------------------------------------------- state digests

func (w *vWorld) cacheDigest() []string {
	var out []string
	for _, t := range w.loadedTopics() {
		uids := make([]types.Uid, 0, len(t.perUser))
		for u := range t.perUser {
			uids = append(uids, u)
		}
		sort.Slice(uids, func(i, j int) bool { return w.uname(uids[i]) < w.uname(uids[j]) })
		us := []string{}
		for _, u := range uids {
			p := t.perUser[u]
			e := fmt.Sprintf("%s:%s/%s:r%d:v%d:d%d:o%d:p=%s", w.uname(u), vMode(p.modeWant.String()), vMode(p.modeGiven.String()), p.readID,
				p.recvID, p.delID, p.online, vTok(p.private))
			if p.deleted {
				e += ":deleted"
			}
			if p.isChan {
				e += ":chan"
			}
			us = append(us, e)
		}
		ss := []string{}
		for s, pssd := range t.sessions {
			e := w.sname(s) + ":" + w.uname(pssd.uid)
			if pssd.isChanSub {
				e += ":chan"
			}
			ss = append(ss, e)
		}
		sort.Strings(ss)
		st := ""
		if t.isInactive() {
			st += " inactive"
		}
		if t.isReadOnly() {
			st += " readonly"
		}
		contacts := ""
		if t.cat == types.TopicCatMe {
			// the contact table of a 'me' topic: whom the user exchanges presence with, last known online, enabled
			cs := []string{}
			for name, psd := range t.perSubs {
				cs = append(cs, fmt.Sprintf("%s:%s:%s", w.tname(name), vBit(psd.online), vBit(psd.enabled)))
			}
			sort.Strings(cs)
			contacts = " contacts[" + strings.Join(cs, " ") + "]"
			if t.isLoaded() {
				contacts += " announced"
			}
		}
		out = append(out, fmt.Sprintf("cache %s last=%d del=%d owner=%s acs=%s/%s pub=%s tr=%s tags=[%s]%s users[%s] sess[%s]%s", w.tname(t.name),
			t.lastID, t.delID, w.uname(t.owner), vMode(t.accessAuth.String()), vMode(t.accessAnon.String()), vTok(t.public), vTok(t.trusted),
			strings.Join(t.tags, ","), st, strings.Join(us, " "), strings.Join(ss, " "), contacts))
	}
	return out
}

func (w *vWorld) storeDigest() []string {
	var out []string
	names := make([]string, 0, len(w.ad.Topics))
	for n := range w.ad.Topics {
		names = append(names, n)
	}
	sort.Slice(names, func(i, j int) bool { return w.tname(names[i]) < w.tname(names[j]) })
	for _, n := range names {
		tp := w.ad.Topics[n]
		subs := []string{}
		for _, s := range w.ad.vmemSubsOfTopic(n) {
			e := fmt.Sprintf("%s:%s/%s:r%d:v%d:d%d:p=%s", w.uname(types.ParseUid(s.User)), vMode(s.ModeWant.String()), vMode(s.ModeGiven.String()),
				s.ReadSeqId, s.RecvSeqId, s.DelId, vTok(s.Private))
			if s.DeletedAt != nil {
				e += ":deleted"
			}
			subs = append(subs, e)
		}
		sort.Strings(subs)
		msgs := []string{}
		for _, m := range w.ad.Messages[n] {
			e := fmt.Sprintf("%d:%s:%s:%s", m.SeqId, w.uname(types.ParseUid(m.From)), vHead(m.Head, w), vTok(m.Content))
			if m.DelId != 0 {
				e += fmt.Sprintf(":x%d", m.DelId)
			}
			msgs = append(msgs, e)
		}
		dl := []string{}
		for _, d := range w.ad.Dellog[n] {
			rs := []string{}
			for _, r := range d.SeqIdRanges {
				rs = append(rs, fmt.Sprintf("%d:%d", r.Low, r.Hi))
			}
			dl = append(dl, fmt.Sprintf("%d:%s:%s", d.DelId, w.uname(types.ParseUid(d.DeletedFor)), strings.Join(rs, ",")))
		}
		st := ""
		if tp.State != types.StateOK {
			st = fmt.Sprintf(" state=%d", tp.State)
		}
		csubs := ""
		if tp.UseBt {
			// subscriptions of channel readers are rows of their own, stored under the `chn` spelling of the name
			cs := []string{}
			for _, s := range w.ad.vmemSubsOfTopic(types.GrpToChn(n)) {
				e := fmt.Sprintf("%s:%s/%s:r%d:v%d:d%d:p=%s", w.uname(types.ParseUid(s.User)), vMode(s.ModeWant.String()), vMode(s.ModeGiven.String()),
					s.ReadSeqId, s.RecvSeqId, s.DelId, vTok(s.Private))
				if s.DeletedAt != nil {
					e += ":deleted"
				}
				cs = append(cs, e)
			}
			sort.Strings(cs)
			csubs = " csubs[" + strings.Join(cs, " ") + "]"
		}
		out = append(out, fmt.Sprintf("store %s seq=%d del=%d owner=%s acs=%s/%s pub=%s tr=%s tags=[%s]%s subs[%s]%s msgs[%s] dellog[%s]", w.tname(n),
			tp.SeqId, tp.DelId, w.uname(types.ParseUid(tp.Owner)), vMode(tp.Access.Auth.String()), vMode(tp.Access.Anon.String()), vTok(tp.Public),
			vTok(tp.Trusted), strings.Join(tp.Tags, ","), st, strings.Join(subs, " "), csubs, strings.Join(msgs, " "), strings.Join(dl, " ")))
	}
	return out
}

func (w *vWorld) sessDigest() []string {
	var out []string
	for _, sn := range w.order {
		s := w.sess[sn]
		names := []string{}
		s.subsLock.RLock()
		for n := range s.subs {
			names = append(names, w.tname(n))
		}
		s.subsLock.RUnlock()
		sort.Strings(names)
		mark := ""
		if w.inflightTaken(s) {
			mark = "*" // a {sub} or {leave} of the session is in flight
		}
		out = append(out, sn+"{"+strings.Join(names, ",")+"}"+mark)
	}
	return out
}

// ---------------------------------------------------------------- ops

func vLevel(s string) auth.Level {
	switch s {
	case "anon":
		return auth.LevelAnon
	case "root":
		return auth.LevelRoot
	}
	return auth.LevelAuth
}

func vOpt(s string) string {
	if s == "-" {
		return ""
	}
	return s
}

func vAny(s string) any {
	if s == "-" {
		return nil
	}
	if s == "null" {
		return nullValue
	}
	if strings.HasPrefix(s, "m:") {
		// a map value: m:k=v;k2=v2 (a value `null` asks for the key to be removed)
		m := map[string]any{}
		for _, p := range strings.Split(s[2:], ";") {
			if kv := strings.SplitN(p, "=", 2); len(kv) == 2 && kv[0] != "" {
				if kv[1] == "null" {
					m[kv[0]] = nullValue
				} else {
					m[kv[0]] = kv[1]
				}
			}
		}
		return m
	}
	return s
}

// key=value options after the positional arguments
func vKV(ws []string) map[string]string {
	m := map[string]string{}
	for _, w := range ws {
		if i := strings.Index(w, "="); i > 0 {
			m[w[:i]] = w[i+1:]
		}
	}
	return m
}

func (w *vWorld) extra(kv map[string]string) *MsgClientExtra {
	var ex *MsgClientExtra
	if as, ok := kv["as"]; ok {
		parts := strings.SplitN(as, ":", 2)
		ex = &MsgClientExtra{}
		if uid, ok := w.users[parts[0]]; ok {
			ex.AsUser = uid.UserId()
		} else {
			ex.AsUser = parts[0]
		}
		if len(parts) > 1 {
			ex.AuthLevel = parts[1]
		}
	}
	if at, ok := kv["att"]; ok {
		if ex == nil {
			ex = &MsgClientExtra{}
		}
		ex.Attachments = strings.Split(at, ",")
	}
	return ex
}

func (w *vWorld) dispatch(s *Session, msg *ClientComMessage) {
	if w.failK > 0 {
		w.ad.vmemArm(w.failK)
	}
	if w.crashK > 0 {
		w.ad.CrashAfter = w.crashK
		w.ad.CallNo = 0
		w.ad.CrashSnap = nil
	}
	w.ad.Calls = nil
	if (msg.Sub != nil || msg.Leave != nil) && w.inflightTaken(s) {
		// Session.subscribe / Session.leave would wait for the slot: the session's read loop stands still
		w.blocked = true
		w.ad.vmemDisarm()
		w.ad.CrashAfter = 0
		w.failK = 0
		w.crashK = 0
		return
	}
	s.dispatch(msg)
	if w.holding {
		// a held request: it stays in the queue the session has put it in
		w.pumpPres()
	} else {
		w.pump()
	}
	w.ad.vmemDisarm()
	w.ad.CrashAfter = 0
	w.failK = 0
	w.crashK = 0
}

// sessions which were told to stop (Session.stopSession with the closing message): the write loop would send the message and
// close the connection, the read loop would then run cleanUp. Returns the frames sent that way.
func (w *vWorld) stopEvicted() {
	for _, sn := range w.order {
		s := w.sess[sn]
		stopped := false
		for len(s.stop) > 0 {
			data := <-s.stop
			stopped = true
			if b, ok := data.([]byte); ok {
				var m ServerComMessage
				if json.Unmarshal(b, &m) == nil {
					w.closing = append(w.closing, sn+"<-"+w.renderMsg(&m))
				} else {
					w.closing = append(w.closing, sn+"<-raw")
				}
			}
		}
		if stopped {
			s.bkgTimer.Stop()
			s.unsubAll()
		}
	}
}

// {del what=user}: replyDelUser (user.go:595-689) runs in the session's goroutine and waits for the hub to stop the user's topics.
// Here it runs in a goroutine of its own; this goroutine plays the hub (stopTopicsForUser, hub.go:577-611), the topics and the
// evicted sessions while replyDelUser waits, and waits while replyDelUser runs: the two never run at the same time.
// The schedule chosen: the evicted sessions clean up first, then the topics are stopped.
func (w *vWorld) delUser(s *Session, msg *ClientComMessage) {
	if w.failK > 0 {
		w.ad.vmemArm(w.failK)
	}
	w.ad.Calls = nil
	h := globals.hub
	fin := make(chan struct{})
	var crashed any
	go func() {
		defer close(fin)
		defer func() {
			// a panic of the handler is reported like one of any other request: from the goroutine which runs the stream
			if r := recover(); r != nil {
				crashed = r
			}
		}()
		s.dispatch(msg)
	}()
	var unreg *topicUnreg
	select {
	case <-fin:
	case unreg = <-h.unreg:
	}
	defer func() {
		if crashed != nil {
			panic(crashed)
		}
	}()
	if unreg != nil {
		w.stopEvicted()
		w.pump()
		reason := StopNone
		if unreg.del {
			reason = StopDeleted
		}
		uid := unreg.forUser
		done := make(chan bool, 128)
		count := 0
		for _, topic := range w.loadedTopics() {
			if _, isMember := topic.perUser[uid]; (topic.cat != types.TopicCatGrp && isMember) || topic.owner == uid {
				topic.markDeleted()
				h.topics.Delete(topic.name)
				topic.exit <- &shutDown{reason: reason, done: done}
				if topic.cat == types.TopicCatP2P && len(topic.perUser) == 2 {
					presSingleUserOfflineOffline(topic.p2pOtherUser(uid), uid.UserId(), "gone", nilPresParams, "")
				}
				vwExiting = append(vwExiting, topic)
				count++
			}
		}
		w.pump()
		for i := 0; i < count; i++ {
			<-done
		}
		unreg.done <- true
		<-fin
	}
	w.pump()
	w.stopEvicted()
	w.pump()
	w.ad.vmemDisarm()
	w.ad.CrashAfter = 0
	w.failK = 0
	w.crashK = 0
	// an evicted session object stands for the next connection of the same user
	w.registerSessions()
	// the sessions of an account which is not there any more cannot log in again
	for _, sn := range w.order {
		x := w.sess[sn]
		if !x.uid.IsZero() && w.accountGone(x.uid) {
			x.uid = types.ZeroUid
			x.authLvl = auth.LevelNone
		}
	}
}

// the account was deleted (hard: no record; soft: marked) - an account which never existed (`state=missing`) is not "gone"
func (w *vWorld) accountGone(uid types.Uid) bool {
	if w.deleted[uid] {
		return true
	}
	if !w.created[uid] {
		return false
	}
	u := w.ad.Users[uid]
	if u == nil || u.State == types.StateDeleted {
		if w.deleted == nil {
			w.deleted = map[types.Uid]bool{}
		}
		w.deleted[uid] = true
		return true
	}
	return false
}

// the session has a {sub} or {leave} in flight (Session.inflightReqs holds one request at a time)
func (w *vWorld) inflightTaken(s *Session) bool {
	return s.inflightReqs != nil && len(s.inflightReqs.sem) >= cap(s.inflightReqs.sem)
}

// the hub's start-up (Hub.run is entered with a join for `sys`): the system topic is loaded before any request
func (w *vWorld) loadSys() {
	globals.hub.join <- &ClientComMessage{RcptTo: "sys", Original: "sys"}
	w.pump()
	w.ad.Calls = nil
}

func (w *vWorld) asUidOf(s *Session, kv map[string]string) types.Uid {
	if as, ok := kv["as"]; ok {
		if uid, ok := w.users[strings.SplitN(as, ":", 2)[0]]; ok {
			return uid
		}
	}
	return s.uid
}

func (w *vWorld) op(ws []string) (string, bool) {
	kv := vKV(ws[1:])
	switch ws[0] {
	case "reset":
		mx := 32
		if len(ws) > 1 {
			mx, _ = vInt(ws[1])
		}
		vwReset(mx)
		vwExiting = nil
		vw.loadSys()
		return "ok", true
	case "user":
		// user U1 <authAcs> <anonAcs> [state]
		uid := store.Store.GetUid()
		u := &types.User{}
		u.SetUid(uid)
		u.InitTimes()
		u.Access.Auth.UnmarshalText([]byte(ws[2]))
		u.Access.Anon.UnmarshalText([]byte(ws[3]))
		if kv["state"] == "susp" {
			u.State = types.StateSuspended
		}
		u.Public = "pub" + ws[1]
		if kv["tags"] != "" {
			u.Tags = strings.Split(kv["tags"], ",")
		}
		if kv["state"] == "missing" {
			// a session of an account which is not there any more: the name stands for an id with no record behind it
		} else if err := w.ad.UserCreate(u); err != nil {
			return "err", true
		} else {
			// store.Users.Create: the account comes with its subscriptions to 'me' and 'fnd' (store.go:301-319)
			if err := store.Subs.Create(
				&types.Subscription{ObjHeader: types.ObjHeader{CreatedAt: u.CreatedAt}, User: u.Id, Topic: uid.UserId(),
					ModeWant: types.ModeCSelf, ModeGiven: types.ModeCSelf},
				&types.Subscription{ObjHeader: types.ObjHeader{CreatedAt: u.CreatedAt}, User: u.Id, Topic: uid.FndName(),
					ModeWant: types.ModeCSelf, ModeGiven: types.ModeCSelf}); err != nil {
				return "err", true
			}
		}
		w.users[ws[1]] = uid
		w.unames[uid] = ws[1]
		if kv["state"] != "missing" {
			if w.created == nil {
				w.created = map[types.Uid]bool{}
			}
			w.created[uid] = true
		}
		w.ad.Calls = nil // set-up is not part of any request
		return "ok", true
	case "stall":
		// stall S4 : the connection of S4 stops reading - its outgoing queue fills up, every further message to it is refused
		s := w.sess[ws[1]]
		if s == nil {
			return "", false
		}
		if w.stalled == nil {
			w.stalled = map[string]bool{}
		}
		for len(s.send) < cap(s.send) {
			s.send <- &ServerComMessage{}
		}
		w.stalled[ws[1]] = true
		return "ok", true
	case "sess":
		// sess S1 U1 auth|anon|root [bg]
		s := &Session{sid: ws[1], send: make(chan any, 4096), stop: make(chan any, 8), detach: make(chan string, 256),
			subs: make(map[string]*Subscription), uid: w.users[ws[2]], authLvl: vLevel(ws[3]), ver: 16, userAgent: "ua-" + ws[1],
			inflightReqs: newBoundedWaitGroup(1), bkgTimer: time.NewTimer(time.Hour)}
		s.bkgTimer.Stop()
		if len(ws) > 4 && ws[4] == "bg" {
			s.background = true
		}
		w.sess[ws[1]] = s
		if w.sessUid == nil {
			w.sessUid = map[string]types.Uid{}
		}
		w.sessUid[ws[1]] = s.uid
		if w.sessLvl == nil {
			w.sessLvl = map[string]auth.Level{}
		}
		w.sessLvl[ws[1]] = s.authLvl
		w.order = append(w.order, ws[1])
		w.registerSessions()
		return "ok", true
	case "fail":
		w.failK, _ = vInt(ws[1])
		return "ok", true
	case "crash":
		w.crashK, _ = vInt(ws[1])
		return "ok", true
	}
	switch ws[0] {
	case "hold":
		// hold sub|leave|pub|deltopic|unload …: the request is dispatched by its session (or the timer fires) but what it has
		// queued - at the hub, at a topic - is not processed: `hubstep`, `tstep` and `settle` do that, one handler at a time
		if len(ws) < 2 || w.holding {
			return "", false
		}
		switch ws[1] {
		case "sub", "leave", "pub", "deltopic", "unload":
		default:
			return "", false
		}
		if ws[1] == "deltopic" && len(ws) > 3 {
			// only the owner's request shuts the topic down at the hub (case 1.1.1 of topicUnreg); anybody else's is a leave
			t := globals.hub.topicGet(w.realTopic(ws[3], types.ZeroUid))
			if s0 := w.sess[ws[2]]; t == nil || s0 == nil || t.owner != s0.uid || t.owner.IsZero() {
				return "nohold", true
			}
		}
		w.holding = true
		w.failK, w.crashK = 0, 0 // no store failure is injected into a held request
		defer func() { w.holding = false }()
		return w.op(ws[1:])
	case "hubstep":
		// the hub takes everything off its queues (Hub.run): joins are handed to their topics, topics are shut down
		w.ad.Calls = nil
		if len(ws) > 1 && ws[1] == "yield" {
			// while the hub waits for the database to delete a topic, that topic's goroutine takes the publishes queued for it
			w.ad.YieldTopicDelete = func(name string) {
				if t := globals.hub.topicGet(name); t != nil {
					for w.topicStep(t, "pub") {
					}
				}
			}
		}
		w.pumpHub()
		w.ad.YieldTopicDelete = nil
		w.pumpPres()
		return w.renderLine(ws), true
	case "tstep":
		// tstep T1 reg|unreg|pub|meta|exit: the topic (loaded or shutting down) takes one message off one of its queues
		if len(ws) < 3 {
			return "", false
		}
		w.ad.Calls = nil
		real := w.realTopic(ws[1], types.ZeroUid)
		t := globals.hub.topicGet(real)
		if t == nil {
			for _, x := range vwExiting {
				if x.name == real {
					t = x
				}
			}
		}
		if t == nil {
			return "notloaded", true
		}
		if !w.topicStep(t, ws[2]) {
			return "empty", true
		}
		if ws[2] == "exit" {
			keep := vwExiting[:0]
			for _, x := range vwExiting {
				if x != t {
					keep = append(keep, x)
				}
			}
			vwExiting = keep
		}
		w.pumpPres()
		return w.renderLine(ws), true
	case "settle":
		// everything which is queued anywhere is processed, in the order of this harness: hub, then topics, then the topics which
		// are shutting down (these terminate: what is left on their queues is lost, as it is when Topic.runLocal returns)
		w.ad.Calls = nil
		w.pump()
		return w.renderLine(ws), true
	case "reset", "user", "sess", "fail", "crash":
	case "drop":
		// a connection may drop while requests are held if it is the one with a request in flight (Session.cleanUp waits for it)
		if s0 := w.sess[ws[1]]; w.anythingHeld() && (s0 == nil || !w.inflightTaken(s0)) {
			return "pending", true
		}
	default:
		if !w.holding && w.anythingHeld() {
			// requests are held: the history goes on with steps, or settles first
			return "pending", true
		}
	}
	var s *Session
	if len(ws) > 1 {
		s = w.sess[ws[1]]
	}
	if s == nil && ws[0] != "unload" && ws[0] != "timer" && ws[0] != "restart" && ws[0] != "userstate" {
		return "", false
	}
	if ws[0] != "restart" {
		// a crash snapshot is what the database held when the process died during the PREVIOUS request;
		// it is meaningful only for a restart which follows immediately
		w.ad.CrashSnap = nil
	}
	switch ws[0] {
	case "newgrp":
		// newgrp S1 [chan] auth=.. anon=.. want=.. priv=.. pub=.. tags=a,b
		name := "new" + ws[1]
		if kv["chan"] == "1" {
			name = "nch" + ws[1]
		}
		sub := &MsgClientSub{Id: "1", Topic: name}
		set := &MsgSetQuery{}
		used := false
		if kv["auth"] != "" || kv["anon"] != "" || kv["priv"] != "" || kv["pub"] != "" {
			set.Desc = &MsgSetDesc{Public: vAny(kvOr(kv, "pub")), Private: vAny(kvOr(kv, "priv"))}
			if kv["auth"] != "" || kv["anon"] != "" {
				set.Desc.DefaultAcs = &MsgDefaultAcsMode{Auth: vOpt(kvOr(kv, "auth")), Anon: vOpt(kvOr(kv, "anon"))}
			}
			used = true
		}
		if kv["want"] != "" {
			set.Sub = &MsgSetSub{Mode: kv["want"]}
			used = true
		}
		if kv["tags"] != "" {
			set.Tags = strings.Split(kv["tags"], ",")
			used = true
		}
		if used {
			sub.Set = set
		}
		w.dispatch(s, &ClientComMessage{Sub: sub, Extra: w.extra(kv)})
	case "sub":
		// sub S1 T1 mode=.. priv=.. get=desc
		asUid := w.asUidOf(s, kv)
		sub := &MsgClientSub{Id: "1", Topic: w.realTopic(ws[2], asUid)}
		if kv["mode"] != "" || kv["priv"] != "" || kv["user"] != "" {
			sub.Set = &MsgSetQuery{}
			if kv["mode"] != "" || kv["user"] != "" {
				sub.Set.Sub = &MsgSetSub{Mode: vOpt(kvOr(kv, "mode"))}
				if kv["user"] != "" {
					sub.Set.Sub.User = w.realTopic(kv["user"], asUid)
				}
			}
			if kv["priv"] != "" {
				sub.Set.Desc = &MsgSetDesc{Private: vAny(kv["priv"])}
			}
		}
		if kv["get"] != "" {
			sub.Get = &MsgGetQuery{What: strings.ReplaceAll(kv["get"], ",", " ")}
		}
		w.dispatch(s, &ClientComMessage{Sub: sub, Extra: w.extra(kv)})
	case "leave":
		w.dispatch(s, &ClientComMessage{Leave: &MsgClientLeave{Id: "1", Topic: w.realTopic(ws[2], w.asUidOf(s, kv)), Unsub: kv["unsub"] == "1"}, Extra: w.extra(kv)})
	case "pub":
		// pub S1 T1 C1 head=k:v noecho=1
		var head map[string]any
		if kv["head"] != "" {
			head = map[string]any{}
			for _, p := range strings.Split(kv["head"], ";") {
				x := strings.SplitN(p, ":", 2)
				v := "1"
				if len(x) > 1 {
					v = x[1]
				}
				if x[0] == "sender" {
					if uid, ok := w.users[v]; ok {
						v = uid.UserId()
					}
				}
				head[x[0]] = v
			}
		}
		w.dispatch(s, &ClientComMessage{Pub: &MsgClientPub{Id: "1", Topic: w.realTopic(ws[2], w.asUidOf(s, kv)), Content: ws[3], Head: head,
			NoEcho: kv["noecho"] == "1"}, Extra: w.extra(kv)})
	case "note":
		// note S1 T1 read 5
		seq, _ := vInt(ws[4])
		w.dispatch(s, &ClientComMessage{Note: &MsgClientNote{Topic: w.realTopic(ws[2], w.asUidOf(s, kv)), What: ws[3], SeqId: seq, Event: kv["event"]},
			Extra: w.extra(kv)})
	case "get":
		// get S1 T1 desc|sub|data|del|tags since= before= limit=
		get := &MsgClientGet{Id: "1", Topic: w.realTopic(ws[2], w.asUidOf(s, kv))}
		get.What = strings.ReplaceAll(ws[3], ",", " ")
		if kv["since"] != "" || kv["before"] != "" || kv["limit"] != "" || kv["user"] != "" {
			o := &MsgGetOpts{}
			o.SinceId, _ = vInt(kvOr(kv, "since"))
			o.BeforeId, _ = vInt(kvOr(kv, "before"))
			o.Limit, _ = vInt(kvOr(kv, "limit"))
			if kv["user"] != "" {
				o.User = w.realTopic(kv["user"], s.uid)
			}
			if strings.Contains(ws[3], "data") {
				get.Data = o
			}
			if strings.Contains(ws[3], "del") {
				get.Del = o
			}
			if strings.Contains(ws[3], "sub") {
				get.Sub = o
			}
		}
		w.dispatch(s, &ClientComMessage{Get: get, Extra: w.extra(kv)})
	case "setsub":
		// setsub S1 T1 user=U2 mode=JRW
		set := &MsgClientSet{Id: "1", Topic: w.realTopic(ws[2], w.asUidOf(s, kv))}
		set.Sub = &MsgSetSub{Mode: vOpt(kvOr(kv, "mode"))}
		if kv["user"] != "" {
			set.Sub.User = w.realTopic(kv["user"], s.uid)
		}
		w.dispatch(s, &ClientComMessage{Set: set, Extra: w.extra(kv)})
	case "setdesc":
		set := &MsgClientSet{Id: "1", Topic: w.realTopic(ws[2], w.asUidOf(s, kv))}
		set.Desc = &MsgSetDesc{Public: vAny(kvOr(kv, "pub")), Private: vAny(kvOr(kv, "priv")), Trusted: vAny(kvOr(kv, "tr"))}
		if ws[2] == "fnd" {
			// a search query: `+` in the op line stands for a space
			if q, ok := set.Desc.Public.(string); ok {
				set.Desc.Public = strings.ReplaceAll(q, "+", " ")
			}
			if q, ok := set.Desc.Private.(string); ok {
				set.Desc.Private = strings.ReplaceAll(q, "+", " ")
			}
		}
		if kv["auth"] != "" || kv["anon"] != "" {
			set.Desc.DefaultAcs = &MsgDefaultAcsMode{Auth: vOpt(kvOr(kv, "auth")), Anon: vOpt(kvOr(kv, "anon"))}
		}
		w.dispatch(s, &ClientComMessage{Set: set, Extra: w.extra(kv)})
	case "settags":
		set := &MsgClientSet{Id: "1", Topic: w.realTopic(ws[2], w.asUidOf(s, kv))}
		set.Tags = []string{}
		if kv["tags"] != "" {
			set.Tags = strings.Split(kv["tags"], ",")
		}
		w.dispatch(s, &ClientComMessage{Set: set, Extra: w.extra(kv)})
	case "delmsg":
		// delmsg S1 T1 1:3,5:0 hard=1
		del := &MsgClientDel{Id: "1", Topic: w.realTopic(ws[2], w.asUidOf(s, kv)), What: "msg", Hard: kv["hard"] == "1"}
		if ws[3] != "-" {
			for _, p := range strings.Split(ws[3], ",") {
				lh := strings.Split(p, ":")
				l, _ := vInt(lh[0])
				hh := 0
				if len(lh) > 1 {
					hh, _ = vInt(lh[1])
				}
				del.DelSeq = append(del.DelSeq, MsgDelRange{LowId: l, HiId: hh})
			}
		}
		w.dispatch(s, &ClientComMessage{Del: del, Extra: w.extra(kv)})
	case "delsub":
		del := &MsgClientDel{Id: "1", Topic: w.realTopic(ws[2], w.asUidOf(s, kv)), What: "sub", User: w.realTopic(ws[3], s.uid)}
		w.dispatch(s, &ClientComMessage{Del: del, Extra: w.extra(kv)})
	case "deltopic":
		del := &MsgClientDel{Id: "1", Topic: w.realTopic(ws[2], w.asUidOf(s, kv)), What: "topic", Hard: kv["hard"] == "1"}
		w.dispatch(s, &ClientComMessage{Del: del, Extra: w.extra(kv)})
	case "deluser":
		// deluser S1 [user=U2] [hard=1]: {del what=user}
		del := &MsgClientDel{Id: "1", What: "user", Hard: kv["hard"] == "1"}
		if kv["user"] != "" {
			if uid, ok := w.users[kv["user"]]; ok {
				del.User = uid.UserId()
			} else {
				del.User = kv["user"]
			}
		}
		w.delUser(s, &ClientComMessage{Del: del, Extra: w.extra(kv)})
	case "fg":
		// background session's timer fired (writeLoop: only a session which still is in the background reacts)
		if s.background {
			s.background = false
			s.onBackgroundTimer()
			w.pump()
		}
	case "drop":
		// the connection is gone: what Session.cleanUp does to the topics (the session object stays, it can subscribe again
		// like a new connection of the same user would)
		if w.stalled[ws[1]] {
			// (whatever was queued for a stalled connection is lost with it)
			for len(s.send) > 0 {
				<-s.send
			}
			delete(w.stalled, ws[1])
		}
		if w.inflightTaken(s) {
			// the connection closes while a {sub} or {leave} of the session is still in flight: Session.cleanUp runs in its own
			// goroutine, as it does in the server, and waits for the request; the hub and the topics go on meanwhile
			done := make(chan struct{})
			var crashed any
			go func() {
				defer close(done)
				defer func() {
					if r := recover(); r != nil {
						crashed = r
					}
				}()
				s.cleanUp(false)
			}()
			time.Sleep(5 * time.Millisecond) // cleanUp has reached its wait (or, without one, has finished)
			w.pump()
			hung := false
			select {
			case <-done:
			case <-time.After(2 * time.Second):
				// nothing is queued anywhere any more and cleanUp still waits: the request in flight was lost, the wait never ends
				hung = true
			}
			if crashed != nil {
				panic(crashed)
			}
			w.pump()
			// the session object stands for the next connection of the same user: nothing attached, nothing in flight
			s.subsLock.Lock()
			s.subs = make(map[string]*Subscription)
			s.subsLock.Unlock()
			s.inflightReqs = newBoundedWaitGroup(1)
			atomic.StoreInt32(&s.terminating, 0)
			for len(s.stop) > 0 {
				<-s.stop
			}
			w.registerSessions()
			if hung {
				return "hang", true
			}
		} else {
			s.bkgTimer.Stop()
			s.unsubAll()
			w.pump()
		}
	case "unload":
		// idle timeout of a topic (killTimer): the topic goes offline; the next request reloads it from the store
		if t := globals.hub.topicGet(w.realTopic(ws[1], types.ZeroUid)); t != nil {
			if len(t.sessions) > 0 {
				return "busy", true
			}
			ua := ""
			if p := w.curUA[t]; p != nil {
				ua = *p
			}
			dn := time.NewTimer(time.Hour)
			dn.Stop()
			t.handleTopicTimeout(globals.hub, ua, w.uaTimers[t], dn)
			if w.holding {
				w.pumpPres()
			} else {
				w.pump()
			}
		} else {
			return "notloaded", true
		}
	case "userstate":
		// userstate U1 susp|ok: what the hub does when an account is suspended or re-activated (hub.go: case status := <-h.userStatus):
		// the loaded p2p topics of the user and the loaded group topics the user owns become read-only, or writable again
		uid, ok := w.users[ws[1]]
		if !ok {
			return "", false
		}
		// changeUserState (user.go:558-585): the account's state is stored, then the hub is told (the eviction of the account's
		// sessions is not reproduced: a `drop` line does that)
		st := types.StateOK
		if len(ws) > 2 && ws[2] == "susp" {
			st = types.StateSuspended
		}
		// replyUpdateUser reads the account first: the state of an account which is not there (any more) cannot be changed
		if u, err := store.Users.Get(uid); err != nil || u == nil {
			w.ad.Calls = nil
			return "nouser", true
		}
		if err := store.Users.UpdateState(uid, st); err != nil {
			return "err", true
		}
		w.ad.Calls = nil
		globals.hub.topicsStateForUser(uid, st == types.StateSuspended)
		w.pump()
	case "restart":
		// crash + restart: the database keeps what it had when the process died; all memory state is lost
		if w.ad.CrashSnap != nil {
			w.ad.vmemRestore(w.ad.CrashSnap)
			w.ad.CrashSnap = nil
		}
		globals.hub.topics = &sync.Map{}
		for _, sn := range w.order {
			s := w.sess[sn]
			s.uid = w.sessUid[sn]
			s.authLvl = w.sessLvl[sn]
			if w.accountGone(s.uid) {
				s.uid = types.ZeroUid
				s.authLvl = auth.LevelNone
			}
			s.subsLock.Lock()
			s.subs = make(map[string]*Subscription)
			s.subsLock.Unlock()
			s.inflightReqs = newBoundedWaitGroup(1)
			for len(s.send) > 0 {
				<-s.send
			}
		}
		for len(globals.usersUpdate) > 0 {
			<-globals.usersUpdate
		}
		vwExiting = nil
		w.loadSys()
	default:
		return "", false
	}
	if w.blocked {
		w.blocked = false
		return "blocked", true
	}
	return w.renderLine(ws), true
}

// the output line of a request: frames per session, pushes, adapter calls, digests
func (w *vWorld) renderLine(ws []string) string {
	frames := w.drainSessions()
	frames = append(frames, w.closing...)
	w.closing = nil
	pushes := w.drainUsersUpdate()
	if ws[0] == "drop" || ws[0] == "fg" || ws[0] == "deluser" {
		// unsubAll and the background timer walk the session's map of subscriptions: the order in which the topics learn about
		// it is not defined
		sort.Strings(frames)
	}
	parts := []string{}
	parts = append(parts, frames...)
	parts = append(parts, pushes...)
	parts = append(parts, "calls="+strings.Join(w.ad.Calls, ","))
	parts = append(parts, w.cacheDigest()...)
	parts = append(parts, w.storeDigest()...)
	parts = append(parts, w.sessDigest()...)
	parts = append(parts, w.heldDigest()...)
	w.ad.Calls = nil
	w.crashK = 0
	return strings.Join(parts, " | ")
}

func kvOr(kv map[string]string, k string) string {
	if v, ok := kv[k]; ok && v != "" {
		return v
	}
	return "-"
}

func TestVerifWorld(t *testing.T) {
	verifInitGlobals()
	vwReset(32)
	verifRun(t, func(ws []string) (string, bool) {
		return vw.op(ws)
	})
}
