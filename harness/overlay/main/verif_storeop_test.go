//go:build verif

package main

// Composite store operations (C18): the real store.Users.Create and store.Topics.Create over the in-memory adapter, with the
// k-th adapter call failing (and, with `loss`, every call after it).

import (
	"fmt"
	"strings"

	"github.com/tinode/chat/server/store"
	"github.com/tinode/chat/server/store/types"
)

// sop.ucreate <k> <loss|->     sop.tcreate <k> <loss|->
func verifStoreOp(ws []string) (string, bool) {
	if len(ws) != 3 {
		return "", false
	}
	k, ok := vInt(ws[1])
	if !ok || k < 0 {
		return "", false
	}
	vwReset(32)
	ad := vwAdapter
	arm := func() {
		ad.Calls = nil
		if k > 0 {
			ad.vmemArm(k)
			ad.FailLoss = ws[2] == "loss"
		}
	}
	var err error
	main, subs := 0, 0
	switch ws[0] {
	case "sop.ucreate":
		u := &types.User{Tags: []string{"travel"}}
		u.Access.Auth, u.Access.Anon = types.ModeCP2P, types.ModeNone
		arm()
		var out *types.User
		out, err = store.Users.Create(u, "prv")
		calls := append([]string(nil), ad.Calls...)
		ad.vmemDisarm()
		if (out == nil) != (err != nil) {
			return fmt.Sprintf("inconsistent: user=%v err=%v", out != nil, err), true
		}
		if got, _ := ad.UserGet(u.Uid()); got != nil {
			main = 1
		}
		ss, _ := ad.SubsForUser(u.Uid())
		subs = len(ss)
		return vsoLine(err, calls, main, subs), true
	case "sop.tcreate":
		owner := &types.User{}
		owner.Access.Auth, owner.Access.Anon = types.ModeCP2P, types.ModeNone
		if _, e := store.Users.Create(owner, nil); e != nil {
			return "setup: " + e.Error(), true
		}
		t := &types.Topic{ObjHeader: types.ObjHeader{Id: "grpVerifStoreOp"}}
		t.Access.Auth, t.Access.Anon = types.ModeCPublic, types.ModeNone
		t.GiveAccess(owner.Uid(), types.ModeCFull, types.ModeCFull)
		arm()
		err = store.Topics.Create(t, owner.Uid(), "prv")
		calls := append([]string(nil), ad.Calls...)
		ad.vmemDisarm()
		if got, _ := ad.TopicGet(t.Id); got != nil {
			main = 1
		}
		ss, _ := ad.SubsForTopic(t.Id, true, nil)
		subs = len(ss)
		return vsoLine(err, calls, main, subs), true
	}
	return "", false
}

func vsoLine(err error, calls []string, main, subs int) string {
	res := "ok"
	if err != nil {
		res = "err"
	}
	return fmt.Sprintf("%s calls=%s main=%d subs=%d", res, strings.Join(calls, ","), main, subs)
}
