//go:build verif

package main

import (
	"fmt"
	"strings"
)

func vrNames(s string) ([]string, bool) {
	if s == "-" {
		return []string{}, true
	}
	var out []string
	for _, t := range strings.Split(s, ",") {
		b, ok := vHexDec(t)
		if !ok {
			return nil, false
		}
		out = append(out, string(b))
	}
	return out, true
}

// ring.rehash <nodes1> <nodes2> <keys>: Cluster.rehash twice on one node, as after two consecutive changes of the
// cluster composition; prints the ring the node ends up with (signature, length, owners of the keys).
func verifRehash(ws []string) (string, bool) {
	if len(ws) != 4 {
		return "", false
	}
	n1, ok1 := vrNames(ws[1])
	n2, ok2 := vrNames(ws[2])
	keys, ok3 := vrNames(ws[3])
	if !ok1 || !ok2 || !ok3 {
		return "", false
	}
	c := &Cluster{thisNodeName: "self", nodes: map[string]*ClusterNode{}}
	c.rehash(n1)
	c.rehash(n2)
	owners := make([]string, len(keys))
	for i, k := range keys {
		owners[i] = vHexEnc([]byte(c.ring.Get(k)))
	}
	o := strings.Join(owners, ",")
	if len(owners) == 0 {
		o = "-"
	}
	return fmt.Sprintf("%s %d %s", vHexEnc([]byte(c.ring.Signature())), c.ring.Len(), o), true
}
