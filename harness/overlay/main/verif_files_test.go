//go:build verif

package main

// Files harness (C16): the real largeFileReceive / largeFileServe handlers, the `fs` media handler on a scratch directory,
// the in-memory adapter for file records and links, the scripted authenticator of the gate harness, and - for links - the real
// publish / set / delete paths through the world harness. One op per line; output: what the HTTP client saw | the file store.

import (
	"bytes"
	"crypto/hmac"
	"crypto/md5"
	"encoding/base64"
	"encoding/json"
	"fmt"
	"mime/multipart"
	"net/http"
	"net/http/httptest"
	"net/url"
	"os"
	"sort"
	"strings"
	"testing"
	"time"

	"github.com/tinode/chat/server/store"
	"github.com/tinode/chat/server/store/types"
)

var vfDir string
var vfKey string
var vfNames map[string]string // file id (base64) -> F1...
var vfURLs map[string]string  // F1 -> url returned by the upload
var vfBodies map[string]string
var vfMediaInit bool

var vfUploadNo int

func vfBody(kind string, size int) []byte {
	vfUploadNo++
	b := vfBody0(kind, size)
	// make every body distinct (when there is room) so that a download can be matched to its upload
	tag := []byte(fmt.Sprintf("#%05d", vfUploadNo))
	if len(b) >= 16+len(tag) {
		copy(b[len(b)-len(tag):], tag)
	}
	return b
}

func vfBody0(kind string, size int) []byte {
	var head []byte
	switch kind {
	case "png":
		head = []byte("\x89PNG\r\n\x1a\n")
	case "html":
		head = []byte("<html><body>x</body></html>")
	case "xml":
		head = []byte("<?xml version=\"1.0\"?><a/>")
	case "txt":
		head = []byte("plain text ")
	case "pdf":
		head = []byte("%PDF-1.4 ")
	default: // bin: not recognisable
		head = []byte{0, 1, 2, 3, 0, 0xff}
	}
	b := make([]byte, 0, size)
	b = append(b, head...)
	for len(b) < size {
		if kind == "bin" {
			b = append(b, 0)
		} else {
			b = append(b, 'a')
		}
	}
	return b[:max(size, 0)]
}

func vfReset(maxSize int64) {
	vwReset(32)
	if !vgRegistered {
		vgReset()
		vwReset(32)
	}
	if vfDir != "" {
		os.RemoveAll(vfDir)
	}
	var err error
	vfDir, err = os.MkdirTemp("", "verif-files-")
	if err != nil {
		panic(err)
	}
	conf, _ := json.Marshal(map[string]any{"upload_dir": vfDir, "serve_url": "/v0/file/s/"})
	if err := store.Store.UseMediaHandler("fs", string(conf)); err != nil {
		panic(err)
	}
	globals.apiKeySalt = []byte("0123456789abcdef0123456789abcdef")
	globals.maxFileUploadSize = maxSize
	globals.mediaGcPeriod = 0
	data := make([]byte, apikeyLength)
	data[0] = 1
	h := hmac.New(md5.New, globals.apiKeySalt)
	h.Write(data[:apikeyVersion+apikeyAppID+apikeySequence+apikeyWho])
	copy(data[apikeyVersion+apikeyAppID+apikeySequence+apikeyWho:], h.Sum(nil))
	vfKey = base64.URLEncoding.EncodeToString(data)
	vfNames = map[string]string{}
	vfURLs = map[string]string{}
	vfBodies = map[string]string{}
	// the users of the gate harness: U1, U2 (suspended is irrelevant here), U3
	vgUsers = map[string]types.Uid{}
	vgNames = map[types.Uid]string{}
	for _, n := range []string{"U1", "U2"} {
		vw.op([]string{"user", n, "JRWPAS", "N"})
		vgUsers[n] = vw.users[n]
		vgNames[vw.users[n]] = n
	}
	vw.op([]string{"sess", "S1", "U1", "auth"})
	vw.op([]string{"sess", "S2", "U2", "auth"})
	globals.sessionStore.lock.Lock()
	globals.sessionStore.sessCache["S1"] = vw.sess["S1"]
	globals.sessionStore.lock.Unlock()
	vw.op([]string{"newgrp", "S1"})
	vw.drainSessions()
	vw.drainUsersUpdate()
}

func vfKeyOf(s string) string {
	switch s {
	case "ok":
		return vfKey
	case "bad":
		return vfKey[:len(vfKey)-2] + "AA"
	case "short":
		return "abc"
	}
	return ""
}

// credentials: none | <place>:<what>, place = xhdr|hdr|query|form|cookie|sid, what = U1 (ok), fail, bad64, unknown, chal
func vfAuth(req *http.Request, q url.Values, form map[string]string, spec string) {
	if spec == "" || spec == "none" {
		return
	}
	p := strings.SplitN(spec, ":", 2)
	place, what := p[0], p[1]
	if place == "sid" {
		form["sid"] = what
		return
	}
	method, secret := "vfake", base64.StdEncoding.EncodeToString([]byte("ok:"+what+":auth"))
	switch what {
	case "fail":
		secret = base64.StdEncoding.EncodeToString([]byte("err:failed"))
	case "bad64":
		secret = "!!!notbase64"
	case "unknown":
		method = "nosuch"
	case "chal":
		secret = base64.StdEncoding.EncodeToString([]byte("chal:U1:auth"))
	}
	switch place {
	case "xhdr":
		req.Header.Set("X-Tinode-Auth", method+" "+secret)
	case "hdr":
		req.Header.Set("Authorization", method+" "+secret)
	case "query":
		q.Set("auth", method)
		q.Set("secret", strings.NewReplacer("+", "-", "/", "_").Replace(secret))
	case "form":
		form["auth"] = method
		form["secret"] = secret
	case "cookie":
		req.AddCookie(&http.Cookie{Name: "auth", Value: method})
		req.AddCookie(&http.Cookie{Name: "secret", Value: secret})
	}
}

func vfApiKey(req *http.Request, q url.Values, form map[string]string, spec string) {
	// key=<where>:<ok|bad|short>, where = hdr|query|form|cookie ; key=none
	if spec == "" || spec == "none" {
		return
	}
	p := strings.SplitN(spec, ":", 2)
	k := vfKeyOf(p[1])
	switch p[0] {
	case "hdr":
		req.Header.Set("X-Tinode-APIKey", k)
	case "query":
		q.Set("apikey", k)
	case "form":
		form["apikey"] = k
	case "cookie":
		req.AddCookie(&http.Cookie{Name: "apikey", Value: k})
	}
}

func vfStoreDigest() string {
	ad := vw.ad
	var fs []string
	for fid, row := range ad.Files {
		n := vfNames[fid]
		if n == "" {
			n = "F?"
		}
		var links []string
		for _, l := range ad.FileLinks {
			if l.FileId != fid {
				continue
			}
			switch {
			case l.MsgId != 0:
				links = append(links, "msg")
			case l.Topic != "":
				links = append(links, "topic:"+vw.tname(l.Topic))
			default:
				links = append(links, "user:"+vw.uname(l.UserId))
			}
		}
		sort.Strings(links)
		onDisk := 0
		if _, err := os.Stat(row.Location); err == nil {
			onDisk = 1
		}
		fs = append(fs, fmt.Sprintf("%s:st%d:%s:%s:%d:disk%d:[%s]", n, row.Status, vw.uname(types.ParseUid(row.User)), row.MimeType, row.Size, onDisk, strings.Join(links, ",")))
	}
	sort.Strings(fs)
	ents, _ := os.ReadDir(vfDir)
	return fmt.Sprintf("files[%s] ondisk=%d", strings.Join(fs, " "), len(ents))
}

func vfOp(ws []string) (string, bool) {
	kv := vKV(ws[1:])
	switch ws[0] {
	case "reset":
		mx := int64(4096)
		if kv["max"] != "" {
			v, _ := vInt(kv["max"])
			mx = int64(v)
		}
		vfReset(mx)
		return "ok", true
	case "up":
		// up <METHOD> key=.. auth=.. kind=png size=100 [ctype=image/webp] [field=file] [topic=newacc] [id=7]
		q := url.Values{}
		form := map[string]string{}
		size, _ := vInt(kvOr(kv, "size"))
		body := vfBody(kv["kind"], size)
		var buf bytes.Buffer
		mw := multipart.NewWriter(&buf)
		req := httptest.NewRequest(ws[1], "/v0/file/u/", nil)
		vfApiKey(req, q, form, kv["key"])
		vfAuth(req, q, form, kv["auth"])
		if kv["topic"] != "" {
			form["topic"] = kv["topic"]
		}
		if kv["id"] != "" {
			form["id"] = kv["id"]
		}
		for k, v := range form {
			mw.WriteField(k, v)
		}
		field := "file"
		if kv["field"] != "" {
			field = kv["field"]
		}
		if field != "none" {
			hdr := make(map[string][]string)
			hdr["Content-Disposition"] = []string{fmt.Sprintf(`form-data; name="%s"; filename="x.dat"`, field)}
			if kv["ctype"] != "" {
				hdr["Content-Type"] = []string{kv["ctype"]}
			}
			pw, _ := mw.CreatePart(hdr)
			pw.Write(body)
		}
		mw.Close()
		req = httptest.NewRequest(ws[1], "/v0/file/u/?"+q.Encode(), &buf)
		req.Header.Set("Content-Type", mw.FormDataContentType())
		// headers and cookies again on the final request
		vfApiKey(req, url.Values{}, map[string]string{}, kv["key"])
		vfAuth(req, url.Values{}, map[string]string{}, kv["auth"])
		rec := httptest.NewRecorder()
		before := map[string]bool{}
		for fid := range vw.ad.Files {
			before[fid] = true
		}
		largeFileReceive(rec, req)
		out := fmt.Sprintf("%d", rec.Code)
		var resp ServerComMessage
		if json.Unmarshal(rec.Body.Bytes(), &resp) == nil && resp.Ctrl != nil {
			if resp.Ctrl.Id != "" {
				out += " id=" + resp.Ctrl.Id
			}
			if p, ok := resp.Ctrl.Params.(map[string]any); ok {
				if u, ok := p["url"].(string); ok {
					for fid := range vw.ad.Files {
						if !before[fid] {
							n := fmt.Sprintf("F%d", len(vfNames)+1)
							vfNames[fid] = n
							vfURLs[n] = u
							vfBodies[n] = string(body)
							out += " url=" + n
						}
					}
				}
			}
		}
		return out + " | " + vfStoreDigest(), true
	case "down":
		// down <METHOD> <F1|raw:path> key=.. auth=.. [asatt=1] [mangle=..]
		q := url.Values{}
		form := map[string]string{}
		target := ws[2]
		var path string
		if u, ok := vfURLs[target]; ok {
			path = u
		} else if strings.HasPrefix(target, "raw:") {
			path = target[4:]
			for n, u := range vfURLs {
				path = strings.ReplaceAll(path, "{"+n+"}", strings.TrimPrefix(u, "/v0/file/s/"))
				base := strings.TrimPrefix(u, "/v0/file/s/")
				if i := strings.Index(base, "."); i >= 0 {
					base = base[:i]
				}
				path = strings.ReplaceAll(path, "{"+n+"id}", base)
			}
		} else {
			path = "/v0/file/s/" + target
		}
		req := httptest.NewRequest(ws[1], "/v0/file/s/probe", nil)
		vfApiKey(req, q, form, kv["key"])
		vfAuth(req, q, form, kv["auth"])
		if kv["asatt"] != "" {
			q.Set("asatt", kv["asatt"])
		}
		for k, v := range form {
			q.Set(k, v)
		}
		sep := "?"
		if strings.Contains(path, "?") {
			sep = "&"
		}
		full := path
		if len(q) > 0 {
			full += sep + q.Encode()
		}
		req2, err := http.NewRequest(ws[1], full, nil)
		if err != nil {
			return "bad-url | " + vfStoreDigest(), true
		}
		req2.RequestURI = full
		req2.RemoteAddr = "192.0.2.1:1234"
		req2.Header = req.Header
		rec := httptest.NewRecorder()
		largeFileServe(rec, req2)
		out := fmt.Sprintf("%d", rec.Code)
		ct := rec.Header().Get("Content-Type")
		if rec.Code == 200 && ws[1] == "GET" {
			which := "?"
			for n, b := range vfBodies {
				if b == rec.Body.String() {
					which = n
				}
			}
			out += fmt.Sprintf(" body=%s ctype=%s disp=%s", which, strings.SplitN(ct, ";", 2)[0], kvDash(rec.Header().Get("Content-Disposition")))
		}
		return out + " | " + vfStoreDigest(), true
	case "pub":
		// pub S1 T1 C1 att=F1,F2,raw:...
		var atts []string
		for _, a := range strings.Split(kv["att"], ",") {
			if u, ok := vfURLs[a]; ok {
				atts = append(atts, u)
			} else if a != "" {
				atts = append(atts, strings.TrimPrefix(a, "raw:"))
			}
		}
		s := vw.sess[ws[1]]
		msg := &ClientComMessage{Pub: &MsgClientPub{Id: "1", Topic: vw.realTopic(ws[2], s.uid), Content: ws[3]}}
		if len(atts) > 0 {
			msg.Extra = &MsgClientExtra{Attachments: atts}
		}
		vw.dispatch(s, msg)
		fr := vw.drainSessions()
		vw.drainUsersUpdate()
		code := "-"
		for _, f := range fr {
			if strings.HasPrefix(f, ws[1]+"<-ctrl ") {
				code = strings.Split(f, " ")[1]
			}
		}
		return code + " | " + vfStoreDigest(), true
	case "avatar":
		// avatar S1 T1 pbX att=F1   ({set desc public} with an attachment)
		var atts []string
		for _, a := range strings.Split(kv["att"], ",") {
			if u, ok := vfURLs[a]; ok {
				atts = append(atts, u)
			}
		}
		s := vw.sess[ws[1]]
		set := &MsgClientSet{Id: "1", Topic: vw.realTopic(ws[2], s.uid)}
		set.Desc = &MsgSetDesc{Public: ws[3]}
		msg := &ClientComMessage{Set: set}
		if len(atts) > 0 {
			msg.Extra = &MsgClientExtra{Attachments: atts}
		}
		vw.dispatch(s, msg)
		fr := vw.drainSessions()
		vw.drainUsersUpdate()
		code := "-"
		for _, f := range fr {
			if strings.HasPrefix(f, ws[1]+"<-ctrl ") {
				code = strings.Split(f, " ")[1]
			}
		}
		return code + " | " + vfStoreDigest(), true
	case "delmsg", "deltopic":
		out, _ := vw.op(ws)
		code := "-"
		for _, p := range strings.Split(out, " | ") {
			if strings.HasPrefix(p, ws[1]+"<-ctrl ") {
				code = strings.Split(p, " ")[1]
			}
		}
		return code + " | " + vfStoreDigest(), true
	case "gc":
		if ws[1] == "loop" {
			// the collector itself (largeFileRunGarbageCollection) with a period of 40 ms: every upload here is minutes old at most,
			// well within the grace period of one hour, and older than the period
			time.Sleep(120 * time.Millisecond)
			before := vw.ad.CallNo
			vw.ad.Calls = nil
			stop := largeFileRunGarbageCollection(40*time.Millisecond, 100)
			deadline := time.Now().Add(3 * time.Second)
			for time.Now().Before(deadline) {
				vw.ad.mu.Lock()
				n := 0
				for _, c := range vw.ad.Calls {
					if c == "FileDeleteUnused" {
						n++
					}
				}
				vw.ad.mu.Unlock()
				if n >= 2 {
					break
				}
				time.Sleep(10 * time.Millisecond)
			}
			stop <- true
			_ = before
			vw.ad.Calls = nil
			return "ok | " + vfStoreDigest(), true
		}
		// gc due   : everything not linked is old enough;  gc fresh : the grace period has not passed for anything
		t := time.Now().Add(time.Hour)
		if ws[1] == "fresh" {
			t = time.Now().Add(-time.Hour)
		}
		limit := 0
		if kv["limit"] != "" {
			limit, _ = vInt(kv["limit"])
		}
		err := store.Files.DeleteUnused(t, limit)
		if err != nil {
			return "err | " + vfStoreDigest(), true
		}
		return "ok | " + vfStoreDigest(), true
	}
	return "", false
}

func kvDash(s string) string {
	if s == "" {
		return "-"
	}
	return s
}

func TestVerifFiles(t *testing.T) {
	verifRun(t, vfOp)
	if vfDir != "" {
		os.RemoveAll(vfDir)
	}
}
