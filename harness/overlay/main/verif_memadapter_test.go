//go:build verif

package main

// In-memory implementation of the Tinode database adapter (adapter.Adapter) for the
// verification harness. The reference semantics are those of the MySQL adapter
// (server/db/mysql/adapter.go, adpVersion 113) and its schema as created by CreateDb.
//
// Deliberate simplifications relative to MySQL (also listed next to the affected methods):
//   - Column length limits, DATETIME rounding, time zones and the case/accent-insensitive
//     utf8mb4_unicode_ci collation are not modelled: strings compare bytewise.
//   - "Rows affected" means rows MATCHED (as with clientFoundRows=true): an UPDATE which does
//     not change any value still counts (AuthUpdRecord, CredUpsert).
//   - Raw MySQL duplicate-key errors (UserCreate, TopicCreate, TopicCreateP2P, MessageSave,
//     FileStartUpload) are reported as types.ErrDuplicate.
//   - Foreign keys are enforced on inserts when EnforceFK is true (default): the error is
//     vmemErrFK. ON DELETE CASCADE of filemsglinks is always applied.
//   - usertags/topictags tables are not separate: User.Tags/Topic.Tags are the single copy.
//   - The kvmeta 'version' row is not visible through PCache*.
//   - SubscriptionGet returns Subscription.User as a regular uid string (MySQL leaves the
//     decoded database integer there).
//   - Where SQL leaves the order of rows unspecified the result is sorted by key.

import (
	"encoding/json"
	"errors"
	"hash/fnv"
	"sort"
	"strconv"
	"strings"
	"sync"
	"testing"
	"time"

	"github.com/tinode/chat/server/auth"
	adapter "github.com/tinode/chat/server/db"
	"github.com/tinode/chat/server/db/common"
	"github.com/tinode/chat/server/store/types"
)

const (
	vmemAdpVersion               = 113
	vmemAdapterName              = "vmem"
	vmemDefaultMaxResults        = 1024
	vmemDefaultMaxMessageResults = 100
)

var (
	vmemErrFK            = errors.New("vmem: foreign key constraint fails (set EnforceFK=false to disable)")
	vmemErrUnknownColumn = errors.New("vmem: unknown column in update")
	vmemErrBadValue      = errors.New("vmem: unsupported value type in update")
	vmemErrEmptyUpdate   = errors.New("vmem: empty update (SQL syntax error)")
)

var _ adapter.Adapter = (*vMemAdapter)(nil)

// vMemAuthRec is a row of the 'auth' table.
type vMemAuthRec struct {
	Id      int
	Uname   string
	User    types.Uid
	Scheme  string
	AuthLvl auth.Level
	Secret  []byte
	// Zero value means NULL.
	Expires time.Time
}

// vMemCredRec is a row of the 'credentials' table.
type vMemCredRec struct {
	Id        int
	CreatedAt time.Time
	UpdatedAt time.Time
	DeletedAt *time.Time
	Method    string
	Value     string
	Synthetic string
	User      types.Uid
	Resp      string
	Done      bool
	Retries   int
}

// vMemDeviceRec is a row of the 'devices' table.
type vMemDeviceRec struct {
	Id   int
	User types.Uid
	Hash string
	Def  types.DeviceDef
}

// vMemFileLink is a row of the 'filemsglinks' table: exactly one of MsgId, Topic, UserId is set.
type vMemFileLink struct {
	Id        int
	CreatedAt time.Time
	FileId    string
	MsgId     int64
	Topic     string
	UserId    types.Uid
}

// vMemPCacheRec is a row of the 'kvmeta' table.
type vMemPCacheRec struct {
	Value   string
	Created time.Time
}

// vMemAdapter is the in-memory adapter.
type vMemAdapter struct {
	mu sync.Mutex

	IsOpenFlag        bool
	MaxResults        int
	MaxMessageResults int
	// Emulate FOREIGN KEY checks on inserts.
	EnforceFK bool
	// YieldTopicDelete, when set, is called once at the start of the next TopicDelete, before it takes effect
	YieldTopicDelete func(topic string)
	// Clock used where MySQL adapter calls t.TimeNow(); nil means types.TimeNow.
	NowFn func() time.Time

	// users table.
	Users map[types.Uid]*types.User
	// auth table in insertion order.
	Auth []vMemAuthRec
	// credentials table in insertion order.
	Creds []vMemCredRec
	// topics table keyed by name.
	Topics map[string]*types.Topic
	// subscriptions table keyed by "topic:uid"; soft-deleted rows are kept.
	Subs map[string]*types.Subscription
	// SubSeq is the insertion number of a subscription row (the auto-increment id of the SQL
	// adapters): rows are returned in this order.
	SubSeq  map[string]int
	subNext int
	// messages table per topic, sorted by SeqId. ObjHeader.Id holds the auto-increment row id.
	Messages map[string][]types.Message
	// dellog table per topic in insertion order: one row per range, Hi is always > Low.
	Dellog map[string][]types.DelMessage
	// devices table in insertion order.
	Devices []vMemDeviceRec
	// fileuploads table keyed by file id string.
	Files map[string]*types.FileDef
	// filemsglinks table in insertion order.
	FileLinks []vMemFileLink
	// kvmeta table.
	PCache map[string]vMemPCacheRec

	// AUTO_INCREMENT counters (last issued value).
	LastMsgId  int64
	LastLinkId int
	LastAuthId int
	LastCredId int
	LastDevId  int

	// Instrumentation.
	Calls      []string
	CallNo     int
	FailAt     int
	FailLoss   bool // every call from the FailAt-th on fails: the connection is lost
	CrashAfter int
	CrashSnap  *vMemAdapter
}

// vmemNew creates an adapter in the state of a freshly created database (CreateDb):
// all tables are empty except the 'sys' topic.
func vmemNew() *vMemAdapter {
	a := &vMemAdapter{
		MaxResults:        vmemDefaultMaxResults,
		MaxMessageResults: vmemDefaultMaxMessageResults,
		EnforceFK:         true,
	}
	a.vmemReset()
	return a
}

func (a *vMemAdapter) vmemReset() {
	a.Users = map[types.Uid]*types.User{}
	a.Auth = nil
	a.Creds = nil
	a.Topics = map[string]*types.Topic{}
	a.Subs = map[string]*types.Subscription{}
	a.SubSeq = map[string]int{}
	a.subNext = 0
	a.Messages = map[string][]types.Message{}
	a.Dellog = map[string][]types.DelMessage{}
	a.Devices = nil
	a.Files = map[string]*types.FileDef{}
	a.FileLinks = nil
	a.PCache = map[string]vMemPCacheRec{}
	a.LastMsgId, a.LastLinkId, a.LastAuthId, a.LastCredId, a.LastDevId = 0, 0, 0, 0, 0
	a.vmemCreateSysTopic()
}

func (a *vMemAdapter) vmemCreateSysTopic() {
	if a.Topics["sys"] != nil {
		return
	}
	now := a.vmemNow()
	tp := &types.Topic{State: types.StateOK, TouchedAt: now,
		Access: types.DefaultAccess{Auth: types.ModeNone, Anon: types.ModeNone},
		Public: map[string]any{"fn": "System"}}
	tp.Id = "sys"
	tp.CreatedAt = now
	tp.UpdatedAt = now
	a.Topics["sys"] = tp
}

func (a *vMemAdapter) vmemNow() time.Time {
	if a.NowFn != nil {
		return a.NowFn()
	}
	return types.TimeNow()
}

func (a *vMemAdapter) vmemDefaults() {
	if a.MaxResults <= 0 {
		a.MaxResults = vmemDefaultMaxResults
	}
	if a.MaxMessageResults <= 0 {
		a.MaxMessageResults = vmemDefaultMaxMessageResults
	}
}

// Instrumentation.

// vmemEnter locks the adapter, records the call and applies the fault plan. When it returns an
// error the lock is already released and the caller must return without touching the state.
func (a *vMemAdapter) vmemEnter(name string) error {
	a.mu.Lock()
	a.vmemDefaults()
	a.Calls = append(a.Calls, name)
	a.CallNo++
	if a.FailAt != 0 && (a.CallNo == a.FailAt || (a.FailLoss && a.CallNo >= a.FailAt)) {
		a.mu.Unlock()
		return types.ErrInternal
	}
	return nil
}

// vmemLeave applies the crash plan and unlocks. The snapshot is taken when the call number
// CrashAfter has completed, whether it returned nil or a regular (non-injected) error: a call
// which fails leaves the state unchanged, so this is still a state the database could be in.
func (a *vMemAdapter) vmemLeave() {
	if a.CrashAfter != 0 && a.CallNo == a.CrashAfter {
		a.CrashSnap = a.vmemSnap()
	}
	a.mu.Unlock()
}

// vmemArm arms the fault plan: the k-th counted call from now fails with types.ErrInternal.
func (a *vMemAdapter) vmemArm(k int) {
	a.mu.Lock()
	a.FailAt = k
	a.FailLoss = false
	a.CallNo = 0
	a.mu.Unlock()
}

// vmemArmCrash arms the crash plan: CrashSnap is taken when the k-th counted call from now completes.
func (a *vMemAdapter) vmemArmCrash(k int) {
	a.mu.Lock()
	a.CrashAfter = k
	a.CallNo = 0
	a.CrashSnap = nil
	a.mu.Unlock()
}

// vmemDisarm switches off the fault and the crash plans. CrashSnap is kept.
func (a *vMemAdapter) vmemDisarm() {
	a.mu.Lock()
	a.FailAt = 0
	a.FailLoss = false
	a.CrashAfter = 0
	a.mu.Unlock()
}

// vmemSnapshot returns a deep copy of the database state (tables, counters and settings).
// Calls, the fault plan and the crash plan are not copied.
func (a *vMemAdapter) vmemSnapshot() *vMemAdapter {
	a.mu.Lock()
	defer a.mu.Unlock()
	return a.vmemSnap()
}

func (a *vMemAdapter) vmemSnap() *vMemAdapter {
	s := &vMemAdapter{
		IsOpenFlag:        a.IsOpenFlag,
		MaxResults:        a.MaxResults,
		MaxMessageResults: a.MaxMessageResults,
		EnforceFK:         a.EnforceFK,
		NowFn:             a.NowFn,
		LastMsgId:         a.LastMsgId,
		LastLinkId:        a.LastLinkId,
		LastAuthId:        a.LastAuthId,
		LastCredId:        a.LastCredId,
		LastDevId:         a.LastDevId,
	}
	s.Users = make(map[types.Uid]*types.User, len(a.Users))
	for k, v := range a.Users {
		s.Users[k] = vmemCopyUser(v)
	}
	for _, r := range a.Auth {
		r.Secret = vmemCopyBytes(r.Secret)
		s.Auth = append(s.Auth, r)
	}
	for _, r := range a.Creds {
		r.DeletedAt = vmemCopyTimePtr(r.DeletedAt)
		s.Creds = append(s.Creds, r)
	}
	s.Topics = make(map[string]*types.Topic, len(a.Topics))
	for k, v := range a.Topics {
		s.Topics[k] = vmemCopyTopic(v)
	}
	s.Subs = make(map[string]*types.Subscription, len(a.Subs))
	for k, v := range a.Subs {
		c := vmemCopySub(v)
		s.Subs[k] = &c
	}
	s.Messages = make(map[string][]types.Message, len(a.Messages))
	for k, v := range a.Messages {
		ms := make([]types.Message, len(v))
		for i := range v {
			ms[i] = vmemCopyMsg(&v[i], true)
		}
		s.Messages[k] = ms
	}
	s.Dellog = make(map[string][]types.DelMessage, len(a.Dellog))
	for k, v := range a.Dellog {
		ds := make([]types.DelMessage, len(v))
		for i := range v {
			ds[i] = vmemCopyDel(&v[i])
		}
		s.Dellog[k] = ds
	}
	s.Devices = append([]vMemDeviceRec(nil), a.Devices...)
	s.Files = make(map[string]*types.FileDef, len(a.Files))
	for k, v := range a.Files {
		c := *v
		s.Files[k] = &c
	}
	s.FileLinks = append([]vMemFileLink(nil), a.FileLinks...)
	s.PCache = make(map[string]vMemPCacheRec, len(a.PCache))
	for k, v := range a.PCache {
		s.PCache[k] = v
	}
	return s
}

// vmemRestore replaces the database state with a deep copy of the snapshot. Calls, the fault
// plan, the crash plan, the open flag and the settings of the receiver are not changed.
func (a *vMemAdapter) vmemRestore(s *vMemAdapter) {
	c := s.vmemSnapshot()
	a.mu.Lock()
	defer a.mu.Unlock()
	a.Users, a.Auth, a.Creds, a.Topics, a.Subs = c.Users, c.Auth, c.Creds, c.Topics, c.Subs
	a.Messages, a.Dellog, a.Devices, a.Files = c.Messages, c.Dellog, c.Devices, c.Files
	a.FileLinks, a.PCache = c.FileLinks, c.PCache
	a.LastMsgId, a.LastLinkId, a.LastAuthId = c.LastMsgId, c.LastLinkId, c.LastAuthId
	a.LastCredId, a.LastDevId = c.LastCredId, c.LastDevId
}

// Copy helpers.

func vmemCopyTimePtr(p *time.Time) *time.Time {
	if p == nil {
		return nil
	}
	c := *p
	return &c
}

func vmemCopyBytes(b []byte) []byte {
	if b == nil {
		return nil
	}
	return append([]byte{}, b...)
}

func vmemCopyTags(s []string) types.StringSlice {
	if s == nil {
		return nil
	}
	return append(types.StringSlice{}, s...)
}

// vmemCopyAny deep-copies a generic (JSON-like) value.
func vmemCopyAny(v any) any {
	switch x := v.(type) {
	case map[string]any:
		if x == nil {
			return x
		}
		m := make(map[string]any, len(x))
		for k, e := range x {
			m[k] = vmemCopyAny(e)
		}
		return m
	case types.MessageHeaders:
		return vmemCopyHead(x)
	case []any:
		if x == nil {
			return x
		}
		s := make([]any, len(x))
		for i, e := range x {
			s[i] = vmemCopyAny(e)
		}
		return s
	case []string:
		if x == nil {
			return x
		}
		return append([]string{}, x...)
	case types.StringSlice:
		return vmemCopyTags(x)
	case []byte:
		return vmemCopyBytes(x)
	}
	return v
}

func vmemCopyHead(h types.MessageHeaders) types.MessageHeaders {
	if h == nil {
		return nil
	}
	m := make(types.MessageHeaders, len(h))
	for k, e := range h {
		m[k] = vmemCopyAny(e)
	}
	return m
}

// vmemJSON is toJSON followed by fromJSON of the MySQL adapter: the value as it would be read
// back from a JSON column. nil and unmarshalable values become nil (SQL NULL).
func vmemJSON(v any) any {
	if v == nil {
		return nil
	}
	b, err := json.Marshal(v)
	if err != nil {
		return nil
	}
	var out any
	json.Unmarshal(b, &out)
	return out
}

func vmemJSONHead(h types.MessageHeaders) types.MessageHeaders {
	b, err := json.Marshal(h)
	if err != nil {
		return nil
	}
	var out types.MessageHeaders
	json.Unmarshal(b, &out)
	return out
}

// vmemNormMode is AccessMode.String() (as stored) followed by AccessMode.Scan (as read).
func vmemNormMode(m types.AccessMode) types.AccessMode {
	var out types.AccessMode
	out.UnmarshalText([]byte(m.String()))
	return out
}

func vmemNormAccess(da types.DefaultAccess) types.DefaultAccess {
	return types.DefaultAccess{Auth: vmemNormMode(da.Auth), Anon: vmemNormMode(da.Anon)}
}

func vmemNormUidStr(s string) string {
	return types.ParseUid(s).String()
}

func vmemCopyUser(u *types.User) *types.User {
	c := &types.User{
		State:     u.State,
		StateAt:   vmemCopyTimePtr(u.StateAt),
		Access:    u.Access,
		LastSeen:  vmemCopyTimePtr(u.LastSeen),
		UserAgent: u.UserAgent,
		Public:    vmemCopyAny(u.Public),
		Trusted:   vmemCopyAny(u.Trusted),
		Tags:      vmemCopyTags(u.Tags),
	}
	c.SetUid(u.Uid())
	c.CreatedAt = u.CreatedAt
	c.UpdatedAt = u.UpdatedAt
	return c
}

func vmemCopyTopic(tp *types.Topic) *types.Topic {
	c := &types.Topic{
		State:     tp.State,
		StateAt:   vmemCopyTimePtr(tp.StateAt),
		TouchedAt: tp.TouchedAt,
		UseBt:     tp.UseBt,
		Owner:     tp.Owner,
		Access:    tp.Access,
		SeqId:     tp.SeqId,
		DelId:     tp.DelId,
		Public:    vmemCopyAny(tp.Public),
		Trusted:   vmemCopyAny(tp.Trusted),
		Tags:      vmemCopyTags(tp.Tags),
	}
	c.Id = tp.Id
	c.CreatedAt = tp.CreatedAt
	c.UpdatedAt = tp.UpdatedAt
	return c
}

// vmemCopySub copies the persisted fields of a subscription.
func vmemCopySub(s *types.Subscription) types.Subscription {
	c := types.Subscription{
		User:      s.User,
		Topic:     s.Topic,
		DeletedAt: vmemCopyTimePtr(s.DeletedAt),
		DelId:     s.DelId,
		RecvSeqId: s.RecvSeqId,
		ReadSeqId: s.ReadSeqId,
		ModeWant:  s.ModeWant,
		ModeGiven: s.ModeGiven,
		Private:   vmemCopyAny(s.Private),
	}
	c.CreatedAt = s.CreatedAt
	c.UpdatedAt = s.UpdatedAt
	return c
}

// vmemCopyMsg copies a message. keepId=false clears ObjHeader.Id like MySQL which does not select it.
func vmemCopyMsg(m *types.Message, keepId bool) types.Message {
	c := types.Message{
		DeletedAt: vmemCopyTimePtr(m.DeletedAt),
		DelId:     m.DelId,
		SeqId:     m.SeqId,
		Topic:     m.Topic,
		From:      m.From,
		Head:      vmemCopyHead(m.Head),
		Content:   vmemCopyAny(m.Content),
	}
	if keepId {
		c.SetUid(m.Uid())
	}
	c.CreatedAt = m.CreatedAt
	c.UpdatedAt = m.UpdatedAt
	return c
}

func vmemCopyDel(d *types.DelMessage) types.DelMessage {
	return types.DelMessage{
		Topic:       d.Topic,
		DeletedFor:  d.DeletedFor,
		DelId:       d.DelId,
		SeqIdRanges: append([]types.Range(nil), d.SeqIdRanges...),
	}
}

func vmemSubKey(topic string, uid types.Uid) string {
	return topic + ":" + uid.String()
}

// vmemSubKeys returns keys of the subscriptions table in sorted order.
func (a *vMemAdapter) vmemSubKeys() []string {
	keys := make([]string, 0, len(a.Subs))
	for k := range a.Subs {
		keys = append(keys, k)
	}
	sort.Slice(keys, func(i, j int) bool {
		if a.SubSeq[keys[i]] != a.SubSeq[keys[j]] {
			return a.SubSeq[keys[i]] < a.SubSeq[keys[j]]
		}
		return keys[i] < keys[j]
	})
	return keys
}

// order of the names OwnTopics returns, when a harness wants a particular one
var vmemTopicLess func(a, b string) bool

func (a *vMemAdapter) vmemTopicNames() []string {
	names := make([]string, 0, len(a.Topics))
	for k := range a.Topics {
		names = append(names, k)
	}
	sort.Strings(names)
	return names
}

func (a *vMemAdapter) vmemUids() []types.Uid {
	uids := make([]types.Uid, 0, len(a.Users))
	for k := range a.Users {
		uids = append(uids, k)
	}
	sort.Slice(uids, func(i, j int) bool { return uids[i] < uids[j] })
	return uids
}

func vmemHasDupes(tags []string) bool {
	seen := make(map[string]struct{}, len(tags))
	for _, tag := range tags {
		if _, ok := seen[tag]; ok {
			return true
		}
		seen[tag] = struct{}{}
	}
	return false
}

func vmemContains(tags []string, tag string) bool {
	for _, x := range tags {
		if x == tag {
			return true
		}
	}
	return false
}

// Value coercions for update maps: the value types accepted are those which the SQL driver
// would accept for the column.

// vmemAsTime returns the time and true if the value is NULL.
func vmemAsTime(v any) (time.Time, bool, error) {
	switch x := v.(type) {
	case nil:
		return time.Time{}, true, nil
	case time.Time:
		return x, false, nil
	case *time.Time:
		if x == nil {
			return time.Time{}, true, nil
		}
		return *x, false, nil
	}
	return time.Time{}, false, vmemErrBadValue
}

func vmemAsTimePtr(v any) (*time.Time, error) {
	tm, null, err := vmemAsTime(v)
	if err != nil || null {
		return nil, err
	}
	return &tm, nil
}

func vmemAsInt(v any) (int, error) {
	switch x := v.(type) {
	case nil:
		return 0, nil
	case int:
		return x, nil
	case int8:
		return int(x), nil
	case int16:
		return int(x), nil
	case int32:
		return int(x), nil
	case int64:
		return int(x), nil
	case uint:
		return int(x), nil
	case uint8:
		return int(x), nil
	case uint16:
		return int(x), nil
	case uint32:
		return int(x), nil
	case uint64:
		return int(x), nil
	case float64:
		return int(x), nil
	case float32:
		return int(x), nil
	case types.ObjState:
		return int(x), nil
	case bool:
		if x {
			return 1, nil
		}
		return 0, nil
	}
	return 0, vmemErrBadValue
}

func vmemAsMode(v any) (types.AccessMode, error) {
	switch x := v.(type) {
	case types.AccessMode:
		return vmemNormMode(x), nil
	case string:
		var m types.AccessMode
		m.UnmarshalText([]byte(x))
		return m, nil
	case []byte:
		var m types.AccessMode
		m.UnmarshalText(x)
		return m, nil
	case nil:
		return types.ModeNone, nil
	}
	return 0, vmemErrBadValue
}

func vmemAsState(v any) (types.ObjState, error) {
	if s, ok := v.(types.ObjState); ok {
		return s, nil
	}
	i, err := vmemAsInt(v)
	return types.ObjState(i), err
}

func vmemAsAccess(v any) (types.DefaultAccess, error) {
	switch x := v.(type) {
	case types.DefaultAccess:
		return vmemNormAccess(x), nil
	case *types.DefaultAccess:
		if x != nil {
			return vmemNormAccess(*x), nil
		}
	}
	return types.DefaultAccess{}, vmemErrBadValue
}

func vmemAsTags(v any) (types.StringSlice, error) {
	switch x := v.(type) {
	case nil:
		return nil, nil
	case types.StringSlice:
		return vmemCopyTags(x), nil
	case []string:
		return vmemCopyTags(x), nil
	}
	return nil, vmemErrBadValue
}

func vmemAsString(v any) (string, error) {
	switch x := v.(type) {
	case nil:
		return "", nil
	case string:
		return x, nil
	case []byte:
		return string(x), nil
	}
	return "", vmemErrBadValue
}

// vmemAsUidStr accepts types.Uid or the uid string (MySQL expects the decoded int64 which is
// not available here).
func vmemAsUidStr(v any) (string, error) {
	switch x := v.(type) {
	case nil:
		return "", nil
	case types.Uid:
		return x.String(), nil
	case string:
		return vmemNormUidStr(x), nil
	}
	return "", vmemErrBadValue
}

// General.

// Open marks the adapter as open. The config is ignored. Unlike MySQL opening twice is not an error.
func (a *vMemAdapter) Open(config json.RawMessage) error {
	a.mu.Lock()
	defer a.mu.Unlock()
	a.vmemDefaults()
	if a.Users == nil {
		a.vmemReset()
	}
	a.IsOpenFlag = true
	return nil
}

// Close marks the adapter as closed. The data is kept, like a database would.
func (a *vMemAdapter) Close() error {
	a.mu.Lock()
	defer a.mu.Unlock()
	a.IsOpenFlag = false
	return nil
}

// IsOpen reports if the adapter is open.
func (a *vMemAdapter) IsOpen() bool {
	a.mu.Lock()
	defer a.mu.Unlock()
	return a.IsOpenFlag
}

// GetDbVersion returns the version of the database which is always the adapter version.
func (a *vMemAdapter) GetDbVersion() (int, error) {
	return vmemAdpVersion, nil
}

// CheckDbVersion always succeeds.
func (a *vMemAdapter) CheckDbVersion() error {
	return nil
}

// GetName returns the name of the adapter.
func (a *vMemAdapter) GetName() string {
	return vmemAdapterName
}

// SetMaxResults configures how many results can be returned in a single DB call.
func (a *vMemAdapter) SetMaxResults(val int) error {
	a.mu.Lock()
	defer a.mu.Unlock()
	if val <= 0 {
		a.MaxResults = vmemDefaultMaxResults
	} else {
		a.MaxResults = val
	}
	return nil
}

// CreateDb with reset wipes everything; in either case ensures the 'sys' topic exists.
func (a *vMemAdapter) CreateDb(reset bool) error {
	if err := a.vmemEnter("CreateDb"); err != nil {
		return err
	}
	defer a.vmemLeave()
	if reset || a.Users == nil {
		a.vmemReset()
	}
	a.vmemCreateSysTopic()
	return nil
}

// UpgradeDb does nothing.
func (a *vMemAdapter) UpgradeDb() error {
	if err := a.vmemEnter("UpgradeDb"); err != nil {
		return err
	}
	defer a.vmemLeave()
	return nil
}

// Version returns adapter version.
func (a *vMemAdapter) Version() int {
	return vmemAdpVersion
}

// Stats returns nothing.
func (a *vMemAdapter) Stats() any {
	return nil
}

// User management.

func (a *vMemAdapter) vmemUserExists(uid types.Uid) bool {
	if !a.EnforceFK {
		return true
	}
	return a.Users[uid] != nil
}

// UserCreate inserts id, createdat, updatedat, state, access, public, trusted, tags only.
// Duplicate id or duplicate tags: types.ErrDuplicate (MySQL: raw error for the id).
func (a *vMemAdapter) UserCreate(user *types.User) error {
	if err := a.vmemEnter("UserCreate"); err != nil {
		return err
	}
	defer a.vmemLeave()

	uid := user.Uid()
	if a.Users[uid] != nil {
		return types.ErrDuplicate
	}
	if vmemHasDupes(user.Tags) {
		return types.ErrDuplicate
	}
	u := &types.User{
		State:   user.State,
		Access:  vmemNormAccess(user.Access),
		Public:  vmemJSON(user.Public),
		Trusted: vmemJSON(user.Trusted),
		Tags:    vmemCopyTags(user.Tags),
	}
	u.SetUid(uid)
	u.CreatedAt = user.CreatedAt
	u.UpdatedAt = user.UpdatedAt
	a.Users[uid] = u
	return nil
}

// UserGet returns (nil, nil) if the user is not found or is soft-deleted.
func (a *vMemAdapter) UserGet(uid types.Uid) (*types.User, error) {
	if err := a.vmemEnter("UserGet"); err != nil {
		return nil, err
	}
	defer a.vmemLeave()

	u := a.Users[uid]
	if u == nil || u.State == types.StateDeleted {
		return nil, nil
	}
	return vmemCopyUser(u), nil
}

// UserGetAll returns not deleted users from the list ordered by uid (MySQL: primary key order).
func (a *vMemAdapter) UserGetAll(ids ...types.Uid) ([]types.User, error) {
	if err := a.vmemEnter("UserGetAll"); err != nil {
		return nil, err
	}
	defer a.vmemLeave()

	want := make(map[types.Uid]struct{}, len(ids))
	for _, id := range ids {
		want[id] = struct{}{}
	}
	users := []types.User{}
	for _, uid := range a.vmemUids() {
		if _, ok := want[uid]; !ok {
			continue
		}
		if u := a.Users[uid]; u.State != types.StateDeleted {
			users = append(users, *vmemCopyUser(u))
		}
	}
	return users, nil
}

// vmemDeleteMessages deletes all messages of the topic and, by cascade, their file links.
func (a *vMemAdapter) vmemDeleteMessages(topic string) {
	ids := map[int64]struct{}{}
	for i := range a.Messages[topic] {
		ids[int64(a.Messages[topic][i].Uid())] = struct{}{}
	}
	delete(a.Messages, topic)
	if len(ids) > 0 {
		a.vmemFilterLinks(func(l *vMemFileLink) bool {
			_, ok := ids[l.MsgId]
			return l.MsgId != 0 && ok
		})
	}
}

// vmemFilterLinks removes file links for which del returns true.
func (a *vMemAdapter) vmemFilterLinks(del func(l *vMemFileLink) bool) {
	var keep []vMemFileLink
	for i := range a.FileLinks {
		if !del(&a.FileLinks[i]) {
			keep = append(keep, a.FileLinks[i])
		}
	}
	a.FileLinks = keep
}

// UserDelete deletes the user: hard or soft. A missing user is not an error.
func (a *vMemAdapter) UserDelete(uid types.Uid, hard bool) error {
	if err := a.vmemEnter("UserDelete"); err != nil {
		return err
	}
	defer a.vmemLeave()

	now := a.vmemNow()
	ustr := uid.String()
	owned := map[string]bool{}
	for name, tp := range a.Topics {
		if types.ParseUid(tp.Owner) == uid {
			owned[name] = true
		}
	}

	if hard {
		// Devices.
		var devs []vMemDeviceRec
		for _, d := range a.Devices {
			if d.User != uid {
				devs = append(devs, d)
			}
		}
		a.Devices = devs
		// User's subscriptions in all topics; subscriptions to owned topics under the topic's
		// own name (channel 'chn' subscriptions are left behind, like in MySQL).
		for key, sub := range a.Subs {
			if sub.User == ustr || owned[sub.Topic] {
				delete(a.Subs, key)
			}
		}
		// Records of messages soft-deleted for the user.
		for topic, rows := range a.Dellog {
			var keep []types.DelMessage
			for _, d := range rows {
				if d.DeletedFor != ustr {
					keep = append(keep, d)
				}
			}
			if len(keep) == 0 {
				delete(a.Dellog, topic)
			} else {
				a.Dellog[topic] = keep
			}
		}
		// Owned topics with messages, dellog, tags and (by cascade) file links.
		for name := range owned {
			delete(a.Dellog, name)
			a.vmemDeleteMessages(name)
			delete(a.Topics, name)
		}
		a.vmemFilterLinks(func(l *vMemFileLink) bool { return l.Topic != "" && owned[l.Topic] })
		// Auth records.
		var auths []vMemAuthRec
		for _, r := range a.Auth {
			if r.User != uid {
				auths = append(auths, r)
			}
		}
		a.Auth = auths
		// Credentials.
		var creds []vMemCredRec
		for _, c := range a.Creds {
			if c.User != uid {
				creds = append(creds, c)
			}
		}
		a.Creds = creds
		// The user and (by cascade) avatar links.
		if a.Users[uid] != nil {
			delete(a.Users, uid)
			a.vmemFilterLinks(func(l *vMemFileLink) bool { return !l.UserId.IsZero() && l.UserId == uid })
		}
		return nil
	}

	// Soft: disable user's not yet deleted subscriptions.
	userTopics := map[string]bool{}
	for _, sub := range a.Subs {
		if sub.User != ustr {
			continue
		}
		userTopics[sub.Topic] = true
		if sub.DeletedAt == nil {
			sub.UpdatedAt = now
			sub.DeletedAt = vmemCopyTimePtr(&now)
		}
	}
	// Disable all subscriptions to topics where the user is the owner.
	for _, sub := range a.Subs {
		if owned[sub.Topic] {
			sub.UpdatedAt = now
			sub.DeletedAt = vmemCopyTimePtr(&now)
		}
	}
	for name, tp := range a.Topics {
		// Topics where the user is the owner and ownerless (p2p) topics the user is subscribed to.
		if owned[name] || (types.ParseUid(tp.Owner).IsZero() && userTopics[name]) {
			tp.UpdatedAt = now
			tp.TouchedAt = now
			tp.State = types.StateDeleted
			tp.StateAt = vmemCopyTimePtr(&now)
		}
	}
	// Disable both subscriptions to p2p topics of the user.
	for _, sub := range a.Subs {
		if strings.HasPrefix(sub.Topic, "p2p") && userTopics[sub.Topic] {
			sub.UpdatedAt = now
			sub.DeletedAt = vmemCopyTimePtr(&now)
		}
	}
	if u := a.Users[uid]; u != nil {
		u.UpdatedAt = now
		u.State = types.StateDeleted
		u.StateAt = vmemCopyTimePtr(&now)
	}
	return nil
}

func vmemUserSet(u *types.User, col string, v any) (err error) {
	switch col {
	case "createdat":
		u.CreatedAt, _, err = vmemAsTime(v)
	case "updatedat":
		u.UpdatedAt, _, err = vmemAsTime(v)
	case "state":
		u.State, err = vmemAsState(v)
	case "stateat":
		u.StateAt, err = vmemAsTimePtr(v)
	case "access":
		u.Access, err = vmemAsAccess(v)
	case "lastseen":
		u.LastSeen, err = vmemAsTimePtr(v)
	case "useragent":
		u.UserAgent, err = vmemAsString(v)
	case "public":
		u.Public = vmemJSON(v)
	case "trusted":
		u.Trusted = vmemJSON(v)
	case "tags":
		u.Tags, err = vmemAsTags(v)
	default:
		err = vmemErrUnknownColumn
	}
	return err
}

// UserUpdate updates columns named by lowercased map keys. A change of State is propagated to
// topics like topicStateForUser does. Tags may be types.StringSlice or []string.
func (a *vMemAdapter) UserUpdate(uid types.Uid, update map[string]any) error {
	if err := a.vmemEnter("UserUpdate"); err != nil {
		return err
	}
	defer a.vmemLeave()

	if len(update) == 0 {
		return vmemErrEmptyUpdate
	}
	// Apply to a scratch copy first: all or nothing.
	scratch := &types.User{}
	if u := a.Users[uid]; u != nil {
		scratch = vmemCopyUser(u)
	}
	for key, val := range update {
		if err := vmemUserSet(scratch, strings.ToLower(key), val); err != nil {
			return err
		}
	}
	var state types.ObjState
	stateVal, hasState := update["State"]
	if hasState {
		var ok bool
		if state, ok = stateVal.(types.ObjState); !ok {
			return types.ErrMalformed
		}
	}
	if tagsVal := update["Tags"]; tagsVal != nil {
		if vmemHasDupes(scratch.Tags) {
			return types.ErrDuplicate
		}
		if len(scratch.Tags) > 0 && !a.vmemUserExists(uid) {
			return vmemErrFK
		}
	}

	if a.Users[uid] != nil {
		a.Users[uid] = scratch
	}
	if hasState {
		now, _ := update["StateAt"].(time.Time)
		if now.IsZero() {
			now = a.vmemNow()
		}
		ustr := uid.String()
		userTopics := map[string]bool{}
		for _, sub := range a.Subs {
			if sub.User == ustr {
				userTopics[sub.Topic] = true
			}
		}
		for name, tp := range a.Topics {
			if tp.State == types.StateDeleted {
				continue
			}
			owner := types.ParseUid(tp.Owner)
			if owner == uid || (owner.IsZero() && userTopics[name]) {
				tp.State = state
				tp.StateAt = vmemCopyTimePtr(&now)
			}
		}
	}
	return nil
}

// UserUpdateTags adds, removes or resets tags. The result keeps the order of insertion
// (MySQL: unspecified order of usertags rows).
func (a *vMemAdapter) UserUpdateTags(uid types.Uid, add, remove, reset []string) ([]string, error) {
	if err := a.vmemEnter("UserUpdateTags"); err != nil {
		return nil, err
	}
	defer a.vmemLeave()

	u := a.Users[uid]
	var tags []string
	if u != nil {
		tags = append(tags, u.Tags...)
	}
	if reset != nil {
		tags = nil
		add = reset
		remove = nil
	}
	if len(add) > 0 && !a.vmemUserExists(uid) {
		return nil, vmemErrFK
	}
	for _, tag := range add {
		if vmemContains(tags, tag) {
			if reset == nil {
				continue
			}
			return nil, types.ErrDuplicate
		}
		tags = append(tags, tag)
	}
	var all []string
	for _, tag := range tags {
		if !vmemContains(remove, tag) {
			all = append(all, tag)
		}
	}
	if u != nil {
		u.Tags = vmemCopyTags(all)
	}
	return all, nil
}

// UserGetByCred returns the user who owns the validated credential or ZeroUid.
func (a *vMemAdapter) UserGetByCred(method, value string) (types.Uid, error) {
	if err := a.vmemEnter("UserGetByCred"); err != nil {
		return types.ZeroUid, err
	}
	defer a.vmemLeave()

	synth := method + ":" + value
	for i := range a.Creds {
		if a.Creds[i].Synthetic == synth {
			return a.Creds[i].User, nil
		}
	}
	return types.ZeroUid, nil
}

// UserUnreadCount sums topic.seqid-sub.readseqid over live subscriptions with R in both modes
// to not deleted topics (joined by name, so channel 'chn' subscriptions do not count).
func (a *vMemAdapter) UserUnreadCount(ids ...types.Uid) (map[types.Uid]int, error) {
	counts := make(map[types.Uid]int, len(ids))
	for _, id := range ids {
		counts[id] = 0
	}
	if err := a.vmemEnter("UserUnreadCount"); err != nil {
		return counts, err
	}
	defer a.vmemLeave()

	for _, sub := range a.Subs {
		uid := types.ParseUid(sub.User)
		if _, ok := counts[uid]; !ok || sub.DeletedAt != nil {
			continue
		}
		tp := a.Topics[sub.Topic]
		if tp == nil || tp.State == types.StateDeleted {
			continue
		}
		if !strings.Contains(sub.ModeWant.String(), "R") || !strings.Contains(sub.ModeGiven.String(), "R") {
			continue
		}
		counts[uid] += tp.SeqId - sub.ReadSeqId
	}
	return counts, nil
}

// UserGetUnvalidated returns users who never logged in, have no validated credentials and have
// not been updated since lastUpdatedBefore ordered by updatedat, then uid.
func (a *vMemAdapter) UserGetUnvalidated(lastUpdatedBefore time.Time, limit int) ([]types.Uid, error) {
	if err := a.vmemEnter("UserGetUnvalidated"); err != nil {
		return nil, err
	}
	defer a.vmemLeave()

	done := map[types.Uid]int{}
	for i := range a.Creds {
		if a.Creds[i].Done {
			done[a.Creds[i].User]++
		}
	}
	var uids []types.Uid
	for _, uid := range a.vmemUids() {
		u := a.Users[uid]
		if u.LastSeen == nil && u.UpdatedAt.Before(lastUpdatedBefore) && done[uid] == 0 {
			uids = append(uids, uid)
		}
	}
	sort.SliceStable(uids, func(i, j int) bool {
		return a.Users[uids[i]].UpdatedAt.Before(a.Users[uids[j]].UpdatedAt)
	})
	if limit < 0 {
		limit = 0
	}
	if len(uids) > limit {
		uids = uids[:limit]
	}
	return uids, nil
}

// Credential management.

// CredUpsert adds or updates a credential record. Returns true if the record was inserted.
func (a *vMemAdapter) CredUpsert(cred *types.Credential) (bool, error) {
	if err := a.vmemEnter("CredUpsert"); err != nil {
		return false, err
	}
	defer a.vmemLeave()

	now := a.vmemNow()
	uid := types.ParseUid(cred.User)
	synth := cred.Method + ":" + cred.Value

	find := func(s string) int {
		for i := range a.Creds {
			if a.Creds[i].Synthetic == s {
				return i
			}
		}
		return -1
	}

	if !cred.Done {
		// Already validated by someone.
		if find(synth) >= 0 {
			return false, types.ErrDuplicate
		}
		synth = cred.User + ":" + synth
		if find(synth) < 0 && !a.vmemUserExists(uid) {
			// The insert would fail and the transaction would be rolled back.
			return true, vmemErrFK
		}
		// Deactivate all unvalidated records of this user and method.
		for i := range a.Creds {
			c := &a.Creds[i]
			if c.User == uid && c.Method == cred.Method && !c.Done {
				c.DeletedAt = vmemCopyTimePtr(&now)
			}
		}
		// Undelete the existing record, if any.
		if i := find(synth); i >= 0 {
			c := &a.Creds[i]
			c.UpdatedAt = cred.UpdatedAt
			c.DeletedAt = nil
			c.Resp = cred.Resp
			c.Done = false
			return false, nil
		}
	} else {
		// The insert below would fail: the transaction with the delete is rolled back.
		if find(synth) >= 0 {
			return true, types.ErrDuplicate
		}
		if !a.vmemUserExists(uid) {
			return true, vmemErrFK
		}
		// Hard-delete the unconfirmed record if it exists.
		if i := find(cred.User + ":" + synth); i >= 0 {
			a.Creds = append(a.Creds[:i:i], a.Creds[i+1:]...)
		}
	}

	a.LastCredId++
	a.Creds = append(a.Creds, vMemCredRec{
		Id:        a.LastCredId,
		CreatedAt: cred.CreatedAt,
		UpdatedAt: cred.UpdatedAt,
		Method:    cred.Method,
		Value:     cred.Value,
		Synthetic: synth,
		User:      uid,
		Resp:      cred.Resp,
		Done:      cred.Done,
	})
	return true, nil
}

func vmemCredOut(c *vMemCredRec, uid types.Uid) types.Credential {
	out := types.Credential{
		User:    uid.String(),
		Method:  c.Method,
		Value:   c.Value,
		Resp:    c.Resp,
		Done:    c.Done,
		Retries: c.Retries,
	}
	out.CreatedAt = c.CreatedAt
	out.UpdatedAt = c.UpdatedAt
	return out
}

// CredGetActive returns the live unvalidated credential of the given user and method or (nil, nil).
func (a *vMemAdapter) CredGetActive(uid types.Uid, method string) (*types.Credential, error) {
	if err := a.vmemEnter("CredGetActive"); err != nil {
		return nil, err
	}
	defer a.vmemLeave()

	for i := range a.Creds {
		c := &a.Creds[i]
		if c.User == uid && c.DeletedAt == nil && c.Method == method && !c.Done {
			out := vmemCredOut(c, uid)
			return &out, nil
		}
	}
	return nil, nil
}

// CredGetAll returns live credential records of the user in insertion order.
func (a *vMemAdapter) CredGetAll(uid types.Uid, method string, validatedOnly bool) ([]types.Credential, error) {
	if err := a.vmemEnter("CredGetAll"); err != nil {
		return nil, err
	}
	defer a.vmemLeave()

	var creds []types.Credential
	for i := range a.Creds {
		c := &a.Creds[i]
		if c.User != uid || c.DeletedAt != nil || (method != "" && c.Method != method) || (validatedOnly && !c.Done) {
			continue
		}
		creds = append(creds, vmemCredOut(c, uid))
	}
	return creds, nil
}

// CredDel deletes credentials. With a blank method all records of the user are deleted
// (types.ErrNotFound if none). Otherwise matching records which are validated or have no failed
// attempts are deleted; if there are none, MySQL soft-deletes the matches but then always
// reports types.ErrNotFound and thus rolls the transaction back: nothing changes.
func (a *vMemAdapter) CredDel(uid types.Uid, method, value string) error {
	if err := a.vmemEnter("CredDel"); err != nil {
		return err
	}
	defer a.vmemLeave()

	var keep []vMemCredRec
	count := 0
	for _, c := range a.Creds {
		match := c.User == uid
		if match && method != "" {
			match = c.Method == method && (value == "" || c.Value == value) && (c.Done || c.Retries == 0)
		}
		if match {
			count++
		} else {
			keep = append(keep, c)
		}
	}
	if count == 0 {
		return types.ErrNotFound
	}
	a.Creds = keep
	return nil
}

// CredConfirm marks the live unvalidated credential of the method as validated.
func (a *vMemAdapter) CredConfirm(uid types.Uid, method string) error {
	if err := a.vmemEnter("CredConfirm"); err != nil {
		return err
	}
	defer a.vmemLeave()

	var match []int
	synths := map[string]int{}
	for i := range a.Creds {
		c := &a.Creds[i]
		if c.User == uid && c.Method == method && c.DeletedAt == nil && !c.Done {
			match = append(match, i)
			synths[c.Method+":"+c.Value]++
		}
	}
	if len(match) == 0 {
		return types.ErrNotFound
	}
	// Uniqueness of the new synthetic values.
	for s, n := range synths {
		if n > 1 {
			return types.ErrDuplicate
		}
		for i := range a.Creds {
			if a.Creds[i].Synthetic == s {
				return types.ErrDuplicate
			}
		}
	}
	now := a.vmemNow()
	for _, i := range match {
		c := &a.Creds[i]
		c.UpdatedAt = now
		c.Done = true
		c.Synthetic = c.Method + ":" + c.Value
	}
	return nil
}

// CredFail increments the count of failed attempts of all unvalidated records of the method.
func (a *vMemAdapter) CredFail(uid types.Uid, method string) error {
	if err := a.vmemEnter("CredFail"); err != nil {
		return err
	}
	defer a.vmemLeave()

	now := a.vmemNow()
	for i := range a.Creds {
		c := &a.Creds[i]
		if c.User == uid && c.Method == method && !c.Done {
			c.UpdatedAt = now
			c.Retries++
		}
	}
	return nil
}

// Authentication records.

// AuthGetUniqueRecord returns the record by the unique name; zero values and nil error if not found.
func (a *vMemAdapter) AuthGetUniqueRecord(unique string) (types.Uid, auth.Level, []byte, time.Time, error) {
	if err := a.vmemEnter("AuthGetUniqueRecord"); err != nil {
		return types.ZeroUid, 0, nil, time.Time{}, err
	}
	defer a.vmemLeave()

	for i := range a.Auth {
		if r := &a.Auth[i]; r.Uname == unique {
			return r.User, r.AuthLvl, vmemCopyBytes(r.Secret), r.Expires, nil
		}
	}
	return types.ZeroUid, 0, nil, time.Time{}, nil
}

// AuthGetRecord returns the record by user and scheme; types.ErrNotFound if not found.
func (a *vMemAdapter) AuthGetRecord(user types.Uid, scheme string) (string, auth.Level, []byte, time.Time, error) {
	if err := a.vmemEnter("AuthGetRecord"); err != nil {
		return "", 0, nil, time.Time{}, err
	}
	defer a.vmemLeave()

	for i := range a.Auth {
		if r := &a.Auth[i]; r.User == user && r.Scheme == scheme {
			return r.Uname, r.AuthLvl, vmemCopyBytes(r.Secret), r.Expires, nil
		}
	}
	return "", 0, nil, time.Time{}, types.ErrNotFound
}

// AuthAddRecord creates a record; unique indexes on uname and (userid, scheme).
func (a *vMemAdapter) AuthAddRecord(user types.Uid, scheme, unique string, authLvl auth.Level, secret []byte, expires time.Time) error {
	if err := a.vmemEnter("AuthAddRecord"); err != nil {
		return err
	}
	defer a.vmemLeave()

	for i := range a.Auth {
		if r := &a.Auth[i]; r.Uname == unique || (r.User == user && r.Scheme == scheme) {
			return types.ErrDuplicate
		}
	}
	if !a.vmemUserExists(user) {
		return vmemErrFK
	}
	a.LastAuthId++
	a.Auth = append(a.Auth, vMemAuthRec{Id: a.LastAuthId, Uname: unique, User: user, Scheme: scheme,
		AuthLvl: authLvl, Secret: vmemCopyBytes(secret), Expires: expires})
	return nil
}

// AuthDelScheme deletes the record of the scheme.
func (a *vMemAdapter) AuthDelScheme(user types.Uid, scheme string) error {
	if err := a.vmemEnter("AuthDelScheme"); err != nil {
		return err
	}
	defer a.vmemLeave()

	var keep []vMemAuthRec
	for _, r := range a.Auth {
		if r.User != user || r.Scheme != scheme {
			keep = append(keep, r)
		}
	}
	a.Auth = keep
	return nil
}

// AuthDelAllRecords deletes all records of the user and returns their count.
func (a *vMemAdapter) AuthDelAllRecords(uid types.Uid) (int, error) {
	if err := a.vmemEnter("AuthDelAllRecords"); err != nil {
		return 0, err
	}
	defer a.vmemLeave()

	var keep []vMemAuthRec
	count := 0
	for _, r := range a.Auth {
		if r.User == uid {
			count++
		} else {
			keep = append(keep, r)
		}
	}
	a.Auth = keep
	return count, nil
}

// AuthUpdRecord updates authLvl always and unique, secret, expires when not empty.
// types.ErrNotFound if there is no record (matched rows count even when nothing changes).
func (a *vMemAdapter) AuthUpdRecord(user types.Uid, scheme, unique string, authLvl auth.Level, secret []byte, expires time.Time) error {
	if err := a.vmemEnter("AuthUpdRecord"); err != nil {
		return err
	}
	defer a.vmemLeave()

	idx := -1
	for i := range a.Auth {
		if r := &a.Auth[i]; r.User == user && r.Scheme == scheme {
			idx = i
			break
		}
	}
	if idx < 0 {
		return types.ErrNotFound
	}
	if unique != "" {
		for i := range a.Auth {
			if i != idx && a.Auth[i].Uname == unique {
				return types.ErrDuplicate
			}
		}
	}
	r := &a.Auth[idx]
	r.AuthLvl = authLvl
	if unique != "" {
		r.Uname = unique
	}
	if len(secret) > 0 {
		r.Secret = vmemCopyBytes(secret)
	}
	if !expires.IsZero() {
		r.Expires = expires
	}
	return nil
}

// Topic management.

// vmemTopicInsert is topicCreate of the MySQL adapter. The caller has checked uniqueness.
func (a *vMemAdapter) vmemTopicInsert(topic *types.Topic) {
	tp := &types.Topic{
		State:     topic.State,
		TouchedAt: topic.TouchedAt,
		UseBt:     topic.UseBt,
		Owner:     vmemNormUidStr(topic.Owner),
		Access:    vmemNormAccess(topic.Access),
		Public:    vmemJSON(topic.Public),
		Trusted:   vmemJSON(topic.Trusted),
		Tags:      vmemCopyTags(topic.Tags),
	}
	tp.Id = topic.Id
	tp.CreatedAt = topic.CreatedAt
	tp.UpdatedAt = topic.UpdatedAt
	a.Topics[topic.Id] = tp
}

// TopicCreate inserts createdat, updatedat, touchedat, state, name, usebt, owner, access, public,
// trusted, tags (not seqid, delid, stateat). Duplicate name or tags: types.ErrDuplicate.
func (a *vMemAdapter) TopicCreate(topic *types.Topic) error {
	if err := a.vmemEnter("TopicCreate"); err != nil {
		return err
	}
	defer a.vmemLeave()

	if a.Topics[topic.Id] != nil || vmemHasDupes(topic.Tags) {
		return types.ErrDuplicate
	}
	a.vmemTopicInsert(topic)
	return nil
}

// vmemCreateSub is createSubscription of the MySQL adapter. An existing row, deleted or not, is
// reset: createdat, updatedat, deletedat=NULL, modes, delid=recvseqid=readseqid=0 and also
// private when undelete is false (sic). The caller has checked the foreign key.
func (a *vMemAdapter) vmemCreateSub(sub *types.Subscription, undelete bool) {
	uid := types.ParseUid(sub.User)
	key := vmemSubKey(sub.Topic, uid)
	isOwner := (sub.ModeGiven & sub.ModeWant).IsOwner()
	if ex := a.Subs[key]; ex == nil {
		row := &types.Subscription{
			User:      uid.String(),
			Topic:     sub.Topic,
			ModeWant:  vmemNormMode(sub.ModeWant),
			ModeGiven: vmemNormMode(sub.ModeGiven),
			Private:   vmemJSON(sub.Private),
		}
		row.CreatedAt = sub.CreatedAt
		row.UpdatedAt = sub.UpdatedAt
		a.Subs[key] = row
		a.subNext++
		a.SubSeq[key] = a.subNext
	} else {
		ex.CreatedAt = sub.CreatedAt
		ex.UpdatedAt = sub.UpdatedAt
		ex.DeletedAt = nil
		ex.ModeWant = vmemNormMode(sub.ModeWant)
		ex.ModeGiven = vmemNormMode(sub.ModeGiven)
		ex.DelId = 0
		ex.RecvSeqId = 0
		ex.ReadSeqId = 0
		if !undelete {
			ex.Private = vmemJSON(sub.Private)
		}
	}
	if isOwner {
		if tp := a.Topics[sub.Topic]; tp != nil {
			tp.Owner = uid.String()
		}
	}
}

// TopicCreateP2P creates or resets both subscriptions and creates the topic. If the topic
// exists already the whole transaction fails with types.ErrDuplicate (MySQL: raw error).
func (a *vMemAdapter) TopicCreateP2P(initiator, invited *types.Subscription) error {
	if err := a.vmemEnter("TopicCreateP2P"); err != nil {
		return err
	}
	defer a.vmemLeave()

	if !a.vmemUserExists(types.ParseUid(initiator.User)) || !a.vmemUserExists(types.ParseUid(invited.User)) {
		return vmemErrFK
	}
	if a.Topics[initiator.Topic] != nil {
		return types.ErrDuplicate
	}
	a.vmemCreateSub(initiator, false)
	a.vmemCreateSub(invited, true)

	topic := &types.Topic{ObjHeader: types.ObjHeader{Id: initiator.Topic}}
	topic.ObjHeader.MergeTimes(&initiator.ObjHeader)
	topic.TouchedAt = initiator.GetTouchedAt()
	a.vmemTopicInsert(topic)
	return nil
}

// TopicGet returns the topic or (nil, nil).
func (a *vMemAdapter) TopicGet(topic string) (*types.Topic, error) {
	if err := a.vmemEnter("TopicGet"); err != nil {
		return nil, err
	}
	defer a.vmemLeave()

	tp := a.Topics[topic]
	if tp == nil {
		return nil, nil
	}
	return vmemCopyTopic(tp), nil
}

// TopicsForUser loads user's subscriptions joined with topics (grp, sys) and users (p2p).
// Subscription rows are scanned in the order of keys; the result is built in the order of
// topic names (MySQL adapter: random order of Go map iteration) and then passed through
// common.SelectEarliestUpdatedSubs exactly like the MySQL adapter does.
func (a *vMemAdapter) TopicsForUser(uid types.Uid, keepDeleted bool, opts *types.QueryOpt) ([]types.Subscription, error) {
	if err := a.vmemEnter("TopicsForUser"); err != nil {
		return nil, err
	}
	defer a.vmemLeave()

	limit := 0
	ims := time.Time{}
	optTopic := ""
	if opts != nil {
		optTopic = opts.Topic
		if opts.IfModifiedSince == nil {
			if opts.Limit > 0 && opts.Limit < a.MaxResults {
				limit = opts.Limit
			} else {
				limit = a.MaxResults
			}
		} else {
			ims = *opts.IfModifiedSince
		}
	} else {
		limit = a.MaxResults
	}

	ustr := uid.String()
	join := make(map[string]types.Subscription)
	var topq []string
	var usrq []types.Uid
	count := 0
	for _, key := range a.vmemSubKeys() {
		row := a.Subs[key]
		if row.User != ustr || (!keepDeleted && row.DeletedAt != nil) || (optTopic != "" && row.Topic != optTopic) {
			continue
		}
		if limit > 0 && count >= limit {
			break
		}
		count++

		sub := vmemCopySub(row)
		tname := sub.Topic
		sub.User = ustr
		tcat := types.GetTopicCat(tname)
		if tcat == types.TopicCatMe || tcat == types.TopicCatFnd {
			continue
		} else if tcat == types.TopicCatP2P {
			uid1, uid2, _ := types.ParseP2P(tname)
			if uid1 == uid {
				usrq = append(usrq, uid2)
				sub.SetWith(uid2.UserId())
			} else {
				usrq = append(usrq, uid1)
				sub.SetWith(uid1.UserId())
			}
			topq = append(topq, tname)
		} else {
			if tcat == types.TopicCatGrp {
				tname = types.ChnToGrp(tname)
			}
			topq = append(topq, tname)
		}
		join[tname] = sub
	}

	var subs []types.Subscription
	if len(join) == 0 {
		return subs, nil
	}

	// Topics. The 'ORDER BY touchedat LIMIT' branch of the MySQL adapter is dead code: limit is
	// positive only when ims is zero.
	seen := map[string]bool{}
	for _, name := range topq {
		if seen[name] {
			continue
		}
		seen[name] = true
		top := a.Topics[name]
		if top == nil || (!keepDeleted && top.State == types.StateDeleted) || (!ims.IsZero() && !top.TouchedAt.After(ims)) {
			continue
		}
		sub := join[name]
		sub.UpdatedAt = common.SelectLatestTime(sub.UpdatedAt, top.UpdatedAt)
		sub.SetState(top.State)
		sub.SetTouchedAt(top.TouchedAt)
		sub.SetSeqId(top.SeqId)
		if types.GetTopicCat(sub.Topic) == types.TopicCatGrp {
			sub.SetPublic(vmemCopyAny(top.Public))
			sub.SetTrusted(vmemCopyAny(top.Trusted))
		}
		join[name] = sub
	}

	// Users.
	seenU := map[types.Uid]bool{}
	for _, other := range usrq {
		if seenU[other] {
			continue
		}
		seenU[other] = true
		usr2 := a.Users[other]
		if usr2 == nil || (!keepDeleted && usr2.State == types.StateDeleted) {
			continue
		}
		joinOn := uid.P2PName(other)
		if sub, ok := join[joinOn]; ok {
			sub.UpdatedAt = common.SelectLatestTime(sub.UpdatedAt, usr2.UpdatedAt)
			sub.SetState(usr2.State)
			sub.SetPublic(vmemCopyAny(usr2.Public))
			sub.SetTrusted(vmemCopyAny(usr2.Trusted))
			sub.SetDefaultAccess(usr2.Access.Auth, usr2.Access.Anon)
			sub.SetLastSeenAndUA(vmemCopyTimePtr(usr2.LastSeen), usr2.UserAgent)
			join[joinOn] = sub
		}
	}

	names := make([]string, 0, len(join))
	for name := range join {
		names = append(names, name)
	}
	sort.Strings(names)
	subs = make([]types.Subscription, 0, len(join))
	for _, name := range names {
		subs = append(subs, join[name])
	}
	return common.SelectEarliestUpdatedSubs(subs, opts, a.MaxResults), nil
}

// UsersForTopic loads subscriptions of the topic joined with users (public, trusted, last seen).
// Rows are in the order of subscription keys.
func (a *vMemAdapter) UsersForTopic(topic string, keepDeleted bool, opts *types.QueryOpt) ([]types.Subscription, error) {
	if err := a.vmemEnter("UsersForTopic"); err != nil {
		return nil, err
	}
	defer a.vmemLeave()

	tcat := types.GetTopicCat(topic)
	limit := a.MaxResults
	var oneUser, filterUser types.Uid
	if opts != nil {
		if !opts.User.IsZero() {
			if tcat != types.TopicCatP2P {
				filterUser = opts.User
			}
			oneUser = opts.User
		}
		if opts.Limit > 0 && opts.Limit < limit {
			limit = opts.Limit
		}
	}

	var subs []types.Subscription
	for _, key := range a.vmemSubKeys() {
		row := a.Subs[key]
		if row.Topic != topic {
			continue
		}
		usr := a.Users[types.ParseUid(row.User)]
		if usr == nil {
			continue
		}
		if !keepDeleted {
			if usr.State == types.StateDeleted {
				continue
			}
			if tcat != types.TopicCatP2P && row.DeletedAt != nil {
				continue
			}
		}
		if !filterUser.IsZero() && row.User != filterUser.String() {
			continue
		}
		if len(subs) >= limit {
			break
		}
		sub := vmemCopySub(row)
		sub.SetPublic(vmemCopyAny(usr.Public))
		sub.SetTrusted(vmemCopyAny(usr.Trusted))
		sub.SetLastSeenAndUA(vmemCopyTimePtr(usr.LastSeen), usr.UserAgent)
		subs = append(subs, sub)
	}

	if tcat == types.TopicCatP2P && len(subs) > 0 {
		if len(subs) == 1 {
			subs[0].SetPublic(nil)
			subs[0].SetTrusted(nil)
			subs[0].SetLastSeenAndUA(nil, "")
		} else {
			tmp := subs[0].GetPublic()
			subs[0].SetPublic(subs[1].GetPublic())
			subs[1].SetPublic(tmp)

			tmp = subs[0].GetTrusted()
			subs[0].SetTrusted(subs[1].GetTrusted())
			subs[1].SetTrusted(tmp)

			lastSeen := subs[0].GetLastSeen()
			userAgent := subs[0].GetUserAgent()
			subs[0].SetLastSeenAndUA(subs[1].GetLastSeen(), subs[1].GetUserAgent())
			subs[1].SetLastSeenAndUA(lastSeen, userAgent)
		}
		if !keepDeleted || !oneUser.IsZero() {
			var xsubs []types.Subscription
			for i := range subs {
				if (subs[i].DeletedAt != nil && !keepDeleted) || (!oneUser.IsZero() && subs[i].Uid() != oneUser) {
					continue
				}
				xsubs = append(xsubs, subs[i])
			}
			subs = xsubs
		}
	}
	return subs, nil
}

// OwnTopics returns names of topics owned by the user sorted by name.
func (a *vMemAdapter) OwnTopics(uid types.Uid) ([]string, error) {
	if err := a.vmemEnter("OwnTopics"); err != nil {
		return nil, err
	}
	defer a.vmemLeave()

	var names []string
	for _, name := range a.vmemTopicNames() {
		if types.ParseUid(a.Topics[name].Owner) == uid {
			names = append(names, name)
		}
	}
	if vmemTopicLess != nil {
		// no order is promised (MySQL: none asked for); a harness may fix one
		sort.SliceStable(names, func(i, j int) bool { return vmemTopicLess(names[i], names[j]) })
	}
	return names, nil
}

// ChannelsForUser returns names of 'chn' topics where the user is a live subscriber with P in both modes.
func (a *vMemAdapter) ChannelsForUser(uid types.Uid) ([]string, error) {
	if err := a.vmemEnter("ChannelsForUser"); err != nil {
		return nil, err
	}
	defer a.vmemLeave()

	ustr := uid.String()
	var names []string
	for _, key := range a.vmemSubKeys() {
		sub := a.Subs[key]
		if sub.User == ustr && strings.HasPrefix(sub.Topic, "chn") && sub.DeletedAt == nil &&
			strings.Contains(sub.ModeWant.String(), "P") && strings.Contains(sub.ModeGiven.String(), "P") {
			names = append(names, sub.Topic)
		}
	}
	return names, nil
}

// TopicShare creates or resets (see vmemCreateSub, undelete=true) subscriptions. All or nothing.
func (a *vMemAdapter) TopicShare(subs []*types.Subscription) error {
	if err := a.vmemEnter("TopicShare"); err != nil {
		return err
	}
	defer a.vmemLeave()

	for _, sub := range subs {
		if !a.vmemUserExists(types.ParseUid(sub.User)) {
			return vmemErrFK
		}
	}
	for _, sub := range subs {
		a.vmemCreateSub(sub, true)
	}
	return nil
}

// TopicDelete deletes the topic. Hard: subscriptions (also 'chn' ones if isChan), dellog,
// messages with their file links, tags, the topic with its file link. Soft: all subscriptions
// get updatedat=deletedat=now, the topic gets updatedat=touchedat=stateat=now, state=deleted.
func (a *vMemAdapter) TopicDelete(topic string, isChan, hard bool) error {
	if y := a.YieldTopicDelete; y != nil {
		// the statement is on its way to the database: other goroutines run meanwhile (set by a harness, once)
		a.YieldTopicDelete = nil
		y(topic)
	}
	if err := a.vmemEnter("TopicDelete"); err != nil {
		return err
	}
	defer a.vmemLeave()

	names := map[string]bool{topic: true}
	if isChan {
		names[types.GrpToChn(topic)] = true
	}
	if hard {
		for key, sub := range a.Subs {
			if names[sub.Topic] {
				delete(a.Subs, key)
			}
		}
		delete(a.Dellog, topic)
		a.vmemDeleteMessages(topic)
		if a.Topics[topic] != nil {
			delete(a.Topics, topic)
			a.vmemFilterLinks(func(l *vMemFileLink) bool { return l.Topic != "" && l.Topic == topic })
		}
		return nil
	}

	now := a.vmemNow()
	for _, sub := range a.Subs {
		if names[sub.Topic] {
			sub.UpdatedAt = now
			sub.DeletedAt = vmemCopyTimePtr(&now)
		}
	}
	if tp := a.Topics[topic]; tp != nil {
		tp.UpdatedAt = now
		tp.TouchedAt = now
		tp.State = types.StateDeleted
		tp.StateAt = vmemCopyTimePtr(&now)
	}
	return nil
}

// TopicUpdateOnMessage sets seqid and touchedat of the topic row, if there is one.
func (a *vMemAdapter) TopicUpdateOnMessage(topic string, msg *types.Message) error {
	if err := a.vmemEnter("TopicUpdateOnMessage"); err != nil {
		return err
	}
	defer a.vmemLeave()

	if tp := a.Topics[topic]; tp != nil {
		tp.SeqId = msg.SeqId
		tp.TouchedAt = msg.CreatedAt
	}
	return nil
}

func vmemTopicSet(tp *types.Topic, col string, v any) (err error) {
	switch col {
	case "createdat":
		tp.CreatedAt, _, err = vmemAsTime(v)
	case "updatedat":
		tp.UpdatedAt, _, err = vmemAsTime(v)
	case "touchedat":
		tp.TouchedAt, _, err = vmemAsTime(v)
	case "state":
		tp.State, err = vmemAsState(v)
	case "stateat":
		tp.StateAt, err = vmemAsTimePtr(v)
	case "usebt":
		var i int
		i, err = vmemAsInt(v)
		tp.UseBt = i != 0
	case "owner":
		tp.Owner, err = vmemAsUidStr(v)
	case "access":
		tp.Access, err = vmemAsAccess(v)
	case "seqid":
		tp.SeqId, err = vmemAsInt(v)
	case "delid":
		tp.DelId, err = vmemAsInt(v)
	case "public":
		tp.Public = vmemJSON(v)
	case "trusted":
		tp.Trusted = vmemJSON(v)
	case "tags":
		tp.Tags, err = vmemAsTags(v)
	default:
		// Includes "subcnt": the schema of this version has no such column.
		err = vmemErrUnknownColumn
	}
	return err
}

// TopicUpdate updates columns named by lowercased map keys. Like the MySQL adapter it adds
// TouchedAt=UpdatedAt to the caller's map when TouchedAt is missing. A missing topic is not an error.
func (a *vMemAdapter) TopicUpdate(topic string, update map[string]any) error {
	if err := a.vmemEnter("TopicUpdate"); err != nil {
		return err
	}
	defer a.vmemLeave()

	if tch, upd := update["TouchedAt"], update["UpdatedAt"]; tch == nil && upd != nil {
		update["TouchedAt"] = upd
	}
	if len(update) == 0 {
		return vmemErrEmptyUpdate
	}
	scratch := &types.Topic{}
	if tp := a.Topics[topic]; tp != nil {
		scratch = vmemCopyTopic(tp)
	}
	for key, val := range update {
		if err := vmemTopicSet(scratch, strings.ToLower(key), val); err != nil {
			return err
		}
	}
	if update["Tags"] != nil {
		if vmemHasDupes(scratch.Tags) {
			return types.ErrDuplicate
		}
		if len(scratch.Tags) > 0 && a.EnforceFK && a.Topics[topic] == nil {
			return vmemErrFK
		}
	}
	if a.Topics[topic] != nil {
		a.Topics[topic] = scratch
	}
	return nil
}

// TopicOwnerChange sets the owner of the topic.
func (a *vMemAdapter) TopicOwnerChange(topic string, newOwner types.Uid) error {
	if err := a.vmemEnter("TopicOwnerChange"); err != nil {
		return err
	}
	defer a.vmemLeave()

	if tp := a.Topics[topic]; tp != nil {
		tp.Owner = newOwner.String()
	}
	return nil
}

// Subscriptions.

// SubscriptionGet returns the subscription or (nil, nil).
func (a *vMemAdapter) SubscriptionGet(topic string, user types.Uid, keepDeleted bool) (*types.Subscription, error) {
	if err := a.vmemEnter("SubscriptionGet"); err != nil {
		return nil, err
	}
	defer a.vmemLeave()

	row := a.Subs[vmemSubKey(topic, user)]
	if row == nil || (!keepDeleted && row.DeletedAt != nil) {
		return nil, nil
	}
	sub := vmemCopySub(row)
	return &sub, nil
}

// SubsForUser returns live subscriptions of the user without Private, in the order of keys.
func (a *vMemAdapter) SubsForUser(user types.Uid) ([]types.Subscription, error) {
	if err := a.vmemEnter("SubsForUser"); err != nil {
		return nil, err
	}
	defer a.vmemLeave()

	ustr := user.String()
	var subs []types.Subscription
	for _, key := range a.vmemSubKeys() {
		row := a.Subs[key]
		if row.User != ustr || row.DeletedAt != nil {
			continue
		}
		sub := vmemCopySub(row)
		sub.Private = nil
		subs = append(subs, sub)
	}
	return subs, nil
}

// SubsForTopic returns subscriptions of the topic in the order of keys.
func (a *vMemAdapter) SubsForTopic(topic string, keepDeleted bool, opts *types.QueryOpt) ([]types.Subscription, error) {
	if err := a.vmemEnter("SubsForTopic"); err != nil {
		return nil, err
	}
	defer a.vmemLeave()

	limit := a.MaxResults
	oneUser := ""
	if opts != nil {
		if !opts.User.IsZero() {
			oneUser = opts.User.String()
		}
		if opts.Limit > 0 && opts.Limit < limit {
			limit = opts.Limit
		}
	}
	var subs []types.Subscription
	for _, key := range a.vmemSubKeys() {
		row := a.Subs[key]
		if row.Topic != topic || (!keepDeleted && row.DeletedAt != nil) || (oneUser != "" && row.User != oneUser) {
			continue
		}
		if len(subs) >= limit {
			break
		}
		subs = append(subs, vmemCopySub(row))
	}
	return subs, nil
}

func vmemSubSet(s *types.Subscription, col string, v any) (err error) {
	switch col {
	case "createdat":
		s.CreatedAt, _, err = vmemAsTime(v)
	case "updatedat":
		s.UpdatedAt, _, err = vmemAsTime(v)
	case "deletedat":
		s.DeletedAt, err = vmemAsTimePtr(v)
	case "delid":
		s.DelId, err = vmemAsInt(v)
	case "recvseqid":
		s.RecvSeqId, err = vmemAsInt(v)
	case "readseqid":
		s.ReadSeqId, err = vmemAsInt(v)
	case "modewant":
		s.ModeWant, err = vmemAsMode(v)
	case "modegiven":
		s.ModeGiven, err = vmemAsMode(v)
	case "private":
		s.Private = vmemJSON(v)
	default:
		err = vmemErrUnknownColumn
	}
	return err
}

// SubsUpdate updates one (user is not zero) or all subscriptions of the topic, soft-deleted
// rows included. No matching rows is not an error.
func (a *vMemAdapter) SubsUpdate(topic string, user types.Uid, update map[string]any) error {
	if err := a.vmemEnter("SubsUpdate"); err != nil {
		return err
	}
	defer a.vmemLeave()

	if len(update) == 0 {
		return vmemErrEmptyUpdate
	}
	// Validate on a scratch row first: all or nothing.
	scratch := &types.Subscription{}
	for key, val := range update {
		if err := vmemSubSet(scratch, strings.ToLower(key), val); err != nil {
			return err
		}
	}
	ustr := user.String()
	for _, row := range a.Subs {
		if row.Topic != topic || (!user.IsZero() && row.User != ustr) {
			continue
		}
		for key, val := range update {
			vmemSubSet(row, strings.ToLower(key), val)
		}
	}
	return nil
}

// SubsDelete soft-deletes a live subscription (types.ErrNotFound if there is none) and removes
// dellog records of messages soft-deleted by the user in the topic.
func (a *vMemAdapter) SubsDelete(topic string, user types.Uid) error {
	if err := a.vmemEnter("SubsDelete"); err != nil {
		return err
	}
	defer a.vmemLeave()

	row := a.Subs[vmemSubKey(topic, user)]
	if row == nil || row.DeletedAt != nil {
		return types.ErrNotFound
	}
	now := a.vmemNow()
	row.UpdatedAt = now
	row.DeletedAt = &now

	ustr := user.String()
	var keep []types.DelMessage
	for _, d := range a.Dellog[topic] {
		if d.DeletedFor != ustr {
			keep = append(keep, d)
		}
	}
	if len(keep) == 0 {
		delete(a.Dellog, topic)
	} else {
		a.Dellog[topic] = keep
	}
	return nil
}

// vmemSubsOfTopic returns copies of all subscription rows of the topic, soft-deleted included,
// in the order of keys. It is a harness helper: the call is not counted.
func (a *vMemAdapter) vmemSubsOfTopic(topic string) []types.Subscription {
	a.mu.Lock()
	defer a.mu.Unlock()
	var subs []types.Subscription
	for _, key := range a.vmemSubKeys() {
		if row := a.Subs[key]; row.Topic == topic {
			subs = append(subs, vmemCopySub(row))
		}
	}
	return subs
}

// Search.

// vmemMatchTags counts tags which are in req or opt and checks that every non-empty group of
// req has at least one of its tags present. It also returns the matched tags in the order of tags.
func vmemMatchTags(tags []string, req [][]string, opt []string) (int, []string, bool) {
	index := map[string]struct{}{}
	for _, group := range req {
		for _, tag := range group {
			index[tag] = struct{}{}
		}
	}
	for _, tag := range opt {
		index[tag] = struct{}{}
	}
	have := map[string]struct{}{}
	found := make([]string, 0, 1)
	for _, tag := range tags {
		if _, ok := index[tag]; ok {
			found = append(found, tag)
			have[tag] = struct{}{}
		}
	}
	if len(have) == 0 {
		return 0, nil, false
	}
	for _, group := range req {
		if len(group) == 0 {
			continue
		}
		ok := false
		for _, tag := range group {
			if _, ok = have[tag]; ok {
				break
			}
		}
		if !ok {
			return 0, nil, false
		}
	}
	return len(have), found, true
}

// FindUsers searches users by tags: req is AND of OR-groups, opt are optional tags; a user must
// have at least one tag from req or opt. Ordered by the number of matched tags descending, then
// by uid (MySQL: ties in unspecified order); LIMIT MaxResults is applied before the caller is
// skipped, like in MySQL. With no tags at all MySQL adapter panics; here the result is empty.
func (a *vMemAdapter) FindUsers(user types.Uid, req [][]string, opt []string, activeOnly bool) ([]types.Subscription, error) {
	if err := a.vmemEnter("FindUsers"); err != nil {
		return nil, err
	}
	defer a.vmemLeave()

	type row struct {
		uid     types.Uid
		matches int
		found   []string
	}
	var rows []row
	for _, uid := range a.vmemUids() {
		u := a.Users[uid]
		if activeOnly && u.State != types.StateOK {
			continue
		}
		if n, found, ok := vmemMatchTags(u.Tags, req, opt); ok {
			rows = append(rows, row{uid, n, found})
		}
	}
	sort.SliceStable(rows, func(i, j int) bool { return rows[i].matches > rows[j].matches })
	if len(rows) > a.MaxResults {
		rows = rows[:a.MaxResults]
	}
	var subs []types.Subscription
	for _, r := range rows {
		if r.uid == user {
			continue
		}
		u := a.Users[r.uid]
		var sub types.Subscription
		sub.CreatedAt = u.CreatedAt
		sub.UpdatedAt = u.UpdatedAt
		sub.User = r.uid.String()
		sub.SetPublic(vmemCopyAny(u.Public))
		sub.SetTrusted(vmemCopyAny(u.Trusted))
		sub.SetDefaultAccess(u.Access.Auth, u.Access.Anon)
		sub.Private = r.found
		subs = append(subs, sub)
	}
	return subs, nil
}

// FindTopics searches topics by tags. Same matching and ordering as FindUsers, ties by name.
func (a *vMemAdapter) FindTopics(req [][]string, opt []string, activeOnly bool) ([]types.Subscription, error) {
	if err := a.vmemEnter("FindTopics"); err != nil {
		return nil, err
	}
	defer a.vmemLeave()

	type row struct {
		name    string
		matches int
		found   []string
	}
	var rows []row
	for _, name := range a.vmemTopicNames() {
		tp := a.Topics[name]
		if activeOnly && tp.State != types.StateOK {
			continue
		}
		if n, found, ok := vmemMatchTags(tp.Tags, req, opt); ok {
			rows = append(rows, row{name, n, found})
		}
	}
	sort.SliceStable(rows, func(i, j int) bool { return rows[i].matches > rows[j].matches })
	if len(rows) > a.MaxResults {
		rows = rows[:a.MaxResults]
	}
	var subs []types.Subscription
	for _, r := range rows {
		tp := a.Topics[r.name]
		var sub types.Subscription
		sub.CreatedAt = tp.CreatedAt
		sub.UpdatedAt = tp.UpdatedAt
		sub.Topic = r.name
		if tp.UseBt {
			sub.Topic = types.GrpToChn(r.name)
		}
		sub.SetPublic(vmemCopyAny(tp.Public))
		sub.SetTrusted(vmemCopyAny(tp.Trusted))
		sub.SetDefaultAccess(tp.Access.Auth, tp.Access.Anon)
		sub.Private = r.found
		subs = append(subs, sub)
	}
	return subs, nil
}

// Messages.

// MessageSave inserts the message and replaces its id with the AUTO_INCREMENT row id, like
// MySQL. UNIQUE(topic, seqid): types.ErrDuplicate (MySQL: raw error).
func (a *vMemAdapter) MessageSave(msg *types.Message) error {
	if err := a.vmemEnter("MessageSave"); err != nil {
		return err
	}
	defer a.vmemLeave()

	if a.EnforceFK && a.Topics[msg.Topic] == nil {
		return vmemErrFK
	}
	msgs := a.Messages[msg.Topic]
	at := sort.Search(len(msgs), func(i int) bool { return msgs[i].SeqId >= msg.SeqId })
	if at < len(msgs) && msgs[at].SeqId == msg.SeqId {
		return types.ErrDuplicate
	}
	a.LastMsgId++
	row := types.Message{
		SeqId:   msg.SeqId,
		Topic:   msg.Topic,
		From:    vmemNormUidStr(msg.From),
		Head:    vmemJSONHead(msg.Head),
		Content: vmemJSON(msg.Content),
	}
	row.SetUid(types.Uid(a.LastMsgId))
	row.CreatedAt = msg.CreatedAt
	row.UpdatedAt = msg.UpdatedAt
	msgs = append(msgs, types.Message{})
	copy(msgs[at+1:], msgs[at:])
	msgs[at] = row
	a.Messages[msg.Topic] = msgs

	msg.SetUid(types.Uid(a.LastMsgId))
	return nil
}

// vmemInRange checks if seq is in the range stored in a dellog row: [Low, Hi).
func vmemInRange(r types.Range, seq int) bool {
	return r.Low <= seq && seq <= r.Hi-1
}

// MessageGetAll returns messages with seqid in [Since, Before) which are not hard-deleted
// (delid=0) and not covered by a dellog row with deletedfor=forUser, in descending order of
// seqid, no more than min(opts.Limit, MaxMessageResults).
func (a *vMemAdapter) MessageGetAll(topic string, forUser types.Uid, opts *types.QueryOpt) ([]types.Message, error) {
	if err := a.vmemEnter("MessageGetAll"); err != nil {
		return nil, err
	}
	defer a.vmemLeave()

	limit := a.MaxMessageResults
	lower := 0
	upper := 1<<31 - 1
	if opts != nil {
		if opts.Since > 0 {
			lower = opts.Since
		}
		if opts.Before > 0 {
			upper = opts.Before - 1
		}
		if opts.Limit > 0 && opts.Limit < limit {
			limit = opts.Limit
		}
	}

	forStr := forUser.String()
	rows := a.Messages[topic]
	dellog := a.Dellog[topic]
	msgs := make([]types.Message, 0, limit)
	for i := len(rows) - 1; i >= 0 && len(msgs) < limit; i-- {
		m := &rows[i]
		if m.DelId != 0 || m.SeqId < lower || m.SeqId > upper {
			continue
		}
		hidden := false
		for j := range dellog {
			if dellog[j].DeletedFor == forStr && vmemInRange(dellog[j].SeqIdRanges[0], m.SeqId) {
				hidden = true
				break
			}
		}
		if !hidden {
			msgs = append(msgs, vmemCopyMsg(m, false))
		}
	}
	return msgs, nil
}

// vmemMsgDelList is messageDeleteList of the MySQL adapter.
func (a *vMemAdapter) vmemMsgDelList(topic string, toDel *types.DelMessage) error {
	if toDel == nil {
		delete(a.Dellog, topic)
		a.vmemDeleteMessages(topic)
		return nil
	}
	if len(toDel.SeqIdRanges) > 0 && a.EnforceFK && a.Topics[topic] == nil {
		return vmemErrFK
	}
	// The dellog row keeps the parsed uid: 0 for an empty or invalid string.
	forUser := vmemNormUidStr(toDel.DeletedFor)
	for _, rng := range toDel.SeqIdRanges {
		if rng.Hi == 0 {
			rng.Hi = rng.Low + 1
		}
		a.Dellog[topic] = append(a.Dellog[topic], types.DelMessage{
			Topic:       topic,
			DeletedFor:  forUser,
			DelId:       toDel.DelId,
			SeqIdRanges: []types.Range{rng},
		})
	}
	// Hard-delete is decided by the original string. MySQL adapter panics on an empty list of
	// ranges here; this is a no-op.
	if toDel.DeletedFor == "" && len(toDel.SeqIdRanges) > 0 {
		now := a.vmemNow()
		ids := map[int64]struct{}{}
		rows := a.Messages[topic]
		for i := range rows {
			m := &rows[i]
			if m.DeletedAt != nil {
				continue
			}
			for _, rng := range toDel.SeqIdRanges {
				if (rng.Hi == 0 && m.SeqId == rng.Low) || (rng.Hi != 0 && rng.Low <= m.SeqId && m.SeqId < rng.Hi) {
					ids[int64(m.Uid())] = struct{}{}
					m.DeletedAt = vmemCopyTimePtr(&now)
					m.DelId = toDel.DelId
					m.Head = nil
					m.Content = nil
					break
				}
			}
		}
		if len(ids) > 0 {
			a.vmemFilterLinks(func(l *vMemFileLink) bool {
				_, ok := ids[l.MsgId]
				return l.MsgId != 0 && ok
			})
		}
	}
	return nil
}

// MessageDeleteList deletes messages. toDel==nil: all messages (with file links) and the
// dellog of the topic. Otherwise one dellog row per range is added and, if toDel.DeletedFor is
// empty (hard), not yet hard-deleted messages in the ranges get deletedat=now, delid, head and
// content erased and their file links removed.
func (a *vMemAdapter) MessageDeleteList(topic string, toDel *types.DelMessage) error {
	if err := a.vmemEnter("MessageDeleteList"); err != nil {
		return err
	}
	defer a.vmemLeave()
	return a.vmemMsgDelList(topic, toDel)
}

// MessageGetDeleted returns dellog rows with deletedfor 0 or forUser and delid in
// [Since, Before) in ascending order of delid, LIMIT on rows, consecutive rows of the same delid
// merged. A range of one id has Hi=0.
func (a *vMemAdapter) MessageGetDeleted(topic string, forUser types.Uid, opts *types.QueryOpt) ([]types.DelMessage, error) {
	if err := a.vmemEnter("MessageGetDeleted"); err != nil {
		return nil, err
	}
	defer a.vmemLeave()

	limit := a.MaxResults
	lower := 0
	upper := 1<<31 - 1
	if opts != nil {
		if opts.Since > 0 {
			lower = opts.Since
		}
		if opts.Before > 1 {
			upper = opts.Before - 1
		}
		if opts.Limit > 0 && opts.Limit < limit {
			limit = opts.Limit
		}
	}

	forStr := forUser.String()
	var rows []types.DelMessage
	for _, d := range a.Dellog[topic] {
		if d.DelId >= lower && d.DelId <= upper && (d.DeletedFor == "" || d.DeletedFor == forStr) {
			rows = append(rows, d)
		}
	}
	sort.SliceStable(rows, func(i, j int) bool { return rows[i].DelId < rows[j].DelId })
	if len(rows) > limit {
		rows = rows[:limit]
	}

	var dmsgs []types.DelMessage
	var dmsg types.DelMessage
	for _, d := range rows {
		if d.DelId != dmsg.DelId {
			if dmsg.DelId > 0 {
				dmsgs = append(dmsgs, dmsg)
			}
			dmsg.DelId = d.DelId
			dmsg.Topic = d.Topic
			dmsg.DeletedFor = d.DeletedFor
			dmsg.SeqIdRanges = nil
		}
		rng := d.SeqIdRanges[0]
		if rng.Hi <= rng.Low+1 {
			rng.Hi = 0
		}
		dmsg.SeqIdRanges = append(dmsg.SeqIdRanges, rng)
	}
	if dmsg.DelId > 0 {
		dmsgs = append(dmsgs, dmsg)
	}
	return dmsgs, nil
}

// Devices.

func vmemDeviceHasher(deviceID string) string {
	hasher := fnv.New64()
	hasher.Write([]byte(deviceID))
	return strconv.FormatUint(uint64(hasher.Sum64()), 16)
}

// DeviceUpsert removes any record of the device id (of any user) and adds a new one.
func (a *vMemAdapter) DeviceUpsert(uid types.Uid, dev *types.DeviceDef) error {
	if err := a.vmemEnter("DeviceUpsert"); err != nil {
		return err
	}
	defer a.vmemLeave()

	if !a.vmemUserExists(uid) {
		return vmemErrFK
	}
	hash := vmemDeviceHasher(dev.DeviceId)
	var keep []vMemDeviceRec
	for _, d := range a.Devices {
		if d.Hash != hash {
			keep = append(keep, d)
		}
	}
	a.LastDevId++
	a.Devices = append(keep, vMemDeviceRec{Id: a.LastDevId, User: uid, Hash: hash, Def: *dev})
	return nil
}

// DeviceGetAll returns devices of the given users in insertion order and their count.
func (a *vMemAdapter) DeviceGetAll(uids ...types.Uid) (map[types.Uid][]types.DeviceDef, int, error) {
	if err := a.vmemEnter("DeviceGetAll"); err != nil {
		return nil, 0, err
	}
	defer a.vmemLeave()

	want := make(map[types.Uid]struct{}, len(uids))
	for _, uid := range uids {
		want[uid] = struct{}{}
	}
	result := make(map[types.Uid][]types.DeviceDef)
	count := 0
	for _, d := range a.Devices {
		if _, ok := want[d.User]; ok {
			result[d.User] = append(result[d.User], d.Def)
			count++
		}
	}
	return result, count, nil
}

// DeviceDelete deletes one (deviceID is not empty) or all devices of the user.
// types.ErrNotFound if nothing was deleted.
func (a *vMemAdapter) DeviceDelete(uid types.Uid, deviceID string) error {
	if err := a.vmemEnter("DeviceDelete"); err != nil {
		return err
	}
	defer a.vmemLeave()

	hash := ""
	if deviceID != "" {
		hash = vmemDeviceHasher(deviceID)
	}
	var keep []vMemDeviceRec
	count := 0
	for _, d := range a.Devices {
		if d.User == uid && (deviceID == "" || d.Hash == hash) {
			count++
		} else {
			keep = append(keep, d)
		}
	}
	if count == 0 {
		return types.ErrNotFound
	}
	a.Devices = keep
	return nil
}

// Files.

// FileStartUpload creates a file record. Duplicate id: types.ErrDuplicate (MySQL: raw error).
func (a *vMemAdapter) FileStartUpload(fd *types.FileDef) error {
	if err := a.vmemEnter("FileStartUpload"); err != nil {
		return err
	}
	defer a.vmemLeave()

	fid := fd.Uid().String()
	if a.Files[fid] != nil {
		return types.ErrDuplicate
	}
	row := &types.FileDef{
		Status:   fd.Status,
		User:     vmemNormUidStr(fd.User),
		MimeType: fd.MimeType,
		Size:     fd.Size,
		Location: fd.Location,
	}
	row.SetUid(fd.Uid())
	row.CreatedAt = fd.CreatedAt
	row.UpdatedAt = fd.UpdatedAt
	a.Files[fid] = row
	return nil
}

// FileFinishUpload on success sets updatedat=now, status, size; on failure deletes the record
// (and its links by cascade). Like MySQL it updates and returns the caller's fd.
func (a *vMemAdapter) FileFinishUpload(fd *types.FileDef, success bool, size int64) (*types.FileDef, error) {
	if err := a.vmemEnter("FileFinishUpload"); err != nil {
		return nil, err
	}
	defer a.vmemLeave()

	now := a.vmemNow()
	fid := fd.Uid().String()
	if success {
		if row := a.Files[fid]; row != nil {
			row.UpdatedAt = now
			row.Status = types.UploadCompleted
			row.Size = size
		}
		fd.Status = types.UploadCompleted
		fd.Size = size
	} else {
		if a.Files[fid] != nil {
			delete(a.Files, fid)
			a.vmemFilterLinks(func(l *vMemFileLink) bool { return l.FileId == fid })
		}
		fd.Status = types.UploadFailed
		fd.Size = 0
	}
	fd.UpdatedAt = now
	return fd, nil
}

// FileGet returns the file record or (nil, nil); types.ErrMalformed for an invalid id.
func (a *vMemAdapter) FileGet(fid string) (*types.FileDef, error) {
	if err := a.vmemEnter("FileGet"); err != nil {
		return nil, err
	}
	defer a.vmemLeave()

	id := types.ParseUid(fid)
	if id.IsZero() {
		return nil, types.ErrMalformed
	}
	row := a.Files[id.String()]
	if row == nil {
		return nil, nil
	}
	c := *row
	return &c, nil
}

// FileDeleteUnused deletes records of files which have no links and, if olderThan is not zero,
// updatedat<olderThan; no more than limit if it is positive, in the order of file ids (MySQL:
// unspecified). Returns non-empty locations of deleted records.
func (a *vMemAdapter) FileDeleteUnused(olderThan time.Time, limit int) ([]string, error) {
	if err := a.vmemEnter("FileDeleteUnused"); err != nil {
		return nil, err
	}
	defer a.vmemLeave()

	linked := map[string]struct{}{}
	for i := range a.FileLinks {
		linked[a.FileLinks[i].FileId] = struct{}{}
	}
	fids := make([]string, 0, len(a.Files))
	for fid := range a.Files {
		fids = append(fids, fid)
	}
	sort.Strings(fids)
	var locations []string
	count := 0
	for _, fid := range fids {
		row := a.Files[fid]
		if _, ok := linked[fid]; ok {
			continue
		}
		if !olderThan.IsZero() && !row.UpdatedAt.Before(olderThan) {
			continue
		}
		if limit > 0 && count >= limit {
			break
		}
		count++
		if row.Location != "" {
			locations = append(locations, row.Location)
		}
		delete(a.Files, fid)
	}
	return locations, nil
}

func (a *vMemAdapter) vmemMsgRowExists(id int64) bool {
	for _, msgs := range a.Messages {
		for i := range msgs {
			if int64(msgs[i].Uid()) == id {
				return true
			}
		}
	}
	return false
}

// FileLinkAttachments links files to a message (all fids, earlier links are kept), or to a
// topic, or to a user (the first fid only, earlier links of the topic/user are replaced).
func (a *vMemAdapter) FileLinkAttachments(topic string, userId, msgId types.Uid, fids []string) error {
	if err := a.vmemEnter("FileLinkAttachments"); err != nil {
		return err
	}
	defer a.vmemLeave()

	if len(fids) == 0 || (topic == "" && msgId.IsZero() && userId.IsZero()) {
		return types.ErrMalformed
	}
	now := a.vmemNow()

	link := vMemFileLink{CreatedAt: now}
	if !msgId.IsZero() {
		link.MsgId = int64(msgId)
	} else if topic != "" {
		link.Topic = topic
		fids = fids[0:1]
	} else {
		link.UserId = userId
		fids = fids[0:1]
	}

	var ids []string
	for _, fid := range fids {
		id := types.ParseUid(fid)
		if id.IsZero() {
			return types.ErrMalformed
		}
		ids = append(ids, id.String())
	}

	if a.EnforceFK {
		for _, id := range ids {
			if a.Files[id] == nil {
				return vmemErrFK
			}
		}
		if (link.MsgId != 0 && !a.vmemMsgRowExists(link.MsgId)) ||
			(link.Topic != "" && a.Topics[link.Topic] == nil) ||
			(!link.UserId.IsZero() && a.Users[link.UserId] == nil) {
			return vmemErrFK
		}
	}

	// Unlink earlier uploads on the same topic or user allowing them to be garbage-collected.
	if msgId.IsZero() {
		a.vmemFilterLinks(func(l *vMemFileLink) bool {
			if link.Topic != "" {
				return l.Topic == link.Topic
			}
			return !l.UserId.IsZero() && l.UserId == link.UserId
		})
	}
	for _, id := range ids {
		a.LastLinkId++
		l := link
		l.Id = a.LastLinkId
		l.FileId = id
		a.FileLinks = append(a.FileLinks, l)
	}
	return nil
}

// Persistent cache.

// PCacheGet returns the value or types.ErrNotFound.
func (a *vMemAdapter) PCacheGet(key string) (string, error) {
	if err := a.vmemEnter("PCacheGet"); err != nil {
		return "", err
	}
	defer a.vmemLeave()

	if rec, ok := a.PCache[key]; ok {
		return rec.Value, nil
	}
	return "", types.ErrNotFound
}

// PCacheUpsert inserts (failOnDuplicate: types.ErrDuplicate if the key exists) or replaces the entry.
func (a *vMemAdapter) PCacheUpsert(key string, value string, failOnDuplicate bool) error {
	if err := a.vmemEnter("PCacheUpsert"); err != nil {
		return err
	}
	defer a.vmemLeave()

	if strings.Contains(key, "%") {
		return types.ErrMalformed
	}
	if _, ok := a.PCache[key]; ok && failOnDuplicate {
		return types.ErrDuplicate
	}
	a.PCache[key] = vMemPCacheRec{Value: value, Created: a.vmemNow()}
	return nil
}

// PCacheDelete deletes the entry, if any.
func (a *vMemAdapter) PCacheDelete(key string) error {
	if err := a.vmemEnter("PCacheDelete"); err != nil {
		return err
	}
	defer a.vmemLeave()

	delete(a.PCache, key)
	return nil
}

// vmemLike is SQL LIKE: '%' matches any sequence, '_' any single character, '\' escapes.
// Unlike MySQL with the default collation the match is case sensitive.
func vmemLike(s, pattern []rune) bool {
	if len(pattern) == 0 {
		return len(s) == 0
	}
	switch pattern[0] {
	case '%':
		for i := 0; i <= len(s); i++ {
			if vmemLike(s[i:], pattern[1:]) {
				return true
			}
		}
		return false
	case '_':
		return len(s) > 0 && vmemLike(s[1:], pattern[1:])
	case '\\':
		if len(pattern) > 1 {
			return len(s) > 0 && s[0] == pattern[1] && vmemLike(s[1:], pattern[2:])
		}
	}
	return len(s) > 0 && s[0] == pattern[0] && vmemLike(s[1:], pattern[1:])
}

// PCacheExpire deletes entries with key LIKE keyPrefix% created before olderThan.
func (a *vMemAdapter) PCacheExpire(keyPrefix string, olderThan time.Time) error {
	if err := a.vmemEnter("PCacheExpire"); err != nil {
		return err
	}
	defer a.vmemLeave()

	if keyPrefix == "" {
		return types.ErrMalformed
	}
	pattern := []rune(keyPrefix + "%")
	for key, rec := range a.PCache {
		if rec.Created.Before(olderThan) && vmemLike([]rune(key), pattern) {
			delete(a.PCache, key)
		}
	}
	return nil
}

// Self-test.

func TestVmemSelf(tt *testing.T) {
	a := vmemNew()
	base := time.Date(2024, 1, 2, 3, 4, 5, 0, time.UTC)
	tick := 0
	a.NowFn = func() time.Time {
		tick++
		return base.Add(time.Duration(tick) * time.Second)
	}
	if err := a.Open(nil); err != nil || !a.IsOpen() || a.GetName() != "vmem" || a.Version() != 113 {
		tt.Fatal("open/name/version")
	}
	if v, err := a.GetDbVersion(); v != 113 || err != nil || a.CheckDbVersion() != nil {
		tt.Fatal("db version")
	}
	a.SetMaxResults(0)
	if a.MaxResults != 1024 || a.MaxMessageResults != 100 {
		tt.Fatal("defaults", a.MaxResults, a.MaxMessageResults)
	}
	check := func(cond bool, args ...any) {
		tt.Helper()
		if !cond {
			tt.Fatal(args...)
		}
	}
	noerr := func(err error) {
		tt.Helper()
		if err != nil {
			tt.Fatal("unexpected error: ", err)
		}
	}

	// Users.
	u1, u2, u3 := types.Uid(1001), types.Uid(1002), types.Uid(1003)
	mkUser := func(uid types.Uid, tags ...string) *types.User {
		u := &types.User{Public: map[string]any{"fn": "user" + uid.String()}, Tags: tags,
			Access: types.DefaultAccess{Auth: types.ModeCAuth, Anon: types.ModeNone}}
		u.SetUid(uid)
		u.CreatedAt = base
		u.UpdatedAt = base
		return u
	}
	in1 := mkUser(u1, "email:a@example.com", "alice")
	noerr(a.UserCreate(in1))
	noerr(a.UserCreate(mkUser(u2, "email:b@example.com", "bob", "alice")))
	noerr(a.UserCreate(mkUser(u3)))
	check(a.UserCreate(mkUser(u1)) == types.ErrDuplicate, "duplicate user")
	check(a.UserCreate(mkUser(types.Uid(1004), "x", "x")) == types.ErrDuplicate, "duplicate tags")
	// Input is copied.
	in1.Public.(map[string]any)["fn"] = "mutated"
	in1.Tags[0] = "mutated"
	got, err := a.UserGet(u1)
	noerr(err)
	check(got != nil && got.Public.(map[string]any)["fn"] == "user"+u1.String() && got.Tags[0] == "email:a@example.com", "input not copied")
	// Output is a copy.
	got.Public.(map[string]any)["fn"] = "mutated"
	got.Tags[0] = "mutated"
	got, _ = a.UserGet(u1)
	check(got.Public.(map[string]any)["fn"] == "user"+u1.String() && got.Tags[0] == "email:a@example.com", "output not copied")
	all, err := a.UserGetAll(u2, u1, types.Uid(77))
	noerr(err)
	check(len(all) == 2 && all[0].Uid() == u1 && all[1].Uid() == u2, "UserGetAll")
	nouser, err := a.UserGet(types.Uid(77))
	check(nouser == nil && err == nil, "missing user")

	// Search.
	found, err := a.FindUsers(u3, [][]string{{"alice"}}, []string{"bob"}, true)
	noerr(err)
	check(len(found) == 2 && found[0].User == u2.String() && found[1].User == u1.String(), "FindUsers order", found)
	check(len(found[0].Private.([]string)) == 2, "FindUsers matched tags")
	found, _ = a.FindUsers(u2, [][]string{{"alice"}, {"bob", "carol"}}, nil, true)
	check(len(found) == 0, "FindUsers skips the caller")
	found, _ = a.FindUsers(u3, [][]string{{"alice"}, {"bob", "carol"}}, nil, true)
	check(len(found) == 1 && found[0].User == u2.String(), "FindUsers AND of ORs")
	tags, err := a.UserUpdateTags(u3, []string{"carol", "carol"}, nil, nil)
	noerr(err)
	check(len(tags) == 1, "UserUpdateTags add", tags)
	_, err = a.UserUpdateTags(u3, nil, nil, []string{"z", "z"})
	check(err == types.ErrDuplicate, "UserUpdateTags reset dup")
	tags, _ = a.UserUpdateTags(u3, []string{"dave"}, []string{"carol"}, nil)
	check(len(tags) == 1 && tags[0] == "dave", "UserUpdateTags remove", tags)

	// Auth.
	noerr(a.AuthAddRecord(u1, "basic", "basic:alice", auth.LevelAuth, []byte("secret"), time.Time{}))
	check(a.AuthAddRecord(u2, "basic", "basic:alice", auth.LevelAuth, []byte("x"), time.Time{}) == types.ErrDuplicate, "auth unique")
	check(a.AuthAddRecord(types.Uid(77), "basic", "basic:ghost", auth.LevelAuth, nil, time.Time{}) == vmemErrFK, "auth FK")
	uid, lvl, secret, _, err := a.AuthGetUniqueRecord("basic:alice")
	check(uid == u1 && lvl == auth.LevelAuth && string(secret) == "secret" && err == nil, "AuthGetUniqueRecord")
	uid, _, _, _, err = a.AuthGetUniqueRecord("basic:nobody")
	check(uid.IsZero() && err == nil, "AuthGetUniqueRecord missing")
	_, _, _, _, err = a.AuthGetRecord(u2, "basic")
	check(err == types.ErrNotFound, "AuthGetRecord missing")
	check(a.AuthUpdRecord(u2, "basic", "", auth.LevelAuth, nil, time.Time{}) == types.ErrNotFound, "AuthUpdRecord missing")
	noerr(a.AuthUpdRecord(u1, "basic", "basic:alice2", auth.LevelRoot, nil, time.Time{}))
	uname, lvl, _, _, _ := a.AuthGetRecord(u1, "basic")
	check(uname == "basic:alice2" && lvl == auth.LevelRoot, "AuthUpdRecord")

	// Credentials.
	mkCred := func(uid types.Uid, val string, done bool) *types.Credential {
		c := &types.Credential{User: uid.String(), Method: "email", Value: val, Resp: "123", Done: done}
		c.CreatedAt = base
		c.UpdatedAt = base
		return c
	}
	ins, err := a.CredUpsert(mkCred(u1, "a@example.com", false))
	check(ins && err == nil, "CredUpsert insert")
	ins, err = a.CredUpsert(mkCred(u1, "a@example.com", false))
	check(!ins && err == nil, "CredUpsert update")
	act, _ := a.CredGetActive(u1, "email")
	check(act != nil && act.Value == "a@example.com" && act.User == u1.String(), "CredGetActive")
	noerr(a.CredFail(u1, "email"))
	check(a.CredDel(u1, "email", "a@example.com") == types.ErrNotFound && len(a.Creds) == 1, "CredDel with retries")
	noerr(a.CredConfirm(u1, "email"))
	check(a.CredConfirm(u1, "email") == types.ErrNotFound, "CredConfirm twice")
	who, _ := a.UserGetByCred("email", "a@example.com")
	check(who == u1, "UserGetByCred")
	_, err = a.CredUpsert(mkCred(u2, "a@example.com", false))
	check(err == types.ErrDuplicate, "CredUpsert validated elsewhere")
	creds, _ := a.CredGetAll(u1, "", true)
	check(len(creds) == 1 && creds[0].Done, "CredGetAll")
	unval, _ := a.UserGetUnvalidated(base.Add(time.Hour), 10)
	check(len(unval) == 2 && unval[0] == u2 && unval[1] == u3, "UserGetUnvalidated", unval)
	noerr(a.CredDel(u1, "email", "a@example.com"))
	check(len(a.Creds) == 0, "CredDel validated")

	// Group topic with subscriptions.
	grp := "grpAAAAAAAAAAA"
	topic := &types.Topic{Owner: u1.String(), Tags: []string{"cats"}, TouchedAt: base,
		Access: types.DefaultAccess{Auth: types.ModeCPublic, Anon: types.ModeNone}}
	topic.Id = grp
	topic.CreatedAt = base
	topic.UpdatedAt = base
	noerr(a.TopicCreate(topic))
	check(a.TopicCreate(topic) == types.ErrDuplicate, "duplicate topic")
	mkSub := func(topic string, uid types.Uid, want, given types.AccessMode) *types.Subscription {
		s := &types.Subscription{User: uid.String(), Topic: topic, ModeWant: want, ModeGiven: given,
			Private: map[string]any{"note": uid.String()}}
		s.CreatedAt = base
		s.UpdatedAt = base
		return s
	}
	noerr(a.TopicShare([]*types.Subscription{
		mkSub(grp, u1, types.ModeCFull, types.ModeCFull),
		mkSub(grp, u2, types.ModeCPublic, types.ModeCPublic)}))
	check(a.TopicShare([]*types.Subscription{mkSub(grp, u3, 0, 0), mkSub(grp, types.Uid(77), 0, 0)}) == vmemErrFK &&
		len(a.Subs) == 2, "TopicShare FK is all or nothing")
	tp, err := a.TopicGet(grp)
	noerr(err)
	check(tp != nil && tp.Owner == u1.String() && tp.Tags[0] == "cats" && tp.SeqId == 0, "TopicGet")
	none, err := a.TopicGet("grpBBBBBBBBBBB")
	check(none == nil && err == nil, "TopicGet missing")
	own, _ := a.OwnTopics(u1)
	check(len(own) == 1 && own[0] == grp, "OwnTopics")
	ftop, _ := a.FindTopics([][]string{{"cats"}}, nil, true)
	check(len(ftop) == 1 && ftop[0].Topic == grp, "FindTopics")

	// Messages.
	for seq := 1; seq <= 5; seq++ {
		msg := &types.Message{SeqId: seq, Topic: grp, From: u1.String(), Head: types.MessageHeaders{"n": seq},
			Content: map[string]any{"txt": "m" + strconv.Itoa(seq)}}
		msg.SetUid(types.Uid(5000 + seq))
		msg.CreatedAt = base.Add(time.Duration(seq) * time.Minute)
		msg.UpdatedAt = msg.CreatedAt
		noerr(a.TopicUpdateOnMessage(grp, msg))
		noerr(a.MessageSave(msg))
		check(msg.Uid() == types.Uid(seq), "message id replaced by row id", msg.Id)
	}
	dupMsg := &types.Message{SeqId: 3, Topic: grp}
	check(a.MessageSave(dupMsg) == types.ErrDuplicate, "duplicate seqid")
	check(a.MessageSave(&types.Message{SeqId: 1, Topic: "grpBBBBBBBBBBB"}) == vmemErrFK, "message FK")
	tp, _ = a.TopicGet(grp)
	check(tp.SeqId == 5 && tp.TouchedAt.Equal(base.Add(5*time.Minute)), "TopicUpdateOnMessage")
	noerr(a.SubsUpdate(grp, u2, map[string]any{"ReadSeqId": 2, "RecvSeqId": 3, "UpdatedAt": base}))
	unread, _ := a.UserUnreadCount(u1, u2, u3)
	check(unread[u1] == 5 && unread[u2] == 3 && unread[u3] == 0, "UserUnreadCount", unread)

	seqs := func(msgs []types.Message) string {
		var out []string
		for _, m := range msgs {
			out = append(out, strconv.Itoa(m.SeqId))
		}
		return strings.Join(out, ",")
	}
	msgs, err := a.MessageGetAll(grp, u1, nil)
	noerr(err)
	check(seqs(msgs) == "5,4,3,2,1", "MessageGetAll all", seqs(msgs))
	check(msgs[0].Id == "" && msgs[0].From == u1.String() && msgs[0].Head["n"] == float64(5), "message fields", msgs[0])
	msgs[0].Content.(map[string]any)["txt"] = "mutated"
	msgs, _ = a.MessageGetAll(grp, u1, &types.QueryOpt{Since: 2, Before: 5, Limit: 2})
	check(seqs(msgs) == "4,3", "MessageGetAll range and limit", seqs(msgs))
	msgs, _ = a.MessageGetAll(grp, u1, &types.QueryOpt{Since: 5})
	check(seqs(msgs) == "5" && msgs[0].Content.(map[string]any)["txt"] == "m5", "returned message is a copy")

	// Soft-delete 2 for u2, hard-delete [3,5).
	noerr(a.MessageDeleteList(grp, &types.DelMessage{Topic: grp, DelId: 1, DeletedFor: u2.String(),
		SeqIdRanges: []types.Range{{Low: 2}}}))
	// Attach a file to message 4 to see it unlinked by the hard delete.
	mkFile := func(id types.Uid, loc string) *types.FileDef {
		fd := &types.FileDef{User: u1.String(), MimeType: "image/png", Location: loc}
		fd.SetUid(id)
		fd.CreatedAt = base
		fd.UpdatedAt = base
		return fd
	}
	f1, f2, f3 := mkFile(types.Uid(9001), "loc1"), mkFile(types.Uid(9002), "loc2"), mkFile(types.Uid(9003), "loc3")
	for _, fd := range []*types.FileDef{f1, f2, f3} {
		noerr(a.FileStartUpload(fd))
	}
	check(a.FileStartUpload(f1) == types.ErrDuplicate, "duplicate file")
	fin, err := a.FileFinishUpload(f1, true, 42)
	noerr(err)
	check(fin == f1 && f1.Status == types.UploadCompleted && f1.Size == 42, "FileFinishUpload")
	gotFd, _ := a.FileGet(f1.Id)
	check(gotFd != nil && gotFd.Size == 42 && gotFd.Status == types.UploadCompleted && gotFd.User == u1.String(), "FileGet")
	missFd, err := a.FileGet(types.Uid(9999).String())
	check(missFd == nil && err == nil, "FileGet missing")
	_, err = a.FileGet("bad")
	check(err == types.ErrMalformed, "FileGet malformed")
	noerr(a.FileLinkAttachments("", types.ZeroUid, types.Uid(4), []string{f1.Id}))
	check(a.FileLinkAttachments("", types.ZeroUid, types.Uid(44), []string{f1.Id}) == vmemErrFK, "link FK")
	noerr(a.FileLinkAttachments(grp, types.ZeroUid, types.ZeroUid, []string{f2.Id, f3.Id}))
	check(len(a.FileLinks) == 2, "topic gets a single link", a.FileLinks)
	noerr(a.FileLinkAttachments(grp, types.ZeroUid, types.ZeroUid, []string{f3.Id}))
	check(len(a.FileLinks) == 2 && a.FileLinks[1].FileId == f3.Id, "topic link replaced", a.FileLinks)
	locs, err := a.FileDeleteUnused(base.Add(time.Hour), 0)
	noerr(err)
	check(len(locs) == 1 && locs[0] == "loc2" && len(a.Files) == 2, "FileDeleteUnused", locs)

	noerr(a.MessageDeleteList(grp, &types.DelMessage{Topic: grp, DelId: 2,
		SeqIdRanges: []types.Range{{Low: 3, Hi: 5}}}))
	check(len(a.FileLinks) == 1 && a.FileLinks[0].Topic == grp, "hard delete unlinks attachments", a.FileLinks)
	stored := a.Messages[grp][3]
	check(stored.SeqId == 4 && stored.DelId == 2 && stored.Content == nil && stored.Head == nil && stored.DeletedAt != nil, "hard-deleted row")
	msgs, _ = a.MessageGetAll(grp, u1, nil)
	check(seqs(msgs) == "5,2,1", "MessageGetAll u1 after delete", seqs(msgs))
	msgs, _ = a.MessageGetAll(grp, u2, nil)
	check(seqs(msgs) == "5,1", "MessageGetAll u2 after delete", seqs(msgs))
	dels, err := a.MessageGetDeleted(grp, u1, nil)
	noerr(err)
	check(len(dels) == 1 && dels[0].DelId == 2 && dels[0].DeletedFor == "" && dels[0].SeqIdRanges[0] == types.Range{Low: 3, Hi: 5},
		"MessageGetDeleted u1", dels)
	dels, _ = a.MessageGetDeleted(grp, u2, nil)
	check(len(dels) == 2 && dels[0].DelId == 1 && dels[0].DeletedFor == u2.String() &&
		dels[0].SeqIdRanges[0] == types.Range{Low: 2} && dels[1].DelId == 2, "MessageGetDeleted u2", dels)
	dels, _ = a.MessageGetDeleted(grp, u2, &types.QueryOpt{Since: 2})
	check(len(dels) == 1 && dels[0].DelId == 2, "MessageGetDeleted since", dels)
	dels, _ = a.MessageGetDeleted(grp, u2, &types.QueryOpt{Before: 2})
	check(len(dels) == 1 && dels[0].DelId == 1, "MessageGetDeleted before", dels)

	// Topic update.
	upd := map[string]any{"DelId": 2, "UpdatedAt": base.Add(time.Hour), "Tags": []string{"dogs"},
		"Access": types.DefaultAccess{Auth: types.ModeCReadOnly, Anon: types.ModeNone}, "Public": map[string]any{"fn": "Dogs"}}
	noerr(a.TopicUpdate(grp, upd))
	check(upd["TouchedAt"] == upd["UpdatedAt"], "TopicUpdate adds TouchedAt to the map")
	tp, _ = a.TopicGet(grp)
	check(tp.DelId == 2 && tp.Tags[0] == "dogs" && tp.Access.Auth == types.ModeCReadOnly && tp.TouchedAt.Equal(base.Add(time.Hour)) &&
		tp.Public.(map[string]any)["fn"] == "Dogs", "TopicUpdate", tp)
	check(a.TopicUpdate(grp, map[string]any{"SubCnt": 1}) == vmemErrUnknownColumn, "unknown column")
	noerr(a.TopicOwnerChange(grp, u2))
	tp, _ = a.TopicGet(grp)
	check(tp.Owner == u2.String(), "TopicOwnerChange")
	noerr(a.TopicOwnerChange(grp, u1))

	// Subscriptions.
	sub, err := a.SubscriptionGet(grp, u2, false)
	noerr(err)
	check(sub != nil && sub.ReadSeqId == 2 && sub.RecvSeqId == 3 && sub.ModeWant == types.ModeCPublic &&
		sub.Private.(map[string]any)["note"] == u2.String(), "SubscriptionGet", sub)
	noerr(a.SubsUpdate(grp, types.ZeroUid, map[string]any{"DelId": 2}))
	subs, _ := a.SubsForTopic(grp, false, nil)
	check(len(subs) == 2 && subs[0].DelId == 2 && subs[1].DelId == 2, "SubsUpdate all")
	noerr(a.SubsUpdate(grp, u2, map[string]any{"ModeGiven": types.ModeCReadOnly, "Private": nil}))
	sub, _ = a.SubscriptionGet(grp, u2, false)
	check(sub.ModeGiven == types.ModeCReadOnly && sub.Private == nil, "SubsUpdate mode")
	usubs, _ := a.UsersForTopic(grp, false, nil)
	check(len(usubs) == 2 && usubs[0].GetPublic().(map[string]any)["fn"] == "user"+u1.String(), "UsersForTopic")
	tsubs, err := a.TopicsForUser(u2, false, nil)
	noerr(err)
	check(len(tsubs) == 1 && tsubs[0].Topic == grp && tsubs[0].GetSeqId() == 5 &&
		tsubs[0].GetPublic().(map[string]any)["fn"] == "Dogs", "TopicsForUser", tsubs)
	noerr(a.SubsDelete(grp, u2))
	check(a.SubsDelete(grp, u2) == types.ErrNotFound, "SubsDelete twice")
	check(len(a.Dellog[grp]) == 1 && a.Dellog[grp][0].DeletedFor == "", "SubsDelete removes soft dellog", a.Dellog[grp])
	sub, _ = a.SubscriptionGet(grp, u2, false)
	check(sub == nil, "deleted subscription is hidden")
	sub, _ = a.SubscriptionGet(grp, u2, true)
	check(sub != nil && sub.DeletedAt != nil, "deleted subscription is kept")
	usubs, _ = a.SubsForUser(u2)
	check(len(usubs) == 0, "SubsForUser skips deleted")
	// Resurrection resets counters but keeps private (undelete=true).
	noerr(a.SubsUpdate(grp, u2, map[string]any{"Private": "keep"}))
	noerr(a.TopicShare([]*types.Subscription{mkSub(grp, u2, types.ModeCPublic, types.ModeCPublic)}))
	sub, _ = a.SubscriptionGet(grp, u2, false)
	check(sub != nil && sub.DeletedAt == nil && sub.ReadSeqId == 0 && sub.DelId == 0 && sub.Private == "keep", "resurrected subscription", sub)

	// P2P.
	p2p := u1.P2PName(u3)
	s1, s3 := mkSub(p2p, u1, types.ModeCP2P, types.ModeCP2P), mkSub(p2p, u3, types.ModeCP2P, types.ModeCP2P)
	s1.SetTouchedAt(base)
	noerr(a.TopicCreateP2P(s1, s3))
	check(a.TopicCreateP2P(s1, s3) == types.ErrDuplicate, "p2p duplicate")
	tp, _ = a.TopicGet(p2p)
	check(tp != nil && tp.Owner == "" && tp.TouchedAt.Equal(base) && tp.Access.Auth == types.ModeNone, "p2p topic", tp)
	usubs, _ = a.UsersForTopic(p2p, false, nil)
	check(len(usubs) == 2, "p2p users")
	for _, s := range usubs {
		other := u1
		if s.User == u1.String() {
			other = u3
		}
		check(s.GetPublic().(map[string]any)["fn"] == "user"+other.String(), "p2p public is swapped")
	}
	tsubs, _ = a.TopicsForUser(u1, false, nil)
	check(len(tsubs) == 2 && tsubs[0].Topic == grp && tsubs[1].Topic == p2p && tsubs[1].GetWith() == u3.UserId() &&
		tsubs[1].GetPublic().(map[string]any)["fn"] == "user"+u3.String() && tsubs[1].GetDefaultAccess() != nil, "TopicsForUser p2p", tsubs)

	// Devices.
	noerr(a.DeviceUpsert(u1, &types.DeviceDef{DeviceId: "dev1", Platform: "web"}))
	noerr(a.DeviceUpsert(u2, &types.DeviceDef{DeviceId: "dev1", Platform: "ios"}))
	devs, cnt, _ := a.DeviceGetAll(u1, u2)
	check(cnt == 1 && len(devs[u2]) == 1 && devs[u2][0].Platform == "ios", "device moved to another user", devs)
	check(a.DeviceDelete(u1, "dev1") == types.ErrNotFound, "DeviceDelete missing")
	noerr(a.DeviceDelete(u2, ""))

	// PCache.
	noerr(a.PCacheUpsert("code_a", "1", true))
	check(a.PCacheUpsert("code_a", "2", true) == types.ErrDuplicate, "pcache duplicate")
	noerr(a.PCacheUpsert("code_a", "2", false))
	noerr(a.PCacheUpsert("other", "3", false))
	val, err := a.PCacheGet("code_a")
	check(val == "2" && err == nil, "PCacheGet")
	_, err = a.PCacheGet("nope")
	check(err == types.ErrNotFound, "PCacheGet missing")
	check(a.PCacheUpsert("a%b", "", false) == types.ErrMalformed && a.PCacheExpire("", base) == types.ErrMalformed, "pcache malformed")
	noerr(a.PCacheExpire("code_", base.Add(24*time.Hour)))
	check(len(a.PCache) == 1, "PCacheExpire", a.PCache)
	noerr(a.PCacheDelete("other"))
	check(len(a.PCache) == 0, "PCacheDelete")

	// Snapshot and restore.
	snap := a.vmemSnapshot()
	check(snap.CallNo == 0 && len(snap.Calls) == 0 && len(snap.Messages[grp]) == 5, "snapshot")
	noerr(a.UserUpdate(u1, map[string]any{"Public": "changed", "State": types.StateSuspended, "StateAt": base}))
	tp, _ = a.TopicGet(grp)
	check(tp.State == types.StateSuspended, "user state is propagated to owned topics")
	tp, _ = a.TopicGet(p2p)
	check(tp.State == types.StateSuspended, "user state is propagated to p2p topics")
	a.Messages[grp][0].Content = "scribble"
	check(snap.Users[u1].Public.(map[string]any)["fn"] == "user"+u1.String() && snap.Messages[grp][0].Content.(map[string]any)["txt"] == "m1",
		"snapshot is deep")
	a.vmemRestore(snap)
	got, _ = a.UserGet(u1)
	check(got.State == types.StateOK && got.Public.(map[string]any)["fn"] == "user"+u1.String(), "restore")
	a.Users[u1].Public = "scribble"
	check(snap.Users[u1].Public.(map[string]any)["fn"] == "user"+u1.String(), "restore copies the snapshot")
	a.vmemRestore(snap)

	// Fault plan.
	calls := len(a.Calls)
	a.vmemArm(2)
	_, err = a.TopicGet(grp)
	noerr(err)
	before := a.vmemSnapshot()
	check(a.TopicDelete(grp, false, true) == types.ErrInternal, "armed call must fail")
	check(a.Topics[grp] != nil && len(a.Messages[grp]) == len(before.Messages[grp]) && len(a.Subs) == len(before.Subs), "failed call must not change state")
	_, err = a.TopicGet(grp)
	noerr(err)
	check(a.CallNo == 3 && len(a.Calls) == calls+3 && a.Calls[len(a.Calls)-2] == "TopicDelete", "call log", a.CallNo)
	a.vmemDisarm()

	// Crash plan.
	a.vmemArmCrash(1)
	noerr(a.TopicDelete(grp, false, false))
	noerr(a.TopicDelete(grp, false, true))
	a.vmemDisarm()
	check(a.CrashSnap != nil && a.CrashSnap.Topics[grp] != nil && a.CrashSnap.Topics[grp].State == types.StateDeleted &&
		a.CrashSnap.Subs[vmemSubKey(grp, u1)].DeletedAt != nil, "crash snapshot holds the state after the soft delete")
	check(a.Topics[grp] == nil && len(a.Messages[grp]) == 0 && len(a.Dellog[grp]) == 0 && len(a.FileLinks) == 0 &&
		a.Subs[vmemSubKey(grp, u1)] == nil && a.Subs[vmemSubKey(p2p, u1)] != nil, "hard TopicDelete")
	locs, _ = a.FileDeleteUnused(time.Time{}, 1)
	check(len(locs) == 1 && len(a.Files) == 1, "FileDeleteUnused limit", locs)
	fin, _ = a.FileFinishUpload(f3, false, 0)
	check(fin.Status == types.UploadFailed && len(a.Files) <= 1, "FileFinishUpload failure")

	// User deletion.
	noerr(a.UserDelete(u3, false))
	got, _ = a.UserGet(u3)
	check(got == nil && a.Users[u3].State == types.StateDeleted && a.Topics[p2p].State == types.StateDeleted &&
		a.Subs[vmemSubKey(p2p, u1)].DeletedAt != nil, "soft UserDelete")
	noerr(a.UserDelete(u1, true))
	check(a.Users[u1] == nil && len(a.Auth) == 0 && a.Subs[vmemSubKey(p2p, u1)] == nil && a.Subs[vmemSubKey(p2p, u3)] != nil, "hard UserDelete")

	noerr(a.CreateDb(true))
	check(len(a.Users) == 0 && len(a.Topics) == 1 && a.Topics["sys"] != nil, "CreateDb reset")
	noerr(a.Close())
	check(!a.IsOpen(), "close")
}
