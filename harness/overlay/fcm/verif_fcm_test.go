//go:build verif

package fcm

import (
	"encoding/json"
	"testing"

	"github.com/tinode/chat/server/push"
)

// push.preview <content bytes>: the plain-text preview put into a push notification for a message whose content is a plain
// string (payloadToData). Output: the preview bytes, or "err".
func TestVerifStream(t *testing.T) {
	verifRun(t, func(ws []string) (string, bool) {
		if (ws[0] != "push.preview" && ws[0] != "push.drafty") || len(ws) != 2 {
			return "", false
		}
		b, ok := vHexDec(ws[1])
		if !ok {
			return "", false
		}
		if ws[0] == "push.drafty" {
			// push.drafty <json bytes>: a message whose content is a formatted (Drafty) document, as any client may send it: the
			// preview is built by drafty.Preview. Whatever the document says, building it must not bring the process down
			// (a panic is reported by the caller); what the preview is, is not compared.
			var doc any
			if err := json.Unmarshal(b, &doc); err != nil {
				return "notjson", true
			}
			payloadToData(&push.Payload{What: push.ActMsg, Topic: "grpX", From: "usrY", SeqId: 1, Content: doc})
			return "ok", true
		}
		data, err := payloadToData(&push.Payload{What: push.ActMsg, Topic: "grpX", From: "usrY", SeqId: 1, Content: string(b)})
		if err != nil {
			return "err", true
		}
		return vHexEnc([]byte(data["content"])), true
	})
}
