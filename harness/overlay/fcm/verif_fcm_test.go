//go:build verif

package fcm

import (
	"testing"

	"github.com/tinode/chat/server/push"
)

// push.preview <content bytes>: the plain-text preview put into a push notification for a message whose content is a plain
// string (payloadToData). Output: the preview bytes, or "err".
func TestVerifStream(t *testing.T) {
	verifRun(t, func(ws []string) (string, bool) {
		if ws[0] != "push.preview" || len(ws) != 2 {
			return "", false
		}
		b, ok := vHexDec(ws[1])
		if !ok {
			return "", false
		}
		data, err := payloadToData(&push.Payload{What: push.ActMsg, Topic: "grpX", From: "usrY", SeqId: 1, Content: string(b)})
		if err != nil {
			return "err", true
		}
		return vHexEnc([]byte(data["content"])), true
	})
}
