//go:build verif

package code

import (
	"encoding/json"
	"fmt"
	"strings"
	"testing"
	"time"

	"github.com/tinode/chat/server/auth"
	"github.com/tinode/chat/server/store"
	"github.com/tinode/chat/server/store/types"
)

// in-memory persistent cache with the contract of the SQL adapters' kvmeta table
type vPCache struct{ m map[string]string }

func (p *vPCache) Get(key string) (string, error) {
	v, ok := p.m[key]
	if !ok {
		return "", types.ErrNotFound
	}
	return v, nil
}
func (p *vPCache) Upsert(key, value string, failOnDuplicate bool) error {
	if _, ok := p.m[key]; ok && failOnDuplicate {
		return types.ErrDuplicate
	}
	p.m[key] = value
	return nil
}
func (p *vPCache) Delete(key string) error { delete(p.m, key); return nil }
func (p *vPCache) Expire(prefix string, olderThan time.Time) error { return nil }

var vCA *authenticator
var vCodes map[string]string

func verifCode(ws []string) (string, bool) {
	switch ws[0] {
	case "code.reset":
		mx, ok := vInt(ws[1])
		if !ok {
			return "", false
		}
		store.PCache = &vPCache{m: map[string]string{}}
		vCodes = map[string]string{}
		vCA = &authenticator{}
		conf, _ := json.Marshal(map[string]interface{}{"code_length": 6, "expire_in": 3600, "max_retries": mx})
		if err := vCA.Init(conf, "code"); err != nil {
			return "", false
		}
		return "ok", true
	case "code.gen":
		cred, ok1 := vHexDec(ws[1])
		uid, ok2 := vUint(ws[2])
		if !ok1 || !ok2 {
			return "", false
		}
		sec, _, err := vCA.GenSecret(&auth.Rec{Uid: types.Uid(uid), Credential: string(cred)})
		if err != nil {
			if err == types.ErrDuplicate {
				return "err dup", true
			}
			return "err other", true
		}
		vCodes[string(cred)] = string(sec)
		return "ok", true
	case "code.auth":
		cred, ok1 := vHexDec(ws[1])
		if !ok1 {
			return "", false
		}
		var guess string
		switch ws[2] {
		case "right":
			guess = vCodes[string(cred)]
			if guess == "" {
				guess = "000000"
			}
		case "stale":
			guess = "zzzzzz"
		default:
			guess = "wrong!"
		}
		rec, _, err := vCA.Authenticate([]byte(guess+":"+string(cred)), "")
		if err != nil {
			if err == types.ErrFailed {
				return "err failed", true
			}
			return "err other", true
		}
		return fmt.Sprintf("ok %d", uint64(rec.Uid)), true
	}
	return "", false
}

func TestVerifStream(t *testing.T) {
	verifRun(t, func(ws []string) (string, bool) {
		if strings.HasPrefix(ws[0], "code.") {
			return verifCode(ws)
		}
		return "", false
	})
}
