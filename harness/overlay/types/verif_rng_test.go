//go:build verif

package types

import (
	"fmt"
	"sort"
	"strings"
)

func vParseRanges(s string) ([]Range, bool) {
	if s == "-" {
		return nil, true
	}
	var out []Range
	for _, part := range strings.Split(s, ",") {
		lh := strings.Split(part, ":")
		if len(lh) != 2 {
			return nil, false
		}
		l, ok1 := vInt(lh[0])
		h, ok2 := vInt(lh[1])
		if !ok1 || !ok2 {
			return nil, false
		}
		out = append(out, Range{Low: l, Hi: h})
	}
	return out, true
}

func vShowRanges(rs []Range) string {
	if len(rs) == 0 {
		return "-"
	}
	parts := make([]string, len(rs))
	for i, r := range rs {
		parts[i] = fmt.Sprintf("%d:%d", r.Low, r.Hi)
	}
	return strings.Join(parts, ",")
}

func verifRng(ws []string) (string, bool) {
	switch ws[0] {
	case "rng.normalize":
		if len(ws) != 2 {
			return "", false
		}
		rs, ok := vParseRanges(ws[1])
		if !ok {
			return "", false
		}
		// the two call sites (topic.go replyDelMsg, store.go GetDeleted) sort, then normalise
		sort.Sort(RangeSorter(rs))
		rs = RangeSorter(rs).Normalize()
		return vShowRanges(rs), true
	}
	return "", false
}
