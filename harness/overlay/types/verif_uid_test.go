//go:build verif

package types

import (
	"fmt"
)

func vP2P(a, b Uid, name string) string {
	u1, u2, err := ParseP2P(name)
	if err != nil {
		return "err"
	}
	return fmt.Sprintf("ok %d %d", uint64(u1), uint64(u2))
}

func verifUid(ws []string) (string, bool) {
	switch ws[0] {
	case "uid.text":
		if len(ws) != 2 {
			return "", false
		}
		v, ok := vUint(ws[1])
		if !ok {
			return "", false
		}
		u := Uid(v)
		return vHexEnc([]byte(u.String())) + " " + vHexEnc([]byte(u.UserId())) + " " + vHexEnc([]byte(u.String32())), true
	case "uid.parse":
		if len(ws) != 2 {
			return "", false
		}
		s, ok := vHexDec(ws[1])
		if !ok {
			return "", false
		}
		return fmt.Sprintf("%d %d", uint64(ParseUid(string(s))), uint64(ParseUserId(string(s)))), true
	case "uid.roundtrip":
		if len(ws) != 2 {
			return "", false
		}
		v, ok := vUint(ws[1])
		if !ok {
			return "", false
		}
		u := Uid(v)
		// JSON form must agree with the text form
		js, _ := u.MarshalJSON()
		var uj Uid
		uj.UnmarshalJSON(js)
		p := ParseUid(u.String())
		if uj != p {
			return "json-mismatch", true
		}
		return fmt.Sprintf("%d %d %d", uint64(p), uint64(ParseUserId(u.UserId())), uint64(ParseUid32(u.String32()))), true
	case "uid.parse32":
		if len(ws) != 2 {
			return "", false
		}
		s, ok := vHexDec(ws[1])
		if !ok {
			return "", false
		}
		return fmt.Sprintf("%d", uint64(ParseUid32(string(s)))), true
	case "uid.p2p":
		if len(ws) != 3 {
			return "", false
		}
		a, ok1 := vUint(ws[1])
		b, ok2 := vUint(ws[2])
		if !ok1 || !ok2 {
			return "", false
		}
		ua, ub := Uid(a), Uid(b)
		n := ua.P2PName(ub)
		fu := func(u Uid) string {
			s, err := P2PNameForUser(u, n)
			if err != nil {
				return "err"
			}
			return vHexEnc([]byte(s))
		}
		return vHexEnc([]byte(n)) + " " + vHexEnc([]byte(ub.P2PName(ua))) + " " + vP2P(ua, ub, n) + " " + fu(ua) + " " + fu(ub), true
	case "uid.parsep2p":
		if len(ws) != 2 {
			return "", false
		}
		s, ok := vHexDec(ws[1])
		if !ok {
			return "", false
		}
		return vP2P(0, 0, string(s)), true
	case "uid.chn":
		if len(ws) != 2 {
			return "", false
		}
		b, ok := vHexDec(ws[1])
		if !ok {
			return "", false
		}
		s := string(b)
		return vHexEnc([]byte(GrpToChn(s))) + " " + vHexEnc([]byte(ChnToGrp(s))) + " " +
			vHexEnc([]byte(ChnToGrp(GrpToChn(s)))) + " " + vHexEnc([]byte(GrpToChn(ChnToGrp(s)))), true
	case "uid.db":
		if len(ws) != 3 {
			return "", false
		}
		key, ok1 := vHexDec(ws[1])
		v, ok2 := vUint(ws[2])
		if !ok1 || !ok2 || len(key) != 16 {
			return "", false
		}
		var ug UidGenerator
		if err := ug.Init(1, key); err != nil {
			return "", false
		}
		e := ug.EncodeInt64(int64(v))
		d := ug.DecodeUid(Uid(v))
		return fmt.Sprintf("%d %d %d %d", uint64(e), uint64(d), uint64(ug.DecodeUid(e)), uint64(ug.EncodeInt64(d))), true
	}
	return "", false
}
