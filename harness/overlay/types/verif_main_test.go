//go:build verif

package types

import (
	"strings"
	"testing"
)

func TestVerifStream(t *testing.T) {
	verifRun(t, func(ws []string) (string, bool) {
		switch {
		case strings.HasPrefix(ws[0], "acs."):
			return verifAcs(ws)
		case strings.HasPrefix(ws[0], "rng."):
			return verifRng(ws)
		case strings.HasPrefix(ws[0], "uid."):
			return verifUid(ws)
		}
		return "", false
	})
}
