//go:build verif

package types

import (
	"fmt"
	"strings"
)

func vMode(s string) (AccessMode, bool) {
	v, ok := vUint(s)
	return AccessMode(v), ok
}

func vRes(m AccessMode, err error) string {
	if err != nil {
		return fmt.Sprintf("err %d", uint(m))
	}
	return fmt.Sprintf("ok %d", uint(m))
}

// notifyStr mirrors nothing: it is computed by the real notifySubChange in package main. In this
// package the `acs.track` op is not served.
func verifAcs(ws []string) (string, bool) {
	switch ws[0] {
	case "acs.marshal":
		if len(ws) != 2 {
			return "", false
		}
		m, ok := vMode(ws[1])
		if !ok {
			return "", false
		}
		b, err := m.MarshalText()
		if err != nil {
			return "err", true
		}
		return "ok " + vHexEnc(b), true
	case "acs.parse":
		if len(ws) != 2 {
			return "", false
		}
		s, ok := vHexDec(ws[1])
		if !ok {
			return "", false
		}
		m, err := ParseAcs(s)
		if err != nil {
			return "err", true
		}
		return fmt.Sprintf("ok %d", uint(m)), true
	case "acs.unmarshal":
		if len(ws) != 3 {
			return "", false
		}
		t, ok1 := vMode(ws[1])
		s, ok2 := vHexDec(ws[2])
		if !ok1 || !ok2 {
			return "", false
		}
		err := t.UnmarshalText(s)
		return vRes(t, err), true
	case "acs.roundtrip":
		if len(ws) != 3 {
			return "", false
		}
		m, ok1 := vMode(ws[1])
		t, ok2 := vMode(ws[2])
		if !ok1 || !ok2 {
			return "", false
		}
		b, err := m.MarshalText()
		if err != nil {
			return "err", true
		}
		err = t.UnmarshalText(b)
		return vHexEnc(b) + " " + vRes(t, err), true
	case "acs.delta":
		if len(ws) != 3 {
			return "", false
		}
		o, ok1 := vMode(ws[1])
		n, ok2 := vMode(ws[2])
		if !ok1 || !ok2 {
			return "", false
		}
		return vHexEnc([]byte(o.Delta(n))), true
	case "acs.deltaapply":
		if len(ws) != 3 {
			return "", false
		}
		o, ok1 := vMode(ws[1])
		n, ok2 := vMode(ws[2])
		if !ok1 || !ok2 {
			return "", false
		}
		d := o.Delta(n)
		m := o
		err := m.ApplyDelta(d)
		return vHexEnc([]byte(d)) + " " + vRes(m, err), true
	case "acs.apply", "acs.mutate":
		if len(ws) != 3 {
			return "", false
		}
		m, ok1 := vMode(ws[1])
		d, ok2 := vHexDec(ws[2])
		if !ok1 || !ok2 {
			return "", false
		}
		var err error
		if ws[0] == "acs.apply" {
			err = m.ApplyDelta(string(d))
		} else {
			err = m.ApplyMutation(string(d))
		}
		return vRes(m, err), true
	case "acs.better":
		if len(ws) != 3 {
			return "", false
		}
		g, ok1 := vMode(ws[1])
		w, ok2 := vMode(ws[2])
		if !ok1 || !ok2 {
			return "", false
		}
		return fmt.Sprintf("%v %v", g.BetterThan(w), g.BetterEqual(w)), true
	case "acs.preds":
		if len(ws) != 2 {
			return "", false
		}
		m, ok := vMode(ws[1])
		if !ok {
			return "", false
		}
		bs := []bool{m.IsJoiner(), m.IsOwner(), m.IsApprover(), m.IsAdmin(), m.IsSharer(), m.IsWriter(),
			m.IsReader(), m.IsPresencer(), m.IsDeleter(), m.IsZero(), m.IsDefined()}
		parts := make([]string, len(bs))
		for i, b := range bs {
			parts[i] = fmt.Sprint(b)
		}
		return strings.Join(parts, " "), true
	}
	return "", false
}
