//go:build verif

package token

import (
	"encoding/json"
	"fmt"
	"testing"
	"time"

	"github.com/tinode/chat/server/auth"
	"github.com/tinode/chat/server/store/types"
)

func vNewAuth(key []byte, serial int) (*authenticator, bool) {
	ta := &authenticator{}
	conf, _ := json.Marshal(map[string]interface{}{"key": key, "serial_num": serial, "expire_in": 1209600})
	if err := ta.Init(conf, "token"); err != nil {
		return nil, false
	}
	return ta, true
}

func vErr(err error) string {
	switch err {
	case types.ErrMalformed:
		return "err malformed"
	case types.ErrFailed:
		return "err failed"
	case types.ErrExpired:
		return "err expired"
	}
	return "err other"
}

func verifTok(ws []string) (string, bool) {
	switch ws[0] {
	case "tok.auth":
		// tok.auth <key> <serial> <nowMs> <token> <mac>
		if len(ws) != 6 {
			return "", false
		}
		key, ok1 := vHexDec(ws[1])
		serial, ok2 := vInt(ws[2])
		tok, ok3 := vHexDec(ws[4])
		if !ok1 || !ok2 || !ok3 {
			return "", false
		}
		ta, ok := vNewAuth(key, serial)
		if !ok {
			return "", false
		}
		rec, _, err := ta.Authenticate(tok, "")
		if err != nil {
			return vErr(err), true
		}
		exp := time.Now().Add(time.Duration(rec.Lifetime)).Round(time.Second).Unix()
		return fmt.Sprintf("ok %d %d %d %d", uint64(rec.Uid), int(rec.AuthLevel), int(rec.Features), exp), true
	case "tok.rt":
		// tok.rt <key> <serial> <nowMs> <uid> <level> <features> <lifetimeSec>
		if len(ws) != 8 {
			return "", false
		}
		key, ok1 := vHexDec(ws[1])
		serial, ok2 := vInt(ws[2])
		uid, ok3 := vUint(ws[4])
		level, ok4 := vInt(ws[5])
		features, ok5 := vInt(ws[6])
		life, ok6 := vInt(ws[7])
		if !ok1 || !ok2 || !ok3 || !ok4 || !ok5 || !ok6 {
			return "", false
		}
		ta, ok := vNewAuth(key, serial)
		if !ok {
			return "", false
		}
		tok, _, err := ta.GenSecret(&auth.Rec{Uid: types.Uid(uid), AuthLevel: auth.Level(level), Features: auth.Feature(features),
			Lifetime: auth.Duration(time.Duration(life) * time.Second)})
		if err != nil {
			return vErr(err), true
		}
		rec, _, err := ta.Authenticate(tok, "")
		if err != nil {
			return vErr(err), true
		}
		return fmt.Sprintf("ok %d %d %d", uint64(rec.Uid), int(rec.AuthLevel), int(rec.Features)), true
	}
	return "", false
}

func TestVerifStream(t *testing.T) {
	verifRun(t, verifTok)
}
