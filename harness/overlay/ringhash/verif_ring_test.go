//go:build verif

package ringhash

import (
	"fmt"
	"strings"
	"testing"
)

func vNames(s string) ([]string, bool) {
	if s == "-" {
		return nil, true
	}
	var out []string
	for _, t := range strings.Split(s, ",") {
		b, ok := vHexDec(t)
		if !ok {
			return nil, false
		}
		out = append(out, string(b))
	}
	return out, true
}

func vWeak(data []byte) uint32 {
	var s uint32
	for _, b := range data {
		s += uint32(b)
	}
	return s % 7
}

func verifRing(ws []string) (string, bool) {
	switch ws[0] {
	case "ring.get":
		if len(ws) != 5 {
			return "", false
		}
		n, ok1 := vInt(ws[2])
		nodes, ok2 := vNames(ws[3])
		keys, ok3 := vNames(ws[4])
		if !ok1 || !ok2 || !ok3 {
			return "", false
		}
		var fn Hash
		if ws[1] == "weak" {
			fn = vWeak
		}
		r := New(n, fn)
		r.Add(nodes...)
		owners := make([]string, len(keys))
		for i, k := range keys {
			owners[i] = vHexEnc([]byte(r.Get(k)))
		}
		o := strings.Join(owners, ",")
		if len(owners) == 0 {
			o = "-"
		}
		return fmt.Sprintf("%s %d %s", vHexEnc([]byte(r.Signature())), r.Len(), o), true
	}
	return "", false
}

func TestVerifStream(t *testing.T) {
	verifRun(t, verifRing)
}
