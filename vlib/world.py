"""Generator of world histories (group topics): shared by the topic/store properties."""

MODES = ["JRWPASDO", "JRWPAS", "JRWPS", "JRWP", "JRW", "JR", "JRP", "RWP", "JW", "J", "N", "JRWPSD", "JRWPASD", "JRWPA", "JRWPSO", "JP", "JRWS"]


def pick_mode(rng, allow_junk=True):
    k = rng.below(20)
    if k < 14:
        return rng.choice(MODES)
    if k < 17:
        letters = "JRWPASDO"
        return "".join(c for c in letters if rng.chance(1, 2)) or "N"
    if allow_junk and k == 17:
        return rng.choice(["X", "JRX", "jrwp", "NJ", "+R"])
    return rng.choice(MODES)


def gen_case(rng, n_ops, faults=False, crashes=False):
    out = [f"reset {rng.choice([32, 32, 32, 3, 4])}"]
    users = ["U1", "U2", "U3", "U4"]
    for u in users:
        out.append(f"user {u} {rng.choice(['JRWPAS', 'JRWPAS', 'JRWPS', 'JRWP', 'N', 'JRWPASDO'])} {rng.choice(['JR', 'N', 'JRW'])}"
                   + (" state=susp" if u == "U4" and rng.chance(1, 4) else ""))
    sess = [("S1", "U1", "auth", ""), ("S2", "U2", "auth", ""), ("S3", "U3", "auth", ""), ("S4", "U1", "auth", ""),
            ("S5", "U2", "auth", "bg"), ("S6", "U4", "anon", ""), ("S7", "U3", "root", "")]
    for s, u, lvl, bg in sess:
        out.append(f"sess {s} {u} {lvl} {bg}".strip())
    ntop = 0
    contents = 0
    att = {}            # topic -> sessions that probably are attached (a guess: used only to bias the choice of actors)
    for _ in range(n_ops):
        s, su, lvl, _ = rng.choice(sess)
        k = rng.below(100)
        t = f"T{1 + rng.below(ntop)}" if ntop else None
        if t and k >= 22 and att.get(t) and rng.chance(3, 4):
            # requests other than {sub} mostly come from sessions which are attached
            s = rng.choice(sorted(att[t]))
            su, lvl = [(x[1], x[2]) for x in sess if x[0] == s][0]
        pre = []
        if t and faults and rng.chance(1, 6):
            pre.append(f"fail {1 + rng.below(4)}")
        if t and crashes and rng.chance(1, 10):
            pre.append(f"crash {1 + rng.below(3)}")
        asx = ""
        if lvl == "root" and rng.chance(1, 2):
            asx = f" as={rng.choice(users)}" + rng.choice(["", ":auth", ":anon", ":root"])
        elif rng.chance(1, 60):
            asx = f" as={rng.choice(users)}"
        if ntop == 0 or k < 4:
            if ntop >= 3:
                continue
            o = f"newgrp {s}"
            if rng.chance(1, 2):
                o += f" auth={pick_mode(rng)} anon={rng.choice(['N', 'JR', 'JRW', 'X'])}"
            if rng.chance(1, 3):
                o += f" want={pick_mode(rng)}"
            if rng.chance(1, 3):
                o += f" priv=pv{rng.below(5)}"
            if rng.chance(1, 3):
                o += f" pub=pb{rng.below(5)}"
            out.append(o + asx)
            ntop += 1
            att.setdefault(f"T{ntop}", set()).add(s)
            continue
        if k < 22:
            o = f"sub {s} {t}"
            if rng.chance(1, 3):
                o += f" mode={pick_mode(rng)}"
            if rng.chance(1, 6):
                o += f" priv={rng.choice(['pv1', 'pv2', 'null'])}"
        elif k < 32:
            o = f"leave {s} {t}" + (" unsub=1" if rng.chance(1, 3) else "")
        elif k < 52:
            contents += 1
            o = f"pub {s} {t} C{contents}"
            if rng.chance(1, 5):
                o += " noecho=1"
            if rng.chance(1, 6):
                o += f" head=" + rng.choice(["mime:text", "sender:U3", "x:y;sender:U1", "replace:m1"])
        elif k < 62:
            o = f"note {s} {t} {rng.choice(['read', 'read', 'recv', 'recv', 'kp', 'bogus'])} {rng.choice([0, 1, 2, 3, 5, 8, -1, contents, contents + 1])}"
        elif k < 72:
            what = rng.choice(["desc", "sub", "data", "data", "del", "desc", "sub", "data", "data", "del", "bogus"])
            o = f"get {s} {t} {what}"
            if what in ("data", "del") and rng.chance(1, 2):
                o += f" since={rng.below(6)} before={rng.below(8)} limit={rng.choice([0, 1, 2, 100])}"
        elif k < 82:
            o = f"setsub {s} {t}"
            if rng.chance(3, 4):
                o += f" user={rng.choice(users)}"
            if rng.chance(5, 6):
                o += f" mode={pick_mode(rng)}"
        elif k < 86:
            o = f"setdesc {s} {t}"
            if rng.chance(1, 3):
                o += f" auth={pick_mode(rng)}"
            if rng.chance(1, 4):
                o += f" anon={rng.choice(['N', 'JR', 'JRWO', 'X'])}"
            if rng.chance(1, 3):
                o += f" pub={rng.choice(['pbA', 'pbB', 'null'])}"
            if rng.chance(1, 2):
                o += f" priv={rng.choice(['pvA', 'pvB', 'null'])}"
        elif k < 92:
            rs = []
            for _ in range(1 + rng.below(3)):
                lo = rng.below(8)
                hi = rng.choice([0, lo, lo + 1, lo + 2, lo + 4, 100, lo - 1])
                rs.append(f"{lo}:{hi}")
            o = f"delmsg {s} {t} {','.join(rs)}" + (" hard=1" if rng.chance(1, 2) else "")
        elif k < 95:
            o = f"delsub {s} {t} {rng.choice(users)}"
        elif k < 96:
            o = f"deltopic {s} {t}" + (" hard=1" if rng.chance(1, 2) else "")
        elif k < 97:
            out.append(f"fg S5")
            continue
        else:
            out.append(f"unload {t}")
            if crashes and rng.chance(1, 3):
                out.append("restart")
                att = {}
            continue
        if o.startswith("sub "):
            att.setdefault(t, set()).add(s)
        elif o.startswith("leave ") or o.startswith("deltopic "):
            att.get(t, set()).discard(s)
        out.extend(pre)
        out.append(o + asx)
        if any(p.startswith("crash") for p in pre) and rng.chance(1, 2):
            out.append("restart")
            att = {}
        elif rng.chance(1, 40):
            out.append("restart")          # a clean stop and start: every topic is loaded again from the store
            att = {}
    return out


# ---------------------------------------------------------------------------------------------- stream definition

def gen_world(rng, tier):
    ncases = 500 if tier == "thorough" else 200
    for i in range(ncases):
        faults = i % 3 == 1
        crashes = i % 3 == 2
        for l in gen_case(rng, 30 + rng.below(90), faults=faults, crashes=crashes):
            yield l


def classify(op, out):
    w = op.split(" ")
    if w[0] in ("reset", "user", "sess", "fail", "crash"):
        return "trivial"
    if len(w) > 1:
        for p in out.split(" | "):
            if p.startswith(w[1] + "<-"):
                f = p.split("<-", 1)[1].split(" ")
                return f[0] + (" " + f[1] if f[0] == "ctrl" else "")
    return "silent"


def make_post(pid):
    from . import worldmon

    def post(ctx, ops, impl):
        return worldmon.run_monitor(pid, ops, impl)
    return post


def make_post_min(pid):
    """greedy removal of request lines while the same monitor rule still fails on the implementation"""
    import re
    from . import worldmon, runner

    def norm(why):
        return re.sub(r"\d+", "#", why)

    def post_min(ctx, st, binpath, case, why):
        cur = list(case)
        budget = 30
        i = len(cur) - 2
        while i >= 1 and budget > 0:
            if cur[i].split(" ")[0] in ("user", "sess", "reset"):
                i -= 1
                continue
            cand = cur[:i] + cur[i + 1:]
            impl, _, _ = runner.run_stream_once(ctx, st, binpath, cand, "min")
            budget -= 1
            res = worldmon.run_monitor(pid, cand, impl)
            if any(norm(w2) == norm(why) and len(c2) == len(cand) for c2, w2 in res):
                cur = cand
            i -= 1
        return cur
    return post_min


def world_stream(pid):
    return dict(name="world", pkg="main", test="TestVerifWorld", gen=gen_world, classify=classify, model_mode="world",
                verdict_mode=None, post=make_post(pid), post_min=make_post_min(pid))


WORLD_TRUSTED = [
    "world stream: the Go harness drives the real Session.dispatch, Hub and Topic handlers one request at a time over an in-memory "
    "store adapter (harness/overlay/main/verif_memadapter_test.go) written from the MySQL adapter's statements; the adapter is part "
    "of the trusted base, the goroutine scheduling of the real server is replaced by a deterministic pump",
    "Model/World.lean, TopicGrp.lean, TopicOps.lean, TopicReq.lean are a hand transcription of the group-topic handlers; they are "
    "tied to the code only by the differential run (same requests, byte-identical replies, traffic, adapter calls and state digests)",
    "history monitors (vlib/worldmon.py) decide the property on the implementation's own output when the tie is broken",
]
WORLD_ASSUMPTIONS = [
    "group topics only (no channels, p2p, me/fnd/sys), one server node, requests processed one at a time in arrival order",
    "at most one injected store failure or crash point per request",
]
