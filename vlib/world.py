"""Generator of world histories (group and peer-to-peer topics): shared by the topic/store properties."""
import re

MODES = ["JRWPASDO", "JRWPAS", "JRWPS", "JRWP", "JRW", "JR", "JRP", "RWP", "JW", "J", "N", "JRWPSD", "JRWPASD", "JRWPA", "JRWPSO", "JP", "JRWS"]


def pick_mode(rng, allow_junk=True):
    k = rng.below(20)
    if k < 14:
        return rng.choice(MODES)
    if k < 17:
        letters = "JRWPASDO"
        return "".join(c for c in letters if rng.chance(1, 2)) or "N"
    if allow_junk and k == 17:
        return rng.choice(["X", "JRX", "jrwp", "NJ", "+R"])
    return rng.choice(MODES)


TAGS = ["travel", "Music", "flowers", "a1", "x", "basic:alice", "basic:bob", "rest:tag", "UPPER", "music", "-dash", "b2"]


def pick_tags(rng):
    k = rng.below(10)
    if k == 0:
        return ""
    if k == 1:
        return "\u2421"
    return ",".join(rng.choice(TAGS) for _ in range(1 + rng.below(4)))


UTAGS = ["travel", "music", "flowers", "a1", "b2", "basic:alice", "rest:tag", "rest:other"]     # tags of accounts: normalised, as the server stores them


def pick_query(rng):
    """a search string for `fnd`: tags joined by `,` (OR) and `+` (standing for a space: AND), now and then quoted, in capitals, of a
    masked namespace (`rest:`), unknown, or malformed"""
    k = rng.below(12)
    if k == 0:
        return rng.choice(['"a', 'a1,,b2', '"music"x', ',', '"', 'music,', ',music', 'x', 'rest:tag', 'music,rest:tag', 'null'])
    terms = [rng.choice(UTAGS[:6] + ["music", "travel", "Music", "TRAVEL", '"music"', "zz9", "rest:tag"]) for _ in range(1 + rng.below(4))]
    q = terms[0]
    for t in terms[1:]:
        q += rng.choice([",", ",", "+", "+", "+,", ",+"]) + t
    return q


def gen_case(rng, n_ops, faults=False, crashes=False):
    out = [f"reset {rng.choice([32, 32, 32, 3, 4])}"]
    users = ["U1", "U2", "U3", "U4"]
    for u in users:
        # default access of an account as the server stores it (user.go:97-117, topic.go:2184-2203): within JRWPAS / JRWPA, and
        # with A unless it is N
        utags = sorted(set(rng.choice(UTAGS) for _ in range(rng.below(4))))
        out.append(f"user {u} {rng.choice(['JRWPAS', 'JRWPAS', 'JRWPA', 'JRWA', 'N', 'JRPAS'])} {rng.choice(['JRA', 'N', 'JRWA'])}"
                   + (" state=susp" if u == "U4" and rng.chance(1, 4) else "") + (" tags=" + ",".join(utags) if utags else ""))
    sess = [("S1", "U1", "auth", ""), ("S2", "U2", "auth", ""), ("S3", "U3", "auth", ""), ("S4", "U1", "auth", ""),
            ("S5", "U2", "auth", "bg"), ("S6", "U4", "anon", ""), ("S7", "U3", "root", "")]
    for s, u, lvl, bg in sess:
        out.append(f"sess {s} {u} {lvl} {bg}".strip())
    # the users' `me` topics: in two cases out of three some sessions attach to `me`, so that what the topics tell users who are
    # not attached (and the online/offline exchange between users) is part of the history
    me_on = rng.chance(2, 3)
    if me_on:
        for s, u, lvl, bg in sess:
            if rng.chance(1, 2):
                out.append(f"sub {s} me")
        if rng.chance(1, 5):
            # a session of an account which is gone: its {sub me} finds no account, the server logs the session out; whatever it
            # sends afterwards - also on behalf of others, if it was a root session - is refused
            lvl8 = rng.choice(["auth", "root"])
            out.append("user U5 JRWPAS N state=missing")
            out.append(f"sess S8 U5 {lvl8}")
            out.append("sub S8 me")
            sess = sess + [("S8", "U5", lvl8, "")]
    # the users' `fnd` topics: in one case out of three some sessions search
    fnd_on = rng.chance(1, 3)
    ntop = 0
    contents = 0
    chans = set()       # channel-enabled group topics: U2 and U3 come to them as channel readers (`chn:` spelling), U1 and U4 as subscribers
    readers = ("U2", "U3")
    att = {}            # topic -> sessions that probably are attached (a guess: used only to bias the choice of actors)
    for _ in range(n_ops):
        s, su, lvl, _ = rng.choice(sess)
        if me_on and rng.chance(1, 9):
            o = rng.choice([f"sub {s} me", f"sub {s} me", f"sub {s} me", f"leave {s} me", f"leave {s} me", f"unload {su}", f"unload {su}",
                            f"pub {s} me CM", f"get {s} me desc", f"get {s} me sub", f"get {s} me sub", f"leave {s} me unsub=1", f"drop {s}", "fg S5",
                            f"setsub {s} me mode={rng.choice(['JRWAS', 'JRWPAS', 'JRWPAS', 'N', 'JRWA', 'JP', 'JRWPASDO', 'X'])}", f"setsub {s} me",
                            f"setsub {s} me user={rng.choice(users)} mode=JRWPAS"])
            if faults and o.split(" ")[0] in ("sub", "leave", "get", "setsub") and rng.chance(1, 6):
                out.append(f"fail {1 + rng.below(3)}")      # a store failure, consumed by the request which follows
            out.append(o)
            continue
        if fnd_on and rng.chance(1, 7):
            o = rng.choice([f"sub {s} fnd", f"sub {s} fnd", f"setdesc {s} fnd pub={pick_query(rng)}", f"setdesc {s} fnd pub={pick_query(rng)}",
                            f"get {s} fnd sub", f"get {s} fnd sub", f"get {s} fnd sub", f"get {s} fnd desc", f"leave {s} fnd", f"leave {s} fnd unsub=1",
                            f"setdesc {s} fnd priv={rng.choice(['music', 'travel,a1', 'null', 'zz9'])}", f"pub {s} fnd CF",
                            f"setsub {s} fnd mode={rng.choice(['JPS', 'JRWPS', 'JS', 'N', 'JPSO'])}", f"unload fnd:{su}", f"drop {s}"])
            if faults and o.split(" ")[0] in ("sub", "get", "setdesc", "setsub") and rng.chance(1, 6):
                out.append(f"fail {1 + rng.below(2)}")
            out.append(o)
            continue
        k = rng.below(100)
        t = f"T{1 + rng.below(ntop)}" if ntop else None
        if t and k >= 22 and att.get(t) and rng.chance(3, 4):
            # requests other than {sub} mostly come from sessions which are attached
            s = rng.choice(sorted(att[t]))
            su, lvl = [(x[1], x[2]) for x in sess if x[0] == s][0]
        # peer-to-peer: the topic is addressed by the other user's name; the stored topic is P:<a>:<b>
        p2p = k >= 4 and rng.chance(1, 4)
        if p2p:
            peer = rng.choice([u for u in users if u != su] * 6 + [su])
            t = peer
            key = "P:" + ":".join(sorted([su, peer]))
            if k >= 22 and att.get(key) and rng.chance(3, 4):
                s = rng.choice(sorted(att[key]))
                su, lvl = [(x[1], x[2]) for x in sess if x[0] == s][0]
                others = [u for u in key[2:].split(":") if u != su]
                t = others[0] if others else su
        pre = []
        if t and faults and rng.chance(1, 6):
            pre.append(f"fail {1 + rng.below(4)}")
        if t and crashes and rng.chance(1, 10):
            pre.append(f"crash {1 + rng.below(3)}")
        asx = ""
        if lvl == "root" and rng.chance(1, 2):
            asx = f" as={rng.choice(users)}" + rng.choice(["", ":auth", ":anon", ":root"])
        elif rng.chance(1, 60):
            asx = f" as={rng.choice(users)}"
        if p2p:
            asx = ""        # on-behalf-of requests are exercised on group topics only
        ischan = (not p2p) and t in chans
        rd = ischan and su in readers
        if ischan:
            asx = ""
        ta = ("chn:" + t) if (ischan and (rd != rng.chance(1, 20))) else t
        if (ntop == 0 and not p2p) or k < 4:
            if ntop >= 3:
                continue
            o = f"newgrp {s}"
            if rng.chance(1, 2):
                o += f" auth={pick_mode(rng)} anon={rng.choice(['N', 'JR', 'JRW', 'X'])}"
            if rng.chance(1, 3):
                o += f" want={pick_mode(rng)}"
            if rng.chance(1, 3):
                o += f" priv=pv{rng.below(5)}"
            if rng.chance(1, 3):
                o += f" pub=pb{rng.below(5)}"
            if rng.chance(1, 4):
                o += " tags=" + pick_tags(rng)
            if su not in readers and rng.chance(1, 3):
                o += " chan=1"
                chans.add(f"T{ntop + 1}")
                asx = ""
            out.append(o + asx)
            ntop += 1
            att.setdefault(f"T{ntop}", set()).add(s)
            continue
        if k < 22:
            o = f"sub {s} {ta if not p2p else t}"
            if rng.chance(1, 3):
                o += f" mode={pick_mode(rng)}"
            if rng.chance(1, 6):
                o += f" priv={rng.choice(['pv1', 'pv2', 'null'])}"
        elif k < 32:
            o = f"leave {s} {ta if not p2p else t}" + (" unsub=1" if rng.chance(1, 3) else "")
        elif k < 52:
            contents += 1
            o = f"pub {s} {ta if not p2p else t} C{contents}"
            if rng.chance(1, 5):
                o += " noecho=1"
            if rng.chance(1, 6):
                o += f" head=" + rng.choice(["mime:text", "sender:U3", "x:y;sender:U1", "replace:m1"])
        elif k < 62:
            o = f"note {s} {ta if not p2p else t} {rng.choice(['read', 'read', 'recv', 'recv', 'kp', 'bogus'])} {rng.choice([0, 1, 2, 3, 5, 8, -1, contents, contents + 1])}"
        elif k < 72:
            what = rng.choice(["desc", "sub", "data", "data", "del", "desc", "sub", "data", "data", "del", "bogus", "tags"])
            o = f"get {s} {ta if not p2p else t} {what}"
            if what in ("data", "del") and rng.chance(1, 2):
                o += f" since={rng.below(6)} before={rng.below(8)} limit={rng.choice([0, 1, 2, 100])}"
        elif k < 82:
            o = f"setsub {s} {ta if not p2p else t}"
            if rd:
                pass                      # a reader changes the own mode only
            elif rng.chance(3, 4):
                o += f" user={rng.choice([u for u in users if not (ischan and u in readers)])}"
            if rng.chance(5, 6):
                o += f" mode={pick_mode(rng)}"
        elif k < 86 and rng.chance(1, 3):
            o = f"settags {s} {t} tags=" + pick_tags(rng)
        elif k < 86:
            o = f"setdesc {s} {ta if not p2p else t}"
            if rng.chance(1, 3):
                o += f" auth={pick_mode(rng)}"
            if rng.chance(1, 4):
                o += f" anon={rng.choice(['N', 'JR', 'JRWO', 'X'])}"
            if rng.chance(1, 3):
                o += f" pub={rng.choice(['pbA', 'pbB', 'null'])}"
            if rng.chance(1, 2):
                o += f" priv={rng.choice(['pvA', 'pvB', 'null'])}"
        elif k < 92:
            rs = []
            for _ in range(1 + rng.below(3)):
                lo = rng.below(8)
                hi = rng.choice([0, lo, lo + 1, lo + 2, lo + 4, 100, lo - 1])
                rs.append(f"{lo}:{hi}")
            o = f"delmsg {s} {ta if not p2p else t} {','.join(rs)}" + (" hard=1" if rng.chance(1, 2) else "")
        elif k < 95:
            o = f"delsub {s} {ta if not p2p else t} {rng.choice(users)}"
        elif k < 96:
            o = f"deltopic {s} {ta if not p2p else t}" + (" hard=1" if rng.chance(1, 2) else "")
        elif k < 97:
            out.append(rng.choice(["fg S5", "fg S5", f"drop {s}", "drop S5", f"userstate {su} susp", f"userstate {su} ok", f"userstate {su} susp"]))
            continue
        else:
            out.append(f"unload {key if p2p else t}")
            if crashes and rng.chance(1, 3):
                out.append("restart")
                att = {}
            continue
        if o.startswith("sub "):
            att.setdefault(key if p2p else t, set()).add(s)
        elif o.startswith("leave ") or o.startswith("deltopic "):
            att.get(key if p2p else t, set()).discard(s)
        out.extend(pre)
        out.append(o + asx)
        if any(p.startswith("crash") for p in pre) and rng.chance(1, 2):
            out.append("restart")
            att = {}
        elif rng.chance(1, 40):
            out.append("restart")          # a clean stop and start: every topic is loaded again from the store
            att = {}
    if me_on and rng.chance(1, 2):
        out.extend(settle(users, ntop))
    out = with_map_values(rng.fork("maps"), out)
    out = with_attachments(rng.fork("att"), out)
    out = with_sys(rng.fork("sys"), out, faults)
    out = with_p2p_raw(rng.fork("p2praw"), out, faults)
    if me_on:
        out = with_me_tags(rng.fork("metags"), out, faults)
    out = with_deluser(rng.fork("deluser"), out, faults)
    if me_on:
        out = with_me_as(rng.fork("meas"), out, faults)
    if any(o.startswith("sess S8 ") for o in out):
        # after a restart the sessions stand for new connections, logged in again - which an account that is gone cannot do: its
        # session goes straight back to being logged out
        fixed = []
        for o in out:
            fixed.append(o)
            if o == "restart":
                fixed.append("sub S8 me")
        out = fixed
    return out


def pick_deluser(r2):
    """one {del what=user}: an account deletes itself, root deletes somebody's, somebody else tries to"""
    k = r2.below(10)
    hard = " hard=1" if r2.chance(1, 2) else ""
    if k < 5:
        return f"deluser {r2.choice(['S1', 'S2', 'S3', 'S4', 'S5', 'S6'])}{hard}"
    if k < 8:
        return f"deluser S7 user={r2.choice(['U1', 'U2', 'U3', 'U4'])}{hard}"
    if k < 9:
        return f"deluser {r2.choice(['S1', 'S2', 'S6'])} user={r2.choice(['U1', 'U2', 'U3'])}{hard}"
    return f"deluser S7 user=X{hard}"


def with_map_values(r2, out):
    """`public` and `private` are usually objects: in one {set desc} out of three (group, channel and p2p topics) the value is a map - keys
    are merged into the map which is there, `null` removes a key, an empty map changes nothing"""
    vals = ["m:fn=a", "m:fn=b;note=x", "m:note=null", "m:note=y;org=acme", "m:fn=null;note=null", "m:", "m:fn=a;fn=b", "m:org=null;fn=c"]
    res = []
    for o in out:
        w = o.split(" ")
        if w[0] == "setdesc" and len(w) > 2 and w[2] not in ("me", "fnd", "sys"):
            for k in range(3, len(w)):
                if w[k].startswith(("pub=", "priv=")) and not w[k].endswith("=null") and r2.chance(1, 3):
                    w[k] = w[k].split("=", 1)[0] + "=" + r2.choice(vals)
            o = " ".join(w)
        res.append(o)
    return res


def with_attachments(r2, out):
    """one publish or description update in twenty-five lists attachments (extra.attachments): this stream runs without a media handler -
    the configuration's `media` section is optional -, so there is nothing to link them to and nothing else changes"""
    res = []
    for o in out:
        w = o.split(" ")
        if w[0] in ("pub", "setdesc") and len(w) > 2 and w[2] not in ("me", "fnd") and " as=" not in o and r2.chance(1, 25):
            o += " att=" + r2.choice(["/v0/file/s/abc.jpg", "/v0/file/s/abc.jpg,/v0/file/s/def.png", "http://elsewhere/x", "x"])
        res.append(o)
    return res


def with_sys(r2, out, faults):
    """in one history out of three the system topic `sys` takes part: anybody who is logged in publishes to it without attaching, only the
    root session subscribes (and reads, leaves, changes its own mode, bans itself and comes back); choices from a generator of their own"""
    if not r2.chance(1, 3):
        return out
    first = next((i for i, o in enumerate(out) if o.split(" ")[0] not in ("reset", "user", "sess")), len(out))
    n = 0
    for _ in range(2 + r2.below(7)):
        pos = first + r2.below(max(1, len(out) - first + 1))
        while pos > 0 and pos < len(out) and out[pos - 1].split(" ")[0] in ("fail", "crash"):
            pos += 1
        anyone = r2.choice(["S1", "S2", "S3", "S4", "S5", "S6", "S7"])
        n += 1
        o = r2.choice([f"sub S7 sys", f"sub S7 sys", f"sub S7 sys mode={r2.choice(['JRWPD', 'JR', 'N', 'JRWPSO', 'JP', 'X'])}", f"sub {anyone} sys",
                       f"pub {anyone} sys Y{n}", f"pub {anyone} sys Y{n}", f"pub {anyone} sys Y{n}" + r2.choice(["", " noecho=1", " head=sender:U1", " head=mime:text"]),
                       f"leave S7 sys", f"leave S7 sys unsub=1", f"get S7 sys {r2.choice(['desc', 'data', 'sub', 'del', 'data'])}",
                       f"get {anyone} sys {r2.choice(['desc', 'sub', 'data'])}", f"setsub S7 sys mode={r2.choice(['JRWPD', 'N', 'JR', 'JRWPO', 'W'])}", f"setsub S7 sys",
                       f"note S7 sys {r2.choice(['read', 'recv'])} {r2.below(4)}", f"delmsg S7 sys {r2.below(3)}:{r2.below(5)}" + r2.choice(["", " hard=1"]),
                       f"pub S7 sys Z{n} as={r2.choice(['U1', 'U2'])}"])
        ins = [o]
        if faults and o.split(" ")[0] in ("sub", "pub", "setsub", "leave", "delmsg") and r2.chance(1, 5):
            ins.insert(0, f"fail {1 + r2.below(3)}")
        out = out[:pos] + ins + out[pos:]
    return out


def with_p2p_raw(r2, out, faults):
    """in half of the histories with p2p topics somebody who is not one of the two sends requests under the topic's routable name
    (`P:Ua:Ub`, the `p2p…` name on the wire): nothing of it may get through; choices from a generator of their own"""
    owner = {"S1": "U1", "S2": "U2", "S3": "U3", "S4": "U1", "S5": "U2", "S6": "U4", "S7": "U3"}
    pairs = []      # (position of the first request to the topic, key)
    for i, o in enumerate(out):
        w = o.split(" ")
        if len(w) >= 3 and w[1] in owner and re.fullmatch(r"U[1-4]", w[2]) and w[2] != owner[w[1]] and w[0] in ("sub", "pub"):
            a, b = sorted([owner[w[1]], w[2]])
            if not any(k == f"P:{a}:{b}" for _, k in pairs):
                pairs.append((i, f"P:{a}:{b}"))
    if not pairs or not r2.chance(1, 2):
        return out
    for _ in range(2 + r2.below(6)):
        first, key = r2.choice(pairs)
        pos = first + r2.below(max(1, len(out) - first + 1))
        while pos > 0 and pos < len(out) and out[pos - 1].split(" ")[0] in ("fail", "crash"):
            pos += 1
        strangers = [s_ for s_, u in owner.items() if u not in key.split(":")[1:]]
        s_ = r2.choice(strangers)
        o = r2.choice([f"sub {s_} {key}", f"sub {s_} {key}", f"sub {s_} {key}", f"sub {s_} {key} mode={r2.choice(['JRWPA', 'JRWPASDO', 'N'])}",
                       f"get {s_} {key} desc", f"get {s_} {key} sub", f"get {s_} {key} data", f"pub {s_} {key} X{pos}", f"setsub {s_} {key} mode=JRWPA",
                       f"setsub {s_} {key} user={key.split(':')[1]} mode=N", f"setdesc {s_} {key} priv=x", f"leave {s_} {key}", f"leave {s_} {key} unsub=1",
                       f"note {s_} {key} read 1", f"delmsg {s_} {key} 1:3", f"delsub {s_} {key} {key.split(':')[2]}", f"deltopic {s_} {key}",
                       f"deltopic {s_} {key} hard=1"])
        ins = [o]
        if faults and o.split(" ")[0] in ("sub", "deltopic", "get") and r2.chance(1, 5):
            ins.insert(0, f"fail {1 + r2.below(2)}")
        out = out[:pos] + ins + out[pos:]
    return out


def with_me_as(r2, out, faults):
    """in a third of the histories with `me` topics the root session acts there for somebody else (`as=`): it attaches to that user's `me`
    and `fnd`, asks, leaves - every such request belongs on the topic of the user it is made for; choices from a generator of their own"""
    if not r2.chance(1, 3):
        return out
    first = next((i for i, o in enumerate(out) if o.split(" ")[0] not in ("reset", "user", "sess")), len(out))
    for _ in range(2 + r2.below(5)):
        pos = first + r2.below(max(1, len(out) - first + 1))
        while pos > 0 and pos < len(out) and out[pos - 1].split(" ")[0] in ("fail", "crash"):
            pos += 1
        if any(x.startswith("deluser ") for x in out[:pos]):
            continue            # (what root sees of the `me` of an account which is gone is not part of this stream)
        u = r2.choice(["U1", "U2", "U1", "U4"])
        o = r2.choice([f"sub S7 me as={u}", f"sub S7 me as={u}", f"get S7 me desc as={u}", f"get S7 me sub as={u}", f"leave S7 me as={u}",
                       f"sub S7 fnd as={u}", f"get S7 fnd desc as={u}", f"leave S7 fnd as={u}", f"pub S7 me CA as={u}",
                       f"setsub S7 me mode={r2.choice(['JRWPAS', 'JP', 'N'])} as={u}", f"leave S7 me unsub=1 as={u}", f"get S7 me tags as={u}"])
        ins = [o]
        if faults and o.split(" ")[0] in ("sub", "get", "setsub") and r2.chance(1, 6):
            ins.insert(0, f"fail {1 + r2.below(2)}")
        out = out[:pos] + ins + out[pos:]
    return out


def with_me_tags(r2, out, faults):
    """in half of the histories with `me` topics the accounts' own tags are read and changed here and there ({set tags} on `me`: what the
    search finds an account by; tags in the `basic` namespace can neither come nor go); choices from a generator of their own"""
    if not r2.chance(1, 2):
        return out
    first = next((i for i, o in enumerate(out) if o.split(" ")[0] not in ("reset", "user", "sess")), len(out))
    for _ in range(1 + r2.below(4)):
        pos = first + r2.below(max(1, len(out) - first + 1))
        while pos > 0 and pos < len(out) and out[pos - 1].split(" ")[0] in ("fail", "crash"):
            pos += 1
        s_ = r2.choice(["S1", "S2", "S3", "S4", "S5", "S6"])
        o = r2.choice([f"get {s_} me tags", f"settags {s_} me tags={pick_tags(r2)}", f"settags {s_} me tags={pick_tags(r2)}",
                       f"settags {s_} me tags=" + ",".join(sorted(set(r2.choice(UTAGS) for _ in range(1 + r2.below(3))))),
                       f"settags {s_} me tags="])
        ins = [o]
        if faults and o.startswith("settags") and r2.chance(1, 5):
            ins.insert(0, "fail 1")
        out = out[:pos] + ins + out[pos:]
    return out


def with_deluser(r2, out, faults):
    """in one history out of three an account (sometimes two) is deleted somewhere in the second half; the choices come from a
    generator of their own, so that the rest of the history is what it would have been"""
    if not r2.chance(1, 3):
        return out
    first = next((i for i, o in enumerate(out) if o.split(" ")[0] not in ("reset", "user", "sess")), len(out))
    for _ in range(1 + r2.below(2)):
        lo = first + (len(out) - first) * 2 // 5
        pos = lo + r2.below(max(1, len(out) - lo + 1))
        # not between a fault plan and the request it is meant for
        while pos > 0 and pos < len(out) and out[pos - 1].split(" ")[0] in ("fail", "crash"):
            pos += 1
        ins = [pick_deluser(r2)]
        if faults and r2.chance(1, 4):
            ins.insert(0, f"fail {1 + r2.below(6)}")
        out = out[:pos] + ins + out[pos:]
    return out


def scenario_deluser(rng):
    """accounts are deleted while their sessions are attached here and there: the owner of a group, a member, a p2p partner whose
    topic is or is not loaded, a channel reader; by themselves or by root; hard or soft; then the others look around"""
    out = _preamble(rng)
    hard = " hard=1" if rng.chance(1, 2) else ""
    for s in ("S1", "S2", "S3", "S4", "S5"):
        if rng.chance(2, 3):
            out.append(f"sub {s} me")
    out.append("newgrp S1" + (" chan=1" if rng.chance(1, 3) else ""))
    chan = out[-1].endswith("chan=1")
    out.append("sub S2 T1")
    out.append(f"sub S3 {'chn:' if chan and rng.chance(1, 2) else ''}T1")
    out.append("newgrp S2")
    out.append("sub S1 T2")
    if rng.chance(1, 2):
        out.append("sub S4 T2")
    out.append("sub S1 U2")
    out.append("sub S2 U1")
    if rng.chance(1, 2):
        out.append("sub S3 U1")
    out.append("pub S1 T1 C1")
    out.append("pub S2 T2 C2")
    out.append("pub S1 U2 C3")
    if rng.chance(1, 2):
        out.append("delmsg S1 T2 1:2")
    if rng.chance(1, 2):
        out += ["leave S1 U2", "leave S2 U1", "unload P:U1:U2"]
    if rng.chance(1, 3):
        out += ["leave S1 T1", "leave S2 T1", f"leave S3 {'chn:' if chan else ''}T1", "leave S4 T1", "unload T1"]
    _maybe_restart(rng, out, 8)
    victim = rng.choice(["U1", "U1", "U2", "U3"])
    by = rng.choice(["self", "self", "root"])
    if by == "root":
        out.append(f"deluser S7 user={victim}{hard}")
    else:
        out.append(f"deluser {dict(U1='S1', U2='S2', U3='S3')[victim]}{hard}")
    out += ["get S2 me sub", "get S1 me sub", "get S3 me sub", "get S2 T2 sub", "get S3 T1 sub", "get S1 T2 desc", "get S2 T1 desc"]
    out += ["pub S2 T2 C4", "pub S1 T2 C5", "pub S2 U1 C6", "sub S2 U1", "sub S1 U2", "sub S1 me", "sub S3 T1", "sub S2 T1"]
    if rng.chance(1, 2):
        out.append("restart")
        out += ["sub S1 me", "sub S2 me", "sub S3 me", "get S2 me sub", "sub S2 U1", "sub S2 T2", "get S2 T2 sub", "pub S2 T2 C7"]
    if rng.chance(1, 2):
        out.append(f"deluser S7 user={rng.choice(['U1', 'U2', 'U3', 'U4'])}{hard}")
    out.extend(settle(["U1", "U2", "U3", "U4"], 2))
    return out


def scenario_cross(rng):
    """crossings (C14): requests are dispatched and held in the queues of the hub and of a group topic while the topic's owner deletes
    it, its idle timer fires or the connection of the requester drops; the hub and the topic then take their queues one message at
    a time, in an order drawn at random - which queue a `select` serves next is the scheduler's choice -, and everything settles"""
    out = _preamble(rng)
    for s in ("S1", "S2", "S3"):
        if rng.chance(1, 2):
            out.append(f"sub {s} me")
    nt = 0
    for _ in range(1 + rng.below(3)):
        nt += 1
        T = f"T{nt}"
        out.append("newgrp S1" + rng.choice(["", "", " auth=JRWPS anon=JR"]))
        att = ["S1"]
        for s in ("S2", "S4", "S3"):
            if rng.chance(2, 3):
                out.append(f"sub {s} {T}")
                att.append(s)
        if rng.chance(1, 2):
            out.append(f"pub S1 {T} C{nt}")
        idle = rng.chance(1, 4)
        if idle:
            # the topic goes idle: everybody leaves, the timer may fire
            for s in att:
                out.append(f"leave {s} {T}")
            att = []
        free = [s for s in ("S2", "S3", "S5", "S6", "S7") if s not in att]
        holds = []
        for _ in range(1 + rng.below(3)):
            k = rng.below(10)
            if k < 5 and free:
                x = rng.choice(free)
                holds.append(f"hold sub {x} {T}" + rng.choice(["", "", " mode=JRWP", " mode=N"]))
            elif k < 8 and att:
                x = rng.choice(att)
                holds.append(f"hold leave {x} {T}" + rng.choice(["", "", " unsub=1"]))
            elif att:
                x = rng.choice(att)
                holds.append(f"hold pub {x} {T} X{len(holds)}")
        killer = rng.choice(["deltopic", "deltopic", "deltopic hard", "unload", "drop", "none", "deltopic other"])
        if killer == "drop":
            # the connection of a session drops while its own {sub} or {leave} is in flight: nothing else is held meanwhile
            holds = [h for h in holds if h.split(" ")[1] in ("sub", "leave")][:1]
            if not holds:
                killer = "none"
        for h in holds:
            out.append(h)
            if h.startswith("hold sub") and rng.chance(2, 3):
                out.append("hubstep")           # the hub hands the request to the topic
        if killer.startswith("deltopic"):
            who = "S2" if killer.endswith("other") else rng.choice(["S1", "S1", "S4"])
            out.append(f"hold deltopic {who} {T}" + (" hard=1" if killer.endswith("hard") else ""))
        elif killer == "unload":
            out.append(f"hold unload {T}")
        elif killer == "drop":
            x = [h.split(" ")[2] for h in holds if h.split(" ")[1] in ("sub", "leave")]
            out.append(f"drop {rng.choice(x) if x else 'S2'}")
        if rng.chance(3, 4):
            # (one time in three the topic's goroutine takes the queued publishes while the hub waits for the database)
            out.append("hubstep yield" if killer.startswith("deltopic") and rng.chance(1, 3) else "hubstep")
        for _ in range(rng.below(5)):
            out.append(f"tstep {T} {rng.choice(['reg', 'unreg', 'pub', 'exit', 'exit', 'reg'])}")
        # whatever is left is taken one message at a time too (a step which finds its queue empty says so and does nothing), so that
        # every request is handled on a line of its own; `settle` is the safety net
        out.append("hubstep")
        for q, k in (("reg", "sub"), ("unreg", "leave"), ("pub", "pub")):
            for h in holds:
                if h.split(" ")[1] == k:
                    out.append(f"tstep {T} {q}")
        out.append(f"tstep {T} exit")
        out.append("settle")
        # afterwards: nobody is stuck, the topic is what the store says
        out += [f"sub S3 {T}", f"pub S2 {T} Y{nt}", f"get S2 {T} desc", f"leave S3 {T}", f"sub S5 {T}", "sub S6 me"]
        if rng.chance(1, 3):
            out.append("restart")
    out.extend(settle(["U1", "U2", "U3", "U4"], nt))
    return out


def settle(users, ntop):
    """activity settles: the deferred (background) session comes to the foreground and every idle topic is unloaded - the p2p and
    group topics first, the users' `me` topics last (a topic which still has a session answers `busy`)"""
    out = ["fg S5"]
    for i, a in enumerate(users):
        for b in users[i + 1:]:
            out.append(f"unload P:{a}:{b}")
    for n in range(1, ntop + 1):
        out.append(f"unload T{n}")
    for u in users:
        out.append(f"unload {u}")
    return out


# ---------------------------------------------------------------------------------------------- clause scenarios

def _preamble(rng, maxsubs=32, modes=None):
    out = [f"reset {maxsubs}"]
    modes = modes or {}
    for u in ("U1", "U2", "U3", "U4"):
        out.append(f"user {u} {modes.get(u, 'JRWPAS')} {rng.choice(['N', 'JRA'])}")
    for s, u, lvl, bg in (("S1", "U1", "auth", ""), ("S2", "U2", "auth", ""), ("S3", "U3", "auth", ""), ("S4", "U1", "auth", ""),
                          ("S5", "U2", "auth", "bg"), ("S6", "U4", "anon", ""), ("S7", "U3", "root", "")):
        out.append(f"sess {s} {u} {lvl} {bg}".strip())
    return out


def _maybe_restart(rng, out, p=6):
    if rng.chance(1, p):
        out.append("restart")
        return True
    return False


def scenario(rng, idx=None):
    """one short history aimed at a clause of the properties, with its parameters drawn at random; restarts are sprinkled in so
    that the same clause is also exercised on a reloaded topic"""
    k = rng.below(23) if idx is None else idx % 23          # the stream goes through the kinds in turn
    if k >= 21:
        return scenario_fnd(rng)
    if k >= 17:
        return scenario_me(rng, k - 17)
    if k == 16:
        return scenario_suspended(rng)
    if k >= 14:
        return scenario_chan(rng)
    if k >= 11:
        return scenario_p2p(rng, k)
    out = _preamble(rng, maxsubs=rng.choice([32, 32, 3]))
    owner = rng.choice(["S1", "S2", "S3"])
    ou = {"S1": "U1", "S2": "U2", "S3": "U3"}[owner]
    others = [(s, u) for s, u in (("S1", "U1"), ("S2", "U2"), ("S3", "U3")) if s != owner]
    (ms, mu), (ns, nu) = others
    defacs = rng.choice(["", "", " auth=JRWPS anon=N", " auth=JRWP anon=JR", " auth=JRWPSO anon=N", " auth=JR anon=N"])
    out.append(f"newgrp {owner}{defacs}")
    T = "T1"

    def reattach():
        for s in (owner, ms, ns):
            out.append(f"sub {s} {T}")

    if k == 0:      # administrator raises the own grant
        out.append(f"sub {ms} {T}")
        out.append(f"setsub {owner} {T} user={mu} mode={rng.choice(['JRWPA', 'JRWPAS', 'JRPA', 'JA'])}")
        if _maybe_restart(rng, out):
            reattach()
        for _ in range(1 + rng.below(3)):
            out.append(f"setsub {ms} {T} mode={rng.choice(['JRWPASD', 'JRWPAD', 'JRWPASDO', 'JRWPAS', 'JASD', 'JRWPD', 'JRWPSD'])}")
        out.append(f"get {ms} {T} sub")
    elif k == 1:    # bans and limits stick
        out.append(f"sub {ms} {T}")
        out.append(f"setsub {owner} {T} user={mu} mode={rng.choice(['N', 'N', 'N', 'RWP', 'J', 'JR'])}")
        out.append(rng.choice([f"delsub {owner} {T} {mu}", f"delsub {owner} {T} {mu}", f"leave {ms} {T} unsub=1", f"deltopic {ms} {T}", f"deltopic {ms} {T}"]))
        if _maybe_restart(rng, out, 3):
            out.append(f"sub {owner} {T}")
        out.append(f"sub {ms} {T}" + rng.choice(["", " mode=JRWPS", " mode=JRWPASDO"]))
        out.append(f"pub {ms} {T} C1")
        out.append(f"get {owner} {T} sub")
    elif k == 2:    # marks: stale, duplicate, future, between read and recv
        out.append(f"sub {ms} {T}")
        n = 2 + rng.below(8)
        for i in range(n):
            out.append(f"pub {owner} {T} C{i + 1}")
        for _ in range(3 + rng.below(6)):
            what = rng.choice(["read", "recv", "recv", "read", "kp"])
            q = 0 if what == "kp" else rng.choice([1 + rng.below(n), 1 + rng.below(n), n, n + 1, 0, -1])
            out.append(f"note {rng.choice([ms, ms, owner])} {T} {what} {q}")
            if _maybe_restart(rng, out, 10):
                reattach()
        out.append(f"get {ms} {T} sub")
        out.append(f"get {owner} {T} sub")
    elif k == 3:    # ownership transfer and what the parties can do around it
        out.append(f"sub {ms} {T}")
        out.append(f"sub {ns} {T}")
        out.append(f"setsub {owner} {T} user={mu} mode={rng.choice(['JRWPASDO', 'JRWPSO', 'JO'])}")
        steps = [f"setsub {ms} {T} mode=JRWPASDO", f"sub {ms} {T} mode=JRWPSO", f"setsub {owner} {T} mode=JRWPAS", f"leave {owner} {T} unsub=1",
                 f"setsub {ms} {T} user={ou} mode=JRW", f"delsub {ms} {T} {ou}", f"setsub {owner} {T} user={nu} mode=JRWPSO",
                 f"setsub {ns} {T} mode=JRWPSO", f"deltopic {ms} {T}", f"setdesc {ms} {T} pub=pbX", f"setdesc {owner} {T} pub=pbY",
                 f"leave {ms} {T} unsub=1", f"sub {ms} {T}", f"setsub {ms} {T} mode=JRWPS"]
        for _ in range(3 + rng.below(5)):
            out.append(rng.choice(steps))
            if _maybe_restart(rng, out, 8):
                reattach()
        out.append(f"get {owner} {T} sub")
    elif k == 4:    # who may publish
        out.append(f"sub {ms} {T}" + rng.choice(["", " mode=JR", " mode=JRP", " mode=JW"]))
        out.append(f"setsub {owner} {T} user={mu} mode={rng.choice(['JRWPS', 'JR', 'JRP', 'N', 'RWP', 'JW'])}")
        out.append(rng.choice([f"leave {ms} {T}", f"leave {ms} {T} unsub=1", f"delsub {owner} {T} {mu}", f"sub {ms} {T}", f"sub {ms} {T} mode=JRWPS"]))
        out.append(f"pub {ms} {T} C1" + rng.choice(["", " noecho=1", " head=sender:U1;x:y"]))
        out.append(f"pub S6 {T} C2")
        out.append(f"pub S7 {T} C3 as={mu}")
        out.append(f"sub S7 {T} as={mu}")
        out.append(f"pub S7 {T} C4 as={mu}" + rng.choice(["", ":anon", ":root"]))
        out.append(f"get {owner} {T} data")
    elif k == 5:    # deletion: ranges, hard without D, other users' deletions, history afterwards
        out.append(f"sub {ms} {T}" + rng.choice(["", " mode=JRWP"]))
        out.append(f"setsub {owner} {T} user={mu} mode={rng.choice(['JRWPS', 'JRWPSD', 'JRWP'])}")
        n = 3 + rng.below(7)
        for i in range(n):
            out.append(f"pub {rng.choice([owner, ms])} {T} C{i + 1}")
        for _ in range(2 + rng.below(4)):
            rs = []
            for _ in range(1 + rng.below(3)):
                lo = rng.below(n + 2)
                rs.append(f"{lo}:{rng.choice([0, lo, lo + 1, lo + 2, lo + 3, n + 1, 100])}")
            if rng.chance(1, 3):
                out.append(f"fail {1 + rng.below(3)}")       # one of the three store calls of a deletion fails
            out.append(f"delmsg {rng.choice([owner, ms])} {T} {','.join(rs)}" + rng.choice(["", " hard=1"]))
            if _maybe_restart(rng, out, 8):
                reattach()
        for s in (owner, ms):
            out.append(f"get {s} {T} data" + rng.choice(["", f" since={rng.below(n)} before={rng.below(n + 3)} limit={rng.choice([0, 2, 100])}"]))
            out.append(f"get {s} {T} del")
    elif k == 6:    # a failed or crashed publish, then a reload, then publishes
        out.append(f"sub {ms} {T}")
        for i in range(1 + rng.below(3)):
            out.append(f"pub {owner} {T} C{i + 1}")
        out.append(rng.choice(["fail", "crash"]) + f" {1 + rng.below(3)}")
        out.append(f"pub {rng.choice([owner, ms])} {T} CX")
        if rng.chance(2, 3):
            out.append("restart")
            reattach()
        for i in range(2):
            out.append(f"pub {rng.choice([owner, ms])} {T} D{i + 1}")
        out.append(f"get {owner} {T} data")
        out.append(f"get {owner} {T} desc")
    elif k == 7:    # background sessions, foreground timer, leaving
        out.append(f"sub S5 {T}")
        out.append(f"sub {ms} {T}")
        for _ in range(3 + rng.below(5)):
            out.append(rng.choice(["fg S5", f"leave S5 {T}", f"sub S5 {T}", f"leave {ms} {T}", f"sub {ms} {T}", f"sub S4 {T}", f"leave S4 {T}",
                                   "drop S5", f"drop {ms}", "drop S4",
                                   f"setsub S5 {T} mode=JRW", f"setsub S5 {T} mode=JRWP"]))
        out.append(f"get {owner} {T} sub")
    elif k == 8:    # deleting the topic with others attached, then coming back
        out.append(f"sub {ms} {T}")
        out.append(f"sub {ns} {T}")
        out.append(f"pub {ms} {T} C1")
        out.append(f"deltopic {rng.choice([owner, owner, ms])} {T}" + rng.choice(["", " hard=1"]))
        for s in (ms, ns, owner):
            out.append(rng.choice([f"sub {s} {T}", f"pub {s} {T} C2", f"get {s} {T} desc", f"leave {s} {T}", f"note {s} {T} recv 1"]))
    elif k == 9:    # the subscriber limit
        out[0] = "reset 3"
        for s in (ms, ns, "S6", "S7"):
            out.append(f"sub {s} {T}")
        out.append(f"setsub {owner} {T} user=U4")
        out.append(f"leave {ms} {T} unsub=1")
        out.append(f"sub S6 {T}")
        out.append(f"setsub {owner} {T} user={mu}")
    else:           # changes from a session which is not attached, and on behalf of others
        out.append(f"sub {ms} {T}")
        out.append(f"setsub S4 {T} mode={rng.choice(['JRW', 'JRWPS'])}")
        out.append(f"setdesc S5 {T} priv=pvX")
        out.append(f"setsub S7 {T} user={mu} mode=JR as={ou}")
        out.append(f"get S4 {T} sub")
        out.append(f"get {ms} {T} sub")
        out.append("restart")
        out.append(f"sub {ms} {T}")
        out.append(f"get {ms} {T} sub")
    return out


def scenario_suspended(rng):
    """a suspended account: the loaded group topics it owns and its loaded p2p topics are read-only - no publishing, no typing
    notes, no invitations - until the account is active again; reading and read receipts go on"""
    out = _preamble(rng)
    out.append("newgrp S1" + rng.choice(["", " auth=JRWPS anon=N"]))
    out.append("setsub S1 T1 user=U2 mode=JRWPS")
    out.append("sub S2 T1")
    out.append("sub S2 U1")
    out.append("sub S1 U2")
    out.append("pub S2 T1 C1")
    out.append("pub S1 U2 C2")
    out.append(f"userstate {rng.choice(['U1', 'U1', 'U2'])} susp")
    steps = ["pub S2 T1 C3", "pub S1 T1 C4", "pub S2 U1 C5", "pub S1 U2 C6 noecho=1", "note S2 T1 kp 0", "note S2 T1 read 1", "note S2 U1 recv 1",
             "setsub S1 T1 user=U3", "setsub S1 T1 user=U2 mode=JRW", "get S2 T1 data", "get S2 U1 desc", "leave S2 T1", "sub S2 T1",
             "userstate U1 ok", "userstate U1 susp", "userstate U2 susp", "unload T1", "delmsg S2 T1 1:2", "sub S3 T1"]
    for _ in range(5 + rng.below(7)):
        out.append(rng.choice(steps))
        _maybe_restart(rng, out, 12)
    out.append("userstate U1 ok")
    out.append("userstate U2 ok")
    out.append("pub S2 T1 C7")
    out.append("get S1 T1 data")
    return out


def scenario_chan(rng):
    """channel clauses: readers get every message once, under the channel name and without its author; subscribers get it under the
    group name with the author; notes are not relayed to readers; the push goes to the subscribers individually and to the channel
    address; a reader's session which leaves, drops or goes foreground is accounted for"""
    out = _preamble(rng)
    owner, ou = rng.choice([("S1", "U1"), ("S6", "U4")])
    sub_s, sub_u = ("S6", "U4") if owner == "S1" else ("S1", "U1")          # an ordinary subscriber
    out.append(f"newgrp {owner} chan=1" + rng.choice(["", " pub=pbC", " auth=JRWPS anon=N"]))
    T, C = "T1", "chn:T1"
    rd = [("S2", "U2"), ("S5", "U2"), ("S3", "U3"), ("S7", "U3")]             # S5 is a background session
    n = [0]

    def pub(s):
        n[0] += 1
        out.append(f"pub {s} {T} C{n[0]}" + rng.choice(["", "", " noecho=1", " head=mime:text"]))

    out.append(f"setsub {owner} {T} user={sub_u} mode={rng.choice(['JRWPS', 'JRWP', 'JRW', 'JR', 'JWP', 'JW'])}")
    out.append(f"sub {sub_s} {T}")
    for s, u in rd:
        if rng.chance(2, 3):
            out.append(f"sub {s} {C}" + rng.choice(["", "", " mode=JR", " mode=JRP", " priv=pvR"]))
    pub(owner)
    steps = [lambda: pub(owner), lambda: pub(sub_s), lambda: out.append(f"pub S2 {C} CX"),
             lambda: out.append(f"note {rng.choice(['S2', 'S3', 'S7'])} {C} {rng.choice(['read', 'recv', 'recv'])} {1 + rng.below(max(1, n[0]))}"),
             lambda: out.append(f"note {rng.choice(['S2', 'S3', 'S7'])} {C} {rng.choice(['read', 'recv'])} {max(1, n[0])}"),
             # received up to the end, then read up to somewhere before it (and the other way round)
             lambda: (lambda r: out.extend([f"note {r} {C} recv {max(1, n[0])}", f"note {r} {C} read {1 + rng.below(max(1, n[0]))}",
                                            f"get {r} {C} sub"]))(rng.choice(['S2', 'S3', 'S7'])),
             lambda: out.append(f"note {rng.choice([owner, sub_s])} {T} {rng.choice(['read', 'recv', 'kp'])} {rng.choice([0, max(1, n[0])])}"),
             lambda: out.append(f"get {rng.choice(['S2', 'S3', 'S5', 'S7'])} {C} {rng.choice(['data', 'desc', 'sub', 'del'])}"),
             lambda: out.append(f"get {rng.choice([owner, sub_s])} {T} {rng.choice(['data', 'desc', 'sub'])}"),
             lambda: out.append(f"get {sub_s} {C} {rng.choice(['data', 'data', 'del', 'desc'])}"),      # a subscriber under the channel spelling
             lambda: out.append(f"get {rng.choice(['S2', 'S3'])} {T} data"),                               # a reader under the group spelling
             lambda: out.append(f"leave {rng.choice(['S2', 'S3', 'S5', 'S7'])} {C}" + rng.choice(["", "", " unsub=1"])),
             lambda: out.append(f"sub {rng.choice(['S2', 'S3', 'S5', 'S7'])} {C}" + rng.choice(["", " mode=JR", " priv=pvS"])),
             lambda: out.append(rng.choice(["fg S5", "drop S5", "drop S3", "drop S2"])),
             lambda: out.append(f"setsub {rng.choice(['S2', 'S3', 'S7'])} {C} mode={rng.choice(['JR', 'JRP', 'JRWPS', 'N', 'RP'])}"),
             lambda: out.append(f"leave {rng.choice(['S2', 'S3'])} {T}"),
             lambda: out.append(f"deltopic {rng.choice(['S2', 'S3'])} {C}"),
             lambda: out.append(f"delmsg {owner} {T} 1:{max(2, n[0])}" + rng.choice(["", " hard=1"]))]
    for _ in range(6 + rng.below(8)):
        rng.choice(steps)()
        if rng.chance(1, 12):
            out.append("restart")
            out.append(f"sub {owner} {T}")
            out.append(f"sub S3 {C}")
    pub(owner)
    out.append(f"get S3 {C} data")
    out.append(f"get {sub_s} {C} data")          # the subscriber (with or without R) under the channel spelling
    out.append(f"get {owner} {T} sub")
    if rng.chance(1, 3):
        out.append(f"deltopic {owner} {T}" + rng.choice(["", " hard=1"]))
        out.append(f"sub S2 {C}")
    return out


def scenario_p2p(rng, k):
    """peer-to-peer clauses: naming per recipient, push addressing, two participants only, modes within JRWPA with A, numbering
    and cached data across the load paths of initTopicP2P (new topic / one subscription missing / both present)"""
    out = _preamble(rng, modes={u: rng.choice(["JRWPAS"] * 7 + ["JRWPA", "JRPA", "N"]) for u in ("U1", "U2", "U3", "U4")})
    (sa, ua), (sb, ub) = rng.choice([(("S1", "U1"), ("S2", "U2")), (("S2", "U2"), ("S3", "U3")), (("S3", "U3"), ("S1", "U1")),
                                     (("S7", "U3"), ("S4", "U1")), (("S1", "U1"), ("S5", "U2"))] * 3 + [(("S6", "U4"), ("S1", "U1"))])
    key = "P:" + ":".join(sorted([ua, ub]))
    third = [u for u in ("U1", "U2", "U3", "U4") if u not in (ua, ub)][0]
    n = [0]

    def pub(s, peer):
        n[0] += 1
        out.append(f"pub {s} {peer} C{n[0]}" + rng.choice(["", "", " noecho=1"]))

    def reload():
        if rng.chance(1, 2):
            out.append("restart")
        else:
            out.append(f"leave {sa} {ub}")
            out.append(f"leave {sb} {ua}")
            out.append(f"unload {key}")

    out.append(f"sub {sa} {ub}" + rng.choice(["", "", " mode=JRWPA", " mode=JRW", " mode=JRWPASDO", " priv=pvA", " mode=JRWP priv=pvA", " user=" + ub]))
    if k == 11:     # the life of a p2p chat: both attach, talk, one leaves for good, is invited again, comes back
        out.append(f"sub {sb} {ua}" + rng.choice(["", "", " mode=JRWPA", " priv=pvB", " mode=JRP"]))
        for _ in range(1 + rng.below(3)):
            pub(rng.choice([sa, sb]), ub if rng.chance(1, 2) else ua)
        pub(sa, ub)
        out.append(f"note {sb} {ua} {rng.choice(['read', 'recv'])} {n[0]}")          # the one who will leave has marks to lose
        out.append(rng.choice([f"leave {sb} {ua} unsub=1", f"deltopic {sb} {ua}", f"leave {sb} {ua} unsub=1"]))
        pub(sa, ub)
        # the one who stayed invites the other one again (mostly), with or without a mode
        out.append(rng.choice([f"setsub {sa} {ub} user={ub}", f"setsub {sa} {ub} user={ub} mode={rng.choice(['JRWPA', 'JRW', 'JRWPASD', 'N'])}",
                               f"setsub {sa} {ub} user={ub} mode={rng.choice(['JRWPA', 'JRWP', 'JRWPA'])}", f"setsub {sa} {ub} user={ub} mode=JRWPA",
                               f"get {sa} {ub} sub", f"note {sa} {ub} read {n[0]}"]))
        if rng.chance(2, 3):
            out.append(f"setsub {sa} {ub} user={ub} mode=JRWPA")       # invited again while the topic has stayed loaded
            out.append(f"get {sb} {ua} desc")
        if _maybe_restart(rng, out, 5):
            out.append(f"sub {sa} {ub}")
        out.append(f"sub {sb} {ua}" + rng.choice(["", " mode=JRWPA", " priv=pvC"]))
        pub(sa, ub)
        pub(sb, ua)
        out.append(f"get {sb} {ua} desc")
        out.append(f"get {sa} {ub} sub")
        out.append(f"get {sb} {ua} data")
    elif k == 12:   # the load paths: the topic is dropped from memory and brought back by either participant
        out.append(f"sub {sb} {ua}" + rng.choice(["", " priv=pvB"]))
        for _ in range(1 + rng.below(4)):
            pub(rng.choice([sa, sb]), ub if rng.chance(1, 2) else ua)
        pub(sa, ub)
        pub(sb, ua)
        who = rng.choice(["a", "b", "none"])
        if who == "a":
            out.append(f"leave {sa} {ub} unsub=1")
        elif who == "b":
            out.append(f"leave {sb} {ua} unsub=1")
        reload()
        first = rng.choice([(sa, ub), (sb, ua)])
        out.append(f"sub {first[0]} {first[1]}" + rng.choice(["", " mode=JRWPA", " priv=pvD"]))
        out.append(f"get {first[0]} {first[1]} desc")
        pub(first[0], first[1])
        other = (sb, ua) if first[0] == sa else (sa, ub)
        out.append(f"sub {other[0]} {other[1]}")
        pub(other[0], other[1])
        out.append(f"get {other[0]} {other[1]} desc")
        out.append(f"get {first[0]} {first[1]} data")
        out.append(f"get {first[0]} {first[1]} sub")
    else:           # what a participant cannot do: a third user, modes beyond JRWPA or without A, the peer's subscription, the description
        out.append(f"sub {sb} {ua}")
        steps = [f"setsub {sa} {ub} user={third}", f"setsub {sa} {ub} user={third} mode=JRWPA", f"setsub {sa} {ub} mode={rng.choice(['JRW', 'JRWPASDO', 'JRWPS', 'JRWPD', 'N', 'RWP'])}",
                 f"setsub {sa} {ub} user={ub} mode={rng.choice(['JRW', 'JRWPASDO', 'JRWPS', 'N', 'JRWPD'])}", f"delsub {sa} {ub} {ub}",
                 f"setdesc {sa} {ub} pub=pbX", f"setdesc {sa} {ub} priv=pvX", f"setdesc {sb} {ua} auth=JRWPS", f"sub {sa} {ub}", f"sub {sb} {ua}",
                 f"deltopic {sa} {ub}", f"deltopic {sb} {ua} hard=1", f"leave {sa} {ub}", f"leave {sb} {ua} unsub=1",
                 f"sub S{rng.choice([1, 2, 3])} {ua}", f"setsub {sb} {ua} mode=JP", f"get {sa} {ub} sub", f"unload {key}"]
        for _ in range(4 + rng.below(6)):
            out.append(rng.choice(steps))
            if rng.chance(1, 4):
                pub(rng.choice([sa, sb]), ub if rng.chance(1, 2) else ua)
            _maybe_restart(rng, out, 10)
        if rng.chance(1, 2):
            # with one participant gone the other one still cannot bring in anybody else
            out.append(f"sub {sa} {ub}")
            out.append(f"sub {sb} {ua}")
            out.append(rng.choice([f"leave {sb} {ua} unsub=1", f"deltopic {sb} {ua}"]))
            out.append(f"setsub {sa} {ub} user={third}" + rng.choice(["", " mode=JRWPA", " mode=JRW"]))
            out.append(f"sub {sb} {ua}")
            out.append(f"get {sa} {ub} sub")
        out.append(f"get {sa} {ub} desc")
        out.append(f"get {sb} {ua} desc")
    return out


# ---------------------------------------------------------------------------------------------- stream definition

def scenario_marks(rng):
    """the read and received marks (C08, C09): a member reads ahead of what it has acknowledged as received, or acknowledges and reads
    in turn; the topic is then taken out of memory (everybody leaves and it idles out, or the server restarts) and the members and
    the owner ask for the description and the list of subscribers again - before and after, with no request in between"""
    out = _preamble(rng)
    kind = rng.choice(["grp", "grp", "chan", "p2p"])
    if kind == "p2p":
        T = {"S1": "U2", "S2": "U1"}
        key = "P:U1:U2"
        members = ["S1", "S2"]
        out.append(f"sub S1 U2")
        out.append(f"sub S2 U1")
        name = lambda s: T[s]
    else:
        out.append("newgrp S1" + (" chan=1" if kind == "chan" else ""))
        key = "T1"
        members = ["S1", "S2", "S3"]
        spell = {"S1": "T1", "S2": "chn:T1" if kind == "chan" else "T1", "S3": "T1"}
        if kind == "chan":
            out.append("setsub S1 T1 user=U3 mode=JRWPS")
        out.append(f"sub S2 {spell['S2']}")
        out.append(f"sub S3 {spell['S3']}")
        name = lambda s: spell[s]
    n = 0
    for _ in range(2 + rng.below(5)):
        n += 1
        s_ = rng.choice(["S1", "S1", "S3"] if kind == "chan" else members)
        out.append(f"pub {s_} {name(s_)} K{n}")
    look = lambda: [f"get {s_} {name(s_)} {w}" for s_ in members for w in (["desc", "sub"] if rng.chance(1, 2) else ["desc"])]
    for _ in range(1 + rng.below(4)):
        s_ = rng.choice(members)
        k = rng.below(6)
        if k == 0:
            out.append(f"note {s_} {name(s_)} recv {1 + rng.below(n)}")
        elif k in (1, 2, 3):
            out.append(f"note {s_} {name(s_)} read {1 + rng.below(n)}")          # reading ahead of the received mark
        elif k == 4:
            out.extend([f"note {s_} {name(s_)} recv {n}", f"note {s_} {name(s_)} read {1 + rng.below(n)}"])
        else:
            out.extend([f"note {s_} {name(s_)} read {1 + rng.below(n)}", f"note {s_} {name(s_)} recv {1 + rng.below(n)}"])
    out.extend(look())
    # out of memory and back
    if rng.chance(1, 2):
        out.append("restart")
    else:
        for s_ in members:
            out.append(f"leave {s_} {name(s_)}")
        out.append(f"unload {key}")
    if rng.chance(1, 2):
        out.extend(look())          # from sessions which are not attached (served from the store)
    for s_ in members:
        if rng.chance(3, 4):
            out.append(f"sub {s_} {name(s_)}")
    out.extend(look())
    if rng.chance(1, 2):
        s_ = rng.choice(members)
        out.append(f"pub {s_} {name(s_)} K{n + 1}")
        s2 = rng.choice(members)
        out.append(f"note {s2} {name(s2)} read {n + 1}")
        out.extend(look())
    return out


def scenario_dellog(rng):
    """the deletion log (C04): messages are deleted for everybody and for single users; somebody subscribes afterwards, somebody who
    had left comes back, the topic is reloaded - and each of them asks for the log from some transaction on (as the client libraries
    do when they attach) and for the history"""
    out = _preamble(rng)
    p2p = rng.chance(1, 4)
    if p2p:
        nm = {"S1": "U2", "S2": "U1"}
        key = "P:U1:U2"
        early, late = ["S1", "S2"], []
        out.extend(["sub S1 U2", "sub S2 U1"])
    else:
        nm = {"S1": "T1", "S2": "T1", "S3": "T1", "S4": "T1"}
        key = "T1"
        out.append("newgrp S1" + rng.choice(["", " auth=JRWPSD"]))
        early, late = ["S1", "S2"], ["S3"]
        out.append(f"setsub S1 T1 user=U2 mode={rng.choice(['JRWPSD', 'JRWPS', 'JRWPD'])}")
        out.append("sub S2 T1")
    n = 0
    for _ in range(3 + rng.below(5)):
        n += 1
        s_ = rng.choice(early)
        out.append(f"pub {s_} {nm[s_]} D{n}")
    ndel = 0
    for _ in range(1 + rng.below(3)):
        s_ = rng.choice(early)
        lo = 1 + rng.below(n)
        hi = lo + 1 + rng.below(3)
        out.append(f"delmsg {s_} {nm[s_]} {lo}:{hi}" + rng.choice(["", " hard=1", " hard=1"]))
        ndel += 1
        if rng.chance(1, 3):
            n += 1
            out.append(f"pub {s_} {nm[s_]} D{n}")
    ask = lambda s_: [f"get {s_} {nm[s_]} del" + rng.choice(["", " since=1", " since=1", f" since={1 + rng.below(ndel + 1)}", f" since=1 before={1 + rng.below(ndel + 2)}"]),
                      f"get {s_} {nm[s_]} data"]
    k = rng.below(4)
    if k == 0 and late:
        for s_ in late:
            out.append(f"sub {s_} {nm[s_]}")
            out.extend(ask(s_))
    elif k == 1:
        s_ = rng.choice(early[1:])
        out.append(f"leave {s_} {nm[s_]} unsub=1")
        if rng.chance(1, 2):
            s2 = early[0]
            out.append(f"delmsg {s2} {nm[s2]} 1:{n + 1}" + rng.choice(["", " hard=1"]))
        out.append(f"sub {s_} {nm[s_]}")
        out.extend(ask(s_))
    elif k == 2:
        if rng.chance(1, 2):
            out.append("restart")
        else:
            for s_ in early:
                out.append(f"leave {s_} {nm[s_]}")
            out.append(f"unload {key}")
        for s_ in early + late:
            out.append(f"sub {s_} {nm[s_]}")
            out.extend(ask(s_))
    else:
        for s_ in early:
            out.extend(ask(s_))
    for s_ in early:
        if rng.chance(1, 2):
            out.extend(ask(s_))
    return out


def scenario_p2p_last(rng):
    """the last participant of a p2p topic deletes it (C14, C08): the other has unsubscribed or deleted the account; the remaining one
    is attached or not, the store fails at one of the calls of the deletion; then both come back"""
    out = _preamble(rng)
    out.extend(["sub S1 U2", "sub S2 U1"])
    if rng.chance(1, 2):
        out.append("pub S1 U2 L1")
    out.append(rng.choice(["leave S2 U1 unsub=1", "leave S2 U1 unsub=1", "deltopic S2 U1", "delsub S1 U2 U2"]))
    if rng.chance(1, 3):
        out.append("leave S1 U2")
    if rng.chance(1, 4):
        out.append("unload P:U1:U2")
    if rng.chance(3, 4):
        out.append(f"fail {1 + rng.below(3)}")
    out.append("deltopic S1 U2" + rng.choice(["", " hard=1"]))
    for _ in range(2 + rng.below(4)):
        out.append(rng.choice(["leave S1 U2", "sub S1 U2", "drop S1", "sub S2 U1", "get S1 U2 desc", "pub S1 U2 L2", "deltopic S1 U2", "unload P:U1:U2",
                               "sub S4 U2", "leave S4 U2"]))
    return out


def scenario_p2p_reinvite(rng):
    """a participant of a p2p topic leaves for good and is invited back by the other (C02, C07, C10): messages are published before the
    invited one attaches again - the push and the notices on `me` are what reaches somebody who is not there -, then both are back"""
    out = _preamble(rng)
    if rng.chance(1, 2):
        out.append("sub S2 me")
    out.extend(["sub S1 U2", "sub S2 U1", "pub S2 U1 R1", "pub S1 U2 R0", "pub S1 U2 R00"])
    out.append(rng.choice(["leave S2 U1 unsub=1", "deltopic S2 U1", "delsub S1 U2 U2"]))
    if rng.chance(1, 3):
        out.append("pub S1 U2 R2")
    if rng.chance(1, 2):
        # the one who is gone still sends notes (a receipt needs no attachment: the hub hands it to the loaded topic)
        for _ in range(1 + rng.below(2)):
            out.append(f"note {rng.choice(['S2', 'S5'])} U1 {rng.choice(['recv', 'recv', 'read', 'kp'])} {rng.choice([0, 2, 3, 3])}")
    out.append("setsub S1 U2 user=U2" + rng.choice(["", " mode=JRWPA", " mode=JRWA", " mode=JRPA"]))
    for _ in range(1 + rng.below(3)):
        out.append(rng.choice(["pub S1 U2 R3", "pub S1 U2 R4 noecho=1", "get S1 U2 sub", "note S1 U2 read 1", "pub S4 U2 R5"]))
    if rng.chance(1, 3):
        out.append(rng.choice(["restart", "unload P:U1:U2"]))
        out.append("sub S1 U2")
    out.append("pub S1 U2 R6")
    out.extend(["sub S2 U1", "pub S1 U2 R7", "get S2 U1 data"])
    return out


def scenario_stall(rng):
    """a connection stalls (C10, C14): one of a user's two sessions on a group topic stops reading, its queue fills up; the next message
    the topic fans out cannot be handed to it and the topic detaches it - the user's online count follows, the others are told when the
    last one goes; then the stalled connection is closed"""
    out = _preamble(rng)
    out.append("newgrp S1" + rng.choice(["", " auth=JRWPS"]))
    out.extend(["sub S4 T1", "sub S2 T1"])
    if rng.chance(1, 2):
        out.append("sub S5 T1")          # a background session of U2
    out.append("pub S1 T1 Q1")
    who = rng.choice(["S4", "S4", "S1", "S2"])
    out.append(f"stall {who}")
    pubber = {"S4": "S1", "S1": "S4", "S2": rng.choice(["S1", "S2x"])}[who].replace("S2x", "S1")
    out.append(f"pub {pubber} T1 Q2" + rng.choice(["", " noecho=1"]))
    out.append(f"get {rng.choice([x for x in ['S1', 'S2', 'S4'] if x != who])} T1 sub")
    for _ in range(1 + rng.below(3)):
        s_ = rng.choice([x for x in ["S1", "S2", "S4"] if x != who])
        out.append(rng.choice([f"leave {s_} T1", f"pub {s_} T1 Q3", f"get {s_} T1 sub", f"sub {s_} T1", f"note {s_} T1 read 2"]))
    out.append(f"drop {who}")
    out.append(f"sub {who} T1")
    out.append(f"get {who} T1 sub")
    return out


def gen_world(rng, tier):
    ncases = 600 if tier == "thorough" else 420
    for i in range(ncases):
        if i % 3 == 2:
            for l in scenario(rng, i // 3):
                yield l
            continue
        c = i // 3 * 2 + i % 3          # index among the random cases
        faults = c % 3 == 1
        crashes = c % 3 == 2
        for l in gen_case(rng, 30 + rng.below(90), faults=faults, crashes=crashes):
            yield l
        if i % 6 == 1:
            # crossings are extra too (a generator of their own)
            for l in scenario_cross(rng.fork(f"cross-scenario-{i}")):
                yield l
        if i % 12 == 7:
            # a stalled connection (a generator of their own)
            for l in scenario_stall(rng.fork(f"stall-scenario-{i}")):
                yield l
        if i % 12 == 10:
            # invited back into a p2p topic (a generator of their own)
            for l in scenario_p2p_reinvite(rng.fork(f"p2pre-scenario-{i}")):
                yield l
        if i % 12 == 9:
            # the last participant deletes a p2p topic, with store failures (a generator of their own)
            for l in scenario_p2p_last(rng.fork(f"p2plast-scenario-{i}")):
                yield l
        if i % 6 == 3:
            # who is told what was deleted (a generator of their own)
            for l in scenario_dellog(rng.fork(f"dellog-scenario-{i}")):
                yield l
        if i % 6 == 4:
            # the marks across a reload (a generator of their own)
            for l in scenario_marks(rng.fork(f"marks-scenario-{i}")):
                yield l
        if i % 12 == 5:
            # the histories around a deleted account are extra: drawn from a generator of their own, the rest of the stream is unchanged
            for l in scenario_deluser(rng.fork(f"deluser-scenario-{i}")):
                yield l


def classify(op, out):
    w = op.split(" ")
    if w[0] in ("reset", "user", "sess", "fail", "crash"):
        return "trivial"
    if len(w) > 1:
        for p in out.split(" | "):
            if p.startswith(w[1] + "<-"):
                f = p.split("<-", 1)[1].split(" ")
                return f[0] + (" " + f[1] if f[0] == "ctrl" else "")
    return "silent"


def make_post(pid):
    from . import worldmon

    def post(ctx, ops, impl):
        return worldmon.run_monitor(pid, ops, impl)
    return post


def make_post_min(pid):
    """greedy removal of request lines while the same monitor rule still fails on the implementation"""
    import re
    from . import worldmon, runner

    def norm(why):
        return re.sub(r"\d+", "#", why)

    def post_min(ctx, st, binpath, case, why):
        cur = list(case)
        budget = 30
        i = len(cur) - 2
        while i >= 1 and budget > 0:
            if cur[i].split(" ")[0] in ("user", "sess", "reset"):
                i -= 1
                continue
            cand = cur[:i] + cur[i + 1:]
            impl, _, _ = runner.run_stream_once(ctx, st, binpath, cand, "min")
            budget -= 1
            res = worldmon.run_monitor(pid, cand, impl)
            if any(norm(w2) == norm(why) and len(c2) == len(cand) for c2, w2 in res):
                cur = cand
            i -= 1
        return cur
    return post_min


def world_stream(pid):
    return dict(name="world", pkg="main", test="TestVerifWorld", gen=gen_world, classify=classify, model_mode="world",
                verdict_mode=None, post=make_post(pid), post_min=make_post_min(pid))


WORLD_TRUSTED = [
    "world stream: the Go harness drives the real Session.dispatch, Hub and Topic handlers one request at a time over an in-memory "
    "store adapter (harness/overlay/main/verif_memadapter_test.go) written from the MySQL adapter's statements; the adapter is part "
    "of the trusted base, the goroutine scheduling of the real server is replaced by a deterministic pump",
    "Model/World.lean, TopicGrp.lean, TopicOps.lean, TopicReq.lean (group topics), TopicChan.lean (channels), TopicP2P.lean (peer-to-peer topics) and "
    "TopicMe.lean (the users' `me` topics, the notifications between topics and the on/off handshake of pres.go), TopicFnd.lean (the `fnd` topics and the search) and "
    "TopicUser.lean (the deletion of an account) are a hand "
    "transcription of the handlers; they are tied to the code only by the differential run (same requests, byte-identical replies, "
    "traffic, adapter calls and state digests)",
    "history monitors (vlib/worldmon.py) decide the property on the implementation's own output when the tie is broken",
]
WORLD_ASSUMPTIONS = [
    "group, channel-enabled and peer-to-peer topics and the users' `me` topics ({sub}, {leave}, {pub}, {get desc}, {get sub} - the list of contacts "
    "with their online flags -, {set sub} - the user's own mode: without P the user is invisible -, {set tags} / {get tags} - the account's tags -, idle unload, and everything the other topics and users tell a user there; not the other requests a `me` topic "
    "serves: credentials, {set desc}, {del}, user-agent changes) and `fnd` topics ({sub}, {leave}, {set desc} - the query of the session, the stored query -, "
    "{get sub} - the search -, {get desc}, {set sub}, {pub}; no sys), one server node, requests processed one at a time in arrival order, the hub's queue of "
    "notifications between topics drained after every request; on-behalf-of (root `as=`) requests are exercised on plain group "
    "topics only; on a channel-enabled topic two users come as readers (`chn` spelling) and two as subscribers, one request in twenty "
    "under the other spelling",
    "accounts carry the default access the server stores for an account (within JRWPAS / JRWPA, with A unless N: user.go:97-117)",
    "at most one injected store failure or crash point per request",
    "{del what=user} runs in the session's goroutine while the evicted sessions clean up and the hub stops the account's topics in theirs: one "
    "schedule of the three is run and modelled (the evicted sessions first, then the hub, then the rest of the handler); no crash point "
    "is placed inside it; authenticators are not configured (their records are not part of the store model)",
]


def scenario_me(rng, k):
    """presence between users and from topics to users who are not attached (C10): sessions come and go on `me`, on a p2p topic
    and on a group; subscriptions are muted, un-muted, removed; idle topics unload; then everything settles"""
    out = _preamble(rng)
    users = ["U1", "U2", "U3", "U4"]
    ses = {"S1": "U1", "S2": "U2", "S3": "U3", "S4": "U1", "S5": "U2"}
    first = list(ses)
    rng_order = sorted(first, key=lambda _: rng.below(1000))
    for s in rng_order[:2 + rng.below(4)]:
        out.append(f"sub {s} me")
    ntop = 0
    if k in (0, 3):          # two users, a p2p topic: who is told online / offline and when
        a, b = rng.choice([("S1", "S2"), ("S2", "S1"), ("S3", "S1"), ("S2", "S3")])
        ua, ub = ses[a], ses[b]
        steps = [f"sub {a} {ub}", f"sub {b} {ua}", f"leave {a} {ub}", f"leave {b} {ua}", f"sub {a} me", f"sub {b} me", f"leave {a} me", f"leave {b} me",
                 f"unload {ua}", f"unload {ub}", f"unload P:{':'.join(sorted([ua, ub]))}", f"pub {a} {ub} CP", f"note {b} {ua} read 1",
                 f"setsub {a} {ub} mode=JRW", f"setsub {a} {ub} mode=JRWPA", f"setsub {b} {ua} user={ua} mode=JRW", f"setsub {b} {ua} user={ua} mode=JRWPA",
                 f"leave {a} {ub} unsub=1", f"deltopic {b} {ua}", f"drop {a}", f"drop {b}", "fg S5", "sub S5 me", "sub S4 me", f"setdesc {a} {ub} priv=pvM",
                 f"delmsg {a} {ub} 1:2", f"delmsg {b} {ua} 1:2 hard=1", f"get {a} me sub", f"get {b} me sub",
                 f"setsub {a} me mode=JRWAS", f"setsub {a} me mode=JRWPAS", f"setsub {b} me mode=JRWAS", f"setsub {b} me mode=JRWPAS", f"setsub {a} me mode=N"]
        out.append(f"sub {a} {ub}")
        for _ in range(5 + rng.below(10)):
            out.append(rng.choice(steps))
            _maybe_restart(rng, out, 25)
    elif k in (1, 4):        # a group: members on `me` learn that it is online, of messages, changes and removals
        owner = rng.choice(["S1", "S2", "S3"])
        ou = ses[owner]
        out.append(f"newgrp {owner}" + rng.choice(["", " pub=pbG", " auth=JRWPS anon=N", " auth=JRW anon=N"]))
        ntop = 1
        T = "T1"
        mem = [s for s in ("S1", "S2", "S3") if s != owner]
        steps = []
        for m in mem:
            mu = ses[m]
            steps += [f"sub {m} {T}", f"leave {m} {T}", f"setsub {owner} {T} user={mu} mode={rng.choice(['JRWPS', 'JRWP', 'JRW', 'JR', 'N', 'RWP'])}",
                      f"setsub {m} {T} mode={rng.choice(['JRW', 'JRWP', 'JRWPS', 'N'])}", f"leave {m} {T} unsub=1", f"delsub {owner} {T} {mu}",
                      f"pub {m} {T} CG", f"note {m} {T} {rng.choice(['read', 'recv'])} {1 + rng.below(3)}", f"sub {m} me", f"leave {m} me", f"unload {mu}", f"drop {m}",
                      f"delmsg {m} {T} 1:{2 + rng.below(3)}", f"setdesc {m} {T} priv=pvG"]
        steps += [f"pub {owner} {T} CG", f"leave {owner} {T}", f"sub {owner} {T}", f"unload {T}", f"unload {T}", f"setdesc {owner} {T} pub=pbH",
                  f"delmsg {owner} {T} 1:2 hard=1", f"sub S4 {T}", "sub S5 me", f"sub S5 {T}", "fg S5", f"deltopic {owner} {T}", f"sub {owner} me", f"unload {ou}",
                  f"note {owner} {T} read 1", f"get {owner} me sub", f"get {mem[0]} me sub", f"get {mem[1]} me sub"]
        for _ in range(6 + rng.below(12)):
            out.append(rng.choice(steps))
            _maybe_restart(rng, out, 30)
        # a member who reads but has muted the group, on `me` and not attached to it, while another member acknowledges a message
        # (receipts are relayed on `me` only with presence permission)
        (m0, m1), u0 = mem, ses[mem[0]]
        out += [f"sub {owner} {T}", f"setsub {owner} {T} user={u0} mode=JRW", f"setsub {owner} {T} user={ses[m1]} mode=JRWP", f"leave {m0} {T}", f"sub {m0} me",
                f"pub {owner} {T} CN", f"sub {m1} {T}", f"note {m1} {T} {rng.choice(['read', 'recv'])} 1", f"note {owner} {T} kp 0"]
    else:                    # everything at once: `me`, a p2p topic, a group and a channel
        out.append("newgrp S1" + rng.choice(["", " chan=1"]))
        ntop = 1
        chan = out[-1].endswith("chan=1")
        rd = "chn:T1" if chan else "T1"
        steps = ["sub S2 " + rd, "leave S2 " + rd, "sub S3 " + rd, "leave S3 " + rd + " unsub=1", "pub S1 T1 CX", "sub S1 U2", "sub S2 U1", "leave S1 U2", "leave S2 U1",
                 "pub S1 U2 CY", "sub S4 me", "leave S4 me", "leave S1 me", "sub S1 me", "sub S2 me", "leave S2 me", "unload U1", "unload U2", "unload T1",
                 "unload P:U1:U2", "drop S1", "drop S2", "fg S5", "sub S5 me", "sub S5 " + rd, "note S2 " + rd + " read 1", "setsub S2 " + rd + " mode=JR",
                 "setsub S2 " + rd + " mode=JRP", "setsub S1 T1 user=U3 mode=JRWP", "setdesc S1 T1 pub=pbZ", "deltopic S2 " + rd, "deltopic S1 T1", "pub S3 me CM",
                 "get S1 me desc", "get S1 me sub", "get S2 me sub", "leave S3 me unsub=1", "setsub S1 me mode=JRWAS", "setsub S1 me mode=JRWPAS", "setsub S2 me mode=JRWA",
                 "setsub S2 me mode=JRWPAS", "setsub S2 U1 mode=JRW", "setsub S2 U1 mode=JRWPA"]
        for _ in range(6 + rng.below(14)):
            out.append(rng.choice(steps))
            _maybe_restart(rng, out, 30)
    out.extend(settle(users, ntop))
    return out


def scenario_fnd(rng):
    """searching (C19): accounts and topics with tags, some suspended or deleted; an ordinary, an anonymous and a root session search
    with OR / AND queries, quoted and malformed ones, tags of the masked namespace; queries are per session, the stored one per user"""
    out = ["reset 32"]
    for u in ("U1", "U2", "U3", "U4"):
        utags = sorted(set(rng.choice(UTAGS) for _ in range(1 + rng.below(3))))
        out.append(f"user {u} {rng.choice(['JRWPAS', 'JRWPA', 'JRWA'])} {rng.choice(['N', 'JRA'])}" + (" state=susp" if u == "U4" and rng.chance(1, 2) else "")
                   + " tags=" + ",".join(utags))
    for s, u, lvl, bg in (("S1", "U1", "auth", ""), ("S2", "U2", "auth", ""), ("S3", "U3", "auth", ""), ("S4", "U1", "auth", ""),
                          ("S5", "U2", "auth", "bg"), ("S6", "U4", "anon", ""), ("S7", "U3", "root", "")):
        out.append(f"sess {s} {u} {lvl} {bg}".strip())
    for i in range(1 + rng.below(3)):
        tg = sorted(set(rng.choice(TAGS[:5] + ["a1", "b2", "music", "travel"]).lower() for _ in range(1 + rng.below(3))))
        out.append(f"newgrp {rng.choice(['S1', 'S2', 'S3'])} tags={','.join(t for t in tg if t[0].isalnum())}" + rng.choice(["", "", " chan=1"]))
    searchers = ["S1", "S4", "S2", "S6", "S7"]
    for s in searchers:
        if rng.chance(3, 4):
            out.append(f"sub {s} fnd")
    steps = []
    for s in searchers:
        steps += [f"setdesc {s} fnd pub={pick_query(rng)}", f"setdesc {s} fnd pub={pick_query(rng)}", f"get {s} fnd sub", f"get {s} fnd sub", f"get {s} fnd desc"]
    steps += ["deltopic S1 T1", "deltopic S2 T1", "userstate U2 susp", "userstate U2 ok", "settags S1 T1 tags=music,a1", "leave S1 fnd", "sub S1 fnd", "drop S4",
              "setdesc S1 fnd priv=music,travel", "setdesc S1 fnd pub=null", "restart", "sub S1 me", "fg S5", "sub S5 fnd", "unload fnd:U1"]
    for _ in range(8 + rng.below(14)):
        out.append(rng.choice(steps))
    for s in searchers:
        out.append(f"get {s} fnd sub")
    return out
