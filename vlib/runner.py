"""Generic check runner: translators -> lake build + axiom audit -> correspondence streams -> verdicts -> report."""
import collections, importlib, json, os, re, sys, time
from . import core
from .core import WORK, VERIF, REPO


class Ctx:
    def __init__(self, pid, tier, seed):
        self.pid, self.tier, self.seed = pid, tier, seed
        self.dir = os.path.join(WORK, pid)
        os.makedirs(self.dir, exist_ok=True)
        self.log = open(os.path.join(self.dir, "log.txt"), "w")
        self.rng = core.SplitMix(seed)
        self.known = core.load_known()
        self.known_hits = collections.OrderedDict()
        self.violations = []          # (replay_path, has_input)
        self.broken = []              # names of proof obligations / correspondences that no longer check
        self.cov = {}

    def say(self, *a):
        print(*a, flush=True)
        self.log.write(" ".join(str(x) for x in a) + "\n")


def load_prop(pid):
    return importlib.import_module(f"vlib.props.{pid}").PROP


def read_lines(p):
    if not os.path.exists(p):
        return []
    with open(p, errors="replace") as f:
        return [l.rstrip("\n") for l in f]


def write_replay(ctx, name, payload):
    d = os.path.join(VERIF, "replays")
    os.makedirs(d, exist_ok=True)
    p = os.path.join(d, f"{ctx.pid}-{name}-{ctx.seed}.json")
    payload = dict(payload, property=ctx.pid, seed=ctx.seed, tier=ctx.tier)
    json.dump(payload, open(p, "w"), indent=1)
    return p


def run_stream_once(ctx, st, binpath, ops, tag):
    """Runs impl + model + verdict on a list of op lines. Returns (impl, model, verdict) line lists."""
    d = ctx.dir
    opsf = os.path.join(d, f"{st['name']}.{tag}.ops")
    with open(opsf, "w") as f:
        f.write("\n".join(ops) + "\n")
    implf, modf, verf, joinf = (os.path.join(d, f"{st['name']}.{tag}.{x}") for x in ("impl", "model", "verdict", "join"))
    rc, out = core.go_run_stream(binpath, opsf, implf, os.path.join(REPO, core.PKGDIR[st["pkg"]]), ctx.log,
                                 test=st.get("test", "TestVerifStream"), extra_env=st.get("env"))
    impl = read_lines(implf)
    if rc != 0 and len(impl) < len(ops):
        # the harness process died (a panic outside recover, os.Exit, deadlock): pad, and mark the first missing op
        impl = impl + ["crash"] + ["-"] * (len(ops) - len(impl) - 1)
    rc2, err = core.driver_run(st.get("model_mode", "model"), opsf, modf)
    model = read_lines(modf)
    if rc2 != 0:
        ctx.say("driver failed:", err[-2000:])
    with open(joinf, "w") as f:
        for o, i in zip(ops, impl):
            f.write(o + "\t" + i + "\n")
    n = len(ops)
    if st.get("verdict_mode", "verdict"):
        core.driver_run(st.get("verdict_mode", "verdict"), joinf, verf)
        verdict = read_lines(verf)
    else:
        verdict = ["ok"] * n          # the property is decided by the history monitor (`post`), not line by line
    impl += ["<missing>"] * (n - len(impl))
    model += ["<missing>"] * (n - len(model))
    verdict += ["<missing>"] * (n - len(verdict))
    return impl[:n], model[:n], verdict[:n]


def case_bounds(ops, i):
    """Indices [a, b) of the independent case that contains line i (cases start at a `reset` line)."""
    a = i
    while a > 0 and not ops[a].startswith("reset"):
        a -= 1
    if not ops[a].startswith("reset"):
        return i, i + 1         # pure stream: every line is its own case
    b = i + 1
    return a, b


def minimise(ctx, st, binpath, case_ops, pred, budget=40):
    """Greedy line removal keeping `pred` (re-runs both sides each time)."""
    cur = list(case_ops)
    k = 0
    i = len(cur) - 2            # keep the last (failing) line and the reset line
    while i >= 1 and k < budget:
        cand = cur[:i] + cur[i + 1:]
        impl, model, verdict = run_stream_once(ctx, st, binpath, cand, "min")
        k += 1
        if pred(cand, impl, model, verdict):
            cur = cand
        i -= 1
    return cur


def run_stream(ctx, prop, st, seeds, search=False):
    pid = ctx.pid
    rc, out, binpath = core.go_build_harness(pid, st["pkg"], ctx.log, tags=st.get("tags", "verif"))
    if rc != 0:
        ctx.say(f"[{pid}] harness for package {st['pkg']} does not build against /repo's tree:")
        ctx.say(out[-3000:])
        ctx.broken.append(f"correspondence:{st['name']} (harness build failed: the code's interface changed)")
        return
    total = dict(evals=0, distinct=set(), ophist=collections.Counter(), outhist=collections.Counter(), diffs=0, fails=0,
                 samples=[])
    # corpus first
    corpus_dir = os.path.join(VERIF, "corpus", pid)
    batches = []
    if os.path.isdir(corpus_dir) and not search:
        for fn in sorted(os.listdir(corpus_dir)):
            if fn.startswith(st["name"] + ".") and fn.endswith(".ops"):
                batches.append(("corpus-" + fn, read_lines(os.path.join(corpus_dir, fn))))
    for sd in seeds:
        rng = core.SplitMix(sd).fork(st["name"])
        batches.append((f"seed{sd}", list(st["gen"](rng, ctx.tier))))
    for tag, ops in batches:
        ops = [o for o in ops if o.strip()]
        if not ops:
            continue
        impl, model, verdict = run_stream_once(ctx, st, binpath, ops, "run")
        total["evals"] += len(ops)
        reported_cases = set()
        for idx, (o, i, m, v) in enumerate(zip(ops, impl, model, verdict)):
            kind = o.split(" ", 1)[0]
            total["ophist"][kind] += 1
            cat = st["classify"](o, i) if "classify" in st else i.split(" ", 1)[0]
            total["outhist"][f"{kind}:{cat}"] += 1
            if cat is not None and cat != "trivial":
                total["distinct"].add(hash(o))
            if len(total["samples"]) < 6 and (idx % max(1, len(ops) // 6) == 0):
                total["samples"].append({"op": o, "impl": i, "model": m, "verdict": v})
            differs = i != m
            failed = v != "ok"
            if not differs and not failed:
                continue
            a, b = case_bounds(ops, idx)
            if a in reported_cases:
                continue
            text = "\n".join(ops[a:b]) + "\n=> " + i
            kf = core.match_known(ctx.known, pid, text)
            if kf is not None:
                ctx.known_hits.setdefault(kf["id"], kf)
                continue
            reported_cases.add(a)
            if differs:
                total["diffs"] += 1
            if failed:
                total["fails"] += 1
                if len([x for x in ctx.violations if x[1]]) >= 3:
                    continue
                case = ops[a:b]
                if b - a > 2:
                    def pred(c, im, mo, ve):
                        return ve and ve[-1] != "ok" and core.match_known(ctx.known, pid, "\n".join(c) + "\n=> " + im[-1]) is None
                    case = minimise(ctx, st, binpath, case, pred)
                im2, mo2, ve2 = run_stream_once(ctx, st, binpath, case, "rep")
                p = write_replay(ctx, f"{st['name']}-{len(ctx.violations)}", dict(
                    kind="failing-input", stream=st["name"], pkg=st["pkg"], ops=case, impl=im2, model=mo2, verdict=ve2,
                    explanation="the property monitor (Lean, proved to accept every model trace) rejects the implementation's output on the last op"))
                ctx.violations.append((p, True))
            else:
                name = f"correspondence:{st['name']}"
                if name not in [b0.split(" ")[0] for b0 in ctx.broken]:
                    ctx.broken.append(f"{name} first-disagreement: op `{o}` impl `{i}` model `{m}` (batch {tag})")
        if "post" in st:
            nrep = 0
            for item in st["post"](ctx, ops, impl):
                if len(item) == 2:
                    case, why = list(item[0]), item[1]
                else:
                    case, why = [item[0], item[1]], item[2]
                kf = core.match_known(ctx.known, pid, "\n".join(case) + "\n=> " + why)
                if kf is not None:
                    ctx.known_hits.setdefault(kf["id"], kf)
                    total["known"] = total.get("known", 0) + 1
                    continue
                total["fails"] += 1
                nrep += 1
                if nrep > 2:
                    continue
                if st.get("post_min"):
                    case = st["post_min"](ctx, st, binpath, case, why)
                im2, mo2, ve2 = run_stream_once(ctx, st, binpath, case, "rep")
                p = write_replay(ctx, f"{st['name']}-{len(ctx.violations)}", dict(
                    kind="failing-input", stream=st["name"], pkg=st["pkg"], ops=case, impl=im2, model=mo2, verdict=ve2,
                    explanation="cross-line property check on the implementation's outputs: " + why))
                ctx.violations.append((p, True))
    cov = ctx.cov.setdefault("streams", {})
    prev = cov.get(st["name"])
    if prev is not None:
        # a further search round over the same stream: the counts add up
        total["evals"] += prev["evaluations"]
        total["diffs"] += prev["disagreements"]
        total["fails"] += prev["monitor_failures"]
        total["known"] = total.get("known", 0) + prev["known_finding_hits"]
        total["samples"] = prev["samples"]
        for kk, vv in prev["op_histogram"].items():
            total["ophist"][kk] += vv
        for kk, vv in prev["outcome_histogram"].items():
            total["outhist"][kk] += vv
        total["distinct_prev"] = prev["distinct_nontrivial"]
    cov[st["name"]] = dict(evaluations=total["evals"], distinct_nontrivial=len(total["distinct"]) + total.get("distinct_prev", 0),
                           op_histogram=dict(total["ophist"]), outcome_histogram=dict(total["outhist"].most_common(40)),
                           disagreements=total["diffs"], monitor_failures=total["fails"], known_finding_hits=total.get("known", 0),
                           samples=total["samples"])


def main_check(pid, tier, seed, replay=None):
    t0 = time.time()
    ctx = Ctx(pid, tier, seed)
    prop = load_prop(pid)
    if replay:
        return do_replay(ctx, prop, replay)
    rd = os.path.join(VERIF, "replays")
    if os.path.isdir(rd):
        for fn in os.listdir(rd):
            if fn.startswith(pid + "-"):
                os.remove(os.path.join(rd, fn))
    # 0. forbidden constructs
    hits = core.lean_grep()
    if hits:
        ctx.say("forbidden constructs in Lean sources:", *hits)
        ctx.broken.append("lean-source-scan: " + "; ".join(hits[:3]))
    # 1. translators (T2): regenerate Gen/*.lean from /repo
    tr_info = {}
    for tr in prop.get("translators", []):
        ok, info = tr(ctx)
        tr_info[tr.__name__] = info
        if not ok:
            ctx.broken.append(f"translator:{tr.__name__}: {str(info)[:300]}")
    # 1b. the generated files this property does not rest on are regenerated too - the driver is built from all of them, and a file
    # left behind by an earlier run on another tree must not decide this one; when such a file cannot be regenerated, or the driver does
    # not build with it, the committed version stands in for it (it is another property's obligation, reported by that property's check)
    from . import setup as vsetup
    own = {tr.__name__ for tr in prop.get("translators", [])}
    foreign = [(n, g) for n, g in vsetup.TRANSLATORS if ("tr_" + n) not in own]

    def restore_committed(gen):
        rcg, og = core.run(["git", "-C", core.VERIF, "show", "HEAD:lean/TinodeVerif/Gen/" + gen], timeout=60)
        if rcg == 0 and og.strip():
            open(os.path.join(core.LEAN, "TinodeVerif", "Gen", gen), "w").write(og)
            return True
        return False

    for n, g in foreign:
        ok, info = core.run_translator(n, g, ctx.log)
        if not ok:
            restore_committed(g)
    # 2. proofs
    rc0, out0 = core.lake_build(["driver"], ctx.log)
    if rc0 != 0 and foreign:
        for n, g in foreign:
            restore_committed(g)
        rc0, out0 = core.lake_build(["driver"], ctx.log)
    if rc0 != 0:
        ctx.say(f"[{pid}] the Lean driver does not build:")
        for e in re.findall(r"error: ([^\n]*)", out0)[:6]:
            ctx.say("   ", e)
        ctx.broken.append("driver-build (the executable model no longer compiles against the regenerated definitions)")
    rc, out = core.lake_build(prop["modules"], ctx.log)
    build_ok = rc == 0
    failed_decls = []
    if not build_ok:
        errs = re.findall(r"error: ([^\n]*\.lean:\d+:\d+: [^\n]*)", out)
        ctx.say(f"[{pid}] lake build failed:")
        for e in errs[:8]:
            ctx.say("   ", e)
        failed_decls = errs[:8]
    theorems = prop["theorems"]
    audit = {}
    if build_ok:
        audit = core.lean_audit(pid, prop["modules"], theorems, ctx.log)
    discharged = [t for t in theorems if audit.get(t, (False,))[0]]
    for t in theorems:
        if t not in discharged:
            why = audit.get(t, (False, ["build failed"]))[1]
            ctx.broken.append(f"theorem:{t} ({', '.join(map(str, why))})")
    if not build_ok and not os.path.exists(core.DRIVER):
        ctx.say("driver binary missing; cannot run correspondence")
    # 3. correspondence (+ search with more seeds when a tie is already broken)
    nseeds = prop.get("seeds", {}).get(tier, 1)
    if ctx.broken:
        nseeds += 2 if tier == "quick" else 6
    seeds = [seed + 7919 * k for k in range(nseeds)]
    if rc0 != 0 and os.path.exists(core.DRIVER):
        os.remove(core.DRIVER)          # never run a stale model
    if os.path.exists(core.DRIVER):
        for st in prop.get("streams", []):
            run_stream(ctx, prop, st, seeds)
        # a tie broke during the run and no failing input came with it: search further seeds for one (corpus files are not re-run)
        extra = 3 if tier == "quick" else 6
        searched = 0
        for k in range(nseeds, nseeds + extra):
            if not ctx.broken or any(v[1] for v in ctx.violations):
                break
            if not any(b.startswith("correspondence:") for b in ctx.broken):
                break
            searched += 1
            ctx.say(f"[{pid}] searching for a failing input: seed {seed + 7919 * k}")
            for st in prop.get("streams", []):
                run_stream(ctx, prop, st, [seed + 7919 * k], search=True)
        nseeds += searched
    for ex in prop.get("extra", []):
        ex(ctx)
    # 4. report
    for kf in ctx.known_hits.values():
        ctx.say(f"KNOWN-FINDING: property={pid} {kf['what']}")
    n_viol = len(ctx.violations)
    if ctx.broken and not any(v[1] for v in ctx.violations):
        p = write_replay(ctx, "broken-tie", dict(kind="broken-tie", broken=ctx.broken, build_errors=failed_decls,
                                                  explanation="a proof obligation or correspondence no longer checks; the search "
                                                  f"over {nseeds} seeds found no input on which the property monitor fails"))
        ctx.violations.append((p, False))
    streams = ctx.cov.get("streams", {})
    evals = sum(s["evaluations"] for s in streams.values())
    distinct = sum(s["distinct_nontrivial"] for s in streams.values())
    samples = [x for s in streams.values() for x in s["samples"]][:8] or [{"obligation": t} for t in theorems[:5]]
    coverage = dict(
        obligations=len(theorems), discharged=len(discharged),
        checker_cmd=f"cd /verif/lean && lake build {' '.join(prop['modules'])} && lake env lean ../.work/{pid}/Audit.lean  (#print axioms of every obligation)",
        trusted_base=core.TRUSTED_BASE + prop.get("trusted", []),
        theorems={t: audit.get(t, (False, ["build failed"]))[1] for t in theorems},
        evaluations=evals, distinct_nontrivial=distinct,
        rule=prop.get("rule", ""), samples=samples, streams=streams, translators=tr_info,
        traces_validated_against_impl=evals, broken=ctx.broken,
        known_findings=[k["id"] for k in ctx.known_hits.values()],
        exhaustive=bool(prop.get("exhaustive", {}).get(tier, False)))
    coverage.update(ctx.cov.get("extra", {}))
    core.write_evidence(pid, tier, seed, coverage, prop.get("assumptions", []), time.time() - t0, len(ctx.violations))
    if ctx.violations:
        for p, has_input in ctx.violations:
            ctx.say(f"VIOLATION property={pid} replay={p}" + ("" if has_input else " no-failing-input-found"))
        return 1
    ctx.say(f"[{pid}] ok: {len(discharged)}/{len(theorems)} obligations discharged, {evals} correspondence evaluations, "
            f"{time.time() - t0:.1f}s")
    return 0


def do_replay(ctx, prop, path):
    r = json.load(open(path))
    if r.get("kind") != "failing-input":
        ctx.say("replay names broken obligations:", *r.get("broken", []))
        return main_check(ctx.pid, ctx.tier, r.get("seed", ctx.seed))
    st = [s for s in prop["streams"] if s["name"] == r["stream"]][0]
    rc, out, binpath = core.go_build_harness(ctx.pid, st["pkg"], ctx.log, tags=st.get("tags", "verif"))
    if rc != 0:
        ctx.say(out[-3000:])
        return 2
    core.lake_build(["driver"], ctx.log)
    impl, model, verdict = run_stream_once(ctx, st, binpath, r["ops"], "replay")
    bad = False
    for o, i, m, v in zip(r["ops"], impl, model, verdict):
        ctx.say(f"{o}\n    impl:  {i}\n    model: {m}\n    verdict: {v}")
        bad = bad or v != "ok"
    if "post" in st:
        for item in st["post"](ctx, list(r["ops"]), impl):
            case, why = (list(item[0]), item[1]) if len(item) == 2 else ([item[0], item[1]], item[2])
            if core.match_known(ctx.known, ctx.pid, "\n".join(case) + "\n=> " + why) is None:
                ctx.say("    monitor:", why)
                bad = True
    if bad:
        ctx.say(f"VIOLATION property={ctx.pid} replay={path}")
        return 1
    return 0
