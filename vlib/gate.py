"""Session-gate stream (C11): generator, history monitor, stream definition."""
import re

KINDS = ["pub", "sub", "leave", "get", "set", "del", "note"]
VERS = ["0.22", "0.23", "0.19", "0.18", "0.16", "abc", "-", "1", "v0.22.3-rc1", "0.22x", "99999.1", "0", ".", "0.0"]
SECRETS = ["ok:U1:auth", "ok:U3:root", "ok:U1:anon", "ok:U2:auth:undef", "ok:U1:auth:undef", "ok:U1:auth:susp", "ok:U3:auth:deleted",
           "ok:U1:auth:nologin", "ok:U3:root:nologin", "chal:U1:auth", "err:failed", "err:expired", "err:malformed", "err:internal",
           "err:notfound", "err:denied", "ok:U1:auth:validated"]
AS = ["U1", "U2", "U3", "U2:anon", "U1:root", "U3:auth", "U2:bogus", "usrBAD", "U9:auth", "x"]


def gen_case(rng, n):
    out = ["reset"]
    did_hi = False
    for _ in range(n):
        k = rng.below(100)
        asx = ""
        if rng.chance(1, 5):
            asx = " as=" + rng.choice(AS)
        if k < 14 or (not did_hi and rng.chance(1, 3)):
            out.append("hi ver=" + (rng.choice(["0.22", "0.23", "0.22"]) if rng.chance(1, 2) else rng.choice(VERS)) + asx)
            did_hi = True
        elif k < 40:
            sch = rng.below(10)
            if sch < 7:
                out.append("login vfake " + rng.choice(SECRETS) + asx)
            elif sch < 9:
                out.append("login token last" + asx)
            else:
                out.append("login bogus x" + asx)
        elif k < 48:
            out.append(rng.choice(["acc tmp=bogus", "acc tmp=vfake tmpsecret=err:failed", "acc tmp=vfake tmpsecret=err:internal",
                                   "acc tmp=vfake tmpsecret=err:denied"]) + asx)
        elif k < 50:
            out.append("empty" + asx)
        else:
            out.append(rng.choice(KINDS) + asx)
    return out


def with_validators(r2, case):
    """in one history out of three the `auth` level requires a validated e-mail, which some accounts have: a login of an account
    without one is answered 300 with a token that does not open the session either; choices from a generator of their own"""
    if not r2.chance(1, 3):
        return case
    out = [case[0], "validators on"]
    for u in ("U1", "U2", "U3"):
        if r2.chance(1, 3):
            out.append(f"cred {u}")
    rest = case[1:]
    # more logins and token re-logins than in the plain histories
    for _ in range(1 + r2.below(4)):
        pos = r2.below(len(rest) + 1)
        rest = rest[:pos] + [r2.choice(["login vfake ok:U1:auth", "login vfake ok:U3:auth", "login token last", "login token last",
                                        "login vfake ok:U1:auth:validated", "login vfake ok:U1:auth:nologin", "cred U1", "validators off",
                                        "validators on", "login vfake ok:U3:root"])] + rest[pos:]
    return out + rest


def with_junk_tokens(r2, case):
    """in half of the histories a token which is no token is presented - to {login} and as the temporary secret of {acc} -: bytes of every
    length around the size of a real one (50 bytes); choices from a generator of their own"""
    if not r2.chance(1, 2):
        return case
    rest = case[1:]
    for _ in range(1 + r2.below(3)):
        n = r2.choice([0, 1, 17, 18, 19, 31, 32, 33, 48, 49, 50, 51, 64, 100]) if r2.chance(2, 3) else r2.below(70)
        pos = r2.below(len(rest) + 1)
        rest = rest[:pos] + [r2.choice([f"login token z{n}", f"login token z{n}", f"acc tmp=token tmpsecret=z{n}"])] + rest[pos:]
    return [case[0]] + rest


def gen_gate(rng, tier):
    for i in range(1500 if tier == "thorough" else 250):
        case = gen_case(rng, 4 + rng.below(16))
        case = with_junk_tokens(rng.fork(f"junktok-{i}"), case)
        for l in with_validators(rng.fork(f"validators-{i}"), case):
            yield l


LINE = re.compile(r"^\[(.*)\] hub=(\S*) seen=(\S+)/(\d+) \| ver=([0-9a-f]+) uid=(\S+) lvl=(\d+)$")


def parse(out):
    m = LINE.match(out)
    if not m:
        return None
    return dict(replies=[r for r in m.group(1).split(" ") if re.match(r"^\d+/", r)], raw=m.group(1), hub=m.group(2), seen=(m.group(3), int(m.group(4))),
                ver=m.group(5), uid=m.group(6), lvl=int(m.group(7)))


def monitor(ops, outs):
    res = []
    st = None
    start = 0
    for i, (o, out) in enumerate(zip(ops, outs)):
        w = o.split(" ")
        if w[0] == "reset":
            st = dict(ver="0", uid="-", lvl=0, validators=False, creds=set())
            start = i
            continue
        if w[0] == "validators" and st is not None:
            st["validators"] = w[1] == "on"
            continue
        if w[0] == "cred" and st is not None:
            st["creds"].add(w[1])
            continue
        if out in ("panic", "crash"):
            res.append((ops[start:i + 1], f"C11 the server panicked on `{o}`"))
            st = None
            continue
        p = parse(out)
        if p is None or st is None:
            continue
        kv = dict(x.split("=", 1) for x in w[1:] if "=" in x)
        fails = []
        codes = [int(r.split("/")[0]) for r in p["replies"]]
        passed = bool(p["hub"]) or (w[0] in ("pub", "leave") and codes and codes[0] in (409, 304) and p["replies"][0].endswith("/1")
                                    and not (st["ver"] == "0"))
        gate_refused = (codes[:1] in ([409], [401]) and not p["hub"]) or (codes[:1] in ([403], [400]) and p["replies"][0].endswith("/-"))
        if w[0] in KINDS:
            # handshake and login are required
            if st["ver"] == "0":
                if p["hub"] or (w[0] != "note" and codes[:1] != [409] and not (codes[:1] in ([403], [400]) and "as" in kv)):
                    fails.append(f"`{w[0]}` before the handshake was not refused with 409 ({p['raw']} hub={p['hub']})")
                if w[0] == "note" and (p["replies"] and "as" not in kv or p["hub"]):
                    fails.append(f"a note before the handshake was answered or routed")
            elif st["uid"] == "-" and "as" not in kv:
                if w[0] == "note":
                    if p["replies"] or p["hub"]:
                        fails.append("a note from a session which is not logged in was answered or routed")
                elif codes[:1] != [401] or p["hub"]:
                    fails.append(f"`{w[0]}` from a session which is not logged in was not refused with 401 ({p['raw']} hub={p['hub']})")
            if "as" in kv:
                if st["lvl"] != 30:
                    if p["hub"] or codes[:1] != [403]:
                        fails.append(f"`{w[0]}` on behalf of {kv['as']} from a non-root session was not refused with 403")
                elif p["hub"] or (codes and not gate_refused):
                    want = kv["as"].split(":")[0]
                    if p["seen"][0] != want:
                        fails.append(f"on-behalf-of request ran as {p['seen'][0]} instead of {want}")
            elif st["uid"] != "-" and st["ver"] != "0":
                if p["seen"] != (st["uid"], st["lvl"]):
                    fails.append(f"request ran as {p['seen'][0]}/{p['seen'][1]} instead of the logged-in {st['uid']}/{st['lvl']}")
        if w[0] in ("login", "acc") and st["ver"] == "0" and codes[:1] != [409] and "as" not in kv:
            fails.append(f"`{w[0]}` before the handshake was not refused with 409")
        # state transitions
        if p["ver"] != st["ver"]:
            if not (w[0] == "hi" and st["ver"] == "0" and codes[:1] == [201] and "as" not in kv or (w[0] == "hi" and st["ver"] == "0" and codes[:1] == [201])):
                fails.append(f"protocol version changed from {st['ver']} to {p['ver']} by `{o}`")
        if (p["uid"], p["lvl"]) != (st["uid"], st["lvl"]):
            ok = False
            if w[0] == "login" and st["uid"] == "-" and st["ver"] != "0" and codes[:1] == [200] and len(w) > 2:
                sec = w[2].split(":")
                if w[1] == "vfake" and sec[0] == "ok" and not (set(sec[3:]) & {"nologin", "susp", "deleted"}) and not (sec[1] == "U2" and "undef" in sec[3:]):
                    lv = {"anon": 10, "auth": 20, "root": 30}.get(sec[2], 0)
                    ok = (p["uid"], p["lvl"]) == (sec[1], lv)
                elif w[1] == "token":
                    ok = st.get("tok") is not None and not st["tok"][2] and (p["uid"], p["lvl"]) == st["tok"][:2]
                # "a login that … requires more credential validation … leaves the session unauthenticated": with validators configured for
                # the level, the session opens only for an account with a validated credential or a record which says so itself
                if ok and st["validators"] and p["lvl"] == 20 and p["uid"] not in st["creds"]:
                    said = (w[1] == "vfake" and "validated" in w[2].split(":")[3:]) or (w[1] == "token" and st.get("tok") and st["tok"][3])
                    if not said:
                        ok = False
                        fails.append(f"`{o}` authenticated the session as {p['uid']} although the `auth` level requires a validated credential, the "
                                     f"account has none and the record presented was issued without the validation (credential validation is bypassed)")
            if not ok:
                fails.append(f"session identity changed from {st['uid']}/{st['lvl']} to {p['uid']}/{p['lvl']} by `{o}`")
        if w[0] == "login" and codes[:1] in ([200], [300]) and " token" in p["raw"] and len(w) > 2:
            # what the token stands for: the account, the level, the no-login restriction, and whether it was issued after the credentials
            # had been found complete (200) or while something was missing (300)
            if w[1] == "vfake":
                sec = w[2].split(":")
                st["tok"] = (sec[1], {"anon": 10, "auth": 20, "root": 30}.get(sec[2], 0), "nologin" in sec[3:], codes[:1] == [200])
            elif w[1] == "token" and st.get("tok"):
                st["tok"] = (st["tok"][0], st["tok"][1], st["tok"][2], codes[:1] == [200])
        for f in fails[:2]:
            res.append((ops[start:i + 1], "C11 " + f))
        st.update(ver=p["ver"], uid=p["uid"], lvl=p["lvl"])
    # one report per rule
    seen, uniq = set(), []
    for case, why in res:
        k = re.sub(r"\d+", "#", why)
        if k not in seen:
            seen.add(k)
            uniq.append((case, why))
    return uniq


def classify(op, out):
    w = op.split(" ")
    if w[0] == "reset":
        return "trivial"
    p = parse(out)
    if p is None:
        return out[:10]
    return (p["replies"][0].split("/")[0] if p["replies"] else "silent") + ("+" + p["hub"] if p["hub"] else "")


def gate_stream():
    return dict(name="gate", pkg="main", test="TestVerifGate", gen=gen_gate, classify=classify, model_mode="gate", verdict_mode=None,
                post=lambda ctx, ops, impl: monitor(ops, impl))
