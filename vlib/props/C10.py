from .. import world

T = "Tinode.Props.C10."

PROP = dict(
    id="C10",
    level_text="PARTIAL (group topics). Kernel-checked Lean theorems: presence passes to a user iff the effective mode has P (permission-change and removal notices regardless) and the filters agree; a routed presence message is delivered exactly to the attached, non-originating sessions of users who pass the filters. The history monitor checks on every generated history that a user's online count in a topic equals the number of that user's attached foreground sessions and is never negative, and that every presence frame went to an attached session of a subscriber with P. Found and repaired this way: background sessions of new group / p2p topics never counted after going foreground (fix: 78ce72d).",
    level_note="NOT covered: the 'me' topic and peer-to-peer clauses (who has last been told online/offline once activity has settled), idle unload of 'me', and every interleaving clause - the sequential group-topic model has neither 'me' topics nor schedules. Runtime behaviour the model cannot exhibit: goroutine interleavings of attach/detach with the background timer (F22).",
    technique='Lean 4 proof (filter predicates and the delivery fold over the transcribed presence path) + differential correspondence of the world model + history monitor (online-count accounting, presence recipients)',
    modules=["TinodeVerif.Props.C10"],
    theorems=[T + n for n in ['passes_iff', 'no_presence_without_P', 'pres_recipient', 'deliver_one', 'leave_decrements_once']],
    streams=[world.world_stream("C10")],
    seeds=dict(quick=1, thorough=4),
    rule="random histories of 30-120 requests per case (420 cases quick, 600 thorough per seed, every third a clause scenario with random parameters) over 4 users, 7 sessions (two per user, "
         "one background, one anonymous, one root acting for others) up to 3 group topics and the peer-to-peer topics between the users, a third of the cases with one injected "
         "store failure per request, a third with crash points and restarts; non-trivial = every request line",
    assumptions=world.WORLD_ASSUMPTIONS,
    trusted=world.WORLD_TRUSTED,
)
