from .. import world

T = "Tinode.Props.C10."

PROP = dict(
    id="C10",
    level_text="PARTIAL (sequential histories). Kernel-checked Lean theorems. In a topic: presence passes to a user iff the effective mode has P (permission-change and removal notices regardless) and the filters agree; a routed presence message is delivered exactly to the attached, non-originating sessions of users who pass the filters. On `me`: a notification for the subscribers who are not attached is addressed to live subscribers only and - acs, gone and (for anybody who may join) upd apart - only to those with P; a receipt relayed as {info} only to subscribers with P and R; a `me` topic passes news on to its own attached sessions only; the contact table after on / off / gone from an enabled or a muted contact, when the news is passed on (only on a change) and what is answered; the on-handshake between two users ends after two messages with both tables saying online - step by step (handshake_completes) and as one run of the hub's queue over an arbitrary world (announce_converges: the queue drains, both tables say online, nothing keeps circulating); going online/offline addresses exactly the contacts `notifyOnOrSkip` admits. The history monitor checks on every generated history the online counts, every presence frame in a topic, every frame on `me` (attached, subscribed, P, not banned) and - whenever activity has settled - that each user on `me` was last told online about a p2p partner iff the partner is on `me`, and about a group iff it is loaded. Found and repaired this way: background sessions of new group / p2p topics never counted after going foreground (fix: 78ce72d).",
    level_note="NOT covered: schedules - requests are processed one at a time and the hub's queue is drained after each, so the interleavings of the topics' goroutines with the background timer (F22) and with each other are not exhibited; user-agent (`ua`) notifications; the other requests served by a `me` topic. The convergence clause is decided by the monitor on histories and by the handshake theorems per step, not by one theorem over whole executions.",
    technique='Lean 4 proof (filter predicates, the delivery folds and the on/off handshake of the transcribed presence path) + differential correspondence of the world model + history monitor (online-count accounting, presence recipients in a topic and on me, convergence once settled)',
    modules=["TinodeVerif.Props.C10", "TinodeVerif.Props.C10m", "TinodeVerif.Props.C10h"],
    theorems=[T + n for n in ['passes_iff', 'no_presence_without_P', 'pres_recipient', 'deliver_one', 'leave_decrements_once',
                              'subs_offline_entitled', 'subs_offline_never_banned', 'subs_offline_needs_P', 'single_offline_entitled', 'info_offline_entitled',
                              'forward_on_me_recipients', 'psGet_psSet_self', 'psGet_psDel_self', 'on_from_enabled_contact',
                              'off_from_enabled_contact', 'muted_contact_is_silent', 'gone_removes_contact', 'handshake_completes',
                              'users_of_interest_addressees', 'users_of_interest_complete',
                              'psGet_psSet_other', 'on_from_enabled_topic', 'forwardOnMe_rest', 'deliverOff_on', 'announce_converges',
                              'off_from_enabled_topic', 'deliverOff_off', 'going_offline_converges', 'terminateTopic_off', 'unload_me_tells_contacts',
                              'users_of_interest_mono', 'presDirect_off', 'evictMe_off', 'going_invisible_tells_contacts', 'becoming_visible_tells_contacts']],
    streams=[world.world_stream("C10")],
    seeds=dict(quick=1, thorough=4),
    rule="random histories of 30-120 requests per case (420 cases quick, 600 thorough per seed, every third a clause scenario with random parameters) over 4 users, 7 sessions (two per user, "
         "one background, one anonymous, one root acting for others) up to 3 group topics, the peer-to-peer topics between the users and (two cases in three) the users' `me` topics, a third of the cases with one injected "
         "store failure per request, a third with crash points and restarts; non-trivial = every request line",
    assumptions=world.WORLD_ASSUMPTIONS,
    trusted=world.WORLD_TRUSTED,
)

from ..pin import add_pin
PROP = add_pin(PROP)
