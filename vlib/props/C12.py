import base64, hashlib, hmac, struct, time
from ..core import hexs

T = "Tinode.Props.C12."


def mk_token(key, uid, expires, level, serial, features):
    data = struct.pack("<QIHHH", uid & (2**64 - 1), expires & 0xFFFFFFFF, level & 0xFFFF, serial & 0xFFFF, features & 0xFFFF)
    return data + hmac.new(key, data, hashlib.sha256).digest()


def mac_of(key, tok):
    return hmac.new(key, tok[:18], hashlib.sha256).digest()


def gen_tok(rng, tier):
    big = tier == "thorough"
    now = int(time.time())
    now_ms = now * 1000
    keys = [bytes(range(32)), bytes([rng.below(256) for _ in range(32)]), bytes([rng.below(256) for _ in range(48)])]
    for key in keys:
        for serial in [0, 1, 7, 65535]:
            for _ in range(12 if big else 4):
                uid = rng.next() & (2**64 - 1)
                level = rng.choice([0, 10, 20, 30])
                feat = rng.choice([0, 1, 2, 0xFFFF])
                tok = mk_token(key, uid, now + 3600 + rng.below(100000), level, serial, feat)
                yield f"tok.auth {hexs(key)} {serial} {now_ms} {hexs(tok)} {hexs(mac_of(key, tok))}"
                # every single-bit flip of the 50 bytes
                bits = range(400) if big else [rng.below(400) for _ in range(60)]
                for b in bits:
                    m = bytearray(tok)
                    m[b // 8] ^= 1 << (b % 8)
                    m = bytes(m)
                    yield f"tok.auth {hexs(key)} {serial} {now_ms} {hexs(m)} {hexs(mac_of(key, m))}"
                # truncations and extensions
                for n in ([0, 1, 17, 18, 19, 49] if not big else range(0, 50)):
                    yield f"tok.auth {hexs(key)} {serial} {now_ms} {hexs(tok[:n])} {hexs(mac_of(key, tok[:n]))}"
                for ext in [b"\x00", b"\xff", b"abc"]:
                    yield f"tok.auth {hexs(key)} {serial} {now_ms} {hexs(tok + ext)} {hexs(mac_of(key, tok))}"
                # foreign key, wrong serial (incl. serial + 65536), expired, invalid level
                other = bytes([(x + 1) % 256 for x in key])
                f = mk_token(other, uid, now + 3600, level, serial, feat)
                yield f"tok.auth {hexs(key)} {serial} {now_ms} {hexs(f)} {hexs(mac_of(key, f))}"
                for ws in [serial + 1, serial + 65536, serial - 65536, -1]:
                    yield f"tok.auth {hexs(key)} {ws} {now_ms} {hexs(tok)} {hexs(mac_of(key, tok))}"
                for dt in [-100000, -3600, -60, 60]:
                    e = mk_token(key, uid, now + dt, level, serial, feat)
                    yield f"tok.auth {hexs(key)} {serial} {now_ms} {hexs(e)} {hexs(mac_of(key, e))}"
                for lv in [31, 40, 65535]:
                    e = mk_token(key, uid, now + 3600, lv, serial, feat)
                    yield f"tok.auth {hexs(key)} {serial} {now_ms} {hexs(e)} {hexs(mac_of(key, e))}"
        for _ in range(200 if big else 40):
            serial = rng.choice([0, 1, 65535, 65536, 65537, 70000, -1])
            uid = rng.choice([0, 1, rng.next() & (2**64 - 1)])
            level = rng.choice([0, 10, 20, 30, 31, 40, 65566])
            feat = rng.choice([0, 1, 3, 65536, 65537])
            life = rng.choice([0, 60, 3600, 100000, -1, -3600])
            yield f"tok.rt {hexs(key)} {serial} {now_ms} {uid} {level} {feat} {life}"


def mk_apikey(salt, seq, root, version=1):
    data = struct.pack(">B4sHB", version, b"\x00\x00\x00\x00", seq, root)
    return data + hmac.new(salt, data, hashlib.md5).digest()


def gen_key(rng, tier):
    big = tier == "thorough"
    B64 = "ABCDEFGHIJKLMNOPQRSTUVWXYZabcdefghijklmnopqrstuvwxyz0123456789-_"

    def line(salt, s):
        # the MAC the model needs: HMAC-MD5(salt, first 8 decoded bytes) when the string decodes
        try:
            cleaned = s.replace("\n", "").replace("\r", "")
            d = base64.urlsafe_b64decode(cleaned) if all(c in B64 + "=" for c in cleaned) and len(cleaned) % 4 == 0 else b""
        except Exception:
            d = b""
        d8 = (d + bytes(8))[:8] if len(d) >= 1 else d[:8]
        d8 = d[:8]
        return f"key.check {hexs(salt)} {hexs(s)} {hexs(hmac.new(salt, d8, hashlib.md5).digest())}"
    salts = [bytes(range(32)), bytes([rng.below(256) for _ in range(32)])]
    for salt in salts:
        for _ in range(40 if big else 10):
            raw = mk_apikey(salt, rng.below(65536), rng.choice([0, 1, 2]), rng.choice([1, 1, 1, 0, 2]))
            s = base64.urlsafe_b64encode(raw).decode()
            yield line(salt, s)
            for _ in range(40 if big else 12):
                i = rng.below(len(s))
                yield line(salt, s[:i] + rng.choice(B64 + "=\n +/") + s[i + 1:])
            for n in list(range(0, 40)):
                yield line(salt, s[:n] if n <= len(s) else s + "A" * (n - len(s)))
            other = bytes([(x + 3) % 256 for x in salt])
            yield line(salt, base64.urlsafe_b64encode(mk_apikey(other, 1, 0)).decode())
        # newline-padded and padding-only strings of every length 0..40 (Go's decoder skips \r and \n)
        for n in range(0, 41):
            yield line(salt, "\n" * n)
            yield line(salt, "=" * n)
            yield line(salt, "AQ" + "\n" * max(0, n - 2))
            yield line(salt, "AQAAAAAB" + "\n" * max(0, n - 8))
            yield line(salt, "".join(rng.choice(B64) for _ in range(n)))


def gen_code(rng, tier):
    big = tier == "thorough"
    creds = ["email:alice@example.com", "tel:+14155551212", "email:bob@example.com"]
    for case in range(400 if big else 80):
        mx = rng.choice([1, 2, 3, 5])
        yield f"code.reset {mx}"
        for _ in range(4 + rng.below(18)):
            c = hexs(rng.choice(creds))
            k = rng.below(10)
            if k < 2:
                yield f"code.gen {c} {1 + rng.below(1000)}"
            elif k < 5:
                yield f"code.auth {c} right"
            elif k < 9:
                yield f"code.auth {c} wrong"
            else:
                yield f"code.auth {c} stale"


def classify(op, out):
    return out.split(" ")[0] + ("-" + out.split(" ")[1] if out.startswith("err") else "")


def post_code(ctx, ops, impl):
    """history monitor on the implementation's outputs: a code is accepted at most once; never after maxRetries wrong guesses"""
    bad = []
    state = {}
    mx = 3
    start = 0
    for idx, (o, i) in enumerate(zip(ops, impl)):
        p = o.split(" ")
        if p[0] == "code.reset":
            state, mx, start = {}, int(p[1]), idx
        elif p[0] == "code.gen" and i == "ok":
            state[p[1]] = {"wrong": 0, "used": False}
        elif p[0] == "code.auth":
            st = state.get(p[1])
            if i.startswith("ok"):
                if st is None or st["used"] or st["wrong"] >= mx or p[2] != "right":
                    bad.append((ops[start:idx + 1], "reset code accepted although it was used, locked out, wrong or never issued"))
                    continue
                st["used"] = True
            elif st is not None and not st["used"] and p[2] != "right":
                st["wrong"] += 1
    return bad


def gen_basic(rng, tier):
    """password authenticator histories: add / update / authenticate / uniqueness probes with logins in both letter cases"""
    def hx(t):
        return "x" + t.encode().hex()
    names = ["alice", "Alice", "ALICE", "bob", "Bob", "bo.b_1", "carol", "x", "ab", "a_", "_ab", "ab.", "dave99", "DAVE99", "e" * 32, "f" * 33, ""]
    pws = ["secret1", "Secret1", "pw", "", "pass:word", "longer password", "1234", "123"]
    for _ in range(60 if tier == "thorough" else 12):
        yield "reset"
        for _ in range(6 + rng.below(14)):
            k = rng.below(10)
            n, p = rng.choice(names), rng.choice(pws)
            sec = hx(n + ":" + p) if rng.chance(19, 20) else hx(n + p)
            if k < 3:
                yield f"add {rng.choice(['U1', 'U2', 'U3'])} {rng.choice(['auth', 'root', 'none', 'anon'])} {sec}" + (" expired" if rng.chance(1, 10) else "")
            elif k < 4:
                yield f"upd {rng.choice(['U1', 'U2', 'U3'])} auth {sec}"
            elif k < 8:
                yield f"auth {sec}"
            else:
                yield f"uniq {sec}"


PROP = dict(
    id="C12",
    level_text="Kernel-checked Lean theorems: a token is accepted iff its 50 bytes are well formed, tagged with the MAC of the "
               "signed bytes, carry the configured serial and are unexpired, and then yields exactly the encoded user/level/"
               "features (round trip for every record); acceptance of any change to the signed bytes implies a valid MAC on "
               "unsigned data; API-key validity spelled out; reset codes accepted at most once and never after maxRetries "
               "wrong guesses (induction over all guess sequences). Tied to the real authenticators by differential runs "
               "with tokens and keys built independently (Python hmac).",
    level_note="PARTIAL: unforgeability itself is a computational assumption about HMAC-SHA256/HMAC-MD5 (parameters `mac`); "
               "time is sampled away from the expiry boundary (no clock hook); the password authenticator is modelled with bcrypt "
               "abstracted (a stored hash matches exactly its password) and ASCII logins (Props/C12b.lean, stream `basic` through the real "
               "authenticator over the in-memory adapter); an extended token (valid 50 bytes + trailing "
               "bytes) is accepted by design of the statement ('signed fields and signature').",
    technique="Lean 4 proof (case analysis, list/byte arithmetic by omega, induction over guess sequences) + differential correspondence with independently built secrets",
    modules=["TinodeVerif.Props.C12", "TinodeVerif.Props.C12b"],
    theorems=[T + n for n in ["token_auth_iff", "token_accept_needs_mac", "token_mutation_refused", "token_roundtrip",
                              "apikey_valid_iff", "code_once", "code_lockout", "wrong_code_never", "password_auth_sound",
                              "unknown_login_fails", "wrong_password_fails", "login_lowercased", "add_keeps_unique", "taken_login_refused"]],
    streams=[dict(name="tok", pkg="token", gen=gen_tok, classify=classify),
             dict(name="key", pkg="main", gen=gen_key, classify=classify),
             dict(name="code", pkg="code", gen=gen_code, classify=classify, post=post_code),
             dict(name="basic", pkg="main", test="TestVerifBasic", gen=gen_basic, model_mode="basic", verdict_mode=None,
                  classify=lambda o, i: i.split(" ")[0])],
    seeds=dict(quick=1, thorough=3),
    rule="tokens built with Python hmac under 3 keys x 4 serials: valid, every single-bit flip (all 400 thorough / 60 sampled "
         "quick), truncations, extensions, foreign key, wrong serial incl. +-65536, expired, invalid level; GenSecret/Authenticate "
         "round trips with out-of-range fields; API keys: valid, single-character mutations, all prefix lengths 0..40, newline/"
         "padding-only strings of every length 0..40; reset-code histories (gen/right/wrong/stale guesses, max_retries 1..5)",
    assumptions=["HMAC-SHA256, HMAC-MD5 ideal (parameters)", "wall clock sampled, not controlled"],
    trusted=["Python hashlib/hmac as the independent MAC oracle for the model"],
)

from ..pin import add_pin
PROP = add_pin(PROP)
