from .. import world

T = "Tinode.Props.C02."

PROP = dict(
    id="C02",
    level_text='Kernel-checked Lean theorems: the traffic of an accepted publish is the acknowledgement followed by one fixed copy per member of dataRcpt; a session is in dataRcpt iff it is attached, is not the no-echo publisher and acts for a user with R in requested AND granted mode; no session is there twice; the copy carries the acknowledged number, the true author, the content and the headers unchanged except the server-controlled sender; the push goes exactly to non-removed subscribers with R and P.',
    level_note="Group and peer-to-peer topics (the p2p naming clause - each copy names the topic by the recipient's peer - and the p2p push addressing are decided by the differential run and the monitor; theorems are about the group fan-out, which the p2p topics share); channels: who gets a copy on a channel-enabled topic, that nobody gets two, and that readers are never pushed individually are theorems (Props/C02c.lean); the `chn` spelling and the withheld author of a reader's copy are decided by the differential run and the monitor. Ordering at a session follows from C01's numbering and the single fan-out per publish; it is checked by the monitor on histories, not proved as a separate theorem.",
    technique='Lean 4 proof (list membership/filter lemmas over the fan-out) + differential correspondence of the world model + history monitor',
    modules=["TinodeVerif.Props.C02", "TinodeVerif.Props.C02c"],
    theorems=[T + n for n in ['recipient_iff', 'one_copy_each', 'copy_is_uniform', 'no_echo', 'head_unaltered', 'sender_header', 'push_addressees', 'accepted_traffic', 'fanoutDataC_eq', 'chan_recipient_iff', 'chan_one_copy_each', 'chan_push_addressees', 'reader_not_pushed', 'chan_want_join_read', 'chan_want_within']],
    streams=[world.world_stream("C02")],
    seeds=dict(quick=1, thorough=4),
    rule="random histories of 30-120 requests per case (420 cases quick, 600 thorough per seed, every third a clause scenario with random parameters) over 4 users, 7 sessions (two per user, "
         "one background, one anonymous, one root acting for others) up to 3 group topics and the peer-to-peer topics between the users, a third of the cases with one injected "
         "store failure per request, a third with crash points and restarts; non-trivial = every request line",
    assumptions=world.WORLD_ASSUMPTIONS,
    trusted=world.WORLD_TRUSTED,
)
