from .. import world, gate
from ..core import hexs


def _hexb(b):
    return "x" + b.hex()


def gen_preview(rng, tier):
    """message contents around the 128 byte / 128 rune boundaries: ASCII, 2-, 3- and 4-byte characters, mixtures, invalid UTF-8"""
    alph = ["a", "Z", " ", "\u0416", "\u044f", "\u4e2d", "\u20ac", "\U0001F600", "\U000e0001", "\u00e9"]
    for n in list(range(0, 12)) + list(range(30, 36)) + list(range(40, 46)) + list(range(60, 70)) + list(range(120, 140)) + [200, 255, 256, 257, 300, 511, 512, 513]:
        for ch in alph:
            if ch != " ":
                yield "push.preview " + _hexb((ch * n).encode("utf-8"))
    for _ in range(6000 if tier == "thorough" else 800):
        n = rng.choice([rng.below(20), 60 + rng.below(80), 100 + rng.below(60), rng.below(300)])
        kind = rng.below(3)
        pool = alph if kind else alph[3:]
        # valid UTF-8 without surrounding white space: drafty.PlainText (not modelled) is the identity on such strings
        txt = "".join(rng.choice(pool) for _ in range(n)).strip()
        yield "push.preview " + _hexb(txt.encode("utf-8"))
    # formatted (Drafty) documents as any client may send them: text with styles and entities whose offsets, lengths and keys are drawn from
    # boundary values (negative, zero, the text's length and beyond, values whose sum leaves the integer range), overlapping and nested
    # spans, entities with and without data, unknown types, wrong JSON types in every field
    import json as _json
    big = [-9223372036854775808, -2, -1, 0, 1, 2, 3, 5, 8, 1000000, 2147483647, 2147483648, 4611686018427387904, 9000000000000000000, 9223372036854775807, 9e18, 1.5, "7", None, True]
    tps = ["ST", "EM", "DL", "CO", "BR", "LN", "MN", "HT", "HD", "IM", "EX", "FM", "RW", "QQ", "", "xx", 5, None]
    for _ in range(4000 if tier == "thorough" else 900):
        # a well-formed document first …
        txt = "".join(rng.choice(alph + ["\n"]) for _ in range(rng.choice([1, 3, 7, 20, 130])))
        n = len(txt)
        ent = [{"tp": rng.choice(["LN", "MN", "IM", "EX", "FM", "HT"]), "data": rng.choice([{"url": "http://x"}, {"val": "AAAA", "mime": "image/png", "width": 10, "height": 10, "name": "n"}, {"val": "m"}])}
               for _ in range(rng.below(3))]
        fmt = []
        for _ in range(rng.below(4)):
            at = rng.below(n + 1)
            st = {"at": at, "len": rng.below(n - at + 1)}
            if ent and rng.chance(1, 3):
                st["key"] = rng.below(len(ent))
                if rng.chance(1, 2):
                    st["at"], st["len"] = -1, 0           # an attachment
            else:
                st["tp"] = rng.choice(["ST", "EM", "DL", "CO", "BR", "HD", "RW", "QQ"])
            fmt.append(st)
        doc = {"txt": txt}
        if fmt:
            doc["fmt"] = fmt
        if ent:
            doc["ent"] = ent
        # … then nothing, one or a few of its fields take a boundary value or a wrong type
        for _ in range(rng.choice([0, 1, 1, 1, 2, 2, 4])):
            k = rng.below(8)
            dfmt = [x for x in fmt if isinstance(x, dict)]
            if k < 2 and dfmt:
                # offset and length together: sums at and beyond the edges of the text and of the integer range
                st = rng.choice(dfmt)
                st["at"], st["len"] = rng.choice([(9223372036854775807, 1), (9223372036854775806, 2), (9e18, 9e18), (4611686018427387904, 4611686018427387904),
                                                   (1, 9223372036854775807), (n, 9223372036854775807), (0, n + 1), (n, 1), (n + 1, 0), (-1, 1), (-1, n + 2),
                                                   (2147483647, 2147483647), (9223372036854775807, 9223372036854775807), (-2, 3)])
            elif k < 4 and dfmt:
                st = rng.choice(dfmt)
                st[rng.choice(["at", "len", "key", "at", "len"])] = rng.choice(big + [n, n + 1, n - 1])
            elif k == 4 and dfmt:
                rng.choice(dfmt)["tp"] = rng.choice(tps)
            elif k == 5 and ent:
                e = rng.choice(ent)
                e[rng.choice(["tp", "data"])] = rng.choice([None, 5, "s", {}, {"width": rng.choice(big), "height": rng.choice(big), "val": None}, "xx"])
            elif k == 6:
                doc[rng.choice(["txt", "fmt", "ent"])] = rng.choice([5, None, "x", ["a"], {"x": 1}, [5, None, "y"]])
            elif fmt:
                fmt.append(rng.choice([5, "x", None, [1], {"at": 0, "len": n, "tp": "ST"}, {"at": 0, "len": n + 1, "tp": "EM"}]))
        yield "push.drafty " + _hexb(_json.dumps(doc).encode("utf-8"))

T = "Tinode.Props.C13."

def post_gate(ctx, ops, impl):
    """the session gate with everything a client can send before and after logging in (junk tokens of every length included): a request
    on which the server panics, or which - not being a note - gets no reply at all"""
    bad = []
    start = 0
    for i, (o, out) in enumerate(zip(ops, impl)):
        w = o.split(" ")
        if w[0] == "reset":
            start = i
            continue
        if out in ("panic", "crash"):
            bad.append((ops[start:i + 1], f"C13 the server panicked while processing `{o}`"))
            continue
        p = gate.parse(out)
        if p is None or w[0] in ("validators", "cred", "note", "empty"):
            continue
        if not p["replies"] and not p["hub"]:
            bad.append((ops[start:i + 1], f"C13 request `{o}` was neither answered nor handed to the hub"))
    seen, uniq = set(), []
    for case, why in bad:
        k = why.split("`")[0]
        if k not in seen:
            seen.add(k)
            uniq.append((case, why))
    return uniq


PROP = dict(
    id="C13",
    level_text="PARTIAL. The push preview of a message (128-rune truncation of arbitrary multi-byte content) is modelled with Go's rune conversion and proved total and exact, tied by a differential stream in package push/fcm. 'Never terminates the server' is decided by running every generated request - including requests to names never issued, deleted topics, unattached sessions, ill-formed mode strings, out-of-range numbers - through the real Session.dispatch/Hub/Topic code in the world stream: a panic is reported with its history (this found the hub panic of {del topic} on an ill-formed name, fix: 5cd265c). Kernel-checked Lean theorems carry the reply obligation of the transcribed handlers: a publish is always answered under every fault plan, {del topic} for an unknown name is answered, invalid notes are silent. The monitor checks on every history that each request other than a note got a reply and that unknown topics are answered with an error code.",
    level_note='NOT covered: byte-level input (JSON parsing, the read loops), the {hi}/{login}/{acc} handlers (see C11), configuration variants other than a server without a media handler. Drafty previews: 900 (quick) / 4000 (thorough) generated documents per seed (a well-formed document with a few fields set to boundary values or wrong types) are run through payloadToData; the only claim of the model there is that the process goes on. Known finding (root session, on-behalf-of {leave}) is recorded, proved as a witness.',
    technique='differential world stream over the real dispatch code (panic detection) + Lean 4 proof of reply obligations + history monitor',
    modules=["TinodeVerif.Props.C13"],
    theorems=[T + n for n in ['saveMessage_frames', 'pub_always_answered', 'del_unknown_topic_answered', 'invalid_note_silent', 'leave_unanswered_witness',
                              'preview_short_unchanged', 'preview_few_runes_unchanged', 'preview_long_cut', 'preview_cases']],
    streams=[world.world_stream("C13"), dict(gate.gate_stream(), post=post_gate), dict(name="preview", pkg="fcm", gen=gen_preview, classify=lambda o, i: (i if o.startswith("push.drafty") else ("cut" if len(i) < len(o.split(" ")[1]) else "kept")))],
    seeds=dict(quick=1, thorough=4),
    rule="the session gate stream of C11 (every client message kind before and after the handshake and the login, junk tokens of every length around a real one's to {login} and {acc}: a panic or an unanswered request is a violation); random histories of 30-120 requests per case (420 cases quick, 600 thorough per seed, every third a clause scenario with random parameters) over 4 users, 7 sessions (two per user, "
         "one background, one anonymous, one root acting for others) up to 3 group topics and the peer-to-peer topics between the users, a third of the cases with one injected "
         "store failure per request, a third with crash points and restarts; non-trivial = every request line",
    assumptions=world.WORLD_ASSUMPTIONS,
    trusted=world.WORLD_TRUSTED,
)
