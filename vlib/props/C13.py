from .. import world
from ..core import hexs


def _hexb(b):
    return "x" + b.hex()


def gen_preview(rng, tier):
    """message contents around the 128 byte / 128 rune boundaries: ASCII, 2-, 3- and 4-byte characters, mixtures, invalid UTF-8"""
    alph = ["a", "Z", " ", "\u0416", "\u044f", "\u4e2d", "\u20ac", "\U0001F600", "\U000e0001", "\u00e9"]
    for n in list(range(0, 12)) + list(range(30, 36)) + list(range(40, 46)) + list(range(60, 70)) + list(range(120, 140)) + [200, 255, 256, 257, 300, 511, 512, 513]:
        for ch in alph:
            if ch != " ":
                yield "push.preview " + _hexb((ch * n).encode("utf-8"))
    for _ in range(6000 if tier == "thorough" else 800):
        n = rng.choice([rng.below(20), 60 + rng.below(80), 100 + rng.below(60), rng.below(300)])
        kind = rng.below(3)
        pool = alph if kind else alph[3:]
        # valid UTF-8 without surrounding white space: drafty.PlainText (not modelled) is the identity on such strings
        txt = "".join(rng.choice(pool) for _ in range(n)).strip()
        yield "push.preview " + _hexb(txt.encode("utf-8"))

T = "Tinode.Props.C13."

PROP = dict(
    id="C13",
    level_text="PARTIAL. The push preview of a message (128-rune truncation of arbitrary multi-byte content) is modelled with Go's rune conversion and proved total and exact, tied by a differential stream in package push/fcm. 'Never terminates the server' is decided by running every generated request - including requests to names never issued, deleted topics, unattached sessions, ill-formed mode strings, out-of-range numbers - through the real Session.dispatch/Hub/Topic code in the world stream: a panic is reported with its history (this found the hub panic of {del topic} on an ill-formed name, fix: 5cd265c). Kernel-checked Lean theorems carry the reply obligation of the transcribed handlers: a publish is always answered under every fault plan, {del topic} for an unknown name is answered, invalid notes are silent. The monitor checks on every history that each request other than a note got a reply and that unknown topics are answered with an error code.",
    level_note='NOT covered: byte-level input (JSON parsing, the read loops), the {hi}/{login}/{acc} handlers (see C11), drafty previews, configuration variants. Known finding (root session, on-behalf-of {leave}) is recorded, proved as a witness.',
    technique='differential world stream over the real dispatch code (panic detection) + Lean 4 proof of reply obligations + history monitor',
    modules=["TinodeVerif.Props.C13"],
    theorems=[T + n for n in ['saveMessage_frames', 'pub_always_answered', 'del_unknown_topic_answered', 'invalid_note_silent', 'leave_unanswered_witness',
                              'preview_short_unchanged', 'preview_few_runes_unchanged', 'preview_long_cut', 'preview_cases']],
    streams=[world.world_stream("C13"), dict(name="preview", pkg="fcm", gen=gen_preview, classify=lambda o, i: "cut" if len(i) < len(o.split(" ")[1]) else "kept")],
    seeds=dict(quick=1, thorough=4),
    rule="random histories of 30-120 requests per case (420 cases quick, 600 thorough per seed, every third a clause scenario with random parameters) over 4 users, 7 sessions (two per user, "
         "one background, one anonymous, one root acting for others) up to 3 group topics and the peer-to-peer topics between the users, a third of the cases with one injected "
         "store failure per request, a third with crash points and restarts; non-trivial = every request line",
    assumptions=world.WORLD_ASSUMPTIONS,
    trusted=world.WORLD_TRUSTED,
)
