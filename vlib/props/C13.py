from .. import world

T = "Tinode.Props.C13."

PROP = dict(
    id="C13",
    level_text="PARTIAL. 'Never terminates the server' is decided by running every generated request - including requests to names never issued, deleted topics, unattached sessions, ill-formed mode strings, out-of-range numbers - through the real Session.dispatch/Hub/Topic code in the world stream: a panic is reported with its history (this found the hub panic of {del topic} on an ill-formed name, fix: 5cd265c). Kernel-checked Lean theorems carry the reply obligation of the transcribed handlers: a publish is always answered under every fault plan, {del topic} for an unknown name is answered, invalid notes are silent. The monitor checks on every history that each request other than a note got a reply and that unknown topics are answered with an error code.",
    level_note='NOT covered: byte-level input (JSON parsing, the read loops), the {hi}/{login}/{acc} handlers (see C11), drafty previews, configuration variants. Known finding (root session, on-behalf-of {leave}) is recorded, proved as a witness.',
    technique='differential world stream over the real dispatch code (panic detection) + Lean 4 proof of reply obligations + history monitor',
    modules=["TinodeVerif.Props.C13"],
    theorems=[T + n for n in ['saveMessage_frames', 'pub_always_answered', 'del_unknown_topic_answered', 'invalid_note_silent', 'leave_unanswered_witness']],
    streams=[world.world_stream("C13")],
    seeds=dict(quick=1, thorough=4),
    rule="random histories of 30-120 requests per case (400 cases quick, 600 thorough per seed, every fourth a clause scenario with random parameters) over 4 users, 7 sessions (two per user, "
         "one background, one anonymous, one root acting for others) and up to 3 group topics, a third of the cases with one injected "
         "store failure per request, a third with crash points and restarts; non-trivial = every request line",
    assumptions=world.WORLD_ASSUMPTIONS,
    trusted=world.WORLD_TRUSTED,
)
