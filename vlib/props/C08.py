from .. import world

T = "Tinode.Props.C08."

PROP = dict(
    id="C08",
    level_text='Kernel-checked Lean theorems: a loaded topic is coherent with its row by construction (loadTopic); an accepted publish keeps the loaded and stored counters equal and appends exactly the acknowledged message; a refused publish changes neither side. The full property is proved FALSE in three specific ways (witnesses by decide, replayed on the code, recorded as known findings: a {set} from a session which is not attached, a publish whose MessageSave fails, a {note read} beyond the recv mark); a fourth (re-subscribing over a soft-deleted row keeps the stored private data) is found by the monitor. The monitor compares the loaded topic with the store after every request on every generated history, including injected store failures and restarts.',
    level_note='Coherence after {sub}/{set}/{del} is decided by the monitor on histories and by the differential run, not by a theorem over all requests.',
    technique='Lean 4 proof (construction lemma for load, publish theorem, negation witnesses by decide) + differential correspondence of the world model + whole-state history monitor',
    modules=["TinodeVerif.Props.C08"],
    theorems=[T + n for n in ['load_core_coherent', 'load_subs', 'pub_keeps_counter_coherent', 'refused_pub_changes_nothing', 'offline_set_diverges', 'failed_save_diverges', 'read_note_diverges']],
    streams=[world.world_stream("C08")],
    seeds=dict(quick=1, thorough=4),
    rule="random histories of 30-120 requests per case (420 cases quick, 600 thorough per seed, every third a clause scenario with random parameters) over 4 users, 7 sessions (two per user, "
         "one background, one anonymous, one root acting for others) up to 3 group topics and the peer-to-peer topics between the users, a third of the cases with one injected "
         "store failure per request, a third with crash points and restarts; non-trivial = every request line",
    assumptions=world.WORLD_ASSUMPTIONS,
    trusted=world.WORLD_TRUSTED,
)

from ..pin import add_pin
PROP = add_pin(PROP)
