from .. import calls

T = "Tinode.Props.C15."

PROP = dict(
    id="C15",
    level_text="Kernel-checked Lean theorems over the transcribed call life cycle of a peer-to-peer topic (call gate of {pub}, "
               "handleCallInvite, handleCallEvent, maybeEndCallInProgress, terminateCallInProgress, the leaving-party rule): an invitation "
               "from an unattached session, without calling configured or while a call is active is refused and leaves no trace; an accepted "
               "invitation starts a call whose id is the invitation's number and whose only party is the inviting session; events naming "
               "another or no call are ignored; ringing/accept from any session of the caller change nothing; offers, answers and "
               "candidates change nothing and go to the other party's session alone, only between the two party sessions of an accepted "
               "call; ending forgets the call and appends exactly one replacement of the invitation with its content and the right closing "
               "state; after that a new call can start; a third user is powerless. Tied to the code by a differential stream through the "
               "real Session.dispatch / Hub / Topic code on a p2p topic.",
    level_note="Presence to the 'me' topics (infoCallSubsOffline), push notifications and the wall-clock duration of a finished call are "
               "not modelled. 'Only in a peer-to-peer topic': the session-level routing rule is transcribed; the group-topic 403 of "
               "handlePubBroadcast is exercised by the world stream's generator only through ordinary publishes. Found and repaired: a "
               "call note addressed to an ill-formed topic name crashed the server (fix: 641c25b).",
    technique="Lean 4 proof (case analysis of the transcribed call state machine) + differential correspondence through the real topic code + "
              "history monitor",
    modules=["TinodeVerif.Props.C15"],
    theorems=[T + n for n in ["refused_invitation_no_trace", "invitation_starts_call", "stale_event_ignored", "accept_not_from_caller",
                              "media_relay", "end_call_once", "closing_state", "new_call_after_end", "third_user_powerless", "invitation_arms_timer", "only_accept_or_hangup_touch_timer", "timeout_ends_call"]],
    streams=[calls.calls_stream()],
    seeds=dict(quick=1, thorough=4),
    rule="random histories of 8-48 requests (200 cases quick, 1200 thorough per seed) on the p2p topic of two users with four of their "
         "sessions and one session of a third user: attach, leave, invitations, ordinary publishes, the six call events and unknown ones "
         "with right, wrong, stale, zero and negative call ids, establishment timeouts, calling switched off and on; three fifths of the "
         "steps are steered by a simulation towards the next meaningful event; non-trivial = every request line",
    assumptions=["one p2p topic, requests processed one at a time; the establishment timer is fired by an explicit op"],
    trusted=["calls stream: the Go harness drives the real Session.dispatch, Hub and Topic code over the in-memory adapter and pumps the "
             "handlers one at a time; it prints the frames, the stored messages of the topic and Topic.currentCall",
             "Model/Calls.lean is a hand transcription tied to the code by the differential run only"],
)
