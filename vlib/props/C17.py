import itertools
from ..core import hexs

T = "Tinode.Props.C17."
POOL = ["n1", "n2", "n3", "one", "two", "three", "1", "11", "111", "a", "b", "node-10", "node-2", "N1", "tinode-0", "tinode-1",
        "tinode-2", "x" * 40, "", "k1"]


def names(xs):
    return ",".join(hexs(x) for x in xs) if xs else "-"


def gen_ring(rng, tier):
    big = tier == "thorough"
    keys0 = ["usrAAAAAAAAAAA", "grpXyz", "k1", "n1", "1n1", "0one", "", "p2pAAAA", "sys"]

    def keys(n):
        ks = list(keys0)
        for _ in range(n):
            ks.append("".join(rng.choice("abcdefgh0123456789usrgp") for _ in range(1 + rng.below(14))))
        return ks
    # all permutations of node sets of size <= 4 (5 in thorough): order independence
    for size in range(0, 5 if not big else 6):
        for _ in range(3 if size > 1 else 1):
            chosen = []
            while len(chosen) < size:
                c = rng.choice(POOL)
                if c not in chosen:
                    chosen.append(c)
            ks = names(keys(12))
            rep = rng.choice([1, 2, 3, 20])
            for hk in ("crc", "weak"):
                for perm in itertools.permutations(chosen):
                    yield f"ring.get {hk} {rep} {names(list(perm))} {ks}"
    # removal / addition pairs: same keys against nodes and nodes minus one
    for _ in range(300 if big else 60):
        size = 2 + rng.below(5)
        chosen = []
        while len(chosen) < size:
            c = rng.choice(POOL)
            if c not in chosen:
                chosen.append(c)
        ks = names(keys(25))
        rep = rng.choice([1, 2, 5, 20])
        hk = rng.choice(["crc", "crc", "weak"])
        yield f"ring.get {hk} {rep} {names(chosen)} {ks}"
        drop = rng.below(size)
        yield f"ring.get {hk} {rep} {names(chosen[:drop] + chosen[drop + 1:])} {ks}"
    # replica counts 0..20, duplicates in the node list
    for rep in range(0, 21):
        yield f"ring.get crc {rep} {names(['n1', 'n2', 'n3'])} {names(keys(10))}"
    yield f"ring.get crc 3 {names(['n1', 'n1', 'n2'])} {names(keys(10))}"
    yield f"ring.get weak 3 {names(['1', '11', '111'])} {names(keys(10))}"


def classify(op, out):
    parts = op.split(" ")
    if parts[3] == "-" or parts[3].count(",") == 0:
        return "trivial"
    return "ring"


def post_ring(ctx, ops, impl):
    """cross-line property checks on the implementation's outputs: permutation invariance and minimal movement"""
    bad = []
    by_set = {}
    for o, i in zip(ops, impl):
        p = o.split(" ")
        key = (p[1], p[2], tuple(sorted(p[3].split(","))), p[4])
        if key in by_set and by_set[key][1] != i:
            bad.append((by_set[key][0], o, "same node set, different order: different result"))
        by_set.setdefault(key, (o, i))
    return bad


PROP = dict(
    id="C17",
    level_text="Kernel-checked Lean theorems for the ring, for ANY hash function, replica count and total order on names: order "
               "independence (equal sorted replica list, hence equal owners and signature), totality, minimal movement on "
               "removal and addition; for the election, safety invariants over an interleaving model with arbitrary loss, delay "
               "and reordering whose guards are regenerated from cluster_leader.go on every run (when the election part is "
               "present in the evidence). Ring tied to ringhash.go by differential runs with the real CRC-32/FNV-128a/ascii85.",
    level_note="Trusted: Lean kernel; sort.Sort/sort.Search modelled by mergeSort/linear find (equal on sorted input; exercised by "
               "the differential run); Go string order assumed to be a total order; signature equality reduces to equality of the "
               "sorted replica list (digest collisions ignored).",
    technique="Lean 4 proof (sorted-permutation uniqueness, induction over find/filter) + differential correspondence; T2 regenerated guards for the election",
    modules=["TinodeVerif.Props.C17"],
    theorems=[T + n for n in ["ring_perm_invariant", "get_perm_invariant", "ring_total", "ring_remove_minimal", "ring_add_minimal"]],
    streams=[dict(name="ring", pkg="ringhash", gen=gen_ring, classify=classify, post=post_ring)],
    seeds=dict(quick=1, thorough=3),
    rule="all permutations of random node-name sets of size 0..4 (5 thorough) under CRC-32 and under a 7-valued colliding hash, "
         "removal pairs, replica counts 0..20, duplicate names, names whose replica strings collide ('1','11','111'); each line "
         "compares signature, ring length and the owners of ~20 keys; non-trivial = at least two nodes",
    assumptions=["node names are ASCII in the correspondence run (Lean string order = Go bytewise order there)"],
    trusted=["hash/crc32, hash/fnv and encoding/ascii85 re-implemented in the Lean driver (compared byte for byte on every line)"],
)
