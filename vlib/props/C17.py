import itertools
from ..core import hexs

T = "Tinode.Props.C17."
POOL = ["n1", "n2", "n3", "one", "two", "three", "1", "11", "111", "a", "b", "node-10", "node-2", "N1", "tinode-0", "tinode-1",
        "tinode-2", "x" * 40, "", "k1"]


def names(xs):
    return ",".join(hexs(x) for x in xs) if xs else "-"


def gen_rehash(rng, tier):
    """Cluster.rehash (package main) called twice with different node lists: the node must end with the ring of the second list"""
    pool = ["n1", "n2", "n3", "n4", "n5", "n6", "alpha", "b"]
    keys = ["usrAAAAAAAAAAA", "grpXyz", "k1", "p2pAAAA", "sys", "grpQ9", "usrBBBB", "x", "grpZZZZZZ", "usr0"]
    for _ in range(400 if tier == "thorough" else 80):
        a = sorted(set(rng.choice(pool) for _ in range(1 + rng.below(5))))
        k = rng.below(4)
        if k == 0:
            b = list(a)
        elif k == 1 and len(a) > 0:
            # same size, different membership
            b = list(a)
            repl = [x for x in pool if x not in a]
            if repl:
                b[rng.below(len(b))] = rng.choice(repl)
            b = sorted(set(b))
        else:
            b = sorted(set(rng.choice(pool) for _ in range(1 + rng.below(5))))
        ks = keys + ["".join(rng.choice("abcdefgh0123456789") for _ in range(1 + rng.below(10))) for _ in range(6)]
        yield "ring.rehash " + ",".join(hexs(x) for x in a) + " " + ",".join(hexs(x) for x in b) + " " + ",".join(hexs(x) for x in ks)


def gen_ring(rng, tier):
    big = tier == "thorough"
    keys0 = ["usrAAAAAAAAAAA", "grpXyz", "k1", "n1", "1n1", "0one", "", "p2pAAAA", "sys"]

    def keys(n):
        ks = list(keys0)
        for _ in range(n):
            ks.append("".join(rng.choice("abcdefgh0123456789usrgp") for _ in range(1 + rng.below(14))))
        return ks
    # all permutations of node sets of size <= 4 (5 in thorough): order independence
    for size in range(0, 5 if not big else 6):
        for _ in range(3 if size > 1 else 1):
            chosen = []
            while len(chosen) < size:
                c = rng.choice(POOL)
                if c not in chosen:
                    chosen.append(c)
            ks = names(keys(12))
            rep = rng.choice([1, 2, 3, 20])
            for hk in ("crc", "weak"):
                for perm in itertools.permutations(chosen):
                    yield f"ring.get {hk} {rep} {names(list(perm))} {ks}"
    # removal / addition pairs: same keys against nodes and nodes minus one
    for _ in range(300 if big else 60):
        size = 2 + rng.below(5)
        chosen = []
        while len(chosen) < size:
            c = rng.choice(POOL)
            if c not in chosen:
                chosen.append(c)
        ks = names(keys(25))
        rep = rng.choice([1, 2, 5, 20])
        hk = rng.choice(["crc", "crc", "weak"])
        yield f"ring.get {hk} {rep} {names(chosen)} {ks}"
        drop = rng.below(size)
        yield f"ring.get {hk} {rep} {names(chosen[:drop] + chosen[drop + 1:])} {ks}"
    # replica counts 0..20, duplicates in the node list
    for rep in range(0, 21):
        yield f"ring.get crc {rep} {names(['n1', 'n2', 'n3'])} {names(keys(10))}"
    yield f"ring.get crc 3 {names(['n1', 'n1', 'n2'])} {names(keys(10))}"
    yield f"ring.get weak 3 {names(['1', '11', '111'])} {names(keys(10))}"


def classify(op, out):
    parts = op.split(" ")
    if parts[3] == "-" or parts[3].count(",") == 0:
        return "trivial"
    return "ring"


def post_ring(ctx, ops, impl):
    """cross-line property checks on the implementation's outputs: permutation invariance and minimal movement"""
    bad = []
    by_set = {}
    for o, i in zip(ops, impl):
        p = o.split(" ")
        key = (p[1], p[2], tuple(sorted(p[3].split(","))), p[4])
        if key in by_set and by_set[key][1] != i:
            bad.append((by_set[key][0], o, "same node set, different order: different result"))
        by_set.setdefault(key, (o, i))
    # minimal movement: consecutive lines with the same keys whose node lists differ by one removed node
    rows = [(o.split(" "), i.split(" ")) for o, i in zip(ops, impl)]
    for (p1, i1), (p2, i2) in zip(rows, rows[1:]):
        if p1[1:3] != p2[1:3] or p1[4] != p2[4] or len(i1) != 3 or len(i2) != 3:
            continue
        n1, n2 = p1[3].split(","), p2[3].split(",")
        if len(n1) != len(n2) + 1 or len(set(n1)) != len(n1):
            continue
        removed = [x for x in n1 if x not in n2]
        if len(removed) != 1 or [x for x in n1 if x != removed[0]] != n2:
            continue
        for a, b in zip(i1[2].split(","), i2[2].split(",")):
            if a != removed[0] and a != b:
                bad.append((" ".join(p1), " ".join(p2), "removing a node moved a key it did not own"))
                break
    return bad


def tr_election(ctx):
    from .. import core
    ok, msg = core.run_translator("election", "Election.lean", ctx.log)
    return ok, msg


def explore(ctx):
    """Bounded search over the REGENERATED election model for a schedule that violates safety (support, not proof)."""
    from .. import core, runner
    import os
    if not os.path.exists(core.DRIVER):
        return
    cfgs = [(3, 8, 150000), (4, 8, 150000)] if ctx.tier == "quick" else [(3, 12, 1500000), (4, 11, 1500000), (5, 9, 1500000)]
    lines = [f"elect.explore {n} {d} {b}" for n, d, b in cfgs]
    outs = core.driver_lines(lines)
    res = []
    for l, o in zip(lines, outs):
        res.append({"op": l, "model": o})
        if not o.startswith("none"):
            p = runner.write_replay(ctx, f"election-{len(ctx.violations)}", dict(
                kind="failing-input", stream="election-explorer", ops=[l], model=[o],
                explanation="schedule found in the election model regenerated from cluster_leader.go: " + o))
            ctx.violations.append((p, True))
    # every statement which writes the node's term, read off the regenerated statement list
    tw = core.driver_lines(["elect.termwrites"])[0]
    res.append({"op": "elect.termwrites", "model": tw})
    if not tw.startswith("none") and tw != "bad-op":
        p = runner.write_replay(ctx, f"election-{len(ctx.violations)}", dict(
            kind="failing-input", stream="election-term-writes", ops=["elect.termwrites"], model=[tw],
            explanation="\"a node's term never decreases\", \"at most one vote per term\": the election code regenerated from cluster_leader.go / cluster.go "
                        "writes the node's term in a statement which is none of the three the proved model has (the election's own increment, the grant "
                        "of a vote under `c.fo.term < vreq.req.Term`, the adoption of a newer leader's term under `health.Term > c.fo.term`): "
                        + tw + " - the run of the function which reaches that statement (for a statement under `elect/`: a node whose vote "
                        "timeout fires and whose election ends on that branch) leaves the node with a term the invariants do not cover; when the "
                        "statement lowers the term, the node then grants a second vote in a term it has already voted in"))
        ctx.violations.append((p, True))
    ctx.cov.setdefault("extra", {})["election_explorer"] = res


PROP = dict(
    id="C17",
    translators=[tr_election],
    extra=[explore],
    level_text="Kernel-checked Lean theorems for the ring, for ANY hash function, replica count and total order on names: order "
               "independence (equal sorted replica list, hence equal owners and signature), totality, minimal movement on "
               "removal and addition; for the election, safety invariants over an interleaving model with arbitrary loss, delay "
               "and reordering whose guards are regenerated from cluster_leader.go on every run (when the election part is "
               "present in the evidence). Ring tied to ringhash.go by differential runs with the real CRC-32/FNV-128a/ascii85.",
    level_note="Trusted: Lean kernel; sort.Sort/sort.Search modelled by mergeSort/linear find (equal on sorted input; exercised by "
               "the differential run); Go string order assumed to be a total order; signature equality reduces to equality of the "
               "sorted replica list (digest collisions ignored).",
    technique="Lean 4 proof (sorted-permutation uniqueness, induction over find/filter) + differential correspondence; T2 regenerated guards for the election",
    modules=["TinodeVerif.Props.C17"],
    theorems=[T + n for n in ["ring_perm_invariant", "get_perm_invariant", "ring_total", "ring_remove_minimal", "ring_add_minimal", "shape_ok", "term_writes_guarded", "sig_gate",
                              "one_vote_per_term", "majority_needed", "election_safety", "term_monotone", "health_step",
                              "partitioned_leader_stops"]],
    streams=[dict(name="ring", pkg="ringhash", gen=gen_ring, classify=classify, post=post_ring),
             dict(name="rehash", pkg="main", gen=gen_rehash, classify=lambda o, i: i.split(" ")[1] if " " in i else i)],
    seeds=dict(quick=1, thorough=3),
    rule="all permutations of random node-name sets of size 0..4 (5 thorough) under CRC-32 and under a 7-valued colliding hash, "
         "removal pairs, replica counts 0..20, duplicate names, names whose replica strings collide ('1','11','111'); each line "
         "compares signature, ring length and the owners of ~20 keys; non-trivial = at least two nodes",
    assumptions=["node names are ASCII in the correspondence run (Lean string order = Go bytewise order there)"],
    trusted=["hash/crc32, hash/fnv and encoding/ascii85 re-implemented in the Lean driver (compared byte for byte on every line)"],
)
