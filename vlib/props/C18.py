T = "Tinode.Props.C18."


def tr_txskel(ctx):
    from .. import core
    return core.run_translator("txskel", "TxSkel.lean", ctx.log)


def search(ctx):
    """Evaluates the executable well-formedness predicate on the REGENERATED table: names the function, return site or
    statement on which the all-or-nothing bracket breaks (the failing input of this property is a (function, failing
    statement) pair)."""
    from .. import core, runner
    import os
    if not os.path.exists(core.DRIVER):
        return
    out = core.driver_lines(["tx.report"])[0]
    import re
    gen = open(os.path.join(core.LEAN, "TinodeVerif", "Gen", "TxSkel.lean")).read()
    sites = re.findall(r"⟨\d+, \"[^⟩]*⟩", gen)
    fnames = re.findall(r'adapter := "(\w+)", name := "(\w+)"', gen)
    ex = ctx.cov.setdefault("extra", {})
    ex["tx_report"] = out
    ex["tx_functions"] = len(fnames)
    ex["tx_sites_checked"] = len(sites)
    st = ctx.cov.setdefault("streams", {})
    st["txskel"] = dict(evaluations=len(sites), distinct_nontrivial=len(set(sites)), op_histogram={"functions": len(fnames)},
                        outcome_histogram={}, disagreements=0, monitor_failures=0,
                        samples=[{"function": ".".join(fnames[0]), "site": sites[0]}, {"function": ".".join(fnames[-1]), "site": sites[-1]}])
    if not out.startswith("none"):
        p = runner.write_replay(ctx, f"txskel-{len(ctx.violations)}", dict(
            kind="failing-input", stream="txskel", ops=["tx.report"], model=[out],
            explanation="transactional functions whose failure path neither commits nor triggers the deferred rollback, swallows "
                        "the error, or stores a statement's error in a variable the rollback handler does not test: " + out))
        ctx.violations.append((p, True))


PROP = dict(
    id="C18",
    level_text="The transaction skeleton of every transactional function of the MySQL and PostgreSQL adapters is REGENERATED from "
               "the source on every run (lexical-scope resolution of the error variable, classification of every return site and "
               "every statement on the transaction); a kernel-checked Lean theorem (decide over the complete regenerated table, "
               "lifted by wf_atomic) states that every return closes the BEGIN..COMMIT/ROLLBACK bracket and reports the failure, "
               "and that no statement's error bypasses the variable the rollback handler tests.",
    level_note="PARTIAL: the extractor (lexical guards `if E != nil`, `E = <const>; return`, flow after `if E == nil {return}`) is "
               "trusted; the SQL statements' own effects are not interpreted (what 'full effect' means is the SQL text's); the "
               "context-deadline path relies on database/sql / pgx rolling back on cancel; MongoDB/RethinkDB adapters have no "
               "transactions; CreateDb/UpgradeDb (schema tools) are exempt.",
    technique="T2: translator-regenerated transaction skeletons + Lean 4 theorem by decide over the complete table",
    translators=[tr_txskel],
    modules=["TinodeVerif.Props.C18"],
    theorems=[T + n for n in ["wf_atomic", "all_skeletons_wf", "operations_present", "tolerated_ok"]],
    streams=[],
    extra=[search],
    seeds=dict(quick=1, thorough=1),
    exhaustive=dict(quick=True, thorough=True),
    rule="every function of server/db/mysql/adapter.go and server/db/postgres/adapter.go that begins a transaction (43 functions); "
         "each return site and each statement on the transaction is an obligation of the regenerated table",
    assumptions=["deferred closure semantics of Go; database/sql and pgx end the transaction on Commit (success or failure) and on context cancel"],
    trusted=["translator/cmd/txskel (go/ast, lexical scope resolution)"],
)

from ..pin import add_pin
PROP = add_pin(PROP)
