T = "Tinode.Props.C18."


def tr_txskel(ctx):
    from .. import core
    return core.run_translator("txskel", "TxSkel.lean", ctx.log)


def search(ctx):
    """Evaluates the executable well-formedness predicate on the REGENERATED table: names the function, return site or
    statement on which the all-or-nothing bracket breaks (the failing input of this property is a (function, failing
    statement) pair)."""
    from .. import core, runner
    import os
    if not os.path.exists(core.DRIVER):
        return
    out = core.driver_lines(["tx.report"])[0]
    import re
    gen = open(os.path.join(core.LEAN, "TinodeVerif", "Gen", "TxSkel.lean")).read()
    sites = re.findall(r"⟨\d+, \"[^⟩]*⟩", gen)
    fnames = re.findall(r'adapter := "(\w+)", name := "(\w+)"', gen)
    ex = ctx.cov.setdefault("extra", {})
    ex["tx_report"] = out
    ex["tx_functions"] = len(fnames)
    ex["tx_sites_checked"] = len(sites)
    st = ctx.cov.setdefault("streams", {})
    st["txskel"] = dict(evaluations=len(sites), distinct_nontrivial=len(set(sites)), op_histogram={"functions": len(fnames)},
                        outcome_histogram={}, disagreements=0, monitor_failures=0,
                        samples=[{"function": ".".join(fnames[0]), "site": sites[0]}, {"function": ".".join(fnames[-1]), "site": sites[-1]}])
    if not out.startswith("none"):
        p = runner.write_replay(ctx, f"txskel-{len(ctx.violations)}", dict(
            kind="failing-input", stream="txskel", ops=["tx.report"], model=[out],
            explanation="transactional functions whose failure path neither commits nor triggers the deferred rollback, swallows "
                        "the error, stores a statement's error in a variable the rollback handler does not test, or sends a statement to the connection "
                        "pool (`->pool`) between BEGIN and COMMIT, where it takes effect whatever becomes of the transaction: " + out))
        ctx.violations.append((p, True))


def gen_sop(rng, tier):
    """the composite operations of store.go with every position of the failing adapter call, alone and followed by the loss of the
    connection (exhaustive: the operations make at most three calls)"""
    for op in ("sop.ucreate", "sop.tcreate"):
        for k in range(0, 7):
            for loss in ("-", "loss"):
                yield f"{op} {k} {loss}"


def post_sop(ctx, ops, impl):
    """decides the clause on the implementation's own output: success is reported only when everything is written, a failure of a
    call is never reported as success, and after a failure nothing is left"""
    want_subs = {"sop.ucreate": 2, "sop.tcreate": 1}
    bad = []
    for o, i in zip(ops, impl):
        w = o.split(" ")
        f = i.split(" ")
        if i.startswith("inconsistent:"):
            bad.append(([o], f"C18 [store-op] `{o}`: the operation returned neither what it created nor an error ({i}): the failure of an adapter "
                             f"call is swallowed"))
            continue
        if len(f) != 4 or f[0] not in ("ok", "err"):
            bad.append(([o], f"C18 [store-op] unexpected answer `{i}`"))
            continue
        kv = dict(x.split("=", 1) for x in f[1:])
        calls = [c for c in kv["calls"].split(",") if c]
        k = int(w[1])
        failed = 0 < k <= len(calls)
        if f[0] == "ok":
            if failed:
                bad.append(([o], f"C18 [store-op] call {k} ({calls[k - 1]}) failed and the operation reported success: the failure is swallowed (`{i}`)"))
            elif kv["main"] != "1" or int(kv["subs"]) != want_subs[w[0]]:
                bad.append(([o], f"C18 [store-op] success reported with main={kv['main']} subs={kv['subs']}"))
        else:
            if not failed:
                bad.append(([o], f"C18 [store-op] failure reported although no call failed (`{i}`)"))
            elif kv["main"] != "0" or kv["subs"] != "0":
                if w[2] == "loss" and kv["main"] == "1" and kv["subs"] == "0" and k == 2:
                    bad.append(([o], f"C18 [orphan-on-loss] the connection is lost at the second call of `{w[0]}`: the undoing call fails too and the "
                                     f"record stays without its subscriptions (`{i}`)"))
                else:
                    bad.append(([o], f"C18 [store-op] the operation failed and left main={kv['main']} subs={kv['subs']} behind (`{i}`)"))
    return bad


PROP = dict(
    id="C18",
    level_text="The transaction skeleton of every transactional function of the MySQL and PostgreSQL adapters is REGENERATED from "
               "the source on every run (lexical-scope resolution of the error variable, classification of every return site and "
               "every statement on the transaction); a kernel-checked Lean theorem (decide over the complete regenerated table, "
               "lifted by wf_atomic) states that every return closes the BEGIN..COMMIT/ROLLBACK bracket and reports the failure, "
               "and that no statement's error bypasses the variable the rollback handler tests. The operations store.go composes from "
               "two adapter calls and an undoing third (Users.Create, Topics.Create: Model/StoreOps.lean, Props/C18s.lean): for every "
               "position of a single failing call success is reported iff nothing failed, and after a failure nothing is left; tied to "
               "the real mappers by the `sop` stream (every failing position, alone and followed by the loss of the connection).",
    level_note="PARTIAL: the extractor (lexical guards `if E != nil`, `E = <const>; return`, flow after `if E == nil {return}`) is "
               "trusted; the SQL statements' own effects are not interpreted (what 'full effect' means is the SQL text's); the "
               "context-deadline path relies on database/sql / pgx rolling back on cancel; MongoDB/RethinkDB adapters have no "
               "transactions; CreateDb/UpgradeDb (schema tools) are exempt.",
    technique="T2: translator-regenerated transaction skeletons + Lean 4 theorem by decide over the complete table; T1 for the composite operations of store.go",
    translators=[tr_txskel],
    modules=["TinodeVerif.Props.C18", "TinodeVerif.Props.C18s"],
    theorems=[T + n for n in ["wf_atomic", "all_skeletons_wf", "operations_present", "tolerated_ok", "user_success_is_complete", "user_failure_reported",
                              "user_single_failure_leaves_nothing", "topic_success_is_complete", "topic_failure_reported",
                              "topic_single_failure_leaves_nothing", "user_loss_leaves_orphan", "topic_loss_leaves_orphan"]],
    streams=[dict(name="sop", pkg="main", gen=gen_sop, classify=lambda o, i: i.split(" ")[0] + ":" + i.split(" ")[1] if " " in i else i, post=post_sop)],
    extra=[search],
    seeds=dict(quick=1, thorough=1),
    exhaustive=dict(quick=True, thorough=True),
    rule="every function of server/db/mysql/adapter.go and server/db/postgres/adapter.go that begins a transaction (43 functions); "
         "each return site and each statement on the transaction is an obligation of the regenerated table; `sop`: store.Users.Create and "
         "store.Topics.Create with the k-th adapter call failing, k = 0..6, alone and with every later call failing too (28 lines, exhaustive)",
    assumptions=["deferred closure semantics of Go; database/sql and pgx end the transaction on Commit (success or failure) and on context cancel"],
    trusted=["translator/cmd/txskel (go/ast, lexical scope resolution)",
             "`sop` stream: the in-memory adapter of the harness (each adapter call takes effect as a whole or not at all: that each one is a "
             "transaction is what the regenerated skeletons are about)"],
)

from ..pin import add_pin
PROP = add_pin(PROP)
