from .. import files

T = "Tinode.Props.C16."

PROP = dict(
    id="C16",
    level_text="Kernel-checked Lean theorems over the transcribed upload and download endpoints, URL-to-file mapping, attachment links and "
               "garbage collection: a refused upload has no effect; the endpoint stores only for POST/PUT with a valid readable API key, "
               "authenticating credentials (or an account creation), within the size limit, with a non-empty file field, and then adds "
               "exactly one unlinked record of the uploaded size and sniffed/allowed type; a download reaches the store only with GET, a "
               "valid key and an authenticated user, and returns exactly the record its URL names with its stored type; active content is "
               "always forced to be saved; fifteen URL shapes (traversal inside/outside the serve directory, other directories, relative "
               "names, trailing slash, extensions, escaped separators, query strings) resolve as they should; garbage collection never "
               "removes a linked upload, removes only unlinked ones, nothing before the grace period and exactly the unlinked ones when "
               "due and unbounded; a listed attachment / avatar is linked (hence kept); deleting messages or the topic removes links, not "
               "uploads. Tied to the code by a differential stream through the real HTTP handlers, the fs media handler on a scratch "
               "directory and the real publish/set/delete paths.",
    level_note="http.DetectContentType is a table over the six kinds of bodies the harness sends (an input assumption); the file-name "
               "extension of the returned URL (mime.ExtensionsByType, OS tables), CORS headers, mime parameters (FormatMediaType) and "
               "which uploads a *bounded* collection run takes first (no ORDER BY) are not compared. Download of an upload still in "
               "progress (F16) is not reachable through the sequential harness. Found and repaired through this stream: a publish naming a "
               "collected upload failed after the message was stored and wedged the topic (fix: b09a09c, properties C01/C08).",
    technique="Lean 4 proof (decision functions of both endpoints, list induction for the collector, decide over URL shapes) + differential "
              "correspondence through the real HTTP handlers and fs media handler + history monitor",
    modules=["TinodeVerif.Props.C16"],
    theorems=[T + n for n in ["refused_upload_no_effect", "store_decision_needs", "stored_upload_effect", "download_needs_credentials",
                              "download_exact", "active_content_saved", "asatt_honoured", "url_shapes", "gc_keeps_linked",
                              "gc_removes_only_unlinked", "gc_respects_grace", "gc_due_unbounded", "published_attachment_linked",
                              "avatar_linked", "delete_keeps_records"]],
    streams=[files.files_stream()],
    seeds=dict(quick=1, thorough=4),
    rule="random histories of 10-50 operations (150 cases quick, 900 thorough per seed): uploads and downloads with every HTTP method, "
         "API key and credentials in every placement (valid, invalid, malformed, missing, live and dead session ids, challenge), six "
         "kinds of content, sizes from empty to beyond the limit, client content types, missing/misnamed file field, account-creation "
         "uploads; 18 URL shapes; publishes with attachment lists, avatar changes, hard/soft message deletion, topic deletion, collection "
         "runs before and after the grace period; non-trivial = every operation line",
    assumptions=["the content sniffer classifies the harness' six body kinds as tabulated in Files.detect",
                 "operations are processed one at a time; an upload completes before anything else happens"],
    trusted=["files stream: net/http/httptest requests into largeFileReceive / largeFileServe, the fs handler on a temporary directory, "
             "the in-memory adapter's file tables (written from the MySQL adapter's statements, foreign keys enforced), the scripted "
             "authenticator `vfake`",
             "Model/Files.lean is a hand transcription tied to the code by the differential run only"],
)

from ..pin import add_pin
PROP = add_pin(PROP)
