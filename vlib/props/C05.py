from .. import world
from ..core import hexs

T = "Tinode.Props.C05."
ALPHA = "JRWPASDONjx+-"


def strings_upto(alpha, n):
    out = [""]
    layer = [""]
    for _ in range(n):
        layer = [s + c for s in layer for c in alpha]
        out += layer
    return out


def gen_acs(rng, tier):
    # exhaustive over all 256x256 pairs of permission sets (both tiers)
    for o in range(256):
        for n in range(256):
            yield f"acs.deltaapply {o} {n}"
    targets = [0, 1, 0x2F, 0xFF, 0x100]
    for m in range(256):
        for t in targets:
            yield f"acs.roundtrip {m} {t}"
    for m in list(range(0, 520)) + [0x100000, 0x100001, 0x1FF]:
        yield f"acs.marshal {m}"
        yield f"acs.preds {m}"
    for _ in range(3000):
        yield f"acs.better {rng.below(512)} {rng.below(512)}"
    ss = strings_upto(ALPHA, 4 if tier == "thorough" else 3)
    for s in ss:
        t = rng.below(256)
        yield f"acs.parse {hexs(s)}"
        yield f"acs.unmarshal {t} {hexs(s)}"
        yield f"acs.apply {t} {hexs(s)}"
        yield f"acs.mutate {t} {hexs(s)}"
    # longer random strings, mostly valid, and a malformed stream with arbitrary bytes
    pool = "JRWPASDOjrwpasdo" * 3 + "Nn+-+-" + "xX 0\t"
    for _ in range(20000 if tier == "thorough" else 4000):
        ln = 1 + rng.below(12)
        s = "".join(rng.choice(pool) for _ in range(ln))
        t = rng.below(256)
        op = rng.choice(["acs.unmarshal", "acs.apply", "acs.mutate"])
        yield f"{op} {t} {hexs(s)}"
    for _ in range(2000):
        ln = rng.below(6)
        b = bytes(rng.below(256) for _ in range(ln))
        yield f"acs.unmarshal {rng.below(256)} {hexs(b)}"
        yield f"acs.mutate {rng.below(256)} {hexs(b)}"


def classify(op, out):
    k = op.split(" ", 1)[0]
    if k in ("acs.deltaapply", "acs.roundtrip"):
        return "law"
    return out.split(" ", 1)[0]


PROP = dict(
    id="C05",
    level_text="Kernel-checked Lean theorems over all permission sets and all strings (round trip, case-insensitivity, rejection of "
               "unknown letters, delta law, tracker convergence by induction over any change sequence); the model is tied to "
               "types.go by an exhaustive differential run (all 256x256 pairs, all short strings) on every run.",
    level_note="Trusted: Lean kernel; the hand-written model Model/Acs.lean is tied to the code only by the differential run "
               "(exhaustive for pairs and short strings, sampled for longer strings); notifySubChange/updateAcsFromPresMsg are "
               "modelled as notifyStr/applyMutation; the world stream runs the real notifySubChange and its monitor applies every announced "
               "delta to the mode held before and compares with the mode the topic holds after.",
    technique="Lean 4 proof (BitVec extensionality + list induction) + exhaustive differential correspondence",
    modules=["TinodeVerif.Props.C05"],
    theorems=[T + n for n in ["marshal_parse", "parse_case_insensitive", "parse_reject_unchanged", "empty_is_nochange",
                              "effective_is_inter", "delta_apply", "notify_apply", "proxy_tracks_master"]],
    streams=[dict(name="acs", pkg="types", gen=gen_acs, classify=classify), world.world_stream("C05")],
    seeds=dict(quick=1, thorough=3),
    exhaustive=dict(quick=True, thorough=True),
    rule="all 256x256 (old,new) pairs through Delta/ApplyDelta, all 256 sets x 5 targets through Marshal/Unmarshal, "
         "all strings of length <=3 (quick) / <=4 (thorough) over `JRWPASDONjx+-` through ParseAcs/UnmarshalText/ApplyDelta/"
         "ApplyMutation, random longer mode strings and random byte strings; a case is non-trivial unless classified so; "
         "distinct = distinct op lines",
    assumptions=["AccessMode strings are compared as byte strings; the model uses List Char and the harness feeds bytes as Latin-1",
                 "Go `uint` modelled as BitVec 32 (only &,|,&^ and constant comparisons occur)"],
    trusted=["modelled-not-verified: none for C05 beyond the correspondence harness (package types is exercised directly)"],
)
