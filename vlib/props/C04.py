from ..core import hexs
from .. import world

T = "Tinode.Props.C04."


def show(rs):
    return ",".join(f"{l}:{h}" for l, h in rs) if rs else "-"


def canon(l, h):
    """what replyDelMsg hands to the sorter: hi==low or hi==low+1 become the single-id form hi=0"""
    if h == l or h == l + 1:
        return (l, 0)
    return (l, h)


def gen_rng(rng, tier):
    # exhaustive: all lists of <= K well-formed ranges over ids 0..N (as the callers build them)
    N = 7 if tier == "thorough" else 6
    K = 3
    atoms = sorted({canon(l, h) for l in range(0, N + 1) for h in range(l, N + 2) if not (l == 0 and h == 0)})
    atoms = [a for a in atoms if a != (0, 0)]
    lists = [[]]
    layer = [[]]
    for _ in range(K):
        layer = [x + [a] for x in layer for a in atoms]
        lists += layer
    for rs in lists:
        yield "rng.normalize " + show(rs)
    # random longer lists, wider id space, duplicates and nesting likely
    for _ in range(30000 if tier == "thorough" else 5000):
        n = 1 + rng.below(9)
        top = 1 + rng.below(40)
        rs = []
        for _ in range(n):
            l = rng.below(top)
            h = l + rng.below(6) if rng.chance(2, 3) else l + rng.below(top)
            if l == 0 and h == 0:
                h = 1
            rs.append(canon(l, h))
        yield "rng.normalize " + show(rs)


def classify(op, out):
    a = op.split(" ")[1]
    n_in = 0 if a == "-" else a.count(",") + 1
    n_out = 0 if out == "-" else out.count(",") + 1
    if n_in <= 1:
        return "trivial"
    return "merged" if n_out < n_in else "kept"


PROP = dict(
    id="C04",
    level_text="Kernel-checked Lean theorems: for every list of well-formed ranges, Normalize(sort(rs)) denotes exactly the union of "
               "the listed ids and is collapsed (proved by induction over the sorted list); tied to types.go by an exhaustive "
               "differential run over all short range lists plus random long ones. Layers 2-4 (Props/C04b.lean): a delete request's "
               "converted ranges denote exactly the requested ids clipped to existing ones (with normalize_union: the stored list hides "
               "exactly the union), malformed entries reject the request, deleting needs D or at least R; a history query returns only "
               "stored, not hard-deleted messages of the topic in [since, before) which the asking user has not soft-deleted, at most the "
               "limit, all of them when they fit, nothing without R. The world stream ties these to the real handlers and store "
               "contract; the history monitor recomputes every {get data} answer and every {del msg} effect from the stored state.",
    level_note="Trusted: Lean kernel; Model/Ranges.lean is a functional rendering (accumulator instead of in-place prev/i indices) "
               "of RangeSorter.Normalize, tied to the code by the differential run only. Layers 2-4 are over the hand-written world "
               "model (group topics, in-memory adapter written from the MySQL adapter's statements); channel readers' author "
               "withholding and timestamps are outside the model.",
    technique="Lean 4 proof (induction over sorted range lists, omega; list lemmas over the query and delete paths) + exhaustive differential "
              "correspondence (ranges) + differential world stream with a history monitor",
    modules=["TinodeVerif.Props.C04", "TinodeVerif.Props.C04b"],
    theorems=[T + n for n in ["normalize_union", "normalize_separated", "conv_one", "conv_exact", "conv_rejects", "query_sound", "query_limit",
                              "query_complete", "no_read_no_history", "delete_needs_permission"]],
    streams=[dict(name="rng", pkg="types", gen=gen_rng, classify=classify), world.world_stream("C04")],
    seeds=dict(quick=1, thorough=3),
    exhaustive=dict(quick=True, thorough=True),
    rule="all lists of <=3 well-formed ranges over ids 0..6 (quick) / 0..7 (thorough), as replyDelMsg canonicalises them, plus random "
         "lists of up to 9 ranges over up to 40 ids; sorted by RangeSorter then normalised; non-trivial = at least two input ranges",
    assumptions=["ranges reaching Normalize are well formed (0 <= low, hi = 0 or low < hi) and sorted by RangeSorter.Less, as both call sites ensure"],
    trusted=world.WORLD_TRUSTED,
)

from ..pin import add_pin
PROP = add_pin(PROP)
