import base64, struct
from ..core import hexs

T = "Tinode.Props.C20."
B64 = "ABCDEFGHIJKLMNOPQRSTUVWXYZabcdefghijklmnopqrstuvwxyz0123456789-_"
M64 = (1 << 64) - 1


def b64(u):
    return base64.urlsafe_b64encode(struct.pack("<Q", u)).decode().rstrip("=")


def p2p(a, b):
    a, b = min(a, b), max(a, b)
    return "p2p" + base64.urlsafe_b64encode(struct.pack("<QQ", a, b)).decode().rstrip("=")


def ids(rng, n):
    out = [0, 1, 2, 255, 256, 65535, 1 << 32, (1 << 63) - 1, 1 << 63, M64, M64 - 1, 0x0102030405060708]
    while len(out) < n:
        k = rng.below(4)
        if k == 0:
            out.append(rng.next() & M64)
        elif k == 1:
            out.append(1 << rng.below(64))
        elif k == 2:
            out.append((rng.next() & M64) >> rng.below(64))
        else:
            out.append(((1 << rng.below(64)) - 1) ^ (rng.below(256) << rng.below(57)))
    return out


def gen_uid(rng, tier):
    big = tier == "thorough"
    us = ids(rng, 6000 if big else 1500)
    for u in us:
        yield f"uid.text {u}"
        yield f"uid.roundtrip {u}"
    # every string that differs from a canonical encoding in one character position (all 64 alternatives at the
    # last position: non-canonical trailing bits; a sample elsewhere), truncations, extensions, newline insertions
    for u in us[:(400 if big else 120)]:
        s = b64(u)
        for c in B64:
            yield f"uid.parse {hexs(s[:-1] + c)}"
            yield f"uid.parse {hexs('usr' + s[:-1] + c)}"
        for _ in range(6):
            i = rng.below(11)
            t = s[:i] + rng.choice(B64 + "+/=\n\r .") + s[i + 1:]
            yield f"uid.parse {hexs(t)}"
        yield f"uid.parse {hexs(s[:10])}"
        yield f"uid.parse {hexs(s + 'A')}"
        yield f"uid.parse {hexs(s[:5] + chr(10) + s[5:])}"
        yield f"uid.parse {hexs(s[:10] + chr(10))}"
        yield f"uid.parse {hexs('usr' + s)}"
        yield f"uid.parse {hexs('grp' + s)}"
    # all strings of length <= 2 over a small alphabet, and random strings of length 10..12
    small = "A_-9z=\n"
    for a in [""] + [x for x in small] + [x + y for x in small for y in small]:
        yield f"uid.parse {hexs(a)}"
    for _ in range(4000 if big else 800):
        n = rng.choice([10, 11, 11, 11, 12, 14])
        yield f"uid.parse {hexs(''.join(rng.choice(B64 + '=+/') for _ in range(n)))}"
    # base32 13-character strings
    b32 = "abcdefghijklmnopqrstuvwxyz234567"
    for _ in range(1500 if big else 300):
        s = "".join(rng.choice(b32) for _ in range(13))
        if rng.chance(1, 3):
            s = s.upper()
        yield f"uid.parse32 {hexs(s)}"
    # p2p names
    for _ in range(6000 if big else 1200):
        a, b = rng.choice(us), rng.choice(us)
        if rng.chance(1, 10):
            b = a
        yield f"uid.p2p {a} {b}"
    for _ in range(300 if big else 80):
        a, b = rng.choice(us[1:]), rng.choice(us[1:])
        if a == b or a == 0 or b == 0:
            continue
        s = p2p(a, b)
        for c in B64:
            yield f"uid.parsep2p {hexs(s[:-1] + c)}"
        yield f"uid.parsep2p {hexs(s[:-1])}"
        yield f"uid.parsep2p {hexs(s + 'A')}"
        yield f"uid.parsep2p {hexs('p2P' + s[3:])}"
        i = 3 + rng.below(22)
        yield f"uid.parsep2p {hexs(s[:i] + rng.choice(B64 + '=+ ') + s[i + 1:])}"
    # group/channel spellings, including bodies that contain the prefixes again
    bodies = ["", "A", "grp", "chn", "AAgrpAAAAAA", "chnchn", "xgrp", "AAAAAAAAAAA"] + [b64(u) for u in us[:200]]
    for b in bodies:
        for pfx in ["grp", "chn", "nch", "usr", "p2p", "", "gr", "GRP"]:
            yield f"uid.chn {hexs(pfx + b)}"
    # database form under several keys
    keys = [bytes(range(16)), bytes(16), bytes([255] * 16)] + [bytes(rng.below(256) for _ in range(16)) for _ in range(5)]
    for k in keys:
        for u in us[:(400 if big else 120)]:
            yield f"uid.db {hexs(k)} {u}"


def classify(op, out):
    k = op.split(" ", 1)[0]
    if k == "uid.parse":
        return "zero" if out.startswith("0 0") else "id"
    if k in ("uid.parsep2p",):
        return out.split(" ")[0]
    return "law"


def gen_pb(rng, tier):
    """text payloads and timestamps across the gRPC conversion: every ASCII control character, quotes, backslashes, HTML-sensitive
    characters, line separators, characters of every UTF-8 length, random mixtures"""
    def hx(t):
        return "x" + t.encode("utf-8").hex()
    specials = [chr(i) for i in range(0, 0x21)] + ['"', "\\", "/", "<", ">", "&", "\x7f", "\u2028", "\u2029", "\u00e9", "\u0416", "\u4e2d", "\U0001F600",
                                                   "\U000e0001", "\ufffd", "a", "Z", "0"]
    for ch in specials:
        for t in (ch, "a" + ch + "b", ch * 3):
            yield "pb.bytes " + hx(t)
            yield "pb.rt " + hx(t)
    for _ in range(4000 if tier == "thorough" else 500):
        t = "".join(rng.choice(specials) for _ in range(rng.below(24)))
        yield ("pb.rt " if rng.chance(1, 2) else "pb.bytes ") + hx(t)
    for ms in [0, 1, 2, 999, 1000, 1001, 1500, 59999, 86399999, 1700000000123, 1700000000999, 9214646400000]:
        yield f"pb.time {ms}"
    for _ in range(400 if tier == "thorough" else 60):
        yield f"pb.time {rng.below(2 ** 41)}"


PROP = dict(
    id="C20",
    level_text="Kernel-checked Lean theorems for all 64-bit ids: base64 text round trip, canonicity of the strict decoder (no other "
               "text decodes to an id), prefixed and base32 forms, XTEA decrypt∘encrypt = id for every key schedule and hence the "
               "database form, symmetry/injectivity/decoding of peer-to-peer names, group/channel spelling inverse. Tied to "
               "types.go/uidgen.go by differential runs over boundary and random ids and all single-character mutations of encodings.",
    level_note="Trusted: Lean kernel; Model/Uid.lean (arithmetical base64/base32/XTEA) is tied to the code by the differential run, "
               "not by construction; ids are sampled (boundary + random), strings near encodings enumerated. PARTIAL for the "
               "protobuf clause: text payloads (json.Marshal's string escaping against json.Unmarshal, proved a round trip for every "
               "string of Unicode characters) and millisecond timestamps are modelled and tied by the `pb` stream; the field-by-field "
               "mapping of the ten message kinds is not. Found and repaired: timestamps received over gRPC lost their milliseconds "
               "(fix: 1907ecf).",
    technique="Lean 4 proof (omega over byte/sextet arithmetic, BitVec add/sub cancellation, list induction) + differential correspondence",
    modules=["TinodeVerif.Props.C20", "TinodeVerif.Props.C20b"],
    theorems=[T + n for n in ["uid_b64_roundtrip", "uid_zero_text", "uid_decode_canonical", "user_id_roundtrip", "chn_grp_inverse",
                              "p2p_sym", "p2p_parse", "p2p_inj", "p2p_name_for_user", "xtea_roundtrip", "uid_db_roundtrip",
                              "db_uid_roundtrip", "uid_b32_roundtrip", "hex_roundtrip", "unquote_uEscape", "unquote_escape",
                              "text_survives_wire", "time_roundtrip"]],
    streams=[dict(name="uid", pkg="types", gen=gen_uid, classify=classify),
             dict(name="pb", pkg="main", gen=gen_pb, classify=lambda o, i: o.split(" ")[0])],
    seeds=dict(quick=1, thorough=3),
    rule="boundary and random 64-bit ids through every codec; for sampled ids every string differing from the canonical base64 "
         "text in the last character (all 64) and random single-character mutations, truncations, extensions, newline insertions; "
         "p2p names for random pairs and all last-character mutations; group/channel spellings incl. bodies containing a prefix; "
         "database form under 8 XTEA keys; non-trivial = every case except `trivial`",
    assumptions=["ids are 64-bit; strings are byte strings (Latin-1 in the model)",
                 "timestamps lie before the year 2262: timeToInt64 goes through UnixNano (int64 nanoseconds), the model uses unbounded naturals",
                 "the id generator never issues the single value encrypt(0) (uid_db_roundtrip excludes it)"],
    trusted=["golang.org/x/crypto/xtea and encoding/base64, base32 are modelled arithmetically (tied by the differential run)"],
)

from ..pin import add_pin
PROP = add_pin(PROP)
