from .. import world

T = "Tinode.Props.C09."

PROP = dict(
    id="C09",
    level_text='Kernel-checked Lean theorems over noteMarks / noteValid / notePass / opNote: a note never moves a mark back, keeps 0 <= read <= recv <= lastId in the loaded topic, touches nothing but the two marks; stale, duplicate, invalid, future and unauthorised notes leave the whole context unchanged (no reply, no side effect); typing notes need W, read/recv need R; the relayed notification reaches exactly the attached sessions of readers, never the origin, a typing note never the typist; a publish moves both marks of its author to the new number. The stored marks do NOT keep read <= recv (witness by decide: known finding F2, pinned by existing tests).',
    level_note='Over histories (Props/C09h.lean): for EVERY sequence, of any length, of notes (any kind, any number, from anybody, the store call failing or not) and publishes (accepted, refused, failing in the store) every record of the loaded group topic keeps 0 <= read <= recv <= last (history_marks, by induction over the sequence; opNote_live / opPub_live say what each handler leaves in memory). Group, channel-enabled and peer-to-peer topics; a relayed note never reaches a session attached as a channel reader (theorem no_info_to_channel_readers). Monotonicity of the stored marks across requests is decided by the monitor on histories.',
    technique='Lean 4 proof (omega over the transcribed mark arithmetic, handler case analysis, negation witness by decide) + differential correspondence of the world model + history monitor',
    modules=["TinodeVerif.Props.C09", "TinodeVerif.Props.C09h", "TinodeVerif.Props.C02c"],
    theorems=[T + n for n in ['note_marks_forward', 'note_marks_bounded', 'note_marks_only_marks', 'stale_read_dropped', 'stale_recv_dropped', 'note_valid_iff', 'invalid_note_no_effect', 'refused_note_no_effect', 'note_pass_iff', 'fanoutInfo_eq', 'info_recipient_iff', 'pub_marks_jump', 'pub_keeps_marks', 'note_keeps_marks', 'opNote_live', 'opPub_live', 'step_marks', 'history_marks', 'read_note_leaves_stored_recv_behind']] + ["Tinode.Props.C02.fanoutInfoC_eq", "Tinode.Props.C02.no_info_to_channel_readers"],
    streams=[world.world_stream("C09")],
    seeds=dict(quick=1, thorough=4),
    rule="random histories of 30-120 requests per case (420 cases quick, 600 thorough per seed, every third a clause scenario with random parameters) over 4 users, 7 sessions (two per user, "
         "one background, one anonymous, one root acting for others) up to 3 group topics and the peer-to-peer topics between the users, a third of the cases with one injected "
         "store failure per request, a third with crash points and restarts; non-trivial = every request line",
    assumptions=world.WORLD_ASSUMPTIONS,
    trusted=world.WORLD_TRUSTED,
)

from ..pin import add_pin
PROP = add_pin(PROP)
