from .. import world

T = "Tinode.Props.C07."

PROP = dict(
    id="C07",
    level_text="Kernel-checked Lean theorems: a non-subscriber or a user without S/A/O cannot touch another user's subscription; a sharer can only invite with the default access; an accepted change of somebody else's grant comes from an approver/owner, O only from the owner; a user's own request changes the own grant only by the owner's or a group administrator's self-raise (never adding O, the administrator never D); a previous grant is restored on re-subscription; {sub} and invitations at the subscriber limit are refused; peer-to-peer: every mode a p2p handler writes is within JRWPA and has A (the sanity mask, the modes initTopicP2P plans, a participant's own request, the other participant's grant and re-invitation), a user who is not cached in the topic cannot be subscribed to it, initTopicP2P caches exactly the two users of the topic's name, no {set sub} changes the set of participants, and a {sub} under the topic's routable name by somebody who is not one of the two is refused whatever the store holds and wherever a store call fails: nothing is stored, the session is attached to nothing, and a topic read into memory on the occasion has the two stored subscribers. Tied to the code by the differential world stream; the monitor attributes every change of a stored want/given to the acting user's mode.",
    level_note='Group and peer-to-peer topics. The clause for `me` / `fnd` (only their own user) is decided by the world stream - which includes a root session acting there on behalf of users - and the monitor rule [me-second-user], not by a theorem; the one for `sys` (only root) by sys_sub_root_only / sys_modes_within. The p2p mode ceiling is proved per handler, given that the modes already stored are p2p modes; the lift to every reachable world is carried by the differential run and the monitor, not by an induction in Lean.',
    technique='Lean 4 proof (decision functions, handler entry checks) + differential correspondence of the world model + history monitor',
    modules=["TinodeVerif.Props.C07", "TinodeVerif.Props.C07p", "TinodeVerif.Props.C07r", "TinodeVerif.Props.C03y"],
    theorems=[T + n for n in ['stranger_cannot_invite', 'sharer_cannot_set_mode', 'grant_change_needs_approver', 'default_invite_mode', 'grant_change_keeps_want', 'self_grant_change', 'admin_self_raise_excludes', 'resubscribe_restores_grant', 'sub_limit', 'invite_limit', 'p2pSan_mode', 'init_want_mode', 'self_mode_p2p', 'ownership_not_requested_p2p', 'self_want_p2p', 'grant_p2p', 'reinvite_given_mode', 'invite_want_default_within', 'invite_want_prev_within', 'no_third_participant', 'made_with_two', 'created_with_two', 'plan_modes', 'reload_restores_grant', 'evict_keeps_participants', 'self_keeps_participants', 'other_keeps_participants', 'setsub_keeps_participants', 'stranger_sub_store_unchanged', 'stranger_sub_not_attached', 'stranger_sub_refused', 'stranger_sub_loads_two', 'attached_participants', 'stranger_desc_refused']] + ["Tinode.Props.C03.sys_sub_root_only", "Tinode.Props.C03.sys_modes_within"],
    streams=[world.world_stream("C07")],
    seeds=dict(quick=1, thorough=4),
    rule="random histories of 30-120 requests per case (420 cases quick, 600 thorough per seed, every third a clause scenario with random parameters) over 4 users, 7 sessions (two per user, "
         "one background, one anonymous, one root acting for others) up to 3 group topics and the peer-to-peer topics between the users, a third of the cases with one injected "
         "store failure per request, a third with crash points and restarts; non-trivial = every request line",
    assumptions=world.WORLD_ASSUMPTIONS,
    trusted=world.WORLD_TRUSTED,
)

from ..pin import add_pin
PROP = add_pin(PROP)
