from .. import world

T = "Tinode.Props.C07."

PROP = dict(
    id="C07",
    level_text="Kernel-checked Lean theorems: a non-subscriber or a user without S/A/O cannot touch another user's subscription; a sharer can only invite with the default access; an accepted change of somebody else's grant comes from an approver/owner, O only from the owner; a user's own request changes the own grant only by the owner's or a group administrator's self-raise (never adding O, the administrator never D); a previous grant is restored on re-subscription; {sub} and invitations at the subscriber limit are refused. Tied to the code by the differential world stream; the monitor attributes every change of a stored want/given to the acting user's mode.",
    level_note='Group topics only: the p2p (third participant, mode ceiling), me/fnd and sys clauses are outside the model.',
    technique='Lean 4 proof (decision functions, handler entry checks) + differential correspondence of the world model + history monitor',
    modules=["TinodeVerif.Props.C07"],
    theorems=[T + n for n in ['stranger_cannot_invite', 'sharer_cannot_set_mode', 'grant_change_needs_approver', 'default_invite_mode', 'grant_change_keeps_want', 'self_grant_change', 'admin_self_raise_excludes', 'resubscribe_restores_grant', 'sub_limit', 'invite_limit']],
    streams=[world.world_stream("C07")],
    seeds=dict(quick=1, thorough=4),
    rule="random histories of 30-120 requests per case (400 cases quick, 600 thorough per seed, every fourth a clause scenario with random parameters) over 4 users, 7 sessions (two per user, "
         "one background, one anonymous, one root acting for others) and up to 3 group topics, a third of the cases with one injected "
         "store failure per request, a third with crash points and restarts; non-trivial = every request line",
    assumptions=world.WORLD_ASSUMPTIONS,
    trusted=world.WORLD_TRUSTED,
)
