from .. import world

T = "Tinode.Props.C06."

PROP = dict(
    id="C06",
    level_text="Kernel-checked Lean theorems over the permission decisions of thisUserSub/anotherUserSub (pure functions the transcribed handlers sequence with store calls) and the owner's exits: a first-time subscriber, an invited user and a re-joining user never get the owner bit without an explicit acceptance; only the owner can offer it; acceptance is flagged exactly when a holder of an offer asks for O, and strips the previous owner; the owner cannot drop O/J, be demoted, be evicted or unsubscribe; only the owner deletes the topic or edits public data / default access. Tied to the code by the differential world stream; the history monitor counts effective owners per topic after every request.",
    level_note="The global statement 'exactly one effective owner in every reachable state' is not proved as one invariant over all requests: the theorems close each way of gaining or losing ownership separately, the monitor checks the count on every generated history. Three defects found this way are repaired in /repo (fix: commits, see known_findings.json F8, F27).",
    technique='Lean 4 proof (decision functions, BitVec bit lemmas, handler case analysis) + differential correspondence of the world model + history monitor',
    modules=["TinodeVerif.Props.C06"],
    theorems=[T + n for n in ['new_sub_grant_not_owner', 'new_sub_want_not_owner', 'new_sub_not_effective_owner', 'invite_want_not_owner', 'invite_default_not_owner', 'only_owner_offers_ownership', 'nonowner_cannot_request_ownership', 'transfer_flag_iff', 'transfer_strips_previous_owner', 'rejoin_not_owner', 'owner_cannot_give_up', 'owner_grant_protected', 'owner_cannot_unsubscribe', 'owner_cannot_be_evicted', 'nonowner_delete_is_unsubscribe', 'nonowner_cannot_edit_description']],
    streams=[world.world_stream("C06")],
    seeds=dict(quick=1, thorough=4),
    rule="random histories of 30-120 requests per case (420 cases quick, 600 thorough per seed, every third a clause scenario with random parameters) over 4 users, 7 sessions (two per user, "
         "one background, one anonymous, one root acting for others) up to 3 group topics and the peer-to-peer topics between the users, a third of the cases with one injected "
         "store failure per request, a third with crash points and restarts; non-trivial = every request line",
    assumptions=world.WORLD_ASSUMPTIONS,
    trusted=world.WORLD_TRUSTED,
)

from ..pin import add_pin
PROP = add_pin(PROP)
