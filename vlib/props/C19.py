from ..core import hexs
from .. import world

T = "Tinode.Props.C19."
QALPHA = ["a", "B", " ", "\t", ",", '"', ":", "é"]


def h8(s):
    return hexs(s.encode("utf-8"))


def lst(xs):
    if xs is None:
        return "nil"
    return ",".join(h8(x) for x in xs) if xs else "-"


def strings_upto(alpha, n):
    out, layer = [""], [""]
    for _ in range(n):
        layer = [s + c for s in layer for c in alpha]
        out += layer
    return out


def gen_search(rng, tier):
    big = tier == "thorough"
    for s in strings_upto(QALPHA, 6 if big else 5):
        yield f"q.parse {h8(s)}"
    words = ["aa", "bb", "cc", "Flowers", "travel", "basic:alice", "email:a@b.c", "x", "a_b", "new_york", "été", "a:b",
             "tel:+1415", "-x", "9lives", "a b", ""]
    seps = [" ", ",", ", ", " ,", " , ", "  ", "\t", ",,", ", ,", " \t ", ""]
    for _ in range(60000 if big else 8000):
        n = 1 + rng.below(5)
        s = rng.choice(["", "", " ", ","])
        for k in range(n):
            w = rng.choice(words)
            if rng.chance(1, 4):
                w = '"' + w + '"'
            s += w
            if k < n - 1 or rng.chance(1, 5):
                s += rng.choice(seps)
        if rng.chance(1, 12):
            i = rng.below(len(s) + 1)
            s = s[:i] + rng.choice(['"', ",", " "]) + s[i:]
        yield f"q.parse {h8(s)}"
    # tags
    tagpool = ["Bob", "alice", "bob", " bob ", "travel", " travel", "music", "a", "", "ab", "-x", "_y", "9z", "x" * 96, "x" * 97,
               "␡", "basic:alice", "email:a@b.c", "tel:+1415", "rest:zz", "BASIC:Al", "co:op", "école", "z" * 40]
    for _ in range(12000 if big else 2500):
        n = rng.below(7)
        src = [rng.choice(tagpool) for _ in range(n)]
        if rng.chance(1, 30):
            src = None
        yield f"tags.norm {rng.choice([16, 16, 3, 1, 0])} {lst(src)}"
    nss = [[], ["basic"], ["email", "tel"], ["basic", "email", "tel", "rest"], ["co"]]
    for _ in range(12000 if big else 2500):
        old = [rng.choice(tagpool) for _ in range(rng.below(6))]
        new = list(old)
        for _ in range(rng.below(3)):
            k = rng.below(4)
            if k == 0 and new:
                new.pop(rng.below(len(new)))
            elif k == 1:
                new.append(rng.choice(tagpool))
            elif k == 2 and new:
                rng_i = rng.below(len(new))
                new[rng_i] = rng.choice(tagpool)
            else:
                new = new[::-1]
        old = [t for t in old if t != ""]
        new = [t for t in new if t != ""]
        yield f"tags.restricted {lst(rng.choice(nss))} {lst(old)} {lst(new)}"


def classify(op, out):
    k = op.split(" ", 1)[0]
    if k == "q.parse":
        if out == "err":
            return "err"
        return "terms" if out != "ok and=- or=-" else "empty"
    return out.split(" ", 1)[0][:5]


PROP = dict(
    id="C19",
    level_text="Kernel-checked Lean theorems about a rune-by-rune transcription of parseSearchQuery and of the tag functions: "
               "rejection of malformed queries, normal form of stored tags, immutability of restricted namespaces; the "
               "documented grammar is an executable Lean spec and the implementation's answer is compared with it on every "
               "string of length <= 5 (quick) / <= 6 (thorough) over an 8-symbol alphabet and on random structured queries. The search itself "
               "(`fnd` topics, Model/TopicFnd.lean: the session's or the stored query, the parser, the check for masked namespaces, store.Users.FindSubs "
               "over the adapters' matching rule) runs in the world stream; theorems (Props/C19f.lean): an entry is shown iff it is an account other "
               "than the searcher's or a topic whose tags match the query, with exactly the matched tags, and which is in the normal state unless a root "
               "session asks (found_iff: soundness and completeness; never_the_searcher; hidden_from_ordinary_users); a query naming a tag of a masked "
               "namespace is refused before the store is asked (masked_tag_refused). The monitor recomputes every result list of the implementation "
               "from the documented reading of the query.",
    level_note="The tags of group topics ({sub new tags}, {set tags}, {get tags}: Model/TopicTags.lean uses the same normalizeTags / restrictedTagsEqual as the theorems) run in the world stream; its monitor checks that stored tags are normalised, change only by the owner's {set tags} and never gain or lose a tag of the immutable namespace. Trusted: Lean kernel; Model/Search.lean is tied to utils.go by the differential run (exhaustive on short strings). "
               "Unicode classes \\pL/\\pN, strings.ToLower/TrimSpace and sort.Strings are parameters or ASCII approximations valid "
               "on the alphabet fed; validators/authenticators that rewrite tags are a parameter (`rewrite`).",
    technique="Lean 4 proof (invariants over the tokenizer fold, sorted-list reasoning) + exhaustive differential correspondence against model and grammar spec",
    modules=["TinodeVerif.Props.C19", "TinodeVerif.Props.C19t", "TinodeVerif.Props.C19f"],
    theorems=[T + n for n in ["parse_eq_grammar", "malformed_rejected", "tags_normal", "restricted_ns_immutable", "settags_nonowner_refused", "gettags_nonowner_refused", "settags_immutable_refused", "settags_needs_attachment", "new_topic_immutable_refused",
                              "matchTags_iff", "matched_are_shared", "found_iff", "never_the_searcher", "hidden_from_ordinary_users", "masked_tag_refused",
                              "account_tags_immutable_refused", "account_tags_need_attachment", "account_tags_stored_normalised"]],
    streams=[dict(name="search", pkg="main", gen=gen_search, classify=classify), world.world_stream("C19")],
    seeds=dict(quick=1, thorough=2),
    exhaustive=dict(quick=True, thorough=True),
    rule="every string of length <=5 (quick) / <=6 (thorough) over {a,B,space,tab,comma,quote,colon,é} through parseSearchQuery, random "
         "structured queries (words, quoted words, separator runs, injected stray quotes/commas), random tag lists through "
         "normalizeTags and restrictedTagsEqual/filterRestrictedTags under 5 namespace configurations; distinct op lines; "
         "non-trivial = everything except an empty parse",
    assumptions=["queries are valid UTF-8 in the correspondence run", "no validator/authenticator tag rewriting configured in the run (rewrite = syntax validation only)",
                 "`fnd`: the namespace `rest` is masked; accounts carry up to three tags out of eight, topics their normalised tags; the adapters' LIMIT on the number of results is not reached"],
    trusted=world.WORLD_TRUSTED,
)

from ..pin import add_pin
PROP = add_pin(PROP)
