from .. import world

T = "Tinode.Props.C03."

PROP = dict(
    id="C03",
    level_text="Kernel-checked Lean theorems over the transcribed publish path (Ctx.opPub): a publish outside the acceptance condition "
               "(attached, topic loaded and neither suspended, being deleted nor read-only, author subscribed with W in both modes) changes "
               "nothing - world, push queue, presence queue, adapter calls - and yields exactly one error reply; a publish inside it is "
               "accepted unless a store call fails. Tied to the code by the differential world stream (same requests through the real "
               "Session/Hub/Topic code over an in-memory adapter and through the model, byte-identical outputs).",
    level_note="Group and peer-to-peer topics ({pub} to a p2p topic goes through the same handler); the model is hand-written and tied to the code by the differential run, not regenerated. The "
               "sys/me/fnd clauses of the property are outside the model.",
    technique="Lean 4 proof (case analysis of the transcribed handler, BitVec bit lemmas) + differential correspondence of the world model "
              "+ history monitor on the implementation's output",
    modules=["TinodeVerif.Props.C03", "TinodeVerif.Props.C02c", "TinodeVerif.Props.C03s", "TinodeVerif.Props.C03y"],
    theorems=[T + n for n in ["writer_both", "pub_refused_no_effect", "pub_allowed_accepted"]] + ["Tinode.Props.C03.sys_pub_needs_nothing", "Tinode.Props.C03.sys_pub_refusals"] + ["Tinode.Props.C02.reader_cannot_publish", T + "suspended_owner_topics_readonly", T + "suspension_leaves_others"],
    streams=[world.world_stream("C03")],
    seeds=dict(quick=1, thorough=4),
    rule="random histories of 30-120 requests per case (420 cases quick, 600 thorough per seed, every third a clause scenario with random parameters) over 4 users, 7 sessions (two per user, "
         "one background, one anonymous, one root acting for others) up to 3 group topics and the peer-to-peer topics between the users, a third of the cases with one injected "
         "store failure per request, a third with crash points and restarts; non-trivial = every request line",
    assumptions=world.WORLD_ASSUMPTIONS,
    trusted=world.WORLD_TRUSTED,
)
