from .. import world

T = "Tinode.Props.C01."

PROP = dict(
    id="C01",
    level_text="Kernel-checked Lean theorems over the transcribed publish and load paths: an accepted message gets lastId+1, the same number in the acknowledgement, in every delivered copy, in the loaded counter, the stored counter and the stored message; a failed save leaves memory, sessions and stored messages untouched; the invariant tying loaded counter, stored counter and stored message numbers (strictly increasing, bounded by the counters) is preserved by a publish under every fault plan; a load resumes from the stored counter, above every stored number. The clause 'a failed save consumes no number' is proved FALSE after a reload (witness by decide, replayed on the code: known finding).",
    level_note="Over histories (Props/C01h.lean): for EVERY sequence, of any length, of publishes (by anybody, permitted or not, under any fault or crash plan), unloads and loads of the topic the invariant holds and the messages stored earlier are a prefix of those stored later - no number is issued twice (history_inv, numbers_unique_over_histories, by induction over the sequence). Invariant preservation is proved for publish and load, not for every other request (those do not write counters in the model; that frame property is checked by the differential run and the monitor, not by a theorem). Crash points: the monitor checks 'strictly above everything shown' on crash/restart histories; the theorem covers the store writes of one publish.",
    technique='Lean 4 proof (handler-level theorems + invariant preservation, omega/List lemmas, negation witness by decide) + differential correspondence of the world model + history monitor',
    modules=["TinodeVerif.Props.C01", "TinodeVerif.Props.C01h"],
    theorems=[T + n for n in ['accepted_number', 'failed_save_consumes_nothing_in_memory', 'pub_preserves_inv', 'load_resumes_above', 'failed_save_consumes_number_after_reload', 'step_inv', 'history_inv', 'numbers_unique_over_histories']],
    streams=[world.world_stream("C01")],
    seeds=dict(quick=1, thorough=4),
    rule="random histories of 30-120 requests per case (420 cases quick, 600 thorough per seed, every third a clause scenario with random parameters) over 4 users, 7 sessions (two per user, "
         "one background, one anonymous, one root acting for others) up to 3 group topics and the peer-to-peer topics between the users, a third of the cases with one injected "
         "store failure per request, a third with crash points and restarts; non-trivial = every request line",
    assumptions=world.WORLD_ASSUMPTIONS,
    trusted=world.WORLD_TRUSTED,
)

from ..pin import add_pin
PROP = add_pin(PROP)
