from .. import gate, world

T = "Tinode.Props.C11."

PROP = dict(
    id="C11",
    level_text="Kernel-checked Lean theorems over the transcribed session gate (Session.dispatch, hello, login/onLogin) with the "
               "authenticator's answer as a parameter: before the handshake everything but {hi} is refused (notes dropped); before login "
               "everything but {hi}/{login}/{acc} is refused; a request runs as the logged-in user and level; only a root session may act "
               "on behalf of somebody; a session logs in at most once; every failing, challenged, suspended or no-login outcome leaves the "
               "session exactly as it was; authentication happens only on a successful unrestricted final answer, as that user and level; "
               "the version cannot change after the handshake and only supported versions are installed; the sender header is the "
               "server's. Tied to the code by a differential stream through the real Session.dispatch with a scripted authenticator "
               "and the real token authenticator. A session which the server itself logs out (initTopicMe cannot read the account) is covered "
               "by the world stream: from then on every request is refused with 401 (a note dropped, `as=` refused as from a non-root "
               "session) and has no effect (theorems logout_on_unreadable_account, logged_out_refused, logged_out_cannot_act_for_others; "
               "monitor on every generated history). Found and repaired this way: the logged-out session kept its level (fix: c1d0cf3).",
    level_note="Credential validation is modelled for a login which brings no credential response (loginV, credMissing: the validators of the level, the 'validated' feature of the record and of the token, the account's validated credentials; the answers of a validator to a response are not). {acc}'s account creation/update body, token expiry and "
               "the {login scheme=reset} path are not modelled. Found and repaired: {acc} with an unknown temporary scheme crashed the "
               "server (fix: f6ef13f).",
    technique="Lean 4 proof (case analysis of the transcribed gate state machine) + differential correspondence through Session.dispatch + "
              "history monitor",
    modules=["TinodeVerif.Props.C11", "TinodeVerif.Props.C11w"],
    theorems=[T + n for n in ["before_handshake", "before_login", "executed_as_logged_in", "only_root_on_behalf", "root_on_behalf",
                              "login_at_most_once", "failed_login_leaves_unauthenticated", "login_success_only", "login_success",
                              "loginV_complete", "missing_credentials_leave_unauthenticated", "token_validated_only_when_complete", "cred_missing_iff",
                              "version_immutable", "handshake_version_supported", "sender_is_servers",
                              "logout_on_unreadable_account", "logged_out_refused", "logged_out_cannot_act_for_others"]],
    streams=[gate.gate_stream(), world.world_stream("C11")],
    seeds=dict(quick=1, thorough=4),
    rule="random sequences of 4-20 messages on a fresh session (250 cases quick, 1500 thorough per seed): the ten client message kinds, "
         "14 version strings, 17 authenticator outcomes, token re-login, in a third of the histories a credential validator required for the `auth` level with and without a validated credential on the account (login answered 300, the token of that answer presented again), unknown schemes, on-behalf-of data with valid, invalid and "
         "ill-formed users and levels; non-trivial = every message line",
    assumptions=["one session, requests processed one at a time; the authenticator behind scheme `vfake` is scripted by the op line"],
    trusted=["gate stream: the Go harness drives the real Session.dispatch of a fresh session; handlers behind the gate see a topic name "
             "the session is not attached to, and only their first reaction (reply code / hub channel) is compared",
             "Model/Gate.lean is a hand transcription tied to the code by the differential run only"],
)

from ..pin import add_pin
PROP = add_pin(PROP)
