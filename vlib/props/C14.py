from .. import world

T = "Tinode.Props.C14."

PROP = dict(
    id="C14",
    level_text="PARTIAL (sequential bookkeeping). Kernel-checked Lean theorems: detaching removes the topic from the session's table; an accepted {leave} is answered and removes the session from the topic's table and the topic from the session's table; a terminated topic is no longer loaded; a soft-deleted or missing topic cannot be joined (404). The monitor checks after every request of every history that a session lists a topic iff the topic lists the session, that subscribe/leave/delete requests are answered, that a deleted topic has no attached sessions and refuses later subscriptions.",
    level_note="NOT covered: every clause about interleavings, slow-consumer eviction, request bookkeeping that could block, and lock/atomic discipline - these are properties of goroutine schedules which a sequential executable model cannot exhibit; the harness pumps the real handlers one at a time. Known findings: a root session's on-behalf-of {leave} is unanswered; {sub}/{set} are unanswered when the ownership-transfer or grant write fails.",
    technique='Lean 4 proof (attachment-table lemmas over the transcribed leave/terminate/join paths, witness by decide) + differential correspondence of the world model + history monitor',
    modules=["TinodeVerif.Props.C14"],
    theorems=[T + n for n in ['detach_not_attached', 'leave_detaches_both', 'terminate_unloads', 'deleted_topic_refused', 'root_leave_on_behalf_unanswered']],
    streams=[world.world_stream("C14")],
    seeds=dict(quick=1, thorough=4),
    rule="random histories of 30-120 requests per case (420 cases quick, 600 thorough per seed, every third a clause scenario with random parameters) over 4 users, 7 sessions (two per user, "
         "one background, one anonymous, one root acting for others) up to 3 group topics and the peer-to-peer topics between the users, a third of the cases with one injected "
         "store failure per request, a third with crash points and restarts; non-trivial = every request line",
    assumptions=world.WORLD_ASSUMPTIONS,
    trusted=world.WORLD_TRUSTED,
)
