from .. import world

T = "Tinode.Props.C14."

PROP = dict(
    id="C14",
    level_text="PARTIAL (sequential bookkeeping). Kernel-checked Lean theorems: detaching removes the topic from the session's table; an accepted {leave} is answered and removes the session from the topic's table and the topic from the session's table; a terminated topic is no longer loaded; a soft-deleted or missing topic cannot be joined (404). The monitor checks after every request of every history that a session lists a topic iff the topic lists the session, that subscribe/leave/delete requests are answered, that a deleted topic has no attached sessions and refuses later subscriptions. The deletion of an account ({del what=user}, Props/C14u.lean and Model/TopicUser.lean: EvictUser, the hub's stopTopicsForUser, the notices, UserDelete hard and soft) is part of the histories: the theorems say who may delete whom, what the store holds afterwards, which topics the hub stops, that a group topic forgets a subscriber whose account is gone and that every session of the account is logged out once the deletion is acknowledged; the monitor checks after every acknowledged deletion that the account's sessions are attached to nothing, that no loaded topic counts the account online or keeps a session for it, that its own topics are shut down and deleted.",
    level_note="Interleavings: the harness can hold a real request in the real queue it was put in (hub.join, Topic.reg, Topic.unreg, Topic.clientMsg) while the topic's owner deletes the topic, its idle timer fires or the requester's connection closes (Session.cleanUp runs in its own goroutine), and then lets the hub and the topic take their queues one handler at a time in an order drawn at random (`hold`, `hubstep`, `tstep`, `settle`; Model/TopicCross.lean transcribes the same steps, Props/C14x.lean proves that a terminating topic answers what is queued and that the hub refuses a {sub} for an inactive topic, releasing the session's slot). The monitor checks at quiescence that no session is left with a request in flight, that every held request was answered, and the attachment tables. NOT covered: schedules inside one handler, slow-consumer eviction, lock/atomic discipline (data races), crossings on me/fnd/p2p/channel topics and with account deletion. Known findings: a root session's on-behalf-of {leave} is unanswered; {sub}/{set} are unanswered when the ownership-transfer or grant write fails.",
    technique='Lean 4 proof (attachment-table lemmas over the transcribed leave/terminate/join paths, witness by decide) + differential correspondence of the world model + history monitor',
    modules=["TinodeVerif.Props.C14", "TinodeVerif.Props.C14u", "TinodeVerif.Props.C14x"],
    theorems=[T + n for n in ['detach_not_attached', 'leave_detaches_both', 'terminate_unloads', 'deleted_topic_refused', 'root_leave_on_behalf_unanswered',
                              # the deletion of an account (Props/C14u.lean)
                              'only_root_deletes_others', 'refused_deletion_no_effect', 'deletes_self', 'root_deletes_named',
                              'hard_delete_leaves_nothing', 'soft_delete_marks_everything', 'stops_own_and_personal',
                              'member_topic_not_stopped', 'stopped_topic_lets_go', 'gone_member_iff', 'forgotten_by_group',
                              'forgotten_by_channel', 'deleted_account_logged_out',
                              # crossings (Props/C14x.lean; the split of the requests is proved next to the model)
                              'handleHeld_exiting', 'drain_answers', 'exit_answers_queued', 'setInflight_inflight', 'drain_releases', 'exit_releases_slots', 'hub_refuses_inactive',
                              'hub_hands_over', 'holdSub_takes_slot']] +
             ["Tinode.World.opLeave_split", "Tinode.World.opPub_split", "Tinode.World.opSub_split"],
    streams=[world.world_stream("C14")],
    seeds=dict(quick=1, thorough=4),
    rule="random histories of 30-120 requests per case (420 cases quick, 600 thorough per seed, every third a clause scenario with random parameters) over 4 users, 7 sessions (two per user, "
         "one background, one anonymous, one root acting for others) up to 3 group topics and the peer-to-peer topics between the users, a third of the cases with one injected "
         "store failure per request, a third with crash points and restarts; non-trivial = every request line",
    assumptions=world.WORLD_ASSUMPTIONS,
    trusted=world.WORLD_TRUSTED,
)

from ..pin import add_pin
PROP = add_pin(PROP)
