"""Orchestration core for the Lean-4 proof checks of tinode/chat (see DESIGN.md §2.4, §5, §9)."""
import fcntl, hashlib, json, os, re, shutil, subprocess, sys, time

VERIF = os.path.dirname(os.path.dirname(os.path.abspath(__file__)))
REPO = os.environ.get("VERIF_REPO", "/repo")
LEAN = os.path.join(VERIF, "lean")
WORK = os.path.join(VERIF, ".work")
DRIVER = os.path.join(LEAN, ".lake", "build", "bin", "driver")
ALLOWED_AXIOMS = {"propext", "Classical.choice", "Quot.sound"}
PKGDIR = {
    "types": "server/store/types",
    "ringhash": "server/ringhash",
    "main": "server",
    "store": "server/store",
    "mysql": "server/db/mysql",
    "token": "server/auth/token",
    "code": "server/auth/code",
    "basic": "server/auth/basic",
    "media": "server/media",
    "fs": "server/media/fs",
    "drafty": "server/drafty",
    "fcm": "server/push/fcm",
}
PKGNAME = {"main": "main"}
TRUSTED_BASE = [
    "Lean 4.33.0 kernel (theorems re-checked by `lake build`; `#print axioms` audited on every run)",
    "axioms allowed: propext, Classical.choice, Quot.sound; no native_decide, bv_decide, sorry or own axioms",
    "the hand-written Lean model is tied to /repo by the correspondence run of this check (Go harness via -overlay + Lean driver on the same op lines)",
    "Go toolchain building /repo's working tree plus /verif/harness overlay files (tag verif)",
    "this orchestrator, the op generators and the line canonicalisation",
]


def goenv():
    e = dict(os.environ)
    e.update(GOFLAGS="-mod=mod", GOPROXY="off", GOSUMDB="off", GOTOOLCHAIN="local")
    return e


class SplitMix:
    """Deterministic PRNG: every random choice of a run derives from VERIF_SEED."""
    M = (1 << 64) - 1

    def __init__(self, seed):
        self.s = seed & self.M

    def next(self):
        self.s = (self.s + 0x9E3779B97F4A7C15) & self.M
        z = self.s
        z = ((z ^ (z >> 30)) * 0xBF58476D1CE4E5B9) & self.M
        z = ((z ^ (z >> 27)) * 0x94D049BB133111EB) & self.M
        return z ^ (z >> 31)

    def below(self, n):
        return self.next() % n if n > 0 else 0

    def choice(self, xs):
        return xs[self.below(len(xs))]

    def chance(self, num, den):
        return self.below(den) < num

    def fork(self, tag):
        h = int.from_bytes(hashlib.sha256(f"{self.s}:{tag}".encode()).digest()[:8], "big")
        return SplitMix(h)


def hexs(b):
    if isinstance(b, str):
        b = b.encode("latin-1")
    return "x" + bytes(b).hex()


def unhex(tok):
    return bytes.fromhex(tok[1:]).decode("latin-1")


class Lock:
    def __init__(self, name):
        os.makedirs(WORK, exist_ok=True)
        self.path = os.path.join(WORK, name + ".lock")

    def __enter__(self):
        self.f = open(self.path, "w")
        fcntl.flock(self.f, fcntl.LOCK_EX)
        return self

    def __exit__(self, *a):
        fcntl.flock(self.f, fcntl.LOCK_UN)
        self.f.close()


def run(cmd, cwd=None, env=None, timeout=None, input=None):
    p = subprocess.run(cmd, cwd=cwd, env=env, timeout=timeout, input=input, stdout=subprocess.PIPE,
                       stderr=subprocess.STDOUT, text=True)
    return p.returncode, p.stdout


# ----------------------------------------------------------------------------- Lean side

FORBIDDEN = re.compile(r"\bsorry\b|\badmit\b|^axiom |native_decide|bv_decide|implemented_by|\bunsafe |maxHeartbeats 0")


def lean_grep():
    """Textual scan of the Lean sources (comments stripped) for forbidden constructs."""
    hits = []
    for root, _, files in os.walk(LEAN):
        if ".lake" in root:
            continue
        for fn in files:
            if not fn.endswith(".lean"):
                continue
            p = os.path.join(root, fn)
            txt = open(p).read()
            txt = re.sub(r"/-.*?-/", lambda m: "\n" * m.group(0).count("\n"), txt, flags=re.S)
            for i, line in enumerate(txt.split("\n"), 1):
                line = line.split("--")[0]
                if FORBIDDEN.search(line):
                    hits.append(f"{os.path.relpath(p, VERIF)}:{i}: {line.strip()}")
    return hits


def lake_build(targets, log):
    with Lock("lake"):
        rc, out = run(["lake", "build"] + targets, cwd=LEAN, timeout=3600)
    log.write(out)
    return rc, out


def lean_audit(pid, modules, theorems, log):
    """#print axioms for every registered theorem. Returns {name: (ok, axioms|error)}."""
    d = os.path.join(WORK, pid)
    os.makedirs(d, exist_ok=True)
    src = os.path.join(d, "Audit.lean")
    with open(src, "w") as f:
        for m in modules:
            f.write(f"import {m}\n")
        for t in theorems:
            f.write(f"#print axioms {t}\n")
    rc, out = run(["lake", "env", "lean", src], cwd=LEAN, timeout=1800)
    log.write(out)
    res = {}
    flat = re.sub(r"\n\s+", " ", out)
    for t in theorems:
        m = re.search(r"'" + re.escape(t) + r"' depends on axioms: \[([^\]]*)\]", flat)
        if m:
            ax = [a.strip() for a in m.group(1).split(",") if a.strip()]
            bad = [a for a in ax if a not in ALLOWED_AXIOMS]
            res[t] = (not bad, ax)
        elif re.search(r"'" + re.escape(t) + r"' does not depend on any axioms", flat):
            res[t] = (True, [])
        else:
            res[t] = (False, ["<not found or failed to elaborate>"])
    return res


# ----------------------------------------------------------------------------- Go side

def overlay_for(pid, pkgs):
    """Writes overlay.json that injects harness test files into /repo packages (nothing is written to /repo)."""
    d = os.path.join(WORK, pid, "gen")
    os.makedirs(d, exist_ok=True)
    repl = {}
    tmpl = open(os.path.join(VERIF, "harness", "common", "wire.go.tmpl")).read()
    for key in pkgs:
        pkgdir = os.path.join(REPO, PKGDIR[key])
        src = os.path.join(VERIF, "harness", "overlay", key)
        for fn in sorted(os.listdir(src)):
            if fn.endswith(".go"):
                repl[os.path.join(pkgdir, fn)] = os.path.join(src, fn)
        gd = os.path.join(d, key)
        os.makedirs(gd, exist_ok=True)
        wf = os.path.join(gd, "verif_wire_test.go")
        with open(wf, "w") as f:
            f.write(tmpl.replace("PKGNAME", PKGNAME.get(key, key)))
        repl[os.path.join(pkgdir, "verif_wire_test.go")] = wf
    ov = os.path.join(d, "overlay.json")
    json.dump({"Replace": repl}, open(ov, "w"), indent=1)
    return ov


def go_build_harness(pid, key, log, tags="verif"):
    ov = overlay_for(pid, [key])
    outbin = os.path.join(WORK, pid, "bin", key + ".test")
    os.makedirs(os.path.dirname(outbin), exist_ok=True)
    if os.path.exists(outbin):
        os.remove(outbin)
    rc, out = run(["go", "test", "-tags", tags, "-overlay", ov, "-vet=off", "-c", "-o", outbin, "."],
                  cwd=os.path.join(REPO, PKGDIR[key]), env=goenv(), timeout=1800)
    log.write(out)
    return rc, out, outbin


def go_run_stream(binpath, ops, outp, cwd, log, test="TestVerifStream", timeout=900, extra_env=None):
    e = goenv()
    e.update(VERIF_OPS=ops, VERIF_OUT=outp)
    if extra_env:
        e.update(extra_env)
    if os.path.exists(outp):
        os.remove(outp)
    rc, out = run([binpath, "-test.run", "^" + test + "$", "-test.count=1", "-test.timeout", f"{timeout}s"], cwd=cwd, env=e,
                  timeout=timeout + 60)
    log.write(out[-20000:])
    return rc, out


def driver_run(mode, inp, outp):
    with open(inp) as fi, open(outp, "w") as fo:
        p = subprocess.run([DRIVER, mode], stdin=fi, stdout=fo, stderr=subprocess.PIPE, text=True)
    return p.returncode, p.stderr


# ----------------------------------------------------------------------------- known findings

def load_known():
    p = os.path.join(VERIF, "known_findings.json")
    if not os.path.exists(p):
        return []
    return json.load(open(p)).get("findings", [])


def match_known(known, pid, text):
    for k in known:
        if k.get("property") == pid and k.get("kind") == "known" and re.search(k["match"], text):
            return k
    return None


# ----------------------------------------------------------------------------- evidence

def write_evidence(pid, tier, seed, coverage, assumptions, wall, violations):
    evdir = os.environ.get("VERIF_EVIDENCE_DIR") or os.path.join(VERIF, "evidence")
    os.makedirs(evdir, exist_ok=True)
    ev = {"property_id": pid, "tier": tier, "seed": seed, "level": "proof", "coverage": coverage,
          "assumptions": assumptions, "wall_s": round(wall, 2), "violations": violations}
    tmp = os.path.join(evdir, pid + ".json.tmp")
    json.dump(ev, open(tmp, "w"), indent=1)
    os.replace(tmp, os.path.join(evdir, pid + ".json"))


# ----------------------------------------------------------------------------- translators

def build_translator(name, log):
    out = os.path.join(WORK, "bin", "tr-" + name)
    os.makedirs(os.path.dirname(out), exist_ok=True)
    with Lock("gotr"):
        rc, o = run(["go", "build", "-o", out, "./cmd/" + name], cwd=os.path.join(VERIF, "translator"), env=goenv(), timeout=600)
    log.write(o)
    return rc, o, out


def run_translator(name, gen_file, log, extra_args=()):
    """Deletes the generated file, rebuilds the translator, regenerates. Returns (ok, message)."""
    target = os.path.join(LEAN, "TinodeVerif", "Gen", gen_file)
    rc, o, binp = build_translator(name, log)
    if rc != 0:
        return False, "translator does not build: " + o[-500:]
    with Lock("lake"):
        if os.path.exists(target):
            os.remove(target)
        rc, o = run([binp, REPO, target] + list(extra_args), timeout=600)
        log.write(o)
        if rc != 0 or not os.path.exists(target):
            # keep the project buildable: an empty stub makes every dependent theorem fail loudly
            open(target, "w").write("/- translator failed: " + o.replace("-/", "- /")[-400:] + " -/\n")
            return False, o.strip()[-500:]
    return True, "regenerated " + gen_file


def driver_lines(lines, mode="model"):
    p = subprocess.run([DRIVER, mode], input="\n".join(lines) + "\n", stdout=subprocess.PIPE, stderr=subprocess.PIPE, text=True)
    return p.stdout.split("\n")[:len(lines)]
