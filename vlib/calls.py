"""Call stream (C15): generator, history monitor, stream definition."""
import re

SESS = [("S1", "U1"), ("S2", "U2"), ("S3", "U2"), ("S4", "U1"), ("S5", "U3")]
PEER = {"U1": "U2", "U2": "U1", "U3": "U1"}
EVENTS = ["ringing", "accept", "offer", "answer", "ice-candidate", "hang-up", "bogus"]


def gen_case(rng, n):
    """random ops, biased by a small simulation of the call so that the interesting paths (accept, relay, hang-up by either
    side, timeout, a party leaving) are reached often; the simulation only steers the choice, it is not an oracle"""
    out = ["reset"] + [f"sess {s} {u} auth" for s, u in SESS]
    users = dict(SESS)
    att, ice, last = set(), True, 0
    call = None          # dict(seq, orig_sid, orig_uid, parties=set(), accepted)
    for s, u in SESS[:4]:
        if rng.chance(3, 4):
            out.append(f"attach {s} {PEER[u]}")
            att.add(s)

    def end():
        nonlocal call, last
        last += 1
        call = None

    for _ in range(n):
        guided = rng.chance(3, 5)
        if guided and call is not None:
            callee_sessions = [x for x, uu in SESS[:4] if uu != call["orig_uid"]]
            if not call["accepted"]:
                s = rng.choice(callee_sessions)
                ev = rng.choice(["ringing", "accept", "accept", "hang-up"]) if rng.chance(4, 5) else "hang-up"
                if ev == "hang-up" and rng.chance(1, 2):
                    s = call["orig_sid"]
            else:
                s = rng.choice(sorted(call["parties"]))
                ev = rng.choice(["offer", "answer", "ice-candidate", "ice-candidate", "hang-up"])
            u = users[s]
            pl = f" pl{rng.below(9)}" if ev in ("offer", "answer", "ice-candidate") else ""
            out.append(f"ev {s} {PEER[u]} {ev} {call['seq']}{pl}")
            if ev == "accept" and not call["accepted"] and u != call["orig_uid"]:
                call["accepted"] = True
                call["parties"].add(s)
                last += 1
            elif ev == "hang-up":
                if call["accepted"] and s in call["parties"]:
                    end()
                elif not call["accepted"] and not (u == call["orig_uid"] and s != call["orig_sid"]):
                    end()
            continue
        s, u = rng.choice(SESS if rng.chance(1, 6) else SESS[:4])
        k = rng.below(100)
        p = PEER[u]
        if k < 6:
            if u != "U3":
                out.append(f"attach {s} {p}")
                att.add(s)
        elif k < 12:
            if u != "U3":
                out.append(f"detach {s} {p}")
                if s in att:
                    att.discard(s)
                    if call is not None and s in call["parties"]:
                        end()
        elif k < 40:
            c = f"C{len(out)}"
            out.append(f"call {s} {p} {c}" + (" noecho=1" if rng.chance(1, 6) else ""))
            if s in att and ice and call is None:
                last += 1
                call = dict(seq=last, orig_sid=s, orig_uid=u, parties={s}, accepted=False)
        elif k < 46:
            out.append(f"pub {s} {p} C{len(out)}")
            if s in att:
                last += 1
        elif k < 90:
            ev = rng.choice(EVENTS[:6]) if rng.chance(9, 10) else "bogus"
            cur = call["seq"] if call else last
            seq = cur if rng.chance(1, 2) else rng.choice([0, -1, 1, last, last + 1, max(1, cur - 1)])
            pl = f" pl{rng.below(9)}" if ev in ("offer", "answer", "ice-candidate") else ""
            out.append(f"ev {s} {p} {ev} {seq}{pl}")
            # keep the simulation roughly in step for the cases which do change the call
            if call is not None and seq == call["seq"] and u in ("U1", "U2"):
                if ev == "accept" and not call["accepted"] and u != call["orig_uid"]:
                    call["accepted"] = True
                    call["parties"].add(s)
                    last += 1
                elif ev == "hang-up":
                    if call["accepted"] and s in call["parties"]:
                        end()
                    elif not call["accepted"] and not (u == call["orig_uid"] and s != call["orig_sid"]):
                        end()
        elif k < 95:
            out.append("timeout S1 U2")
            if call is not None:
                end()
        elif k < 97:
            out.append("ice off")
            ice = False
        else:
            out.append("ice on")
            ice = True
    return out


def gen_calls(rng, tier):
    for _ in range(1200 if tier == "thorough" else 200):
        for l in gen_case(rng, 8 + rng.below(40)):
            yield l


def parse(out):
    if " | " not in out and not out.startswith("msgs["):
        return None
    parts = out.split(" | ")
    frames = [tuple(p.split("<-", 1)) for p in parts if "<-" in p and not p.startswith("msgs[")]
    ms = [p for p in parts if p.startswith("msgs[")]
    msgs = []
    if ms:
        for e in ms[0][5:-1].split():
            f = e.split(":", 2)
            rest = f[2]
            # head and content: the content is the last ':'-separated field
            head, content = rest.rsplit(":", 1)
            msgs.append(dict(seq=int(f[0]), sender=f[1], head=dict(kv.split("=", 1) for kv in head.split(";") if "=" in kv), content=content))
    call = None
    for p in parts:
        if p.startswith("call=") and p != "call=-":
            m = re.match(r"call=seq=(\d+) parties=\[(.*)\] accepted=(\d)", p)
            ps = []
            for e in m.group(2).split():
                f = e.split(":")
                ps.append(dict(sid=f[0], uid=f[1], orig=len(f) > 2))
            call = dict(seq=int(m.group(1)), parties=ps, accepted=m.group(3) == "1")
    return dict(frames=frames, msgs=msgs, call=call)


def monitor(ops, outs):
    res = []
    start = 0
    st = None
    for i, (o, out) in enumerate(zip(ops, outs)):
        w = o.split(" ")
        if w[0] == "reset":
            st = dict(ice=True, att={}, msgs=[], call=None, users={}, content={})
            start = i
            continue
        if st is None:
            continue
        if out in ("panic", "crash"):
            res.append((ops[start:i + 1], f"C15 the server panicked on `{o}`"))
            st = None
            continue
        if w[0] == "ice":
            st["ice"] = w[1] == "on"
            continue
        if w[0] == "sess":
            st["users"][w[1]] = w[2]
            continue
        if w[0] == "attach":
            if st["users"].get(w[1]) in ("U1", "U2"):
                st["att"][w[1]] = st["users"][w[1]]
            continue
        p = parse(out)
        if p is None:
            continue
        fails = []
        pre_call, pre_msgs = st["call"], st["msgs"]
        new_msgs = p["msgs"][len(pre_msgs):]
        if p["msgs"][:len(pre_msgs)] != pre_msgs:
            fails.append("stored messages were rewritten")
        sid = w[1] if len(w) > 1 else ""
        uid = st["users"].get(sid, "")
        infos = [(s, f) for s, f in p["frames"] if f.startswith("info ")]
        # --- starting a call
        if w[0] == "call":
            started = p["call"] is not None and (pre_call is None or p["call"]["seq"] != pre_call["seq"])
            ok = st["ice"] and sid in st["att"] and pre_call is None
            if started and not ok:
                why = "calling is not configured" if not st["ice"] else ("the session is not attached" if sid not in st["att"] else "another call is active")
                fails.append(f"a call was started although {why}")
            if not ok and (new_msgs or p["call"] != pre_call):
                fails.append("a refused invitation left a trace (message stored or call state changed)")
            if pre_call is not None and st["ice"] and sid in st["att"]:
                if not any(s == sid and f.startswith("ctrl 486") for s, f in p["frames"]):
                    fails.append("a second invitation was not answered busy")
            if started:
                st["content"][p["call"]["seq"]] = w[3]
                if [x["sid"] for x in p["call"]["parties"]] != [sid] or not p["call"]["parties"][0]["orig"]:
                    fails.append("the new call does not have the inviting session as its only party and originator")
        # --- the call state may change only in specific ways
        if pre_call is not None:
            seq = pre_call["seq"]
            orig = [x for x in pre_call["parties"] if x["orig"]]
            ouid = orig[0]["uid"] if orig else "?"
            ended = p["call"] is None or p["call"]["seq"] != seq
            if ended:
                closing = [m for m in new_msgs if m["head"].get("replace") == f":{seq}" and m["head"].get("webrtc") in ("finished", "declined", "missed", "disconnected")]
                if len(closing) != 1:
                    fails.append(f"call {seq} ended with {len(closing)} closing messages")
                else:
                    c = closing[0]
                    if c["content"] != st["content"].get(seq, c["content"]):
                        fails.append(f"the closing message of call {seq} carries content {c['content']} instead of the invitation's")
                    want = None
                    if w[0] == "ev" and w[3] == "hang-up":
                        want = "finished" if pre_call["accepted"] else ("missed" if uid == ouid else "declined")
                    elif w[0] == "timeout":
                        want = "missed"
                    elif w[0] == "detach":
                        want = "disconnected"
                    if want and c["head"].get("webrtc") != want:
                        fails.append(f"call {seq} was closed as {c['head'].get('webrtc')} instead of {want}")
                if w[0] == "ev" and w[3] == "hang-up":
                    party = any(x["sid"] == sid for x in pre_call["parties"])
                    if pre_call["accepted"] and not party:
                        fails.append(f"a session which is not party to the accepted call {seq} ended it")
                    if not pre_call["accepted"] and uid == ouid and not party:
                        fails.append(f"another session of the caller ended call {seq} before it was accepted")
                    if uid not in ("U1", "U2"):
                        fails.append("a third user ended the call")
                    if int(w[4]) != seq:
                        fails.append(f"call {seq} was ended by an event naming call {w[4]}")
                elif w[0] not in ("timeout", "detach"):
                    fails.append(f"call {seq} was ended by `{w[0]}`")
            else:
                if p["call"]["accepted"] and not pre_call["accepted"]:
                    if not (w[0] == "ev" and w[3] == "accept" and int(w[4]) == seq and uid in ("U1", "U2") and uid != ouid):
                        fails.append(f"call {seq} was accepted by `{o}` which is not an accept from the callee")
                    acc = [m for m in new_msgs if m["head"].get("replace") == f":{seq}" and m["head"].get("webrtc") == "accepted"]
                    if len(acc) != 1:
                        fails.append(f"acceptance of call {seq} published {len(acc)} replacement messages")
                elif p["call"] != pre_call:
                    fails.append(f"the state of call {seq} changed on `{o}`")
                elif new_msgs and w[0] not in ("pub",):
                    fails.append(f"`{o}` published a message while call {seq} stayed as it was")
            # "missed … when the configured timeout expires": while the call waits to be accepted the timer is running - when it goes off
            # the call ends; a call which is still there afterwards has lost its timer and will never be replaced by `missed`
            if w[0] == "timeout" and not pre_call["accepted"] and not ended:
                fails.append(f"[timer-lost] the establishment timeout of call {seq} cannot fire: the call was not accepted, nobody hung up, and it "
                             f"stays in progress for ever (every later invitation is answered busy)")
        elif p["call"] is not None and w[0] != "call":
            fails.append(f"a call appeared on `{w[0]}`")
        # --- relaying
        if w[0] == "ev" and len(w) > 4:
            ev = w[3]
            for s, f in infos:
                kv = dict(x.split("=", 1) for x in f.split(" ") if "=" in x)
                if kv.get("event") in ("offer", "answer", "ice-candidate"):
                    if pre_call is None or not pre_call["accepted"]:
                        fails.append("call data relayed without an accepted call")
                    else:
                        others = [x["sid"] for x in pre_call["parties"] if x["sid"] != sid]
                        if s not in others or not any(x["sid"] == sid for x in pre_call["parties"]):
                            fails.append(f"{kv.get('event')} from {sid} relayed to {s}, parties are {[x['sid'] for x in pre_call['parties']]}")
                        if len(w) > 5 and kv.get("payload", "").strip('"') != w[5]:
                            fails.append("relayed payload altered")
                if kv.get("event") in ("ringing", "accept"):
                    orig_sid = [x["sid"] for x in (pre_call or {}).get("parties", []) if x["orig"]]
                    if s not in orig_sid:
                        fails.append(f"{kv.get('event')} relayed to {s} which is not the caller's session")
            if infos and pre_call is not None and int(w[4]) != pre_call["seq"]:
                fails.append(f"an event naming call {w[4]} was relayed while call {pre_call['seq']} is active")
            if infos and pre_call is None:
                fails.append("a call event was relayed while no call is active")
        for f in fails[:2]:
            res.append((ops[start:i + 1], "C15 " + f))
        st["call"], st["msgs"] = p["call"], p["msgs"]
        if w[0] == "detach" and any(s == sid and f.startswith("ctrl 200") for s, f in p["frames"]):
            st["att"].pop(sid, None)
    seen, uniq = set(), []
    for case, why in res:
        k = re.sub(r"\d+", "#", why)
        if k not in seen:
            seen.add(k)
            uniq.append((case, why))
    return uniq


def classify(op, out):
    w = op.split(" ")
    if w[0] in ("reset", "sess", "attach", "ice"):
        return "trivial"
    p = parse(out)
    if p is None:
        return out[:12]
    tag = w[3] if w[0] == "ev" else ""
    eff = "silent" if not p["frames"] else ("relay" if any(f.startswith("info") for s, f in p["frames"]) else p["frames"][0][1][:8])
    return f"{tag}:{eff}"


def calls_stream():
    return dict(name="calls", pkg="main", test="TestVerifCalls", gen=gen_calls, classify=classify, model_mode="calls", verdict_mode=None,
                post=lambda ctx, ops, impl: monitor(ops, impl))
