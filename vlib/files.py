"""Files stream (C16): generator, history monitor, stream definition."""
import re

KINDS = ["png", "html", "xml", "txt", "pdf", "bin"]
KEYS_OK = ["hdr:ok", "query:ok", "form:ok", "cookie:ok"]
KEYS_BAD = ["hdr:bad", "query:bad", "none", "hdr:short", "form:bad", "cookie:bad", "xhdr:ok"]
AUTH_OK = ["hdr:U1", "xhdr:U1", "query:U1", "form:U1", "cookie:U1", "sid:S1", "hdr:U2", "xhdr:U2"]
AUTH_BAD = ["none", "hdr:fail", "xhdr:fail", "query:bad64", "hdr:unknown", "cookie:chal", "sid:S9", "form:fail", "hdr:chal"]
SIZES = [0, 24, 40, 100, 600, 2000, 5000, 9000]


def gen_case(rng, n):
    out = [f"reset max={rng.choice([4096, 4096, 4096, 0])}"]
    nf = 0          # uploads that probably succeeded
    npub = 0
    topic = True
    for _ in range(n):
        k = rng.below(100)
        key = rng.choice(KEYS_OK) if rng.chance(5, 6) else rng.choice(KEYS_BAD)
        auth = rng.choice(AUTH_OK) if rng.chance(5, 6) else rng.choice(AUTH_BAD)
        if k < 34:
            method = "POST" if rng.chance(7, 10) else rng.choice(["PUT", "HEAD", "GET", "DELETE", "OPTIONS", "PATCH"])
            kind = rng.choice(KINDS)
            size = rng.choice(SIZES) if rng.chance(1, 3) else rng.choice([24, 40, 100, 600])
            o = f"up {method} key={key} auth={auth} kind={kind} size={size}"
            if rng.chance(1, 4):
                o += " ctype=" + rng.choice(["image/webp", "weird/x", "text/css", "video/mp4", "application/zip", "image/x-icon", "font/woff2", "audio/ogg", "model/obj"])
            if rng.chance(1, 12):
                o += " field=" + rng.choice(["other", "none"])
            if rng.chance(1, 10):
                o += " topic=newacc"
            if rng.chance(1, 5):
                o += f" id={rng.below(90) + 10}"
            out.append(o)
            if method in ("POST", "PUT") and key in KEYS_OK and auth in AUTH_OK and 0 < size < 4000:
                nf += 1
        elif k < 64:
            method = "GET" if rng.chance(8, 10) else rng.choice(["HEAD", "POST", "OPTIONS", "DELETE"])
            f = f"F{1 + rng.below(max(1, nf + 1))}"
            shape = rng.below(14)
            if shape < 6:
                tgt = f
            else:
                tgt = "raw:" + rng.choice([
                    "/v0/file/s/../s/{%s}", "/v0/file/s/x/../{%s}", "/v0/file/x/{%s}", "/{%s}", "/v0/file/s/{%sid}.exe",
                    "/v0/file/s/{%sid}%%2F..%%2Fetc", "/v0/file/s/", "/v0/file/s/AAAAAAAAAAE", "{%s}", "../{%s}", "/v0/file/s//{%s}",
                    "/v0/file/s/./{%s}", "/v0/file/s/{%s}/..", "/v0/file/s/{%s}/../{%s}", "/v0/file/S/{%s}", "/v0/file/s/../../etc/passwd",
                    "/v0/file/s/{%sid}", "x/{%s}"]) .replace("%s", f).replace("%%", "%")
            o = f"down {method} {tgt} key={key} auth={auth}"
            if rng.chance(1, 6):
                o += " asatt=" + rng.choice(["1", "true", "0"])
            out.append(o)
        elif k < 76:
            atts = sorted({f"F{1 + rng.below(max(1, nf + 1))}" for _ in range(rng.below(3))})
            if rng.chance(1, 3):
                # a URL which is not an upload of this server, anywhere in the list
                atts.insert(rng.below(len(atts) + 1), rng.choice(["raw:http://example.com/pic.png", "raw:/other/path/x", "raw:ftp://h/y"]))
            npub += 1
            out.append(f"pub S1 T1 C{npub}" + (f" att={','.join(atts)}" if atts else ""))
        elif k < 82:
            out.append(f"avatar S1 T1 pb{len(out)} att=F{1 + rng.below(max(1, nf + 1))}")
        elif k < 88:
            if npub > 0:
                lo = 1 + rng.below(npub)
                hi = lo + 1 + rng.below(3)
                out.append(f"delmsg S1 T1 {lo}:{hi}" + (" hard=1" if rng.chance(3, 4) else ""))
        elif k < 89:
            if topic:
                out.append("deltopic S1 T1 hard=1")
                topic = False
        else:
            # `limit` is not used: which of several unlinked uploads go first is unspecified (no ORDER BY in FileDeleteUnused)
            out.append("gc " + ("due" if rng.chance(2, 3) else "fresh"))
    # once in a while the collector itself runs (a choice of its own generator: the rest of the history is as it was)
    r2 = rng.fork("gcloop")
    if r2.chance(1, 6):
        out.insert(2 + r2.below(max(1, len(out) - 1)), "gc loop")
    return out


def gen_files(rng, tier):
    for _ in range(900 if tier == "thorough" else 150):
        for l in gen_case(rng, 10 + rng.below(40)):
            yield l


def parse(out):
    if " | files[" not in out:
        return None
    head, dig = out.split(" | files[", 1)
    body, tail = dig.rsplit("] ondisk=", 1)
    files = {}
    for e in re.findall(r"(F\d+|F\?):st(\d+):([^:]+):(.*?):(\d+):disk(\d):\[([^\]]*)\]", body):
        files[e[0]] = dict(status=int(e[1]), owner=e[2], mime=e[3], size=int(e[4]), disk=e[5] == "1", links=[x for x in e[6].split(",") if x])
    return dict(head=head, files=files, ondisk=int(tail))


ACTIVE = ("text/", "application/", "message/", "model/", "multipart/")


def names_in_url(tgt):
    if not tgt.startswith("raw:"):
        return {tgt} if re.match(r"^F\d+$", tgt) else set()
    return set(re.findall(r"\{(F\d+)(?:id)?\}", tgt))


def monitor(ops, outs):
    res = []
    st = None
    start = 0
    for i, (o, out) in enumerate(zip(ops, outs)):
        w = o.split(" ")
        if w[0] == "reset":
            st = dict(files={})
            start = i
            continue
        if st is None:
            continue
        if out in ("panic", "crash"):
            res.append((ops[start:i + 1], f"C16 the server panicked on `{o}`"))
            st = None
            continue
        p = parse(out)
        if p is None:
            continue
        kv = dict(x.split("=", 1) for x in w[1:] if "=" in x)
        fails = []
        pre = st["files"]
        code = p["head"].split(" ")[0]
        new = set(p["files"]) - set(pre)
        gone = set(pre) - set(p["files"])
        if p["ondisk"] != len(p["files"]):
            fails.append(f"{p['ondisk']} stored objects for {len(p['files'])} file records")
        for f, r in p["files"].items():
            if not r["disk"]:
                fails.append(f"the bytes of {f} are gone while its record exists")
        keyok = kv.get("key", "none").endswith(":ok") and not kv.get("key", "").startswith("xhdr")
        authok = kv.get("auth", "none") in AUTH_OK
        if w[0] == "up":
            accepted = code == "200" and "url=" in p["head"]
            if accepted:
                why = None
                if w[1] not in ("POST", "PUT"):
                    why = f"the method is {w[1]}"
                elif not keyok:
                    why = "the API key is missing or invalid"
                elif not authok and kv.get("topic") != "newacc":
                    why = "the credentials are missing or invalid"
                if why:
                    fails.append(f"an upload was accepted although {why}")
                if len(new) != 1:
                    fails.append(f"an accepted upload created {len(new)} records")
                else:
                    r = p["files"][list(new)[0]]
                    if r["size"] != int(kv.get("size", "0")):
                        fails.append(f"upload of {kv.get('size')} bytes recorded as {r['size']}")
            else:
                if new or gone or p["files"] != pre:
                    fails.append(f"a refused upload ({code}) changed the file store")
                if w[1] not in ("POST", "PUT", "HEAD", "OPTIONS") and code != "405":
                    fails.append(f"upload method {w[1]} answered {code} instead of 405")
            mx = int((ops[start].split("max=") + ["4096"])[1]) if "max=" in ops[start] else 4096
            if mx > 0 and int(kv.get("size", "0")) > mx + 600 and accepted:
                fails.append(f"an upload of {kv.get('size')} bytes was accepted, the limit is {mx}")
        elif w[0] == "down":
            if p["files"] != pre:
                fails.append("a download changed the file store")
            if code == "200" and w[1] == "GET":
                m = re.match(r"200 body=(\S+) ctype=(\S*) disp=(\S+)", p["head"])
                if not keyok or not authok:
                    fails.append("a download was served without a valid API key and valid credentials")
                if m:
                    body, ctype, disp = m.group(1), m.group(2), m.group(3)
                    named = names_in_url(w[2])
                    if body not in pre:
                        fails.append(f"a download returned bytes ({body}) which are not those of a stored upload")
                    elif body not in named:
                        fails.append(f"URL `{w[2]}` was served the bytes of {body}")
                    else:
                        mime = pre[body]["mime"]
                        if ctype != mime.split(";")[0]:
                            fails.append(f"{body} (stored as {mime}) served as {ctype}")
                        active = "html" in mime or "xml" in mime or mime.startswith(ACTIVE)
                        if active and disp != "attachment":
                            fails.append(f"active content {mime} served for display, not forced to be saved")
            if w[1] not in ("GET", "HEAD", "OPTIONS") and code != "405":
                fails.append(f"download method {w[1]} answered {code} instead of 405")
        elif w[0] == "gc":
            for f in gone:
                if pre[f]["links"]:
                    fails.append(f"garbage collection removed {f} which is still linked ({','.join(pre[f]['links'])})")
            if w[1] in ("fresh", "loop") and gone:
                fails.append(f"garbage collection removed {sorted(gone)} before the grace period had passed")
            if w[1] == "due" and "limit" not in kv:
                left = [f for f, r in p["files"].items() if not r["links"]]
                if left:
                    fails.append(f"garbage collection left the unlinked, expired uploads {sorted(left)}")
        else:
            if gone:
                fails.append(f"`{w[0]}` removed the uploads {sorted(gone)}")
            if w[0] == "pub" and code == "202":
                listed = [a for a in (kv.get("att", "").split(",") if kv.get("att") else []) if not a.startswith("raw:")]
                ever = {f"F{k}" for k in range(1, 1 + max([int(x[1:]) for x in list(pre) + list(st.get("ever", set())) if x[1:].isdigit()] + [0]))}
                dead = [a for a in listed if a not in pre and a in ever]
                for a in listed:
                    if a in p["files"] and len(p["files"][a]["links"]) <= len(pre.get(a, {}).get("links", [])):
                        if dead:
                            fails.append(f"[dead-attachment] {a} was listed with a published message together with {dead[0]}, which no longer "
                                         f"exists: the whole link transaction failed on the foreign key and {a} is not linked either")
                        else:
                            fails.append(f"{a} was listed with a published message but is not linked to it")
            if w[0] == "avatar" and code == "200":
                a = kv.get("att", "")
                if a in p["files"] and not any(l.startswith("topic:") for l in p["files"][a]["links"]):
                    fails.append(f"{a} was listed as the topic's avatar but is not linked to the topic")
        for f in fails[:2]:
            res.append((ops[start:i + 1], "C16 " + f))
        st["files"] = p["files"]
        st.setdefault("ever", set()).update(p["files"])
    seen, uniq = set(), []
    for case, why in res:
        k = re.sub(r"\d+", "#", why)
        if k not in seen:
            seen.add(k)
            uniq.append((case, why))
    return uniq


def classify(op, out):
    w = op.split(" ")
    if w[0] == "reset":
        return "trivial"
    return out.split(" ")[0]


def files_stream():
    return dict(name="files", pkg="main", test="TestVerifFiles", gen=gen_files, classify=classify, model_mode="files", verdict_mode=None,
                post=lambda ctx, ops, impl: monitor(ops, impl))
