"""History monitors for the world stream (group and peer-to-peer topics). They read the op lines and the implementation's output lines
only (never the model's), so they decide whether a *changed* implementation still satisfies a property on a concrete history.
Every monitor returns a list of (index_of_failing_line, why) with `why` naming the specific rule that failed."""
import re

LETTERS = "JRWPASDO"


def has(mode, c):
    return mode not in ("N", "_", "-") and c in mode


def eff(w, g):
    if w in ("N", "_", "-") or g in ("N", "_", "-"):
        return ""
    return "".join(c for c in LETTERS if c in w and c in g)


def _kv(words):
    d = {}
    for w in words:
        if "=" in w:
            k, v = w.split("=", 1)
            d[k] = v
    return d


def _bracket(s, name):
    """content of `name[...]` in a digest line (no nested brackets other than tags=[])"""
    i = s.find(" " + name + "[")
    if i < 0:
        return ""
    j = s.index("]", i)
    return s[i + len(name) + 2:j]


def parse_cache(p):
    ws = p.split(" ")
    head = p.split(" users[")[0]
    d = _kv(head.split(" "))
    users = {}
    for e in _bracket(p, "users").split():
        f = e.split(":")
        wg = f[1].split("/")
        users[f[0]] = dict(want=wg[0], given=wg[1], r=int(f[2][1:]), v=int(f[3][1:]), d=int(f[4][1:]), o=int(f[5][1:]),
                           priv=f[6][2:] if len(f) > 6 else "-", deleted=":deleted" in e[e.find(":p="):], chan=e.endswith(":chan"))
    sess = {}
    chansess = set()
    for e in _bracket(p, "sess").split():
        x = e.split(":")
        sess[x[0]] = x[1]
        if len(x) > 2 and x[2] == "chan":
            chansess.add(x[0])
    acs = d.get("acs", "_/_").split("/")
    return dict(name=ws[1], last=int(d["last"]), delid=int(d["del"]), owner=d["owner"], auth=acs[0], anon=acs[1], pub=d.get("pub"),
                tr=d.get("tr"), tags=d.get("tags"), inactive=" inactive" in head, readonly=" readonly" in head, users=users, sess=sess,
                chansess=chansess)


def parse_me(p):
    """a user's `me` topic: who is attached, the contact table (name -> (last known online, notifications enabled)) and whether the
    user has been announced online"""
    c = parse_cache(p.split(" contacts[")[0])
    contacts = {}
    for e in _bracket(p, "contacts").split():
        f = e.rsplit(":", 2)
        contacts[f[0]] = (f[1] == "1", f[2] == "1")
    c["contacts"] = contacts
    c["announced"] = p.endswith(" announced") or " announced " in p
    return c


def parse_store(p):
    ws = p.split(" ")
    head = p.split(" subs[")[0]
    d = _kv(head.split(" "))
    def rows(name):
        out = {}
        for e in _bracket(p, name).split():
            f = e.split(":")
            wg = f[1].split("/")
            out[f[0]] = dict(want=wg[0], given=wg[1], r=int(f[2][1:]), v=int(f[3][1:]), d=int(f[4][1:]),
                             priv=f[5][2:] if len(f) > 5 else "-", deleted=e.endswith(":deleted"))
        return out
    subs = rows("subs")
    csubs = rows("csubs")         # subscriptions of channel readers (a channel-enabled topic only)
    msgs = []
    for e in _bracket(p, "msgs").split():
        f = e.split(":")
        x = 0
        if len(f) > 4 and f[-1].startswith("x") and f[-1][1:].isdigit():
            x = int(f[-1][1:])
            f = f[:-1]
        msgs.append(dict(seq=int(f[0]), sender=f[1], head=f[2], content=":".join(f[3:]), x=x))
    dl = []
    for e in _bracket(p, "dellog").split():
        f = e.split(":")
        dl.append(dict(id=int(f[0]), user=f[1], lo=int(f[2]), hi=int(f[3])))
    acs = d.get("acs", "_/_").split("/")
    return dict(name=ws[1], seq=int(d["seq"]), delid=int(d["del"]), owner=d["owner"], auth=acs[0], anon=acs[1], pub=d.get("pub"),
                tr=d.get("tr"), tags=d.get("tags"), state=int(d.get("state", "0")), subs=subs, msgs=msgs, dellog=dl,
                chan=" csubs[" in p, csubs=csubs)


class Line:
    __slots__ = ("raw", "frames", "pushes", "calls", "cache", "store", "sess", "plain", "me", "meframes", "mesess", "fnd", "fndsess",
                 "inflight", "held")

    def __init__(self, raw):
        self.raw = raw
        self.frames, self.pushes, self.calls, self.cache, self.store, self.sess = [], [], [], {}, {}, {}
        # the users' `me` topics are kept apart: caches under the user's name, frames which name the topic `me`, attachments
        self.me, self.meframes, self.mesess = {}, [], {}
        self.fnd, self.fndsess = {}, {}       # … and their search topics (`fnd:` + the user's name)
        self.inflight = set()                 # sessions with a {sub} or {leave} in flight (crossings)
        self.held = None                      # what is queued and not processed yet (crossings)
        self.plain = None
        if " | " not in raw and not raw.startswith("calls="):
            self.plain = raw
            return
        for p in raw.split(" | "):
            p = p.strip()
            if p.startswith("calls="):
                self.calls = [c for c in p[6:].split(",") if c]
            elif p.startswith("cache ") and re.match(r"^cache U\d+ ", p):
                c = parse_me(p)
                self.me[c["name"]] = c
            elif p.startswith("cache fnd:"):
                c = parse_cache(p)
                self.fnd[c["name"]] = c
            elif p.startswith("cache "):
                c = parse_cache(p)
                self.cache[c["name"]] = c
            elif p.startswith("store "):
                s = parse_store(p)
                self.store[s["name"]] = s
            elif p.startswith("push "):
                self.pushes.append(_kv(p.split(" ")[1:]))
            elif p.startswith("held "):
                self.held = p[5:]
            elif re.match(r"^S\d+\{", p):
                sid, rest = p.split("{", 1)
                if rest.endswith("*"):
                    self.inflight.add(sid)
                    rest = rest[:-1]
                names = [x for x in rest.rstrip("}").split(",") if x]
                self.sess[sid] = set(x for x in names if not re.fullmatch(r"U\d+", x) and not x.startswith("fnd:"))
                self.mesess[sid] = set(x for x in names if re.fullmatch(r"U\d+", x))
                self.fndsess[sid] = set(x for x in names if x.startswith("fnd:"))
            elif "<-" in p:
                sid, f = p.split("<-", 1)
                fw = f.split(" ")
                if len(fw) > 2 and (fw[2] if fw[0] == "ctrl" else fw[1]) == "me":
                    self.meframes.append((sid, f))
                else:
                    self.frames.append((sid, f))


class Case:
    """one independent history: from a `reset` line to the line before the next `reset`"""

    P2P_OPS = ("sub", "leave", "pub", "note", "get", "setsub", "setdesc", "delmsg", "delsub", "deltopic")

    def __init__(self, ops, outs, base):
        self.orig_ops, self.base = ops, base
        self.lines = [Line(o) for o in outs]
        self.users, self.sess = {}, {}
        self._out = None
        self.maxsubs = 32
        for o in ops:
            w = o.split(" ")
            if w[0] == "reset" and len(w) > 1:
                self.maxsubs = int(w[1])
            if w[0] == "user":
                kvu = _kv(w[4:])
                self.users[w[1]] = dict(auth=w[2], anon=w[3], tags=[x for x in kvu.get("tags", "").split(",") if x],
                                        susp=kvu.get("state") == "susp", missing=kvu.get("state") == "missing")
            elif w[0] == "sess":
                self.sess[w[1]] = dict(user=w[2], lvl=w[3], bg="bg" in w[4:])
        # Peer-to-peer topics: a participant addresses the topic by the other participant's name, the digests show it under the
        # key P:<a>:<b>. The monitors work on keys: a request to `U2` by U1 is read as a request to P:U1:U2, and a frame naming
        # `U2` which goes to a session of U1 is read as a frame about P:U1:U2. A frame that names the topic by anything else
        # (the recipient's own name, no name) is left as it is, so that the naming rules of the monitors see it.
        # Crossings: a request which was held (`hold …`) is judged on the line where the hub or its topic takes it off the queue
        # (`hubstep`, `tstep T reg|unreg|pub`): that line gets the text of the request. What a line of a crossing is, is kept in
        # `cross` (hold, hub, handled, step, exit, settle, xdrop); `held_reqs` lists every request which was queued, with the lines
        # where it was queued and handled.
        self.cross = {}
        self.held_reqs = []        # dicts: kind, sid, topic, at (index of the hold line), done (index of the line which handled it, or None)
        ops = list(ops)
        hubq, queues = [], {}
        for i, o in enumerate(ops):
            w = o.split(" ")
            ln = self.lines[i] if i < len(self.lines) else None
            if ln is None:
                continue
            answered = lambda sid, t: any(s_ == sid and f.startswith("ctrl ") and f.split(" ")[2:3] == [t] for s_, f in ln.frames + ln.meframes)
            if w[0] == "hold":
                self.cross[i] = "hold"
                if ln.plain is None and len(w) > 3 and w[1] in ("sub", "leave", "pub") and not answered(w[2], w[3]):
                    r = dict(kind=w[1], sid=w[2], topic=w[3], text=" ".join(w[1:]), at=i, done=None)
                    self.held_reqs.append(r)
                    (hubq if w[1] == "sub" else queues.setdefault(w[3], {}).setdefault(w[1], [])).append(r)
            elif w[0] == "hubstep":
                self.cross[i] = "hub"
                for r in hubq:
                    if ln.plain is None and answered(r["sid"], r["topic"]):
                        r["done"] = i          # the hub has answered it (the topic is inactive, or could not be loaded)
                    else:
                        queues.setdefault(r["topic"], {}).setdefault("sub", []).append(r)
                hubq = []
                if len(w) > 1 and w[1] == "yield" and ln.plain is None:
                    # the topic which is being deleted took its queued publishes while the hub waited for the database
                    for t, q in queues.items():
                        for r in list(q.get("pub", [])):
                            if answered(r["sid"], r["topic"]):
                                r["done"] = i
                                q["pub"].remove(r)
            elif w[0] == "tstep" and len(w) > 2:
                self.cross[i] = "exit" if w[2] == "exit" else "step"
                kind = {"reg": "sub", "unreg": "leave", "pub": "pub"}.get(w[2])
                if ln.plain is None and kind and queues.get(w[1], {}).get(kind):
                    r = queues[w[1]][kind].pop(0)
                    r["done"] = i
                    ops[i] = r["text"]
                    self.cross[i] = "handled"
                elif ln.plain is None and w[2] == "exit":
                    # a topic which terminates answers what is still queued for it
                    for k in ("sub", "leave", "pub"):
                        for r in queues.get(w[1], {}).get(k, []):
                            if answered(r["sid"], r["topic"]):
                                r["done"] = i
                    queues.pop(w[1], None)
            elif w[0] == "settle":
                self.cross[i] = "settle"
                for r in hubq + [r for q in queues.values() for l in q.values() for r in l]:
                    if ln.plain is None and answered(r["sid"], r["topic"]):
                        r["done"] = i
                hubq, queues = [], {}
            elif w[0] == "drop" and len(w) > 1 and w[1] in next((l.inflight for l in reversed(self.lines[:i]) if l.plain is None), set()):
                # the connection drops with a request in flight: Session.cleanUp waits for it - everything settles - and nothing reaches
                # the session any more
                self.cross[i] = "xdrop"
                ops[i] = "xdrop " + w[1]
                for r in hubq + [r for q in queues.values() for l in q.values() for r in l]:
                    r["done"] = i
                hubq, queues = [], {}
            elif w[0] in ("reset", "restart"):
                hubq, queues = [], {}
        self.ops = []
        self.via_chn = set()       # indices of requests made under the `chn` spelling
        self.p2p_arg = {}          # index -> the name the client used
        for i, o in enumerate(ops):
            w = o.split(" ")
            # requests to the own `me` topic and the idle timer of one are kept apart from those to group and p2p topics
            if w[0] in self.P2P_OPS and len(w) > 2 and w[2] == "me":
                w[0] = "me" + w[0]
            if w[0] in self.P2P_OPS and len(w) > 2 and w[2] == "fnd":
                w[0] = "fnd" + w[0]             # … and those to the own search topic
            if w[0] == "unload" and len(w) > 1 and re.fullmatch(r"U\d+", w[1]):
                w[0] = "meunload"
            if w[0] in self.P2P_OPS and len(w) > 2 and w[2].startswith("chn:"):
                # the channel spelling of a group name: the monitors work on the group name; how the request and each frame spelled
                # it is kept aside (`via_chn`, the `@chn` mark at the end of a frame)
                self.via_chn.add(i)
                w[2] = w[2][4:]
            if w[0] in self.P2P_OPS and len(w) > 2 and re.fullmatch(r"U\d+", w[2]):
                act = self.actor(w)
                own = act[0] if act else self.sess.get(w[1], {}).get("user", "")
                self.p2p_arg[i] = w[2]
                if own and own != w[2]:
                    w[2] = "P:" + ":".join(sorted([own, w[2]]))
            self.ops.append(" ".join(w))
            ln = self.lines[i] if i < len(self.lines) else None
            if ln is None or ln.plain is not None:
                continue
            nf = []
            for sid, f in ln.frames:
                own = self.sess.get(sid, {}).get("user", "")
                if sid == (w[1] if len(w) > 1 else None) and "as=" in o:
                    a = self.actor(o.split(" "))
                    own = a[0] if a else own
                fw = f.split(" ")
                idx = 2 if fw[0] == "ctrl" else 1
                if len(fw) > idx and re.fullmatch(r"U\d+", fw[idx]) and own and fw[idx] != own:
                    fw[idx] = "P:" + ":".join(sorted([own, fw[idx]]))
                if len(fw) > idx and fw[idx].startswith("chn:"):
                    fw[idx] = fw[idx][4:]
                    fw.append("@chn")
                nf.append((sid, " ".join(fw)))
            ln.frames = nf

    def deletions(self):
        """index of the request -> (account, hard) for every {del what=user} which was acknowledged (200)"""
        if getattr(self, "_dels", None) is None:
            self._dels = {}
            for i, (o, ln) in enumerate(zip(self.ops, self.lines)):
                w = o.split(" ")
                if w[0] != "deluser" or ln.plain is not None or w[1] not in self.sess:
                    continue
                if not any(sid == w[1] and f == "ctrl 200 -" for sid, f in ln.frames):
                    continue
                kv = _kv(w[2:])
                self._dels[i] = (kv.get("user") or self.sess[w[1]]["user"], kv.get("hard") == "1")
        return self._dels

    def obo_me_sids(self, i):
        """root sessions which have addressed somebody else's `me` or `fnd` (`as=`) up to request i: what such a session receives on `me` may
        belong to the user it acts for - the rules which read a `me` frame as meant for the session's own user leave those sessions out"""
        if not hasattr(self, "_obo"):
            self._obo = []
            cur = set()
            for o in self.ops:
                w = o.split(" ")
                if w[0] == "reset":
                    cur = set()
                if len(w) > 2 and w[2] in ("me", "fnd") and any(x.startswith("as=") for x in w[3:]):
                    cur = cur | {w[1]}
                self._obo.append(cur)
        return self._obo[i] if i < len(self._obo) else set()

    def stalled_at(self, i):
        """sessions whose connection has stalled (`stall S`) and has not been closed yet (`drop S`) when request i is made: nothing can be
        handed to them"""
        if not hasattr(self, "_stalled"):
            self._stalled = []
            cur = set()
            for o in self.ops:
                w = o.split(" ")
                if w[0] == "reset":
                    cur = set()
                self._stalled.append(cur)
                if w[0] == "stall" and len(w) > 1:
                    cur = cur | {w[1]}
                elif w[0] == "drop" and len(w) > 1:
                    cur = cur - {w[1]}
        return self._stalled[i] if i < len(self._stalled) else set()

    def deleted_before(self, i):
        """the accounts deleted by requests before request i (account -> index of the request)"""
        return {u: k for k, (u, _) in sorted(self.deletions().items()) if k < i}

    def logged_out(self, i):
        """the sessions which the server has logged out before request i: a {sub} to `me` whose first store call - reading the
        account - failed or found nothing logs the session out (initTopicMe); a restart stands for new connections"""
        if self._out is None:
            cur, self._out = set(), []
            gone = set()        # sessions of deleted accounts: a new connection cannot log in either
            dels = self.deletions()
            for k, (o, ln) in enumerate(zip(self.ops, self.lines)):
                self._out.append(frozenset(cur | gone))
                w = o.split(" ")
                if k in dels:
                    gone |= {sid for sid, x in self.sess.items() if x["user"] == dels[k][0]}
                if w[0] == "restart":
                    cur = set()
                elif w[0] == "mesub" and ln.plain is None and ln.calls == ["UserGet"] and \
                        any(sid == w[1] and f.startswith(("ctrl 500 ", "ctrl 404 ")) for sid, f in ln.meframes):
                    cur.add(w[1])
        return self._out[i] if i < len(self._out) else frozenset()

    def actor(self, w):
        """(uid acting, session's own uid, level) of a request op line split into words, or None when the as= is refused"""
        s = self.sess.get(w[1])
        if s is None:
            return None
        kv = _kv(w[2:])
        uid, lvl = s["user"], s["lvl"]
        if "as" in kv:
            if s["lvl"] != "root":
                return None
            a = kv["as"].split(":")
            uid = a[0]
            lvl = a[1] if len(a) > 1 and a[1] else "auth"   # harness default for an on-behalf-of request
        return uid, s["user"], lvl


def split_cases(ops, outs):
    cases, a = [], None
    for i, o in enumerate(ops):
        if o.startswith("reset"):
            if a is not None:
                cases.append(Case(ops[a:i], outs[a:i], a))
            a = i
    if a is not None:
        cases.append(Case(ops[a:], outs[a:], a))
    return cases


def prev_state(case, i):
    """the last line before i that carries a state digest"""
    j = i - 1
    while j >= 0:
        if case.lines[j].plain is None:
            return case.lines[j]
        j -= 1
    return None


def frame_kv(f):
    return _kv(f.split(" "))


# ------------------------------------------------------------------------------------------------ C01

def mon_C01(case):
    out = []
    maxshown = {}          # topic -> largest number ever shown to a client
    lastack = {}           # topic -> last acknowledged number while the topic stayed loaded (None after an unload/restart)
    clean = {}             # topic -> False once a failed save or a crash may have left the stored counter ahead
    acked = {}             # topic -> {seq: content}
    failed = {}            # topic -> a publish failed at MessageSave since the last acknowledged one (stored counter ahead)
    for i, (o, ln) in enumerate(zip(case.ops, case.lines)):
        w = o.split(" ")
        if w[0] == "restart":
            lastack = {t: None for t in lastack}
            continue
        if ln.plain is not None:
            continue
        for t in list(lastack):
            if t not in ln.cache:
                lastack[t] = None          # unloaded or deleted: the next load starts from the stored counter
        for t in [t for t in set(maxshown) | set(acked) if t.startswith("P:") and t not in ln.store]:
            # a peer-to-peer topic which was deleted for good: the same two users may start a new one under the same name
            for d in (maxshown, lastack, clean, acked, failed):
                d.pop(t, None)
        crash_armed = i > 0 and case.ops[i - 1].startswith("crash")
        if crash_armed and ln.calls and len(w) > 2:
            clean[w[2]] = False
        pubt = w[2] if (w[0] == "pub" and len(w) > 3) else None
        ack = None
        if pubt:
            acks = [f for sid, f in ln.frames if sid == w[1] and f.startswith("ctrl 202 ")]
            if acks and "seq" in frame_kv(acks[0]):       # (`sys` while it is not loaded: acknowledged by the hub without a number)
                ack = int(frame_kv(acks[0])["seq"])
        # numbers shown in this line
        for sid, f in ln.frames:
            fw = f.split(" ")
            if fw[0] == "data":
                k = frame_kv(f)
                t, q = fw[1], int(k["seq"])
                if t == pubt and ack is not None:
                    if q != ack:
                        out.append((i, f"C01 {t}: a recipient got number {q} for the message acknowledged as {ack}"))
                    continue
                if q not in acked.get(t, {}):
                    out.append((i, f"C01 a query shows number {q} of {t} which was never acknowledged to a publisher"))
                elif acked[t][q] != k.get("content"):
                    out.append((i, f"C01 number {q} of {t} shown with content {k.get('content')} but acknowledged for {acked[t][q]}"))
                maxshown[t] = max(maxshown.get(t, 0), q)
            elif fw[0] == "meta" and "desc[" in f:
                k = _kv(f.split("desc[")[1].rstrip("]").split(" "))
                t, q = fw[1], int(k.get("seq", "0"))
                if q > max(list(acked.get(t, {})) + [0]):
                    if failed.get(t) and q == max(list(acked.get(t, {})) + [0]) + 1:
                        out.append((i, f"C01 [failed-save] description of {t} shows number {q} which was consumed by a publish whose save failed"))
                    elif clean.get(t, True):
                        out.append((i, f"C01 description of {t} shows number {q}, more than was ever acknowledged"))
                reader = "R" in (k.get("acs", "").split("/") + ["", "", ""])[2]
                pre_ = prev_state(case, i)
                attached = pre_ is not None and t in pre_.sess.get(sid, set())     # a session which is not attached is told no numbers
                if reader and attached and q < maxshown.get(t, 0) and t in ln.store:
                    out.append((i, f"C01 description of {t} shows number {q} after number {maxshown[t]} had been shown"))
                maxshown[t] = max(maxshown.get(t, 0), q)
        if pubt:
            t = pubt
            if ack is not None:
                prev = lastack.get(t)
                top = max(list(acked.get(t, {})) + [maxshown.get(t, 0)])
                if prev is not None and ack != prev + 1:
                    out.append((i, f"C01 {t}: acknowledged {ack} right after {prev} while the topic stayed loaded (duplicate or gap)"))
                elif ack <= top:
                    out.append((i, f"C01 {t}: number {ack} issued although {top} had already been shown"))
                elif prev is None and ack != top + 1 and clean.get(t, True):
                    out.append((i, f"C01 {t}: number {top + 1} skipped, {ack} issued after a reload with no failed save or crash before it"))
                elif prev is None and failed.get(t) and ack == max(list(acked.get(t, {})) + [0]) + 2:
                    out.append((i, f"C01 [failed-save] {t}: number {ack - 1} was consumed by a publish whose save failed, {ack} issued after the reload"))
                acked.setdefault(t, {})[ack] = w[3]
                lastack[t] = ack
                clean[t] = True
                failed[t] = False
                maxshown[t] = max(maxshown.get(t, 0), ack)
            elif any(c in ("TopicUpdateOnMessage", "MessageSave") for c in ln.calls):
                clean[t] = False           # a publish that reached the store and failed
                if ln.calls == ["TopicUpdateOnMessage", "MessageSave"] and not crash_armed:
                    failed[t] = True
    return out


# ------------------------------------------------------------------------------------------------ C02 / C03

def pub_expect(case, i):
    """(pre-state line, topic, actor) of a publish op, or None"""
    w = case.ops[i].split(" ")
    pre = prev_state(case, i)
    act = case.actor(w)
    return w, pre, act


def norm_head(w, act):
    kv = _kv(w[4:])
    hs = []
    if kv.get("head"):
        for p in kv["head"].split(";"):
            x = p.split(":", 1)
            if x[0] == "sender":
                continue
            hs.append((x[0], x[1] if len(x) > 1 else "1"))
    if act and act[0] != act[1]:
        hs.append(("sender", act[1]))
    hs.sort()
    return ";".join(f"{k}={v}" for k, v in hs) if hs else "-"


def mon_C02(case):
    out = []
    lastseq = {}       # (sid, topic) -> last data seq delivered live
    for i, (o, ln) in enumerate(zip(case.ops, case.lines)):
        w = o.split(" ")
        if w[0] in ("restart",):
            lastseq = {}
        if ln.plain is None:
            # a peer-to-peer topic which was deleted for good: the same two users may start a new one under the same name, numbered from 1
            for key in [k for k in lastseq if k[1].startswith("P:") and k[1] not in ln.store]:
                del lastseq[key]
        if w[0] != "pub" or ln.plain is not None or len(w) < 4:
            # no data frame may appear outside a publish or a history query
            if ln.plain is None and w[0] not in ("get", "sub"):
                for sid, f in ln.frames:
                    if f.startswith("data "):
                        out.append((i, f"C02 a data message reached {sid} although the request was `{w[0]}`"))
            continue
        w, pre, act = pub_expect(case, i)
        t = w[2]
        acks = [f for sid, f in ln.frames if sid == w[1] and f.startswith("ctrl 202 ")]
        datas = [(sid, f) for sid, f in ln.frames if f.startswith("data ")]
        if not acks:
            continue
        if t == "sys" and "seq" not in frame_kv(acks[0]):
            continue            # the system topic is not loaded: the hub acknowledges and drops the message (nobody is to learn which names exist)
        q = int(frame_kv(acks[0])["seq"])
        c = pre.cache.get(t) if pre else None
        if pre is None and t == "sys":
            continue            # the first request of the history: `sys` is loaded from the start
        if c is None or act is None:
            out.append((i, f"C02 publish to {t} acknowledged although the topic was not loaded before the request"))
            continue
        noecho = _kv(w[4:]).get("noecho") == "1"
        ischan = bool(pre.store.get(t, {}).get("chan"))
        expect = []
        for sid, uid in c["sess"].items():
            u = c["users"].get(uid)
            if sid not in c["chansess"]:           # a session attached as a channel reader gets the message whatever the modes
                if u is None or u["deleted"]:
                    continue
                if not has(eff(u["want"], u["given"]), "R"):
                    continue
            if noecho and sid == w[1]:
                continue
            if sid in case.stalled_at(i):
                continue            # a connection which has stopped reading: the topic cannot hand it anything (and lets go of it)
            expect.append(sid)
        got = [sid for sid, f in datas]
        for sid in set(got):
            if got.count(sid) > 1:
                out.append((i, f"C02 session {sid} received {got.count(sid)} copies of message {q} of {t}"))
        for sid in sorted(set(expect) - set(got)):
            out.append((i, f"C02 attached reader session {sid} did not receive message {q} of {t}"))
        for sid in sorted(set(got) - set(expect)):
            why = "the publisher asked for no echo" if (noecho and sid == w[1]) else "it is not an attached session of a user with read permission"
            out.append((i, f"C02 session {sid} received message {q} of {t} although {why}"))
        hd = norm_head(w, act)
        for sid, f in datas:
            k = frame_kv(f)
            fw = f.split(" ")
            if fw[1] != t:
                out.append((i, f"C02 copy for {sid} names topic {fw[1]} instead of {t}"))
            ru = c["users"].get(c["sess"].get(sid, ""), {})
            if (bool(ru.get("chan")) or sid in c["chansess"]) != (fw[-1] == "@chn"):
                out.append((i, f"C02 [chan-name] copy for {sid} of {'a channel reader' if (ru.get('chan') or sid in c['chansess']) else 'a subscriber'} spells the topic "
                               f"{'chn:' + t if fw[-1] == '@chn' else t}"))
            if k.get("content") != w[3]:
                out.append((i, f"C02 copy for {sid} carries content {k.get('content')} instead of {w[3]}"))
            author = "-" if sid in c["chansess"] else act[0]          # withheld from channel readers
            if k.get("from") != author:
                out.append((i, f"C02 copy for {sid} names author {k.get('from')} instead of {author}"))
            if int(k.get("seq", "0")) != q:
                out.append((i, f"C02 copy for {sid} carries number {k.get('seq')} instead of the acknowledged {q}"))
            if k.get("head") != hd:
                out.append((i, f"C02 copy for {sid} carries headers {k.get('head')} instead of {hd}"))
            if lastseq.get((sid, t), 0) >= q:
                out.append((i, f"C02 session {sid} received message {q} of {t} after message {lastseq[(sid, t)]}"))
            lastseq[(sid, t)] = q
        # push
        want_push = sorted(u for u, p in c["users"].items() if not p["deleted"] and has(eff(p["want"], p["given"]), "R")
                           and has(eff(p["want"], p["given"]), "P") and u != "-" and not p.get("chan"))
        # (a subscriber the store holds - an invitation which was acknowledged - but whom the topic still counts as gone is a subscriber)
        srow = pre.store.get(t, {}).get("subs", {}) if pre else {}
        for u, p in c["users"].items():
            sr = srow.get(u)
            if p["deleted"] and sr is not None and not sr["deleted"] and u not in want_push and not p.get("chan") \
                    and has(eff(sr["want"], sr["given"]), "R") and has(eff(sr["want"], sr["given"]), "P"):
                want_push = sorted(want_push + [u])
        pushes = [p for p in ln.pushes if p.get("what") == "msg"]
        if len(pushes) > 1:
            out.append((i, f"C02 {len(pushes)} push notifications for one message"))
        gotp = sorted(x for x in pushes[0].get("to", "{}").strip("{}").split(",") if x) if pushes else []
        if gotp != want_push:
            out.append((i, f"C02 push for message {q} of {t} addressed to {gotp} instead of the readers with presence {want_push}"))
        for p in pushes:
            if p.get("topic") != t or p.get("seq") != str(q) or p.get("chan", "-") != (t if ischan else "-"):
                out.append((i, f"C02 push for message {q} of {t} carries topic={p.get('topic')} seq={p.get('seq')} chan={p.get('chan')}"))
    return out


def digest(ln):
    return [p for p in ln.raw.split(" | ") if p.startswith(("cache ", "store ", "S"))and "<-" not in p]


def state_of(ln):
    # (a session which is attached to nothing adds nothing: one which was only just created mid-history must not look like a change)
    return " | ".join(p for p in ln.raw.split(" | ") if (p.startswith("cache ") or p.startswith("store ") or (re.match(r"^S\d+\{", p) and not re.match(r"^S\d+\{\}$", p))))


def mon_C03(case):
    out = []
    for i, (o, ln) in enumerate(zip(case.ops, case.lines)):
        w = o.split(" ")
        if w[0] == "mepub" and ln.plain is None:
            # the own `me` topic takes no messages: refused with an error, nothing stored, nobody told
            pre = prev_state(case, i)
            mine = [f for sid, f in ln.meframes if sid == w[1]] + [f for sid, f in ln.frames if sid == w[1] and f == "ctrl 403 -"]
            if any(f.startswith("ctrl 2") for f in mine):
                out.append((i, f"C03 publish to `me` from {w[1]} accepted ({mine[0]}) although a self topic takes no messages"))
            elif not mine or not mine[0].startswith("ctrl ") or int(mine[0].split(" ")[1]) < 400:
                out.append((i, f"C03 rejected publish to `me` answered with `{mine[0] if mine else 'silence'}` instead of an error"))
            others = [(sid, f) for sid, f in ln.frames + ln.meframes if sid != w[1]]
            if others or ln.pushes:
                out.append((i, f"C03 publish to `me` produced traffic for other sessions: {others[:1]} {ln.pushes[:1]}"))
            if ln.calls:
                out.append((i, f"C03 publish to `me` reached the store: {','.join(ln.calls)}"))
            if pre is not None and state_of(ln) != state_of(pre):
                out.append((i, "C03 publish to `me` changed the topic or store state"))
            continue
        if case.cross.get(i) == "hub" and ln.plain is None:
            # the hub shuts topics down in this step: whatever is published to one of them meanwhile is refused
            pre = prev_state(case, i)
            for sid, f in ln.frames:
                fw = f.split(" ")
                if f.startswith("ctrl 202 ") and pre is not None and fw[2] in pre.store and (fw[2] not in ln.store or ln.store[fw[2]]["state"] == 20):
                    out.append((i, f"C03 publish to {fw[2]} by {case.sess.get(sid, {}).get('user')} accepted while the topic is being deleted"))
        if w[0] != "pub" or ln.plain is not None or len(w) < 4:
            continue
        w, pre, act = pub_expect(case, i)
        if pre is None:
            continue
        t = w[2]
        acks = [f for sid, f in ln.frames if sid == w[1] and f.startswith("ctrl 202 ")]
        c = pre.cache.get(t)
        attached = t in pre.sess.get(w[1], set())
        # a publish which was held in the topic's queue was sent by a session which was attached then (Session.publish checked): the
        # topic judges the author and its own state when it takes the message off the queue
        crossed = case.cross.get(i) == "handled"
        attached = attached or crossed
        ok = False
        why = "the session is not attached"
        if act is None:
            why = "the session may not act for another user"
        elif t == "sys":
            # the system topic accepts any logged-in author without attachment (and without a subscription)
            if c is None:
                ok = bool(acks) and not any("seq=" in f for f in acks)      # not loaded: acknowledged by the hub, nothing happens
                why = "the system topic is not loaded"
                if ok and not ln.calls and state_of(ln) == state_of(pre):
                    continue
            elif c["inactive"]:
                why = "the topic is suspended or being deleted"
            else:
                ok = True
        elif attached and c is not None:
            u = c["users"].get(act[0])
            if c["inactive"]:
                why = "the topic is suspended or being deleted"
            elif c["readonly"]:
                why = "the topic is read-only"
            elif u is None or u["deleted"]:
                why = "the author is not subscribed"
            elif not has(u["want"], "W") or not has(u["given"], "W"):
                why = f"the author's modes are {u['want']}/{u['given']}"
            elif c["sess"].get(w[1]) is None and not crossed:
                why = "the session is not attached"
            else:
                ok = True
        faulted = i > 0 and case.ops[i - 1].split(" ")[0] in ("fail", "crash") or (i > 1 and case.ops[i - 2].startswith("fail"))
        if acks and not ok:
            out.append((i, f"C03 publish to {t} by {act[0] if act else '?'} accepted although {why}"))
        if acks and pre.store.get(t, {}).get("state") == 10 and t != "sys":      # (initTopicSys does not read the state: the record of `sys` is marked along with the p2p topics of a suspended subscriber)
            out.append((i, f"C03 [susp-reload] publish to {t} accepted although the topic is suspended (the account of its owner or of a participant is)"))
        if ok and w[1] in case.logged_out(i):
            # the session has been logged out by the server: 401 is the answer to whatever it sends
            errs = [f for sid, f in ln.frames if sid == w[1] and f.startswith("ctrl ")]
            want = "ctrl 403 -" if " as=" in o else "ctrl 401 "         # (`as=` of a session which is not root any more: refused as such)
            if acks or not errs or not errs[0].startswith(want):
                out.append((i, f"C03 publish to {t} from {w[1]}, which is logged out, answered `{(acks + errs + ['silence'])[0]}` instead of 401"))
            ok = False
        elif ok and not acks and not faulted:
            errs = [f for sid, f in ln.frames if sid == w[1] and f.startswith("ctrl ")]
            out.append((i, f"C03 publish to {t} by an attached writer refused ({errs[0] if errs else 'no reply'}) with no store failure injected"))
        if not acks:
            mine = [f for sid, f in ln.frames if sid == w[1]]
            others = [(sid, f) for sid, f in ln.frames if sid != w[1]]
            if not ok:
                if not mine or not mine[0].startswith("ctrl ") or int(mine[0].split(" ")[1]) < 400:
                    out.append((i, f"C03 rejected publish to {t} answered with `{mine[0] if mine else 'silence'}` instead of an error"))
                if others or ln.pushes:
                    out.append((i, f"C03 rejected publish to {t} produced traffic for other sessions: {others[:1]} {ln.pushes[:1]}"))
                if ln.calls:
                    out.append((i, f"C03 rejected publish to {t} reached the store: {','.join(ln.calls)}"))
                if state_of(ln) != state_of(pre):
                    out.append((i, f"C03 rejected publish to {t} changed the topic or store state"))
    return out


# ------------------------------------------------------------------------------------------------ C06

def owners_of(row):
    return sorted(u for u, s in row["subs"].items() if not s["deleted"] and has(eff(s["want"], s["given"]), "O"))


def mon_C06(case):
    out = []
    for i, (o, ln) in enumerate(zip(case.ops, case.lines)):
        if ln.plain is not None:
            continue
        w = o.split(" ")
        pre = prev_state(case, i)
        act = case.actor(w) if w[0] not in ("restart", "unload") and len(w) > 1 else None
        for t, row in ln.store.items():
            if row["state"] == 20 or t.startswith("P:") or t == "sys":
                continue               # a peer-to-peer topic has two equal participants and no owner; the system topic has none either
            ow = owners_of(row)
            prow = pre.store.get(t) if pre else None
            pow_ = owners_of(prow) if prow and prow["state"] != 20 else None
            if len(ow) != 1 and (pow_ is None or len(pow_) == 1 or pow_ != ow):
                out.append((i, f"C06 {t} has {len(ow)} owners {ow} after `{w[0]}` (before: {pow_})"))
            if pow_ is not None and len(pow_) == 1 and ow != pow_:
                old = pow_[0]
                # the owner changed or disappeared: legitimate only as a transfer accepted by the new owner
                s_old = row["subs"].get(old)
                if w[0] in ("restart",):
                    continue
                accepted = len(ow) == 1 and act is not None and act[0] == ow[0] and has(prow["subs"].get(ow[0], {}).get("given", "N"), "O")
                if not accepted:
                    who = act[0] if act else "?"
                    out.append((i, f"C06 owner of {t} changed from {pow_} to {ow} by `{w[0]}` of {who} without an accepted transfer"))
        # deletion and description changes are the owner's
        if pre is not None and act is not None and len(w) > 2:
            t = w[2]
            prow = pre.store.get(t)
            if prow is not None and prow["state"] != 20 and not t.startswith("P:") and t != "sys":
                pow_ = owners_of(prow)
                row = ln.store.get(t)
                gone = row is None or row["state"] == 20
                if gone and act[0] not in pow_ and w[0] != "restart":
                    out.append((i, f"C06 {t} deleted by `{w[0]}` of {act[0]} who is not its owner {pow_}"))
                if row is not None and not gone and act[0] not in pow_:
                    for fld in ("pub", "tr", "auth", "anon", "tags"):
                        if row[fld] != prow[fld]:
                            out.append((i, f"C06 {fld} of {t} changed by {act[0]} who is not its owner {pow_}"))
    return out


# ------------------------------------------------------------------------------------------------ C07

def mon_C07(case):
    out = []
    for i, (o, ln) in enumerate(zip(case.ops, case.lines)):
        if ln.plain is not None:
            continue
        w = o.split(" ")
        pre = prev_state(case, i)
        # a self topic admits only its own user
        for t, m in ln.me.items():
            for u in m["users"]:
                if u != t:
                    out.append((i, f"C07 [me-second-user] after `{w[0]}` the `me` topic of {t} has {u} as a subscriber"))
        if pre is None or w[0] in ("restart", "unload", "fg"):
            continue
        act = case.actor(w) if len(w) > 1 else None
        # a p2p topic goes (with the subscriptions and the history of both) only at the request of a participant who still is one
        for t, prow in pre.store.items():
            if t.startswith("P:") and t not in ln.store:
                a = prow["subs"].get(act[0]) if act else None
                left = [u for u, r in prow["subs"].items() if not r["deleted"]]
                if (a is None or a["deleted"]) and left:        # (a topic nobody is subscribed to any more is swept away by anybody's request)
                    out.append((i, f"C07 [p2p-delete-by-outsider] `{w[0]}` of {act[0] if act else '?'}, who is not subscribed to {t}, deleted it with the subscription of {left}"))
        for t, row in ln.store.items():
            prow = pre.store.get(t)
            live = [u for u, s in row["subs"].items() if not s["deleted"]]
            if len(live) > case.maxsubs and (prow is None or len([u for u, s in prow["subs"].items() if not s["deleted"]]) < len(live)):
                out.append((i, f"C07 {t} has {len(live)} subscribers, the limit is {case.maxsubs}"))
            if prow is None:
                continue
            amode = ""
            if act is not None:
                a = prow["subs"].get(act[0])
                # a loaded topic decides by the mode it holds in memory (that it is the stored one is C08's business: [offline-set])
                pc = pre.cache.get(t)
                if pc is not None and act[0] in pc["users"]:
                    a = pc["users"][act[0]]
                if a is not None and not a["deleted"]:
                    amode = eff(a["want"], a["given"])
            for u, s in row["subs"].items():
                ps = prow["subs"].get(u)
                who = act[0] if act else "?"
                if ps is None or ps["deleted"]:
                    if s["deleted"]:
                        continue
                    if ps is not None and who == u and s["given"] != ps["given"]:
                        out.append((i, f"C07 {u} unsubscribed from {t} holding the grant {ps['given']} and got {s['given']} by subscribing again"))
                    # a new (or re-created) subscription
                    if who != u and not (has(amode, "S") or has(amode, "A") or has(amode, "O")):
                        out.append((i, f"C07 {who} (mode {amode or 'none'}) subscribed {u} to {t}"))
                    continue
                if s["given"] != ps["given"] and not s["deleted"]:
                    if who == u:
                        selfok = has(ps["given"], "O") or (has(ps["given"], "A") and has(ps["want"] + s["want"], "A"))
                        added = set(s["given"].replace("N", "")) - set(ps["given"].replace("N", ""))
                        if not selfok or (not has(ps["given"], "O") and (added & set("OD"))):
                            out.append((i, f"C07 {u} changed their own grant on {t} from {ps['given']} to {s['given']}"))
                    elif not (has(amode, "A") or has(amode, "O")):
                        # the previous owner's O is cleared when a transfer is accepted
                        if not (ps["given"].replace("O", "") == s["given"] and has(row["subs"].get(who, {}).get("want", "N"), "O")):
                            out.append((i, f"C07 grant of {u} on {t} changed from {ps['given']} to {s['given']} by {who} whose mode is {amode or 'none'}"))
                    elif has(s["given"], "O") and not has(ps["given"], "O") and not has(amode, "O"):
                        out.append((i, f"C07 ownership of {t} granted to {u} by {who} who is not the owner"))
                if s["want"] != ps["want"] and not s["deleted"] and who != u:
                    # the previous owner's O is cleared when a transfer is accepted; the value written is the cached one, which may
                    # differ from the stored one after a divergence already reported under C08
                    cw = pre.cache.get(t, {}).get("users", {}).get(u, {}).get("want")
                    stripped = s["want"] in (ps["want"].replace("O", ""), (cw or "").replace("O", "") or None)
                    if not (stripped and has(row["subs"].get(who, {}).get("want", "N"), "O")):
                        out.append((i, f"C07 requested mode of {u} on {t} changed from {ps['want']} to {s['want']} by {who}"))
        for t, c in ln.cache.items():
            pc = pre.cache.get(t)
            for sid, uid in c["sess"].items():
                if pc is not None and sid in pc["sess"]:
                    continue
                u = c["users"].get(uid)
                if u is not None and not has(u["given"], "J"):
                    out.append((i, f"C07 session {sid} attached to {t} for {uid} whose grant {u['given']} lacks join"))
        # a peer-to-peer topic: the two users of its name and nobody else; modes within JRWPA, always with A
        for t in set(ln.store) | set(ln.cache):
            if not t.startswith("P:"):
                continue
            pair = set(t[2:].split(":"))
            for where, ent in (("stored", ln.store.get(t, {}).get("subs", {})), ("cached", ln.cache.get(t, {}).get("users", {}))):
                before = (pre.store.get(t, {}).get("subs", {}) if where == "stored" else pre.cache.get(t, {}).get("users", {}))
                for u, e in ent.items():
                    pe = before.get(u)
                    if pe is not None and (pe["want"], pe["given"], pe["deleted"]) == (e["want"], e["given"], e["deleted"]):
                        continue           # reported when it appeared
                    if u not in pair:
                        out.append((i, f"C07 [p2p-third] {u} is a {where} participant of {t} after `{w[0]}`"))
                        continue
                    if e["deleted"]:
                        continue
                    for nm, m in (("requested", e["want"]), ("granted", e["given"])):
                        extra = set(m.replace("N", "").replace("_", "")) - set("JRWPA")
                        if extra:
                            out.append((i, f"C07 [p2p-mode] {where} {nm} mode {m} of {u} in {t} exceeds JRWPA after `{w[0]}`"))
                        elif not has(m, "A"):
                            out.append((i, f"C07 [p2p-approve] {where} {nm} mode {m} of {u} in {t} lacks the approver permission after `{w[0]}`"))
    return out


# ------------------------------------------------------------------------------------------------ C08

def mon_C08(case):
    out = []
    for i, (o, ln) in enumerate(zip(case.ops, case.lines)):
        if ln.plain is not None:
            continue
        w = o.split(" ")
        pre = prev_state(case, i)
        for t, c in ln.cache.items():
            row = ln.store.get(t)
            if t == "sys":
                row = dict(row, auth=c["auth"], anon=c["anon"]) if row is not None else None      # (initTopicSys: the default access of `sys` is W/W whatever is stored)
            if c["inactive"]:
                continue
            if row is None:
                out.append((i, f"C08 {t} is loaded but has no stored row"))
                continue
            diffs = []
            if c["last"] != row["seq"]:
                diffs.append(f"message counter {c['last']} vs stored {row['seq']}")
            if c["delid"] != row["delid"]:
                diffs.append(f"delete counter {c['delid']} vs stored {row['delid']}")
            for fld in ("auth", "anon", "pub", "tr", "tags"):
                if c[fld] != row[fld]:
                    diffs.append(f"{fld} {c[fld]} vs stored {row[fld]}")
            ow = owners_of(row)
            if len(ow) == 1 and c["owner"] != ow[0]:
                diffs.append(f"owner {c['owner']} vs stored owner {ow[0]}")
            live = {u: s for u, s in row["subs"].items() if not s["deleted"]}
            clive = {u: s for u, s in row.get("csubs", {}).items() if not s["deleted"]}
            for u in sorted(set(live) | set(c["users"])):
                cu, su = c["users"].get(u), live.get(u)
                if cu is not None and cu["deleted"]:
                    cu = None
                if cu is not None and cu.get("chan"):
                    su = clive.get(u)          # cached only while attached: compared with the row under the channel name
                if cu is None or su is None:
                    if not (cu is None and su is None):
                        diffs.append(f"subscriber {u}: in memory {'yes' if cu else 'no'}, stored {'yes' if su else 'no'}")
                    continue
                for k, nm in (("want", "requested mode"), ("given", "granted mode"), ("r", "read mark"), ("v", "received mark"),
                              ("d", "delete mark"), ("priv", "private data")):
                    if cu[k] != su[k]:
                        diffs.append(f"{nm} of {u}: {cu[k]} in memory vs {su[k]} stored")
            # report only what this request introduced
            prev_diffs = getattr(case, "_c08", {}).get(t, set())
            new = [d for d in diffs if d not in prev_diffs]
            case.__dict__.setdefault("_c08", {})[t] = set(diffs)
            act = case.actor(w) if w[0] not in ("restart", "unload", "fg") and len(w) > 1 else None
            attached = pre is not None and len(w) > 1 and t in pre.sess.get(w[1], set())
            for d in new[:2]:
                # the specific, recorded defects get their own wording (see known_findings.json); anything else is generic
                if (w[0] in ("setsub", "setdesc") and len(w) > 2 and w[2] == t and not attached and act is not None
                        and ln.calls == ["SubscriptionGet", "SubsUpdate"]
                        and (d.startswith(f"requested mode of {act[0]}:") or d.startswith(f"private data of {act[0]}:"))):
                    out.append((i, f"C08 [offline-set] a {{set}} from a session not attached to {t} wrote the stored subscription while the topic is loaded: {d}"))
                elif (w[0] == "pub" and len(w) > 2 and w[2] == t and ln.calls == ["TopicUpdateOnMessage", "MessageSave"]
                        and d.startswith("message counter") and c["last"] + 1 == row["seq"]
                        and any(f.startswith("ctrl 500") for sid, f in ln.frames if sid == w[1])):
                    out.append((i, f"C08 [failed-save] the publish failed at MessageSave after the stored counter of {t} was advanced: {d}"))
                elif (w[0] in ("sub", "setsub") and len(w) > 2 and w[2] == t and act is not None and "TopicShare" in ln.calls
                        and pre is not None and d.startswith("private data of ")
                        and (d.split(" ")[3].rstrip(":") == (_kv(w[3:]).get("user") or act[0] if w[0] == "setsub" else act[0])
                             or (t.startswith("P:") and w[0] == "sub"))      # a p2p load re-creates the other participant's subscription
                        and (pre.store.get(t, {}).get("subs", {}).get(d.split(" ")[3].rstrip(":"), {}).get("deleted")
                             or pre.store.get(t, {}).get("csubs", {}).get(d.split(" ")[3].rstrip(":"), {}).get("deleted"))):
                    out.append((i, f"C08 [resub-private] re-subscribing to {t} keeps the stored private data of the soft-deleted row: {d}"))
                elif (w[0] == "setdesc" and len(w) > 2 and w[2] == t and act is not None and attached and pre is not None
                        and case.sess[w[1]]["lvl"] == "root" and act[0] not in pre.cache.get(t, {}).get("users", {})
                        and d == f"subscriber {act[0]}: in memory yes, stored no"):
                    out.append((i, f"C08 [phantom-sub] a root session attached to {t} sets private data as {act[0]} who is not subscribed: "
                                   f"the topic caches a subscriber that the store does not have"))
                elif (re.match(r"delete mark of (U\d+):", d)
                        and c["users"].get(re.match(r"delete mark of (U\d+):", d).group(1), {}).get("chan")):
                    out.append((i, f"C08 [chan-marks] a hard deletion raised the cached delete mark of an attached channel reader, the reader's "
                                   f"row (under the channel name) was not written: {d}"))
                elif (w[0] == "note" and len(w) > 3 and w[3] == "read" and act is not None and ln.calls == ["SubsUpdate"]
                        and d.startswith(f"received mark of {act[0]}:")):
                    out.append((i, f"C08 [read-raises-recv] a read note raised the received mark of {act[0]} on {t} in memory only: {d}"))
                elif (i > 0 and case.ops[i - 1].startswith("fail ") and int(case.ops[i - 1].split(" ")[1]) >= 2
                        and len(ln.calls) == int(case.ops[i - 1].split(" ")[1]) and len(w) > 2 and w[2] == t
                        and not any(f.startswith("ctrl 2") for sid, f in ln.frames if sid == w[1])):
                    out.append((i, f"C08 [partial-write:{w[0]}] store call {len(ln.calls)} ({ln.calls[-1]}) of a `{w[0]}` failed after "
                                   f"{','.join(ln.calls[:-1])} had been written; the request is answered as failed: {d}"))
                else:
                    out.append((i, f"C08 after `{w[0]}` on {t}: {d}"))
        for t in list(getattr(case, "_c08", {})):
            if t not in ln.cache:
                case._c08.pop(t)
    out.extend(_c08_same_answer(case))
    return out


def _c08_same_answer(case):
    """"the answers clients get to description … queries are the same whether the topic stayed in memory or was unloaded and loaded
    back": an attached session asks for the description twice; between the two questions the sessions only leave, attach again
    (without asking for anything) and ask, the topic idles out or the server restarts - the two answers are the same"""
    out = []
    asked = {}          # (session, topic as addressed) -> (line, answer)
    for i, (o, ln) in enumerate(zip(case.ops, case.lines)):
        w = o.split(" ")
        if w[0] in ("sess", "user"):
            continue
        if ln.plain is not None or w[0] in ("fail", "crash", "reset"):
            asked.clear()
            continue
        kv = _kv(w[3:]) if len(w) > 3 else {}
        if w[0] == "get" and len(w) > 3 and "as" not in kv:
            if w[3] == "desc":
                pre = prev_state(case, i)
                ans = [f for sid, f in ln.frames if sid == w[1] and f.startswith("meta ") and " desc[" in f]
                on_topic = pre is not None and _attached_to(case, pre, w[1], w[2])
                spelled = (w[1], w[2], i in case.via_chn)       # (the answer names the topic as it was addressed: `grp…` or `chn…`)
                if len(ans) == 1 and on_topic:
                    prev = asked.get(spelled)
                    if prev is not None and prev[1] != ans[0]:
                        out.append((i, f"C08 [same-answer] {w[1]} asked for the description of {w[2]} at line {prev[0]} and again now, nothing "
                                       f"but leaving, attaching, idling out and restarting in between: `{prev[1]}` then `{ans[0]}`"))
                    asked[spelled] = (i, ans[0])
                else:
                    asked.pop(spelled, None)
            continue
        if w[0] in ("unload", "restart"):
            continue
        if w[0] == "leave" and kv.get("unsub") != "1" and len(w) == 3:
            continue
        if w[0] == "sub" and len(w) == 3 and any(sid == w[1] and re.match(r"ctrl (200|304) \S+$", f) for sid, f in ln.frames):
            continue        # attached again, nothing asked for and nothing changed (no `acs` in the reply)
        asked.clear()
    return out


def _attached_to(case, st, sid, name):
    """is the session attached to the topic it addresses as `name` (a group name, `chn:` spelling, or the other user of a p2p topic)"""
    ts = st.sess.get(sid, set())
    if name.startswith("U"):
        me = case.sess.get(sid, {}).get("user")
        if me is None:
            return False
        a, b = sorted([me, name])
        return f"P:{a}:{b}" in ts
    return name.replace("chn:", "") in ts


# ------------------------------------------------------------------------------------------------ C09

def mon_C09(case):
    out = []
    for i, (o, ln) in enumerate(zip(case.ops, case.lines)):
        if ln.plain is not None:
            continue
        w = o.split(" ")
        pre = prev_state(case, i)
        for t, c in ln.cache.items():
            for u, p in c["users"].items():
                if not (0 <= p["r"] <= p["v"] <= c["last"]):
                    pp = pre.cache.get(t, {}).get("users", {}).get(u) if pre else None
                    st_ = ln.store.get(t, {}).get("csubs" if p.get("chan") else "subs", {}).get(u)
                    # (a restart loads `sys` at once: what it caches then is what the store holds, like any topic loaded later)
                    fresh = pre is None or t not in pre.cache or u not in pre.cache[t]["users"] or w[0] == "restart"
                    if fresh and st_ is not None and (st_["r"], st_["v"]) == (p["r"], p["v"]):
                        continue           # loaded as stored: the stored marks were reported when they were written
                    if pp is None or (pp["r"], pp["v"]) != (p["r"], p["v"]):
                        out.append((i, f"C09 in memory {u} on {t}: read={p['r']} recv={p['v']} last={c['last']}"))
                if pre and t in pre.cache and u in pre.cache[t]["users"] and not pre.cache[t]["users"][u]["deleted"] and w[0] != "restart":
                    pp = pre.cache[t]["users"][u]
                    if p["r"] < pp["r"] or p["v"] < pp["v"]:
                        out.append((i, f"C09 in memory marks of {u} on {t} moved back: read {pp['r']}->{p['r']} recv {pp['v']}->{p['v']}"))
        for t, row, kind in [(t, row, k) for t, row in ln.store.items() for k in ("subs", "csubs")]:
            prow = pre.store.get(t) if pre else None
            for u, s in row.get(kind, {}).items():
                ps = prow.get(kind, {}).get(u) if prow else None
                changed = ps is None or (ps["r"], ps["v"]) != (s["r"], s["v"])
                # (a restart brings back what the database held at the crash point: a state which was checked when it was written)
                if changed and w[0] != "restart" and not s["deleted"] and not (0 <= s["r"] <= s["v"] <= row["seq"]):
                    if (w[0] == "note" and len(w) > 3 and w[3] == "read" and ln.calls == ["SubsUpdate"] and 0 <= s["v"] < s["r"] <= row["seq"]
                            and ps is not None and ps["v"] == s["v"]):
                        out.append((i, f"C09 [read-raises-recv] a read note stored read={s['r']} for {u} on {t} and left the stored recv={s['v']} behind"))
                    else:
                        out.append((i, f"C09 stored {u} on {t}: read={s['r']} recv={s['v']} seq={row['seq']}"))
                if ps is not None and not ps["deleted"] and not s["deleted"] and w[0] != "restart":
                    if s["r"] < ps["r"] or s["v"] < ps["v"]:
                        out.append((i, f"C09 stored marks of {u} on {t} moved back: read {ps['r']}->{s['r']} recv {ps['v']}->{s['v']}"))
        # relayed notes
        # "in every place they are reported": the description an attached session gets
        for sid, f in ln.frames:
            m_ = re.match(r"meta (\S+) desc\[.*? seq=(\d+) read=(\d+) recv=(\d+) ", f)
            if m_ and int(m_.group(2)) > 0 and not (int(m_.group(3)) <= int(m_.group(4)) <= int(m_.group(2))):
                out.append((i, f"C09 [reported-marks] the description of {m_.group(1)} sent to {sid} reports read={m_.group(3)} recv={m_.group(4)} "
                               f"with {m_.group(2)} messages"))
        infos = [(sid, f) for sid, f in ln.frames if f.startswith("info ")]
        if infos and w[0] != "note":
            out.append((i, f"C09 an info notification was produced by `{w[0]}`"))
        if w[0] == "note" and len(w) > 4 and pre is not None:
            act = case.actor(w)
            if act is None:
                continue               # a non-root session acting for somebody else: refused by the session for every request kind
            t, what = w[2], w[3]
            try:
                q = int(w[4])
            except ValueError:
                q = None
            c = pre.cache.get(t)
            valid = act is not None and q is not None and ((what == "kp" and q == 0) or (what in ("read", "recv") and q > 0))
            u = c["users"].get(act[0]) if (c and act) else None
            m = eff(u["want"], u["given"]) if u and not u["deleted"] else ""
            if valid and c is not None and what in ("read", "recv") and (q > c["last"] or not has(m, "R")):
                valid = False
            if valid and what == "kp" and not has(m, "W"):
                valid = False
            if not valid or c is None:
                if (infos or ln.pushes or state_of(ln) != state_of(pre)) and c is not None:
                    out.append((i, f"C09 invalid note `{what} {w[4]}` on {t} had an effect"))
                # (`ctrl 403 -` is dispatch refusing the `as=` of a session which is not root, or not logged in any more: every
                # request kind gets it, before the note is looked at)
                if [f for sid, f in ln.frames if not f.startswith("ctrl 409") and f != "ctrl 403 -"] and c is not None and not valid:
                    out.append((i, f"C09 invalid note `{what} {w[4]}` on {t} was answered or relayed"))
                continue
            for sid, f in infos:
                k = frame_kv(f)
                ru = c["sess"].get(sid)
                rp = c["users"].get(ru) if ru else None
                if sid == w[1]:
                    out.append((i, f"C09 note relayed back to the originating session {sid}"))
                elif sid in c["chansess"]:
                    out.append((i, f"C09 [chan-info] note relayed to {sid}, a session attached as a channel reader"))
                elif ru is None or rp is None or not has(eff(rp["want"], rp["given"]), "R"):
                    out.append((i, f"C09 note relayed to {sid} which is not an attached session of a reader"))
                elif what == "kp" and ru == act[0]:
                    out.append((i, f"C09 typing note relayed to {sid}, a session of the typist"))
                if k.get("from") != act[0] or f.split(" ")[1] != t:
                    out.append((i, f"C09 relayed note names sender {k.get('from')} topic {f.split(' ')[1]} instead of {act[0]} {t}"))
            # … nor on `me`, where the note is relayed to the readers who are not attached to the topic
            for sid, f in ln.meframes:
                if f.startswith("info me ") and frame_kv(f).get("what") == "kp" and frame_kv(f).get("from") == case.sess.get(sid, {}).get("user") \
                        and sid not in case.obo_me_sids(i):
                    out.append((i, f"C09 typing note relayed on `me` to {sid}, a session of the typist"))
            # a mark moves only on a note from a reader or a publish by the user
        if w[0] not in ("note", "pub", "sub", "newgrp", "restart", "leave", "delsub", "deltopic", "setsub") and pre is not None:
            for t, row in ln.store.items():
                prow = pre.store.get(t)
                if not prow:
                    continue
                for u, s in row["subs"].items():
                    ps = prow["subs"].get(u)
                    if ps and (ps["r"], ps["v"]) != (s["r"], s["v"]):
                        out.append((i, f"C09 marks of {u} on {t} moved by `{w[0]}`"))
    return out


# ------------------------------------------------------------------------------------------------ C05 (announced deltas)

def apply_delta(old, d):
    """what a client (or a proxy topic) computes from an announced change: `_` = unchanged, `+XY-Z` = delta, letters/N = new value"""
    if d in ("_", ""):
        return old
    if d[0] in "+-":
        cur = set(old.replace("N", "").replace("_", ""))
        sign = "+"
        for ch in d:
            if ch in "+-":
                sign = ch
            elif sign == "+":
                cur.add(ch)
            else:
                cur.discard(ch)
        return "".join(c for c in LETTERS if c in cur) or "N"
    return d


def mon_C05(case):
    out = []
    for i, (o, ln) in enumerate(zip(case.ops, case.lines)):
        if ln.plain is not None:
            continue
        pre = prev_state(case, i)
        seen = set()
        for sid, f in ln.frames:
            if not f.startswith("pres ") or " what=acs" not in f:
                continue
            k = frame_kv(f)
            # a notice which announces a change without saying which: whoever follows the permissions by the notices keeps the old ones
            k.setdefault("dacs", "_/_")
            t = f.split(" ")[1]
            src = k.get("src", "-")
            if src == "-":
                # addressed to the affected user's own sessions: the recipient is the subject
                c = ln.cache.get(t) or (pre.cache.get(t) if pre else None)
                src = c["sess"].get(sid) if c else None
                if src is None:
                    continue
            if (t, src, k["dacs"]) in seen:
                continue
            seen.add((t, src, k["dacs"]))
            dw, dg = [("" if x == "_" else x) for x in k["dacs"].split("/")]
            old = (pre.cache.get(t, {}).get("users", {}).get(src) if pre else None)
            new = ln.cache.get(t, {}).get("users", {}).get(src)
            ow, og = (old["want"], old["given"]) if old and not old["deleted"] else ("N", "N")
            if old is None and pre is not None and t not in pre.cache:
                # the topic was loaded by this request: what the subscriber had is what was stored
                srow = pre.store.get(t, {}).get("subs", {}).get(src)
                if srow and not srow["deleted"]:
                    ow, og = srow["want"], srow["given"]
            if old is None and new is not None and new.get("chan"):
                prow = (pre.store.get(t, {}).get("csubs", {}).get(src) if pre else None)
                ow, og = (prow["want"] if prow and not prow["deleted"] else "JRP"), "JRP"
            nw, ng = (new["want"], new["given"]) if new and not new["deleted"] else ("N", "N")
            gw, gg = apply_delta(ow, dw), apply_delta(og, dg)
            norm = lambda m: "".join(c for c in LETTERS if c in m) or "N"
            if norm(gw) != norm(nw) or norm(gg) != norm(ng):
                out.append((i, f"C05 announced change {k['dacs']} of {src} on {t}: applied to {ow}/{og} it gives {norm(gw)}/{norm(gg)}, "
                               f"the topic now holds {norm(nw)}/{norm(ng)}"))
    return out


# ------------------------------------------------------------------------------------------------ C04 (layers 2-4)

def req_ids(spec, last):
    """ids asked for by a delmsg range list, clipped to existing ids; None = malformed"""
    ids = set()
    if spec == "-":
        return None
    for p in spec.split(","):
        lh = p.split(":")
        lo = int(lh[0])
        hi = int(lh[1]) if len(lh) > 1 else 0
        if lo > last or lo < 0 or hi < 0 or (hi > 0 and lo > hi) or (lo == 0 and hi == 0):
            return None
        if hi == 0 or hi == lo:
            ids.add(lo)
        else:
            ids.update(range(lo, min(hi, last + 1)))
    return ids


def mon_C04(case):
    out = []
    for i, (o, ln) in enumerate(zip(case.ops, case.lines)):
        w = o.split(" ")
        if ln.plain is not None or w[0] not in ("get", "delmsg") or len(w) < 4:
            continue
        pre = prev_state(case, i)
        act = case.actor(w)
        if pre is None or act is None:
            continue
        t = w[2]
        c, row = pre.cache.get(t), pre.store.get(t)
        attached = t in pre.sess.get(w[1], set())
        datas = [(sid, f) for sid, f in ln.frames if f.startswith("data ")]
        for sid, f in datas:
            if f.split(" ")[1] != t:
                out.append((i, f"C04 a query about {t} returned a message of {f.split(' ')[1]}"))
        if not attached or c is None or row is None:
            if datas:
                out.append((i, f"C04 history of {t} was served to a session which is not attached"))
            continue
        u = c["users"].get(act[0])
        m = eff(u["want"], u["given"]) if u and not u["deleted"] else ""
        kv = _kv(w[4:])
        if w[0] == "get" and w[3] == "data":
            if not has(m, "R"):
                if datas:
                    out.append((i, f"C04 history of {t} was served to {act[0]} who has no read permission"))
                continue
            if ln.calls != ["MessageGetAll"] or any(f.startswith("ctrl 500") for sid, f in ln.frames):
                continue                      # injected store failure
            since, before, limit = int(kv.get("since", "0") or 0), int(kv.get("before", "0") or 0), int(kv.get("limit", "0") or 0)
            lim = limit if 0 < limit < 100 else 100
            vis = []
            for mm in row["msgs"]:
                if mm["x"]:
                    continue
                if since > 0 and mm["seq"] < since:
                    continue
                if before > 0 and mm["seq"] >= before:
                    continue
                if any(d["user"] == act[0] and d["lo"] <= mm["seq"] < d["hi"] for d in row["dellog"]):
                    continue
                vis.append(mm)
            want = {mm["seq"]: mm for mm in sorted(vis, key=lambda x: -x["seq"])[:lim]}
            got = {}
            for sid, f in datas:
                k = frame_kv(f)
                q = int(k["seq"])
                if q in got:
                    out.append((i, f"C04 message {q} of {t} returned twice"))
                got[q] = k
                if sid != w[1]:
                    out.append((i, f"C04 history of {t} was sent to {sid} instead of the requester"))
            for q in sorted(set(got) - set(want)):
                why = "it lies outside the requested range or limit"
                mm = [x for x in row["msgs"] if x["seq"] == q]
                if not mm:
                    why = "no such message is stored"
                elif mm[0]["x"]:
                    why = "it was hard-deleted"
                elif any(d["user"] == act[0] and d["lo"] <= q < d["hi"] for d in row["dellog"]):
                    why = "the requester had deleted it"
                out.append((i, f"C04 history of {t} for {act[0]} contains message {q} although {why}"))
            for q in sorted(set(want) - set(got)):
                out.append((i, f"C04 history of {t} for {act[0]} lacks message {q} which is stored, in range and not deleted for this user"))
            for q in set(got) & set(want):
                rdr = (pre.cache.get(t, {}).get("users", {}).get(act[0], {}).get("chan") if pre else False)
                sender = "-" if (i in case.via_chn or rdr) else want[q]["sender"]     # the author is withheld from channel readers
                if got[q].get("content") != want[q]["content"] or got[q].get("from") != sender or \
                        got[q].get("head", "-").replace("=", "=") != want[q]["head"]:
                    out.append((i, f"C04 message {q} of {t} returned as from={got[q].get('from')} head={got[q].get('head')} content={got[q].get('content')} "
                                   f"but stored as from={want[q]['sender']} head={want[q]['head']} content={want[q]['content']}"))
        if w[0] == "get" and w[3] == "del":
            # "the deletion log later reported to a user covers exactly the IDs deleted for that user, no more and no fewer"
            logs = [f for sid, f in ln.frames if sid == w[1] and re.match(r"meta \S+ del\[", f)]
            if not has(m, "R"):
                if logs:
                    out.append((i, f"C04 [del-log] the deletion log of {t} was served to {act[0]} who has no read permission"))
                continue
            if any(f.startswith("ctrl 500") for sid, f in ln.frames) or (i > 0 and case.ops[i - 1].split(" ")[0] in ("fail", "crash")):
                continue                      # injected store failure
            since, before, limit = int(kv.get("since", "0") or 0), int(kv.get("before", "0") or 0), int(kv.get("limit", "0") or 0)
            rows = [d for d in row["dellog"] if d["user"] in ("-", act[0]) and d["id"] >= max(since, 0) and (before <= 1 or d["id"] < before)]
            if len(rows) > (limit if 0 < limit < 1024 else 1024):
                continue                      # cut by the limit: which rows stay is the store's choice of order
            want_ids = set()
            for d in rows:
                want_ids |= {d["lo"]} if d["hi"] <= d["lo"] + 1 else set(range(d["lo"], d["hi"]))
            got_ids, clear = set(), 0
            for f in logs:
                body = f[f.index(" del[") + 5:f.rindex("]")]
                clear = int(body.split(":")[0])
                for rg in body[body.index(":") + 1:].split(","):
                    lo, hi = [int(x) for x in rg.split(":")]
                    got_ids |= {lo} if hi <= lo + 1 else set(range(lo, hi))
            if got_ids != want_ids:
                out.append((i, f"C04 [del-log] the deletion log of {t} reported to {act[0]} (since={since} before={before}) lists {sorted(got_ids)}; "
                               f"deleted for this user in that span: {sorted(want_ids)}"))
            elif rows and clear != max(d["id"] for d in rows):
                out.append((i, f"C04 [del-log] the deletion log of {t} reported to {act[0]} ends at transaction {clear}, the last one in the span is "
                               f"{max(d['id'] for d in rows)}"))
            continue
        if w[0] == "delmsg":
            oks = [f for sid, f in ln.frames if sid == w[1] and f.startswith("ctrl 200 ")]
            post = ln.store.get(t)
            if not oks:
                if post is not None and not ln.calls and (post["msgs"] != row["msgs"] or post["dellog"] != row["dellog"]):
                    out.append((i, f"C04 refused delete request changed the messages or the deletion log of {t}"))
                continue
            if post is None:
                continue
            n = int(frame_kv(oks[0]).get("del", "0"))
            # the next number after the topic's own counter (a stored counter left ahead by a request whose later store call failed
            # is the partial-write finding of C08, not a new one)
            if n != c["delid"] + 1:
                out.append((i, f"C04 delete transaction numbered {n} after {c['delid']}"))
            if not has(m, "D") and not has(m, "R"):
                out.append((i, f"C04 delete request accepted from {act[0]} whose mode {m or 'none'} has neither D nor R"))
            ids = req_ids(w[3], c["last"])
            if ids is None:
                out.append((i, f"C04 malformed range list `{w[3]}` accepted"))
                continue
            hard = kv.get("hard") == "1" and has(m, "D")
            # the rows this request wrote: a row with the same number may be there already, left by an earlier request whose
            # second store call failed (the partial-write finding of C08)
            before = list(row["dellog"])
            newrows = []
            for d in post["dellog"]:
                if d in before:
                    before.remove(d)
                elif d["id"] == n:
                    newrows.append(d)
            covered = set()
            for d in newrows:
                covered.update(range(d["lo"], d["hi"]))
                want_user = "-" if hard else act[0]
                if d["user"] != want_user:
                    out.append((i, f"C04 deletion {n} recorded for {d['user']} instead of {want_user}"))
            exist = set(range(0, c["last"] + 1))
            if covered & exist != ids & exist:
                out.append((i, f"C04 delete `{w[3]}` on {t} (last id {c['last']}) recorded ids {sorted(covered & exist)} instead of {sorted(ids & exist)}"))
            pm = {mm["seq"]: mm for mm in row["msgs"]}
            for mm in post["msgs"]:
                old = pm.get(mm["seq"])
                if old is None:
                    continue
                should = hard and mm["seq"] in ids and not old["x"]
                if should and not (mm["x"] == n and mm["content"] == "-"):
                    out.append((i, f"C04 hard delete of {mm['seq']} on {t} left the message (content {mm['content']}, marker {mm['x']})"))
                if not should and mm != old:
                    out.append((i, f"C04 delete `{w[3]}`{' hard' if hard else ''} on {t} altered message {mm['seq']} outside its scope"))
    return out


# ------------------------------------------------------------------------------------------------ C10 (group-topic part)

def mon_C10(case):
    out = []
    bg = {s: v["bg"] for s, v in case.sess.items()}
    for i, (o, ln) in enumerate(zip(case.ops, case.lines)):
        w = o.split(" ")
        if w[0] == "fg" and len(w) > 1:
            bg[w[1]] = False
        if w[0] == "reset":
            bg = {s: v["bg"] for s, v in case.sess.items()}
        if ln.plain is not None:
            continue
        pre = prev_state(case, i)
        for t, c in list(ln.cache.items()) + list(ln.me.items()) + list(ln.fnd.items()):
            fgcount = {}
            for sid, uid in c["sess"].items():
                if not bg.get(sid, False):
                    fgcount[uid] = fgcount.get(uid, 0) + 1
            for u, p in c["users"].items():
                if p["o"] < 0:
                    out.append((i, f"C10 online count of {u} on {t} is negative ({p['o']})"))
                want_o = fgcount.get(u, 0)
                if p["o"] != want_o:
                    pc = (pre.cache.get(t) or pre.me.get(t) or pre.fnd.get(t) or {}) if pre else {}
                    pp = pc.get("users", {}).get(u)
                    pre_sess = pc.get("sess", {})
                    same = pp is not None and pp["o"] == p["o"] and pre_sess == c["sess"] and w[0] != "fg"
                    if not same:
                        out.append((i, f"C10 online count of {u} on {t} is {p['o']} with {want_o} attached foreground session(s) after `{w[0]}`"))
        # presence frames: only to attached sessions of presencers, except permission-change and removal notices
        for sid, f in ln.frames:
            if not f.startswith("pres "):
                continue
            fw = f.split(" ")
            t = fw[1]
            k = frame_kv(f)
            what = k.get("what", "")
            c = ln.cache.get(t) or (pre.cache.get(t) if pre else None)
            cpre = pre.cache.get(t) if pre else None
            uid = None
            for cc in (c, cpre):
                if cc and sid in cc["sess"]:
                    uid = cc["sess"][sid]
                    break
            if uid is None:
                out.append((i, f"C10 presence `{what}` on {t} delivered to {sid} which is not attached to it"))
                continue
            modes = []
            for cc in (c, cpre):
                if cc and uid in cc["users"] and not cc["users"][uid]["deleted"]:
                    modes.append(eff(cc["users"][uid]["want"], cc["users"][uid]["given"]))
            if what not in ("acs", "gone") and modes and not any(has(m, "P") for m in modes):
                out.append((i, f"C10 presence `{what}` on {t} delivered to {sid} of {uid} whose permissions {modes} lack presence"))
            if not modes and what not in ("acs", "gone"):
                out.append((i, f"C10 presence `{what}` on {t} delivered to {sid} of {uid} who is not subscribed"))
    return out + mon_C10_me(case)


def _sub_modes(lns, topic, user, chan=False):
    """effective modes of the user's subscription row to the topic in the given digests (deleted rows excluded), and whether any
    row - deleted or not - is there at all"""
    modes, known, givens = [], False, []
    for l in lns:
        if l is None:
            continue
        row = l.store.get(topic)
        c = l.cache.get(topic)
        # a loaded topic decides by what it holds in memory, a `me` topic loading its contacts by the stored row: either view
        # entitles (that the two agree is C08's business)
        rs = []
        if c is not None and user in c["users"]:
            rs.append(c["users"][user])
        if row is not None and user in row["csubs" if chan else "subs"]:
            rs.append(row["csubs" if chan else "subs"][user])
        for r in rs:
            known = True
            if not r["deleted"]:
                modes.append(eff(r["want"], r["given"]))
                givens.append(r["given"])
    return modes, known, givens


def mon_C10_me(case):
    """the `me` part of C10: (a) what a topic tells a user who is not attached to it reaches only sessions attached to that user's
    `me`, only subscribers, and - permission changes and removals apart - only those with presence permission (and read permission for
    receipts relayed as {info}); (b) whenever activity has settled (every attached session in the foreground, no loaded topic without
    a session) and no store failure was injected, the contact table of every user on `me` says `online` about a p2p partner (presence
    on both sides) iff the partner is on `me`, and about a group the user is a member of (with presence) iff the group is loaded"""
    out = []
    bg = {s: v["bg"] for s, v in case.sess.items()}
    faulted = False
    offmuted = set()       # (user, topic) muted through a session which was not attached
    forced = set()         # (user, other user) whose `me` was made to listen by the other user's "on+en" although the user has muted the topic
    phantom = set()        # topics with a subscription left behind by a request which was refused (reported by C08: [partial-write:newgrp] and the like)
    for i, (o, ln) in enumerate(zip(case.ops, case.lines)):
        w = o.split(" ")
        if w[0] == "fg" and len(w) > 1:
            bg[w[1]] = False
        if w[0] in ("fail", "crash"):
            faulted = True
        if ln.plain is not None:
            continue
        pre = prev_state(case, i)
        if w[0] == "restart":
            offmuted.clear()
            forced.clear()
        if w[0] == "meunload" and len(w) > 1:
            forced = {x for x in forced if x[0] != w[1]}
        if w[0] == "setsub" and len(w) > 2 and pre is not None and w[2] not in pre.sess.get(w[1], set()):
            # a subscription muted through a session which is not attached to the topic: the row is written behind the back of the
            # loaded topic and of the user's `me` (C08 [offline-set]); nothing tells `me` to stop listening
            for t0 in (w[2],):
                a0, b0 = pre.store.get(t0), ln.store.get(t0)
                act0 = case.actor(w)
                if a0 and b0 and act0:
                    for key in ("subs", "csubs"):
                        ra, rb = a0[key].get(act0[0]), b0[key].get(act0[0])
                        if ra and rb and has(eff(ra["want"], ra["given"]), "P") and not has(eff(rb["want"], rb["given"]), "P"):
                            offmuted.add((act0[0], t0))
        if w[0] in ("sub", "newgrp") and len(w) > 1 and pre is not None:
            codes = [int(f.split(" ")[1]) for sid, f in ln.frames + ln.meframes if sid == w[1] and f.startswith("ctrl ")]
            if not codes or min(codes) >= 300:
                for t, row in ln.store.items():
                    old = pre.store.get(t)
                    live = {u for u, r in row["subs"].items() if not r["deleted"]}
                    was = {u for u, r in old["subs"].items() if not r["deleted"]} if old else set()
                    if live - was:
                        phantom.add(t)
        # an account which was deleted is not reported online to anybody any more, nor is a topic which went with its owner
        for victim, k in case.deleted_before(i + 1).items():
            for u, c in ln.me.items():
                on = c["contacts"].get(victim)
                if on is not None and on[0]:
                    out.append((i, f"C10 [deleted-online] the account {victim} was deleted (request {k}) but {u} is still told on `me` that it is online"))
        # (a)
        for sid, f in ln.meframes:
            fw = f.split(" ")
            if fw[0] not in ("pres", "info") or sid in case.obo_me_sids(i):
                continue
            u = case.sess.get(sid, {}).get("user")
            k = frame_kv(f)
            what, src = k.get("what", ""), k.get("src", "-")
            if src == "-" or src == "fnd" or src.startswith("fnd:"):
                continue            # a change of the user's own subscription to `me` (or `fnd`), shown to the user's other sessions there
            att = any(l is not None and sid in l.me.get(u, {}).get("sess", {}) for l in (ln, pre))
            if not att:
                out.append((i, f"C10 [me-unattached] `{fw[0]} {what}` about {src} delivered on `me` to {sid} which is not attached to `me`"))
                continue
            if re.fullmatch(r"U\d+", src):
                topic, chan = "P:" + ":".join(sorted([u, src])), False
            elif src.startswith("chn:"):
                topic, chan = src[4:], True
            else:
                topic, chan = src, False
            # "on+en": the other user's own subscription to `me` got presence permission by this very request (made, or given P
            # back): the announcement makes every contact's `me` accept it, whatever the contact's own standing is (known finding)
            enby = what == "on" and w[0] in ("mesub", "mesetsub") and case.sess.get(w[1], {}).get("user") == src and \
                any(s2 == w[1] and f2.startswith("ctrl 200 me acs=") for s2, f2 in ln.meframes)
            lns = (ln, pre)
            if case.cross.get(i) == "exit":
                # a topic which was shut down a few steps ago winds up: its subscribers are those it had before the hub deleted it
                lns = (ln, pre) + tuple(case.lines[k] for k in range(max(0, i - 16), i) if case.lines[k].plain is None and topic in case.lines[k].store)[-1:]
            modes, known, givens = _sub_modes(lns, topic, u, chan)
            if not known and not chan:
                # a channel reader whose record has just been dropped is addressed under the group's name: not a stranger
                modes, known, givens = _sub_modes((ln, pre), topic, u, True)
            if not known:
                out.append((i, f"C10 [{'me-on-en:stranger' if enby else 'me-stranger'}] `{fw[0]} {what}` about {src} delivered on `me` to {sid} of {u} who has no subscription to it"))
                continue
            if what in ("acs", "gone"):
                continue
            if not modes:
                out.append((i, f"C10 [{'me-on-en:removed' if enby else 'me-removed'}] `{fw[0]} {what}` about {src} delivered on `me` to {sid} of {u} whose subscription is deleted"))
            elif not any(has(m, "P") for m in modes):
                if enby:
                    forced.add((u, src))
                tag = "me-on-en:muted" if (enby or (u, src) in forced) else (f"me-muted-offline:{what}" if (u, topic) in offmuted else f"me-muted:{what}")
                out.append((i, f"C10 [{tag}] `{fw[0]} {what}` about {src} delivered on `me` to {sid} of {u} whose permissions {modes} lack presence"))
            elif not any(has(g, "J") for g in givens):
                # banned = the topic's managers took J away; a user who dropped J from the own request has left of the own accord
                out.append((i, f"C10 [me-banned:{what}] `{fw[0]} {what}` about {src} delivered on `me` to {sid} of {u} who is banned (granted {givens})"))
            elif fw[0] == "info" and not any(has(m, "R") for m in modes):
                out.append((i, f"C10 [me-info-unread] receipt `{what}` about {src} relayed on `me` to {sid} of {u} whose permissions {modes} lack read"))
        # (a') the list of contacts a user reads on `me` shows a contact online iff the contact table says so (and never without the
        # user's own presence permission on `me`)
        if w[0] == "meget" and len(w) > 3 and w[3] == "sub" and w[1] not in case.obo_me_sids(i):
            u = case.sess.get(w[1], {}).get("user")
            m = ln.me.get(u)
            for sid, f in ln.meframes:
                if sid != w[1] or not f.startswith("meta me sub["):
                    continue
                if m is None or sid not in m["sess"]:
                    continue            # not attached: the user's own subscription, no contacts
                mine = m["users"].get(u)
                pres = mine is not None and has(eff(mine["want"], mine["given"]), "P")
                for e in f[len("meta me sub["):].rstrip("]").split(" "):
                    name = e.split(":")[0] if not e.startswith("chn:") else ":".join(e.split(":")[:2])
                    shown = ":on" in e[len(name):]
                    told = m["contacts"].get(name, (False, False))[0]
                    if shown != (told and pres):
                        out.append((i, f"C10 [me-sub-online] {u} reads the contact {name} as {'online' if shown else 'offline'} on `me` although "
                                       f"the last notification said {'online' if told else 'offline'}"))
        # (b)
        if faulted:
            continue
        att_bg = [sid for sid in case.sess if bg.get(sid) and (ln.sess.get(sid) or ln.mesess.get(sid))]
        idle = [t for t, c in list(ln.cache.items()) + list(ln.me.items()) if not c["sess"]]
        if att_bg or idle or ln.held is not None:
            continue            # (requests or timers are still in flight: activity has not settled)
        def visible(x):
            """the user is on `me` and lets others see it: the user's own subscription to `me` has presence permission"""
            mx = ln.me.get(x)
            if mx is None or not mx["sess"] or not mx["announced"]:
                return False
            own = mx["users"].get(x)
            return own is not None and has(eff(own["want"], own["given"]), "P")

        for ou, m in ln.me.items():
            if not m["announced"]:
                continue
            own = m["users"].get(ou)
            if own is None or not has(eff(own["want"], own["given"]), "P"):
                continue            # without P on the own `me` nothing is passed on to this user's sessions
            for key, row in ln.store.items():
                if row["state"] == 20 or key in phantom or key == "sys":
                    continue        # (the system topic makes no announcements)
                mine = row["subs"].get(ou)
                if mine is None or mine["deleted"] or not has(eff(mine["want"], mine["given"]), "P") or \
                        not has(eff(mine["want"], mine["given"]), "J"):
                    continue        # not a member, muted, banned, or left by dropping J: told nothing but changes to the subscription
                if key in ln.cache:
                    # the loaded topic decides by what it holds in memory, `me` loads its contacts from the stored rows: the clause
                    # is judged where the two agree (that they do is C08's business: [offline-set])
                    mine = ln.cache[key]["users"].get(ou)
                if mine is None or mine["deleted"] or not has(eff(mine["want"], mine["given"]), "P") or mine.get("chan"):
                    continue        # (a channel reader is not a member: channels do not report being online)
                if not has(eff(mine["want"], mine["given"]), "J"):
                    continue
                if key.startswith("P:"):
                    others = [x for x in key[2:].split(":") if x != ou]
                    if len(others) != 1:
                        continue
                    x = others[0]
                    theirs = row["subs"].get(x)
                    if theirs is None or theirs["deleted"] or not has(eff(theirs["want"], theirs["given"]), "P") \
                            or not has(eff(theirs["want"], theirs["given"]), "J"):
                        continue
                    theirs = ln.cache[key]["users"].get(x) if key in ln.cache else theirs
                    if theirs is None or theirs["deleted"] or not has(eff(theirs["want"], theirs["given"]), "P") \
                            or not has(eff(theirs["want"], theirs["given"]), "J"):
                        continue
                    mx = ln.me.get(x)
                    if mx is not None and mx["sess"] and not visible(x):
                        # on `me`, but without presence permission on the own subscription to it (the user asked to be invisible, or
                        # the account's default access lacks P): what the partners are told then depends on when they asked - the
                        # property does not say what it should be: not judged
                        continue
                    expect = visible(x)
                    got = m["contacts"].get(x, (False, False))[0]
                    if got != expect:
                        out.append((i, f"C10 [p2p-converge] after `{w[0]}` everything is settled, {x} is {'on' if expect else 'not on'} `me`, "
                                       f"but {ou} was last told that {x} is {'online' if got else 'offline'}"))
                else:
                    expect = key in ln.cache
                    got = m["contacts"].get(key, (False, False))[0]
                    if got != expect:
                        c = ln.cache.get(key)
                        tag = "grp-converge"
                        if c is not None and c["sess"] and all(sid in c["chansess"] for sid in c["sess"]):
                            tag = "grp-converge:readers-only"     # every attached session is a channel reader's
                        out.append((i, f"C10 [{tag}] after `{w[0]}` everything is settled, {key} is {'loaded' if expect else 'not loaded'}, "
                                       f"but its member {ou} was last told that it is {'online' if got else 'offline'}"))
    return out


# ------------------------------------------------------------------------------------------------ C13 / C14 (sequential part)

REQS = ("newgrp", "sub", "leave", "pub", "get", "setsub", "setdesc", "settags", "delmsg", "delsub", "deltopic", "deluser")


def replied(ln, sid):
    return any(s == sid for s, f in ln.frames) or any(s == sid for s, f in ln.meframes)


ME_REQS = ("mesub", "meleave", "mepub", "meget", "mesetsub")
FND_REQS = ("fndsub", "fndleave", "fndpub", "fndget", "fndsetdesc", "fndsetsub")


def evicted_meanwhile(case, i, w):
    """a held {leave} which crossed with the session's eviction from that topic: the eviction notice alone may answer it"""
    if case.cross.get(i) != "handled" or w[0] != "leave" or len(w) < 3:
        return False
    r = next((r for r in case.held_reqs if r["done"] == i), None)
    if r is None:
        return False
    return any(sid == w[1] and f.startswith("ctrl 205 ") and f.split(" ")[2:3] == [w[2]]
               for k in range(r["at"], i + 1) for sid, f in case.lines[k].frames)


def silent_why(case, i, w, ln):
    """a request that got no reply at all: which recorded defect it is, or None"""
    act = case.actor(w)
    sess = case.sess.get(w[1], {})
    pre = prev_state(case, i)
    faulted = i > 0 and case.ops[i - 1].startswith("fail ")
    if faulted and ln.calls and len(ln.calls) == int(case.ops[i - 1].split(" ")[1]) and w[0] in ("sub", "setsub"):
        return f"[silent-store-failure:{w[0]}] store call {len(ln.calls)} ({ln.calls[-1]}) failed and the handler returned without a reply"
    if w[0] == "leave" and sess.get("lvl") == "root" and act is not None and len(w) > 2 and pre is not None:
        c = pre.cache.get(w[2])
        if c is not None and w[1] in c["sess"] and c["sess"][w[1]] != act[0]:
            return f"[root-leave-obo] a root session attached for {c['sess'][w[1]]} sent {{leave}} as {act[0]}: no branch answers"
    return None


def mon_C13(case):
    out = []
    for i, (o, ln) in enumerate(zip(case.ops, case.lines)):
        w = o.split(" ")
        if ln.plain in ("panic", "crash"):
            out.append((i, f"C13 the server panicked while processing `{o}`"))
            continue
        if ln.plain == "blocked" and i > 0 and case.lines[i - 1].held is None and case.lines[i - 1].plain is None:
            out.append((i, f"C13 [never-served] `{o}` is never answered: the session's slot for a {{sub}} or {{leave}} is still taken by an earlier request "
                           f"although nothing is queued anywhere - the connection's read loop waits here for ever, this and every later request of "
                           f"the session stay unanswered"))
            continue
        # (`ctrl 403 -`: the session's `as=` is refused before the request reaches any topic)
        if ln.plain is None and w[0] in ME_REQS and not any(s == w[1] and f.split(" ")[0] in ("ctrl", "meta") for s, f in ln.meframes) \
                and not any(s == w[1] and f == "ctrl 403 -" for s, f in ln.frames):
            out.append((i, f"C13 request `{w[0][2:]}` on `me` from {w[1]} was not answered"))
            continue
        if ln.plain is None and w[0] in FND_REQS and not any(s == w[1] and f.split(" ")[0] in ("ctrl", "meta") for s, f in ln.frames):
            out.append((i, f"C13 request `{w[0][3:]}` on `fnd` from {w[1]} was not answered"))
            continue
        if ln.plain is not None or w[0] not in REQS:
            continue
        if not replied(ln, w[1]):
            if evicted_meanwhile(case, i, w):
                continue
            k = silent_why(case, i, w, ln)
            out.append((i, f"C13 {k}" if k else f"C13 request `{w[0]}` from {w[1]} was not answered"))
            continue
        # malformed / unknown / unauthorised requests are answered with an error code
        if len(w) > 2 and re.match(r"^T\d+$", w[2]):
            pre = prev_state(case, i)
            known = pre is not None and (w[2] in pre.store or w[2] in pre.cache)
            if not known and w[0] not in ("newgrp",):
                codes = [int(f.split(" ")[1]) for s, f in ln.frames if s == w[1] and f.startswith("ctrl ")]
                if codes and min(codes) < 300:
                    # a channel which went with its owner's account: the readers' subscriptions (rows under the `chn` name) are left behind
                    orphan = i in case.via_chn and any(k < i and any(w[2] in l.store and l.store[w[2]]["owner"] == u for l in case.lines[:k] if l.plain is None)
                                                       for u, k in case.deleted_before(i).items())
                    tag = "[orphan-chan-sub] " if orphan else ""
                    out.append((i, f"C13 {tag}`{w[0]}` addressed to the non-existent topic {w[2]} answered {min(codes)}"))
    return out


def mon_C14(case):
    out = []
    for i, (o, ln) in enumerate(zip(case.ops, case.lines)):
        w = o.split(" ")
        if ln.plain == "blocked" and i > 0 and case.lines[i - 1].held is None and case.lines[i - 1].plain is None:
            out.append((i, f"C14 [stuck-inflight] `{o}`: the session's only slot for a {{sub}} or {{leave}} is still taken by a request which nothing will "
                           f"ever process: the session's read loop blocks here for good"))
        if ln.plain == "hang":
            out.append((i, f"C14 [cleanup-hang] `{o}`: the connection closed with a request in flight which nothing will ever process: Session.cleanUp "
                           f"waits for it for ever, the session is never removed from its topics or from the registry"))
        if ln.plain is not None:
            continue
        if ln.held is None:
            # "request bookkeeping never blocks … a topic forever": a topic is suspended only while something is being done to it
            for t, c in sorted(ln.cache.items()):
                if c["inactive"]:
                    out.append((i, f"C14 [stuck-paused] after `{w[0]}` nothing is queued anywhere but {t} is still suspended: every request to it is "
                                   f"refused with 503, its sessions can neither leave nor be cleaned up, it never unloads"))
            for sid in sorted(ln.inflight):
                out.append((i, f"C14 [stuck-inflight] after `{w[0]}` nothing is queued anywhere but session {sid} still has a request in flight: its next "
                               f"{{sub}} or {{leave}} and its cleanup wait for ever"))
            for r in case.held_reqs:
                if r["done"] is None and r["at"] < i and case.cross.get(i) in ("settle", "exit", "xdrop") and not r.get("reported"):
                    r["reported"] = True
                    out.append((i, f"C14 [held-unanswered] {{{r['kind']}}} of {r['sid']} to {r['topic']} (request {r['at']}) was queued when the topic "
                                   f"stopped and was never answered"))
        if ln.held is not None:
            continue            # "at quiescence": the clauses below are judged when nothing is in flight
        # a session lists a topic iff the topic lists the session
        for sid, tops in ln.sess.items():
            for t in tops:
                c = ln.cache.get(t)
                if c is None or sid not in c["sess"]:
                    out.append((i, f"C14 after `{w[0]}` session {sid} lists {t} but the topic does not list the session"))
        for t, c in ln.cache.items():
            for sid in c["sess"]:
                if t not in ln.sess.get(sid, set()):
                    out.append((i, f"C14 after `{w[0]}` topic {t} lists session {sid} but the session does not list the topic"))
        # … the users' `me` topics included
        for sid, tops in ln.mesess.items():
            for t in tops:
                if t not in ln.me or sid not in ln.me[t]["sess"]:
                    out.append((i, f"C14 after `{w[0]}` session {sid} lists `me` of {t} but that topic does not list the session"))
        for t, c in ln.me.items():
            for sid, u in c["sess"].items():
                if t not in ln.mesess.get(sid, set()):
                    out.append((i, f"C14 after `{w[0]}` `me` of {t} lists session {sid} but the session does not list it"))
                if u != t:
                    out.append((i, f"C14 after `{w[0]}` `me` of {t} has session {sid} attached for {u}"))
        for sid, tops in ln.fndsess.items():
            for t in tops:
                if t not in ln.fnd or sid not in ln.fnd[t]["sess"]:
                    out.append((i, f"C14 after `{w[0]}` session {sid} lists {t} but that topic does not list the session"))
        for t, c in ln.fnd.items():
            for sid, u in c["sess"].items():
                if t not in ln.fndsess.get(sid, set()):
                    out.append((i, f"C14 after `{w[0]}` {t} lists session {sid} but the session does not list it"))
                if "fnd:" + u != t:
                    out.append((i, f"C14 after `{w[0]}` {t} has session {sid} attached for {u}"))
        if w[0] in ME_REQS:
            nrep = len([f for sid, f in ln.meframes if sid == w[1] and f.startswith("ctrl ") and not f.startswith("ctrl 205 ")])
            if nrep > 1:
                out.append((i, f"C14 request `{w[0][2:]}` on `me` from {w[1]} was answered twice"))
        if w[0] in ("sub", "leave", "deltopic", "delsub", "newgrp", "pub", "setsub", "setdesc", "settags", "delmsg"):
            # one request, one reply: an eviction notice (205) is not a reply
            nrep = len([f for sid, f in ln.frames if sid == w[1] and f.startswith("ctrl ") and not f.startswith("ctrl 205 ")])
            if nrep > 1:
                out.append((i, f"C14 request `{w[0]}` from {w[1]} was answered twice"))
        if w[0] in ("sub", "leave", "deltopic", "delsub", "newgrp") and not replied(ln, w[1]) and not evicted_meanwhile(case, i, w):
            k = silent_why(case, i, w, ln)
            out.append((i, f"C14 {k}" if k else f"C14 request `{w[0]}` from {w[1]} was not answered"))
        if w[0] == "deluser" and w[1] in case.sess:
            nrep = len([f for sid, f in ln.frames if sid == w[1] and f.startswith("ctrl ") and not f.startswith("ctrl 205 ")])
            if nrep != 1 and w[1] not in case.logged_out(i):
                out.append((i, f"C14 request `deluser` from {w[1]} was " + ("not answered" if nrep == 0 else "answered twice")))
        if i in case.deletions():
            # an account was deleted: its sessions are detached from everything, nothing counts it online or keeps a session for it,
            # what it owned and its p2p topics are shut down and deleted
            victim, hard = case.deletions()[i]
            pre = prev_state(case, i)
            for sid, x in case.sess.items():
                if x["user"] == victim:
                    left = sorted(ln.sess.get(sid, set()) | ln.mesess.get(sid, set()) | ln.fndsess.get(sid, set()))
                    if left:
                        out.append((i, f"C14 the account {victim} was deleted but its session {sid} is still attached to {','.join(left)}"))
            for t, c in list(ln.cache.items()) + list(ln.me.items()) + list(ln.fnd.items()):
                pu = c["users"].get(victim)
                if pu is not None and pu["o"] != 0:
                    out.append((i, f"C14 the account {victim} was deleted but {t} still counts it online ({pu['o']})"))
                for sid, u in c["sess"].items():
                    if u == victim:
                        out.append((i, f"C14 the account {victim} was deleted but {t} still has session {sid} attached for it"))
                if c["owner"] == victim or t == victim or t == "fnd:" + victim or (t.startswith("P:") and victim in t[2:].split(":")):
                    out.append((i, f"C14 the account {victim} was deleted but its topic {t} is still loaded"))
            if pre is not None:
                for t, r in pre.store.items():
                    if r["owner"] == victim:
                        now = ln.store.get(t)
                        if hard and now is not None:
                            out.append((i, f"C14 the account {victim} was deleted (hard) but its topic {t} is still stored"))
                        if not hard and (now is None or now["state"] != 20):
                            out.append((i, f"C14 the account {victim} was deleted but its topic {t} is not marked deleted"))
        # a deleted topic: everybody detached, later requests refused
        if w[0] == "deltopic" and len(w) > 2:
            pre = prev_state(case, i)
            t = w[2]
            if pre is not None and t in pre.store and (t not in ln.store or ln.store[t]["state"] == 20):
                for sid, tops in ln.sess.items():
                    if t in tops:
                        out.append((i, f"C14 {t} was deleted but session {sid} is still attached"))
                if pre.cache.get(t):
                    for sid in pre.cache[t]["sess"]:
                        if sid != w[1] and not any(s == sid and f.startswith("ctrl 205") or (s == sid and f.startswith("pres") and "gone" in f)
                                                   for s, f in ln.frames):
                            pass        # told through the 'me' topic, which this stream does not model
        if w[0] in ("sub", "pub", "get", "note") and len(w) > 2 and i > 0:
            pre = prev_state(case, i)
            t = w[2]
            if pre is not None and t in pre.store and pre.store[t]["state"] == 20 and w[0] == "sub":
                if any(s == w[1] and f.startswith("ctrl 2") for s, f in ln.frames):
                    out.append((i, f"C14 subscribe to the deleted topic {t} was accepted"))
    return out


# ------------------------------------------------------------------------------------------------ C11 (a session the server has logged out)

def mon_C11(case):
    """initTopicMe logs a session out when the account cannot be read. From then on (until a restart, which stands for new
    connections) the session is not authenticated: every request is refused with 401 - a note is dropped silently, a request on
    behalf of somebody else is refused as one from a session which is not root - and nothing at all happens because of it"""
    out = []
    for i, (o, ln) in enumerate(zip(case.ops, case.lines)):
        w = o.split(" ")
        if ln.plain is None and w[0] == "deluser" and w[1] in case.sess and w[1] not in case.logged_out(i):
            # an account is deleted by its own session or by a root session, by nobody else
            kv = _kv(w[2:])
            s_ = case.sess[w[1]]
            if kv.get("user") and kv["user"] != s_["user"] and s_["lvl"] != "root":
                pre = prev_state(case, i)
                mine = [f for sid, f in ln.frames + ln.meframes if sid == w[1]]
                if mine != ["ctrl 403 -"]:
                    out.append((i, f"C11 `deluser user={kv['user']}` from {w[1]} ({s_['user']}, {s_['lvl']}) answered {mine[:2]} instead of ['ctrl 403 -']"))
                others = [(sid, f) for sid, f in ln.frames + ln.meframes if sid != w[1]]
                if others or ln.pushes or ln.calls or (pre is not None and state_of(ln) != state_of(pre)):
                    out.append((i, f"C11 `deluser user={kv['user']}` from {w[1]} ({s_['user']}, {s_['lvl']}) had an effect: {others[:1]} calls={','.join(ln.calls)}"))
        if ln.plain is not None or len(w) < 2 or w[1] not in case.logged_out(i):
            continue
        if w[0] not in REQS + ME_REQS + FND_REQS + ("note", "menote", "fndnote"):
            continue
        pre = prev_state(case, i)
        mine = [f for sid, f in ln.frames + ln.meframes if sid == w[1]]
        if " as=" in o:
            want = ["ctrl 403 -"]
            ok = mine == want
        elif w[0] in ("note", "menote", "fndnote"):
            want = []
            ok = mine == want
        else:
            want = ["ctrl 401 <topic>"]
            ok = len(mine) == 1 and mine[0].startswith("ctrl 401 ")
        if not ok:
            out.append((i, f"C11 `{w[0]}` from {w[1]}, which the server has logged out, answered {mine[:2]} instead of {want}"))
        others = [(sid, f) for sid, f in ln.frames + ln.meframes if sid != w[1]]
        if others or ln.pushes or ln.calls:
            out.append((i, f"C11 `{w[0]}` from {w[1]}, which the server has logged out, had an effect: {others[:1]} {ln.pushes[:1]} calls={','.join(ln.calls)}"))
        if pre is not None and state_of(ln) != state_of(pre):
            out.append((i, f"C11 `{w[0]}` from {w[1]}, which the server has logged out, changed the state"))
    return out


# ------------------------------------------------------------------------------------------------ C19 (tags of group topics)

MASKED_NS = ("rest",)


def parse_query(q):
    """the documented reading of a search string made of plain tags: a comma is OR, a space is AND, OR binds tighter - a term next
    to a comma is optional, any other term is required. None for strings this reader does not take on (quotes, stray commas)."""
    if q is None or q == "" or '"' in q:
        return None
    req, opt = [], []
    for word in q.replace("+", " ").split(" "):
        if word == "":
            continue
        parts = word.split(",")
        if any(p == "" for p in parts):
            return None
        parts = [p.lower() for p in parts]
        if any(not re.fullmatch(r"[a-z0-9_:]{2,96}", p) or not p[0].isalnum() for p in parts):
            return None
        if len(parts) == 1:
            req.append(parts[0])
        else:
            opt.extend(parts)
    # consecutive single words: a word followed by a word which holds commas is still required (only adjacency to a comma counts)
    return req, opt


def mon_C19_fnd(case):
    """searching on `fnd`: the results are exactly the accounts and topics whose tags satisfy the query - every required term, and at
    least one term of the query - each with the tags that matched; never the searcher; nothing suspended or deleted unless a root
    session asks; a tag of a masked namespace is usable only by a searcher who carries it"""
    out = []
    import json as _json
    susp = {u: v.get("susp", False) for u, v in case.users.items()}
    curtags = {u: list(v["tags"]) for u, v in case.users.items()}
    for i, (o, ln) in enumerate(zip(case.ops, case.lines)):
        w = o.split(" ")
        if w[0] == "userstate" and len(w) > 2 and ln.plain is None:
            susp[w[1]] = w[2] == "susp"
        if ln.plain is None:
            # the tags an account is found by are the ones its `me` topic holds after the last acknowledged {set tags}
            for x, cm in ln.me.items():
                curtags[x] = [t for t in (cm["tags"] or "").strip("[]").split(",") if t]
        if ln.plain is not None or len(w) < 3:
            continue
        sid = w[1]
        u = case.sess.get(sid, {}).get("user")
        mine = [f for s2, f in ln.frames if s2 == sid]
        pre = prev_state(case, i)
        c = pre.fnd.get("fnd:" + str(u)) if pre is not None else None
        if w[0] == "fndget" and len(w) > 3 and w[3] == "sub" and c is not None and sid in c["sess"] and mine:
            # the query the topic holds for this session (the digest shows a space as `_`), or else the stored one of the user
            q = None
            if (c["pub"] or "").startswith("{"):
                try:
                    q = _json.loads(c["pub"]).get(sid)
                except ValueError:
                    continue
            if q is None:
                pv = c["users"].get(u, {}).get("priv", "-")
                q = None if pv in ("-", "␡") else pv
            if q is not None:
                q = q.replace("_", " ")
            pq = parse_query(q)
            if pq is None:
                continue
            req, opt = pq
            allq = set(req) | set(opt)
            lvl = case.sess[sid]["lvl"]
            masked = [t for t in allq if ":" in t and t.split(":")[0] in MASKED_NS]
            if masked and any(t not in curtags.get(u, []) for t in masked) and not mine[0].startswith("ctrl 4"):
                out.append((i, f"C19 [masked] {u} searched by {masked}, tags of a masked namespace which {u} does not carry, and was answered `{mine[0][:60]}`"))
                continue
            if not mine[0].startswith(("meta fnd sub[", "ctrl 204 ")):
                continue
            shown = {}
            if mine[0].startswith("meta fnd sub["):
                for e in mine[0][len("meta fnd sub["):-1].split(" "):
                    name = ":".join(e.split(":")[:2]) if e.startswith("chn:") else e.split(":")[0]
                    m = re.search(r"priv=\[(.*?)\]", e)
                    shown[name] = [x.strip('"') for x in m.group(1).split(",")] if m and m.group(1) else []
            # what ought to be shown
            cand = {}
            dels = case.deletions()
            gone = {du: hard for k, (du, hard) in dels.items() if k < i}
            for x, v in case.users.items():
                if x != u and not v.get("missing") and not gone.get(x, False):
                    # (a soft-deleted account keeps its row: hidden from everybody but root, like a suspended one)
                    cand[x] = (curtags.get(x, v["tags"]), susp.get(x, False) or x in gone)
            for t, row in ln.store.items():
                if t.startswith("P:"):
                    continue
                tags = [x for x in (row["tags"] or "").strip("[]").split(",") if x]
                cand[("chn:" + t) if row["chan"] else t] = (tags, row["state"] != 0)
            for name, (tags, hidden) in cand.items():
                hit = [t for t in tags if t in allq]
                ok = bool(hit) and all(r in tags for r in req) and not (hidden and lvl != "root")
                if ok and name not in shown:
                    out.append((i, f"C19 [missed] the search `{q}` of {u} does not show {name}, whose tags {tags} satisfy it"))
                elif not ok and name in shown:
                    why = "is suspended or deleted" if (hidden and lvl != "root") else f"has tags {tags}"
                    out.append((i, f"C19 [shown] the search `{q}` of {u} ({lvl}) shows {name}, which {why}"))
                elif ok and shown[name] != hit:
                    out.append((i, f"C19 [matched] the search `{q}` shows {name} with matched tags {shown[name]} instead of {hit}"))
            for name in shown:
                if name not in cand:
                    out.append((i, f"C19 [shown] the search `{q}` of {u} shows {name}" + (", the searcher" if name == u else ", which does not exist")))
    return out


def mon_C19(case):
    """the tags stored with a topic: normalised (lower case, sorted, no duplicates, 2..96 characters, first character a letter or a
    digit), changed only by a {set tags} of the owner, and never gaining or losing a tag of the immutable namespace `basic:`"""
    out = mon_C19_fnd(case)
    acct = {u: list(v["tags"]) for u, v in case.users.items()}     # the tags of every account as last seen on its `me` topic
    for i, (o, ln) in enumerate(zip(case.ops, case.lines)):
        if ln.plain is not None:
            continue
        w = o.split(" ")
        pre = prev_state(case, i)
        # … and the tags of an account (shown by its `me` topic while it is loaded): the same rules, changed only by the account itself
        for u, cm in ln.me.items():
            tags = [x for x in (cm["tags"] or "").strip("[]").split(",") if x]
            ptags = acct.get(u, [])
            if tags == ptags:
                continue
            acct[u] = tags
            if tags != sorted(set(tags)) or any(x != x.lower().strip() or not (2 <= len(x) <= 96) or not x[0].isalnum() for x in tags):
                out.append((i, f"C19 tags of the account {u} are stored as {tags}: not normalised"))
            imm = lambda l: sorted(x for x in l if x.startswith("basic:"))
            if imm(tags) != imm(ptags):
                out.append((i, f"C19 tags of the immutable namespace of the account {u} changed from {imm(ptags)} to {imm(tags)} by `{w[0]}`"))
            act = case.actor(w) if len(w) > 1 else None
            if not (w[0] == "settags" and len(w) > 2 and w[2] == "me" and act is not None and act[0] == u):
                out.append((i, f"C19 tags of the account {u} changed from {ptags} to {tags} by `{w[0]}` of {act[0] if act else '?'}"))
        for t, row in ln.store.items():
            tags = [x for x in (row["tags"] or "").strip("[]").split(",") if x]
            prow = pre.store.get(t) if pre else None
            ptags = [x for x in (prow["tags"] or "").strip("[]").split(",") if x] if prow else None
            if ptags is not None and ptags == tags:
                continue
            if tags != sorted(set(tags)) or any(x != x.lower().strip() or not (2 <= len(x) <= 96) or not x[0].isalnum() for x in tags):
                out.append((i, f"C19 tags of {t} are stored as {tags}: not normalised"))
            imm = lambda l: sorted(x for x in l if x.startswith("basic:"))
            if imm(tags) != imm(ptags or []):
                out.append((i, f"C19 tags of the immutable namespace of {t} changed from {imm(ptags or [])} to {imm(tags)} by `{w[0]}`"))
            if ptags is not None and w[0] != "restart":
                act = case.actor(w) if len(w) > 1 else None
                if w[0] != "settags" or act is None or act[0] != prow["owner"] or len(w) < 3 or w[2] != t:
                    out.append((i, f"C19 tags of {t} changed from {ptags} to {tags} by `{w[0]}` of {act[0] if act else '?'} (owner {prow['owner']})"))
    return out


MONITORS = {"C11": mon_C11, "C19": mon_C19, "C05": mon_C05, "C04": mon_C04, "C01": mon_C01, "C02": mon_C02, "C03": mon_C03, "C06": mon_C06, "C07": mon_C07, "C08": mon_C08, "C09": mon_C09,
            "C10": mon_C10, "C13": mon_C13, "C14": mon_C14}


def run_monitor(pid, ops, outs):
    """-> list of (case_ops_up_to_failure, why)"""
    res = []
    for case in split_cases(ops, outs):
        fails = MONITORS[pid](case)
        seen = set()
        for i, why in sorted(fails):
            key = re.sub(r"\d+", "#", why)
            if key in seen:
                continue
            seen.add(key)
            res.append((case.orig_ops[:i + 1], why))
    return res
