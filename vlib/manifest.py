"""Regenerates MANIFEST.json from the property modules present under vlib/props (python3 -m vlib.manifest)."""
import importlib, json, os, sys
from . import core

ALL = [f"C{i:02d}" for i in range(1, 21)]


def main():
    checks, na = [], []
    for pid in ALL:
        if not os.path.exists(os.path.join(core.VERIF, "vlib", "props", pid + ".py")):
            na.append({"property_id": pid, "reason": "check not built yet (work in progress; see DESIGN.md build order)"})
            continue
        p = importlib.import_module(f"vlib.props.{pid}").PROP
        checks.append({
            "property_id": pid,
            "quick_cmd": f"./check {pid} --tier quick",
            "thorough_cmd": f"./check {pid} --tier thorough",
            "evidence_file": f"/verif/evidence/{pid}.json",
            "replay_cmd_template": f"./check {pid} --replay {{path}}",
            "engine": "lean4-proof+correspondence",
            "level_claimed": {"category": "proof", "text": p["level_text"], "design_ref": p.get("design_ref", f"DESIGN.md §6 {pid}")},
            "level_note": p["level_note"],
            "technique": p.get("technique", "Lean 4 theorems about an executable model + differential correspondence with the Go code"),
        })
    m = {
        "version": 1,
        "setup_cmd": "./setup.sh",
        "hooks": {"guard": "verif",
                  "enable": "go test -tags verif -overlay /verif/.work/<id>/gen/overlay.json (harness files under /verif/harness/overlay are injected at build time; nothing is written under /repo)",
                  "baseline_off_cmd": "cd /repo && GOFLAGS=-mod=mod go test -json -vet=off -count=1 -timeout 25m ./...",
                  "source_commits": [], "add_only": True},
        "engines": [{"name": "lean4-proof+correspondence", "path": "/verif/check",
                     "serves_properties": [c["property_id"] for c in checks],
                     "kind_free_text": "Lean 4 model + kernel-checked theorems (lake build, #print axioms audit); model tied to /repo by differential runs of the Go code (overlay harness) against the compiled Lean driver, and by translators that regenerate Lean definitions from the Go source"}],
        "checks": checks,
        "notes": "Technique: machine-checked proof in Lean 4. See DESIGN.md. Known findings: known_findings.json.",
        "not_applicable": na,
    }
    json.dump(m, open(os.path.join(core.VERIF, "MANIFEST.json"), "w"), indent=1)
    print(f"MANIFEST.json: {len(checks)} checks, {len(na)} not_applicable")


if __name__ == "__main__":
    main()
