"""Offline setup: build the Lean project (proofs + driver) and warm the Go build cache for the harness packages."""
import os, sys
from . import core


TRANSLATORS = [("election", "Election.lean"), ("txskel", "TxSkel.lean"), ("adapterpin", "AdapterPin.lean")]


def regen():
    os.makedirs(core.WORK, exist_ok=True)
    log = open(os.path.join(core.WORK, "regen.log"), "w")
    for name, gen in TRANSLATORS:
        ok, msg = core.run_translator(name, gen, log)
        print(f"translator {name}: {msg if ok else 'FAILED ' + msg}")
    return 0


def main():
    os.makedirs(core.WORK, exist_ok=True)
    log = open(os.path.join(core.WORK, "setup.log"), "w")
    # regenerate the translator outputs first so that the project builds against /repo's current tree
    for name, gen in TRANSLATORS:
        ok, msg = core.run_translator(name, gen, log)
        print(f"setup: translator {name}: {msg if ok else 'FAILED ' + msg}")
    rc, out = core.lake_build([], log)
    print(out[-1500:])
    if rc != 0:
        print("setup: lake build failed")
        return 1
    pkgs = [k for k in core.PKGDIR if os.path.isdir(os.path.join(core.VERIF, "harness", "overlay", k))]
    for k in pkgs:
        tags = "verif mysql" if k == "mysql" else "verif"
        rc, out, _ = core.go_build_harness("setup", k, log, tags=tags)
        print(f"setup: harness {k}: {'ok' if rc == 0 else 'FAILED'}")
        if rc != 0:
            print(out[-1500:])
    return 0
