"""The adapter pin (T2): fingerprints of the SQL adapters' functions, regenerated from /repo on every run, compared by a Lean theorem
with the ones recorded when the in-memory adapter and the store model were transcribed from those functions."""
import os, re
from . import core

PROPS = ["C01", "C04", "C06", "C07", "C08", "C09", "C10", "C11", "C12", "C14", "C16", "C18", "C19", "C20"]


def tr_adapterpin(ctx):
    return core.run_translator("adapterpin", "AdapterPin.lean", ctx.log)


def _table(path, name):
    s = open(path).read()
    i = s.index("def " + name)
    body = s[i:s.index("]", i)]
    return {(a, f): h for a, f, h in re.findall(r'\("(\w+)", "([\w#]+)", "(\w+)"\)', body)}


def _fns(pid):
    s = open(os.path.join(core.LEAN, "TinodeVerif", "Model", "AdapterPin.lean")).read()
    m = re.search(r'\| "%s" => \[(.*?)\]' % pid, s, re.S)
    return re.findall(r'"(\w+)"', m.group(1)) if m else []


def changed_functions(pid):
    gen = _table(os.path.join(core.LEAN, "TinodeVerif", "Gen", "AdapterPin.lean"), "pins")
    exp = _table(os.path.join(core.LEAN, "TinodeVerif", "Model", "AdapterPin.lean"), "expected")
    fns = set(_fns(pid))
    out = []
    for key in sorted(set(gen) | set(exp)):
        if key[1].split("#")[0] in fns and gen.get(key) != exp.get(key):
            out.append(f"{key[0]}.{key[1]}" + (" (gone)" if key not in gen else " (new)" if key not in exp else ""))
    return out


def pin_extra(ctx):
    """names the adapter functions whose text is not the reviewed one any more"""
    try:
        ch = changed_functions(ctx.pid)
    except Exception as e:          # the generated file may be a stub when the translator failed
        ch = [f"(fingerprints unreadable: {e})"]
    ctx.cov.setdefault("extra", {})["adapter_functions_pinned"] = len(_fns(ctx.pid)) * 2
    if ch:
        ctx.cov["extra"]["adapter_functions_changed"] = ch
        ctx.broken.append("adapter-pin: the text of " + ", ".join(ch) + " is not the one the in-memory adapter and the store model were "
                          "transcribed from; the in-memory adapter cannot show what the change does (python3 tools/adapterpin.py --accept after review)")


def add_pin(prop):
    """extends a property definition with its pin theorem, the translator and the explanation hook"""
    pid = prop["id"]
    prop.setdefault("translators", [])
    prop["translators"] = list(prop["translators"]) + [tr_adapterpin]
    prop["modules"] = list(prop["modules"]) + ["TinodeVerif.Props.Pin" + pid]
    prop["theorems"] = list(prop["theorems"]) + [f"Tinode.Props.Pin.{pid}_store_functions_as_reviewed", "Tinode.Props.Pin.lists_name_existing_functions"]
    prop["extra"] = list(prop.get("extra", [])) + [pin_extra]
    prop["trusted"] = list(prop.get("trusted", [])) + [
        "translator/cmd/adapterpin (go/parser + go/printer: the text of every function of the MySQL and PostgreSQL adapters without comments, "
        "SHA-256) and the fingerprints recorded in Model/AdapterPin.lean: they fix WHICH text the in-memory adapter and the store model were "
        "transcribed from, not that the transcription is right"]
    return prop
