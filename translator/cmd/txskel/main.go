// txskel: regenerates lean/TinodeVerif/Gen/TxSkel.lean from the SQL adapters.
// For every function that begins a transaction it extracts
//   - the variable the deferred rollback tests (`defer func(){ if E != nil { tx.Rollback() } }()`),
//   - every return after the Begin: what is returned in the error position (the commit result, the variable E, a shadow
//     of it, nil, another error) and whether E is known non-nil at that point (lexically inside `if E != nil`, or right
//     after `E = <error constant>`),
//   - every statement executed on the transaction (tx.X(...) or helper(tx, ...)): where its error goes (E, a shadow, ignored,
//     returned directly).
// Identifier resolution is a small lexical scope analysis (`:=`, var, if/for/switch init scopes, function literals), so that
// `res, err := tx.Exec(...)` inside a block is recognised as declaring a *new* err.
package main

import (
	"fmt"
	"go/ast"
	"go/token"
	"os"
	"path/filepath"
	"sort"
	"strings"

	"veriftr/astx"
)

type scope struct {
	vars   map[string]int
	parent *scope
}

func (s *scope) lookup(n string) int {
	for c := s; c != nil; c = c.parent {
		if id, ok := c.vars[n]; ok {
			return id
		}
	}
	return -1
}

type ret struct {
	line    int
	kind    string
	detail  string
	guarded bool
}

type call struct {
	line   int
	callee string
	dest   string
}

func splitDest(d string) (string, string) {
	if strings.HasPrefix(d, "shadow:") {
		return "shadow", d[7:]
	}
	return d, ""
}

type fn struct {
	adapter, name string
	deferVar      string
	deferOK       bool
	rets          []ret
	calls         []call
}

type walker struct {
	f       *astx.File
	nextID  int
	txName  string
	eID     int // object tested by the deferred rollback
	errRes  int // named error result, if any
	began   bool
	out     *fn
	guards  int // depth of enclosing `if E != nil` then-blocks
	afterBeginCheck bool
}

func (w *walker) declare(s *scope, name string) int {
	if name == "_" {
		return -1
	}
	w.nextID++
	s.vars[name] = w.nextID
	return w.nextID
}

func newScope(p *scope) *scope { return &scope{vars: map[string]int{}, parent: p} }

// condGuardsE: does the condition guarantee E != nil (a top-level conjunct `E != nil`)?
func (w *walker) condGuardsE(s *scope, e ast.Expr) bool {
	switch x := e.(type) {
	case *ast.ParenExpr:
		return w.condGuardsE(s, x.X)
	case *ast.BinaryExpr:
		if x.Op == token.LAND {
			return w.condGuardsE(s, x.X) || w.condGuardsE(s, x.Y)
		}
		if x.Op == token.NEQ {
			if id, ok := x.X.(*ast.Ident); ok {
				if n, ok2 := x.Y.(*ast.Ident); ok2 && n.Name == "nil" {
					return s.lookup(id.Name) == w.eID && w.eID >= 0
				}
			}
		}
	}
	return false
}

func (w *walker) isTxCall(c *ast.CallExpr) (string, bool) {
	if sel, ok := c.Fun.(*ast.SelectorExpr); ok {
		if id, ok := sel.X.(*ast.Ident); ok && id.Name == w.txName {
			return w.txName + "." + sel.Sel.Name, true
		}
		// chained: tx.QueryRow(...).Scan(...)
		if inner, ok := sel.X.(*ast.CallExpr); ok {
			if n, ok := w.isTxCall(inner); ok {
				return n + "." + sel.Sel.Name, true
			}
		}
	}
	for _, a := range c.Args {
		if id, ok := a.(*ast.Ident); ok && id.Name == w.txName {
			return w.f.Src(c.Fun) + "(tx)", true
		}
	}
	// a statement sent to the connection pool (a.db.Exec…, a.db.Query…) between BEGIN and COMMIT is not part of the transaction:
	// it takes effect at once, whatever becomes of the transaction (recorded with the destination "pool", which nothing covers)
	if sel, ok := c.Fun.(*ast.SelectorExpr); ok {
		if inner, ok := sel.X.(*ast.SelectorExpr); ok && inner.Sel.Name == "db" {
			if _, ok := inner.X.(*ast.Ident); ok && !strings.HasPrefix(sel.Sel.Name, "Begin") && sel.Sel.Name != "Rebind" {
				return w.f.Src(inner) + "." + sel.Sel.Name, true
			}
		}
	}
	return "", false
}

func (w *walker) findTxCall(e ast.Expr) (string, int, bool) {
	var name string
	var line int
	found := false
	ast.Inspect(e, func(n ast.Node) bool {
		if _, isLit := n.(*ast.FuncLit); isLit {
			return false
		}
		if c, ok := n.(*ast.CallExpr); ok && !found {
			if nm, ok := w.isTxCall(c); ok {
				if strings.HasSuffix(nm, ".Rollback") || strings.HasSuffix(nm, ".Commit") || strings.HasSuffix(nm, ".Rebind") {
					return true
				}
				name, line, found = nm, w.f.Line(c), true
				return false
			}
		}
		return true
	})
	return name, line, found
}

func (w *walker) destOf(s *scope, lhs []ast.Expr, define bool, inner *scope) string {
	if len(lhs) == 0 {
		return "ignored"
	}
	last := lhs[len(lhs)-1]
	id, ok := last.(*ast.Ident)
	if !ok {
		return "other"
	}
	if id.Name == "_" {
		return "ignored"
	}
	sc := s
	if inner != nil {
		sc = inner
	}
	if sc.lookup(id.Name) == w.eID && w.eID >= 0 {
		return "E"
	}
	return "shadow:" + id.Name
}

func (w *walker) assign(s *scope, as *ast.AssignStmt) {
	// declarations first (Go: new variables are those not yet declared in the *current* scope)
	if as.Tok == token.DEFINE {
		for _, l := range as.Lhs {
			if id, ok := l.(*ast.Ident); ok {
				if _, exists := s.vars[id.Name]; !exists {
					w.declare(s, id.Name)
				}
			}
		}
	}
	for _, r := range as.Rhs {
		if w.began {
			if nm, line, ok := w.findTxCall(r); ok {
				w.out.calls = append(w.out.calls, call{line, nm, w.destOf(s, as.Lhs, as.Tok == token.DEFINE, nil)})
			}
		}
		// the Begin itself
		if c, ok := r.(*ast.CallExpr); ok {
			src := w.f.Src(c.Fun)
			if strings.HasSuffix(src, ".Begin") || strings.HasSuffix(src, ".BeginTx") || strings.HasSuffix(src, ".BeginTxx") {
				if len(as.Lhs) == 2 {
					if id, ok := as.Lhs[0].(*ast.Ident); ok {
						w.txName = id.Name
					}
				}
				w.began = true
				w.afterBeginCheck = true
			}
		}
	}
}

func (w *walker) stmts(s *scope, list []ast.Stmt) {
	added := 0
	for i, st := range list {
		var prev ast.Stmt
		if i > 0 {
			prev = list[i-1]
		}
		w.stmt(s, st, prev)
		// flow fact: after `if E == nil { …; return … }` the rest of the block runs with E != nil,
		// until E is assigned again
		if is, ok := st.(*ast.IfStmt); ok && is.Init == nil && is.Else == nil && w.eID >= 0 {
			if be, ok := is.Cond.(*ast.BinaryExpr); ok && be.Op == token.EQL {
				if id, ok := be.X.(*ast.Ident); ok && s.lookup(id.Name) == w.eID {
					if n, ok := be.Y.(*ast.Ident); ok && n.Name == "nil" && len(is.Body.List) > 0 {
						if _, isRet := is.Body.List[len(is.Body.List)-1].(*ast.ReturnStmt); isRet {
							w.guards++
							added++
						}
					}
				}
			}
		}
		if as, ok := st.(*ast.AssignStmt); ok && added > 0 {
			for _, l := range as.Lhs {
				if id, ok := l.(*ast.Ident); ok && s.lookup(id.Name) == w.eID {
					w.guards -= added
					added = 0
				}
			}
		}
	}
	w.guards -= added
}

func (w *walker) stmt(s *scope, st ast.Stmt, prev ast.Stmt) {
	switch x := st.(type) {
	case *ast.AssignStmt:
		w.assign(s, x)
	case *ast.DeclStmt:
		if gd, ok := x.Decl.(*ast.GenDecl); ok {
			for _, sp := range gd.Specs {
				if vs, ok := sp.(*ast.ValueSpec); ok {
					for _, n := range vs.Names {
						w.declare(s, n.Name)
					}
				}
			}
		}
	case *ast.ExprStmt:
		if w.began {
			if nm, line, ok := w.findTxCall(x.X); ok {
				w.out.calls = append(w.out.calls, call{line, nm, "ignored"})
			}
		}
	case *ast.DeferStmt:
		if fl, ok := x.Call.Fun.(*ast.FuncLit); ok && w.began && w.out.deferVar == "" {
			// defer func() { if X != nil { tx.Rollback() } }()
			if len(fl.Body.List) == 1 {
				if is, ok := fl.Body.List[0].(*ast.IfStmt); ok {
					if be, ok := is.Cond.(*ast.BinaryExpr); ok && be.Op == token.NEQ {
						if id, ok := be.X.(*ast.Ident); ok {
							body := w.f.Src(is.Body)
							if strings.Contains(body, w.txName+".Rollback(") {
								w.out.deferVar = id.Name
								w.eID = s.lookup(id.Name)
								w.out.deferOK = w.eID >= 0 && is.Else == nil
							}
						}
					}
				}
			}
		}
	case *ast.IfStmt:
		inner := newScope(s)
		if x.Init != nil {
			w.stmt(inner, x.Init, nil)
		}
		guard := w.condGuardsE(inner, x.Cond)
		// the check right after Begin: `if err != nil { return err }` — no transaction exists on that path
		isBeginCheck := w.afterBeginCheck && w.out.deferVar == ""
		w.afterBeginCheck = false
		if guard {
			w.guards++
		}
		if isBeginCheck {
			w.beginFail(x.Body)
		} else {
			w.stmts(newScope(inner), x.Body.List)
		}
		if guard {
			w.guards--
		}
		switch e := x.Else.(type) {
		case *ast.BlockStmt:
			w.stmts(newScope(inner), e.List)
		case *ast.IfStmt:
			w.stmt(inner, e, nil)
		}
	case *ast.ForStmt:
		inner := newScope(s)
		if x.Init != nil {
			w.stmt(inner, x.Init, nil)
		}
		w.stmts(newScope(inner), x.Body.List)
	case *ast.RangeStmt:
		inner := newScope(s)
		if x.Tok == token.DEFINE {
			if id, ok := x.Key.(*ast.Ident); ok {
				w.declare(inner, id.Name)
			}
			if id, ok := x.Value.(*ast.Ident); ok {
				w.declare(inner, id.Name)
			}
		}
		w.stmts(newScope(inner), x.Body.List)
	case *ast.BlockStmt:
		w.stmts(newScope(s), x.List)
	case *ast.SwitchStmt:
		inner := newScope(s)
		if x.Init != nil {
			w.stmt(inner, x.Init, nil)
		}
		for _, c := range x.Body.List {
			w.stmts(newScope(inner), c.(*ast.CaseClause).Body)
		}
	case *ast.TypeSwitchStmt:
		inner := newScope(s)
		for _, c := range x.Body.List {
			w.stmts(newScope(inner), c.(*ast.CaseClause).Body)
		}
	case *ast.ReturnStmt:
		if !w.began {
			return
		}
		r := ret{line: w.f.Line(x), guarded: w.guards > 0}
		// E assigned a constant error just before: `err = t.ErrNotFound; return err`
		if as, ok := prev.(*ast.AssignStmt); ok && as.Tok == token.ASSIGN && len(as.Lhs) == 1 && len(as.Rhs) == 1 {
			if id, ok := as.Lhs[0].(*ast.Ident); ok && s.lookup(id.Name) == w.eID && w.eID >= 0 {
				if _, isSel := as.Rhs[0].(*ast.SelectorExpr); isSel {
					r.guarded = true
				}
			}
		}
		if len(x.Results) == 0 {
			r.kind = "naked"
		} else {
			last := x.Results[len(x.Results)-1]
			switch e := last.(type) {
			case *ast.Ident:
				if e.Name == "nil" {
					r.kind = "nil"
				} else if s.lookup(e.Name) == w.eID && w.eID >= 0 {
					r.kind = "errE"
				} else {
					r.kind, r.detail = "errShadow", e.Name
				}
			case *ast.SelectorExpr:
				r.kind, r.detail = "other", w.f.Src(e)
			case *ast.CallExpr:
				src := w.f.Src(e.Fun)
				if src == w.txName+".Commit" {
					r.kind = "commit"
				} else if nm, line, ok := w.findTxCall(e); ok {
					w.out.calls = append(w.out.calls, call{line, nm, "returned"})
					r.kind, r.detail = "call", nm
				} else {
					r.kind, r.detail = "call", src
				}
			default:
				r.kind, r.detail = "expr", w.f.Src(last)
			}
		}
		w.out.rets = append(w.out.rets, r)
	case *ast.LabeledStmt:
		w.stmt(s, x.Stmt, prev)
	}
}

// the body of `if err != nil {…}` right after Begin: its returns happen without a transaction
func (w *walker) beginFail(b *ast.BlockStmt) {
	for _, st := range b.List {
		if r, ok := st.(*ast.ReturnStmt); ok {
			w.out.rets = append(w.out.rets, ret{line: w.f.Line(r), kind: "beginfail", guarded: true})
		}
	}
}

// ---- tolerated errors: `if <err> != nil { … }` blocks that can be left without returning a non-nil error

func mentionsErrNotNil(f *astx.File, e ast.Expr) bool {
	found := false
	ast.Inspect(e, func(n ast.Node) bool {
		if be, ok := n.(*ast.BinaryExpr); ok && be.Op == token.NEQ {
			if id, ok := be.X.(*ast.Ident); ok && strings.HasPrefix(strings.ToLower(id.Name), "err") {
				if n2, ok := be.Y.(*ast.Ident); ok && n2.Name == "nil" {
					found = true
				}
			}
		}
		return true
	})
	return found
}

// escapes lists how control can leave `block` other than by returning a non-nil error; chain is the condition path.
func escapes(f *astx.File, block []ast.Stmt, chain string, out *[]string) (terminated bool) {
	for _, st := range block {
		switch x := st.(type) {
		case *ast.ReturnStmt:
			if len(x.Results) > 0 {
				if id, ok := x.Results[len(x.Results)-1].(*ast.Ident); ok && id.Name == "nil" {
					*out = append(*out, chain+" => return nil")
				}
			}
			return true
		case *ast.BranchStmt:
			*out = append(*out, chain+" => "+x.Tok.String())
			return true
		case *ast.IfStmt:
			t1 := escapes(f, x.Body.List, chain+" && "+f.Src(x.Cond), out)
			t2 := false
			switch e := x.Else.(type) {
			case *ast.BlockStmt:
				t2 = escapes(f, e.List, chain+" && !("+f.Src(x.Cond)+")", out)
			case *ast.IfStmt:
				t2 = escapes(f, []ast.Stmt{e}, chain+" && !("+f.Src(x.Cond)+")", out)
			}
			if t1 && t2 {
				return true
			}
		case *ast.ExprStmt:
			if c, ok := x.X.(*ast.CallExpr); ok && f.Src(c.Fun) == "panic" {
				return true
			}
		}
	}
	return false
}

func tolerances(adapter string, f *astx.File) []string {
	var out []string
	for _, d := range f.File.Decls {
		fd, ok := d.(*ast.FuncDecl)
		if !ok || fd.Body == nil {
			continue
		}
		src := f.Src(fd)
		if !strings.Contains(src, "tx ") && !strings.Contains(src, ".Begin") {
			continue
		}
		// only functions that work on a transaction: a `tx` parameter or a Begin call
		hasTx := strings.Contains(f.Src(fd.Body), ".Begin(") || strings.Contains(f.Src(fd.Body), ".BeginTx(") || strings.Contains(f.Src(fd.Body), ".BeginTxx(")
		for _, p := range fd.Type.Params.List {
			for _, n := range p.Names {
				if n.Name == "tx" {
					hasTx = true
				}
			}
		}
		if !hasTx || fd.Name.Name == "CreateDb" || fd.Name.Name == "UpgradeDb" {
			continue
		}
		ast.Inspect(fd.Body, func(n ast.Node) bool {
			if _, isLit := n.(*ast.FuncLit); isLit {
				return false
			}
			if is, ok := n.(*ast.IfStmt); ok && mentionsErrNotNil(f, is.Cond) {
				var esc []string
				term := escapes(f, is.Body.List, f.Src(is.Cond), &esc)
				if !term {
					esc = append(esc, f.Src(is.Cond)+" => falls through")
				}
				for _, e := range esc {
					out = append(out, adapter+"."+fd.Name.Name+": "+e)
				}
			}
			return true
		})
	}
	sort.Strings(out)
	return out
}

func analyse(adapter string, f *astx.File) []*fn {
	var out []*fn
	for _, d := range f.File.Decls {
		fd, ok := d.(*ast.FuncDecl)
		if !ok || fd.Body == nil {
			continue
		}
		src := f.Src(fd.Body)
		if !strings.Contains(src, ".Begin(") && !strings.Contains(src, ".BeginTx(") && !strings.Contains(src, ".BeginTxx(") {
			continue
		}
		w := &walker{f: f, eID: -1, errRes: -1, out: &fn{adapter: adapter, name: fd.Name.Name}}
		top := newScope(nil)
		if fd.Recv != nil {
			for _, p := range fd.Recv.List {
				for _, n := range p.Names {
					w.declare(top, n.Name)
				}
			}
		}
		for _, p := range fd.Type.Params.List {
			for _, n := range p.Names {
				w.declare(top, n.Name)
			}
		}
		if fd.Type.Results != nil {
			for _, p := range fd.Type.Results.List {
				for _, n := range p.Names {
					w.declare(top, n.Name)
				}
			}
		}
		w.stmts(newScope(top), fd.Body.List)
		out = append(out, w.out)
	}
	sort.Slice(out, func(i, j int) bool { return out[i].name < out[j].name })
	return out
}

func main() {
	repo, outPath := os.Args[1], os.Args[2]
	var all []*fn
	var tol []string
	for _, ad := range []string{"mysql", "postgres"} {
		f := astx.Parse(filepath.Join(repo, "server", "db", ad, "adapter.go"))
		all = append(all, analyse(ad, f)...)
		tol = append(tol, tolerances(ad, f)...)
	}
	if len(all) < 20 {
		astx.Fail("only %d transactional functions found; the adapters' shape changed", len(all))
	}
	var b strings.Builder
	b.WriteString("/- GENERATED by /verif/translator/cmd/txskel from server/db/{mysql,postgres}/adapter.go. Do not edit. -/\n")
	b.WriteString("namespace Tinode.Gen.TxSkel\n\n")
	b.WriteString("structure Ret where\n  line : Nat\n  kind : String\n  detail : String\n  guardedE : Bool\n  deriving DecidableEq, Repr\n\n")
	b.WriteString("structure Call where\n  line : Nat\n  callee : String\n  dest : String\n  var : String\n  deriving DecidableEq, Repr\n\n")
	b.WriteString("structure TxFn where\n  adapter : String\n  name : String\n  deferVar : String\n  deferOk : Bool\n  rets : List Ret\n  calls : List Call\n  deriving DecidableEq, Repr\n\n")
	b.WriteString("def fns : List TxFn := [\n")
	for i, f := range all {
		var rs, cs []string
		for _, r := range f.rets {
			rs = append(rs, fmt.Sprintf("⟨%d, %q, %q, %v⟩", r.line, r.kind, r.detail, r.guarded))
		}
		for _, c := range f.calls {
			d, v := splitDest(c.dest)
			if strings.Contains(c.callee, ".db.") && !strings.HasPrefix(c.callee, "tx") {
				d = "pool"
			}
			cs = append(cs, fmt.Sprintf("⟨%d, %q, %q, %q⟩", c.line, c.callee, d, v))
		}
		fmt.Fprintf(&b, "  { adapter := %q, name := %q, deferVar := %q, deferOk := %v,\n    rets := [%s],\n    calls := [%s] }", f.adapter, f.name,
			f.deferVar, f.deferOK, strings.Join(rs, ", "), strings.Join(cs, ", "))
		if i < len(all)-1 {
			b.WriteString(",")
		}
		b.WriteString("\n")
	}
	b.WriteString("]\n\n/-- every way a block guarded by `err != nil` can be left without returning a non-nil error -/\n")
	b.WriteString("def tolerated : List String := " + astx.LeanStrings(tol) + "\n")
	b.WriteString("\nend Tinode.Gen.TxSkel\n")
	if err := os.WriteFile(outPath, []byte(b.String()), 0644); err != nil {
		astx.Fail("%v", err)
	}
}
