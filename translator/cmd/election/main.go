// election: regenerates lean/TinodeVerif/Gen/Election.lean from server/cluster_leader.go and server/cluster.go.
// Emits (1) Lean definitions of the guards and updates of the vote / health / election code, translated from the Go
// expressions, and (2) the canonical statement lists of those code regions (`shape`), which a Lean theorem compares
// with the shape the model was written against.
package main

import (
	"fmt"
	"go/ast"
	"os"
	"path/filepath"
	"strings"

	"veriftr/astx"
)

func main() {
	repo, out := os.Args[1], os.Args[2]
	f := astx.Parse(filepath.Join(repo, "server", "cluster_leader.go"))
	g := astx.Parse(filepath.Join(repo, "server", "cluster.go"))

	run := f.Func("Cluster", "run")
	var sel *ast.SelectStmt
	ast.Inspect(run.Body, func(n ast.Node) bool {
		if s, ok := n.(*ast.SelectStmt); ok && sel == nil {
			sel = s
		}
		return true
	})
	if sel == nil {
		astx.Fail("Cluster.run: no select statement")
	}
	clause := func(prefix string) *ast.CommClause {
		for _, c := range sel.Body.List {
			cc := c.(*ast.CommClause)
			if cc.Comm != nil && strings.Contains(f.Src(cc.Comm), prefix) {
				return cc
			}
		}
		astx.Fail("Cluster.run: no select case receiving from %s", prefix)
		return nil
	}
	firstIf := func(list []ast.Stmt, k int) *ast.IfStmt {
		n := 0
		for _, s := range list {
			if is, ok := s.(*ast.IfStmt); ok {
				if n == k {
					return is
				}
				n++
			}
		}
		astx.Fail("expected an if statement #%d", k)
		return nil
	}

	var defs []string
	def := func(name, params, typ, body string) {
		defs = append(defs, fmt.Sprintf("def %s %s : %s := %s", name, params, typ, body))
	}

	// --- vote handler
	vc := clause("c.fo.electionVote")
	vif := firstIf(vc.Body, 0)
	vnames := map[string]string{"c.fo.term": "myTerm", "vreq.req.Term": "reqTerm"}
	def("voteGuard", "(myTerm reqTerm : Int)", "Bool", f.LeanExpr(vif.Cond, vnames))
	// the term assigned when the vote is granted
	granted := ""
	for _, s := range vif.Body.List {
		if as, ok := s.(*ast.AssignStmt); ok && len(as.Lhs) == 1 && f.Src(as.Lhs[0]) == "c.fo.term" {
			granted = f.LeanExpr(as.Rhs[0], vnames)
		}
	}
	if granted == "" {
		astx.Fail("vote handler: the granting branch does not assign c.fo.term")
	}
	def("voteGrantTerm", "(myTerm reqTerm : Int)", "Int", granted)

	// --- health handler
	hc := clause("c.fo.healthCheck")
	hnames := map[string]string{"c.fo.term": "myTerm", "health.Term": "hTerm"}
	h0 := firstIf(hc.Body, 0)
	def("healthStale", "(hTerm myTerm : Int)", "Bool", f.LeanExpr(h0.Cond, hnames))
	h1 := firstIf(hc.Body, 1)
	def("healthNewer", "(hTerm myTerm : Int)", "Bool", f.LeanExpr(h1.Cond, hnames))

	// --- ticker
	tc := clause("ticker.C")
	var tshape []string
	f.Stmts("", tc.Body, &tshape)

	// --- electLeader
	el := f.Func("Cluster", "electLeader")
	enames := map[string]string{"nodeCount": "nodeCount", "voteCount": "voteCount", "expectVotes": "expect", "c.fo.term": "myTerm"}
	var expectRhs ast.Expr
	var finalIf *ast.IfStmt
	var termStep string
	for _, s := range el.Body.List {
		switch x := s.(type) {
		case *ast.AssignStmt:
			if len(x.Lhs) == 1 && f.Src(x.Lhs[0]) == "expectVotes" {
				expectRhs = x.Rhs[0]
			}
		case *ast.IncDecStmt:
			if f.Src(x.X) == "c.fo.term" {
				if x.Tok.String() == "++" {
					termStep = "(myTerm + 1)"
				} else {
					termStep = "(myTerm - 1)"
				}
			}
		case *ast.IfStmt:
			finalIf = x
		}
	}
	if expectRhs == nil || finalIf == nil || termStep == "" {
		astx.Fail("electLeader: expectVotes assignment, c.fo.term++ or the final if not found")
	}
	def("electTermStep", "(myTerm : Int)", "Int", termStep)
	def("expectVotes", "(nodeCount : Int)", "Int", f.LeanExpr(expectRhs, enames))
	def("electedGuard", "(voteCount expect : Int)", "Bool", f.LeanExpr(finalIf.Cond, enames))
	// reply handling inside the collection loop: `else if c.fo.term < reply.Term` abandons
	var abandon ast.Expr
	ast.Inspect(el.Body, func(n ast.Node) bool {
		if is, ok := n.(*ast.IfStmt); ok && strings.Contains(f.Src(is.Cond), ".Result") {
			if e2, ok := is.Else.(*ast.IfStmt); ok {
				abandon = e2.Cond
			}
		}
		return true
	})
	if abandon == nil {
		astx.Fail("electLeader: reply handling `if ….Result {…} else if …` not found")
	}
	def("abandonGuard", "(myTerm respTerm : Int)", "Bool",
		f.LeanExpr(abandon, map[string]string{"c.fo.term": "myTerm", "call.Reply.(*ClusterVoteResponse).Term": "respTerm"}))

	// --- isPartitioned
	ip := g.Func("Cluster", "isPartitioned")
	var ipRhs ast.Expr
	ast.Inspect(ip.Body, func(n ast.Node) bool {
		if as, ok := n.(*ast.AssignStmt); ok && len(as.Lhs) == 1 && g.Src(as.Lhs[0]) == "result" {
			ipRhs = as.Rhs[0]
		}
		return true
	})
	if ipRhs == nil {
		astx.Fail("isPartitioned: `result := …` not found")
	}
	def("isPartitioned", "(others active : Int)", "Bool",
		g.LeanExpr(ipRhs, map[string]string{"len(c.nodes)": "others", "len(c.fo.activeNodes)": "active"}))

	// --- shapes
	var shape []string
	f.Stmts("vote/", vc.Body, &shape)
	f.Stmts("health/", hc.Body, &shape)
	for _, s := range tshape {
		shape = append(shape, "tick/"+s)
	}
	f.Stmts("elect/", el.Body.List, &shape)

	// signature gates in cluster.go: every `msg.Signature != c.ring.Signature()` test and what its body does
	var gates []string
	for _, d := range g.File.Decls {
		fd, ok := d.(*ast.FuncDecl)
		if !ok || fd.Body == nil {
			continue
		}
		ast.Inspect(fd.Body, func(n ast.Node) bool {
			if is, ok := n.(*ast.IfStmt); ok && strings.Contains(g.Src(is.Cond), "Signature") {
				var body []string
				g.Stmts("", is.Body.List, &body)
				gates = append(gates, fd.Name.Name+": if "+g.Src(is.Cond)+" { "+strings.Join(body, "; ")+" }")
			}
			return true
		})
	}

	var b strings.Builder
	b.WriteString("/- GENERATED by /verif/translator/cmd/election from server/cluster_leader.go and server/cluster.go. Do not edit. -/\n")
	b.WriteString("namespace Tinode.Gen.Election\n\n")
	for _, d := range defs {
		b.WriteString(d + "\n")
	}
	b.WriteString("\ndef shape : List String := " + astx.LeanStrings(shape) + "\n")
	b.WriteString("\ndef signatureGates : List String := " + astx.LeanStrings(gates) + "\n")
	b.WriteString("\nend Tinode.Gen.Election\n")
	if err := os.WriteFile(out, []byte(b.String()), 0644); err != nil {
		astx.Fail("%v", err)
	}
}
