module veriftr

go 1.23
