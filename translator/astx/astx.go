// Package astx: small go/ast helpers shared by the translators. Every translator handles a handful of
// syntactic shapes and fails loudly on anything else (the tie is then reported as broken).
package astx

import (
	"bytes"
	"fmt"
	"go/ast"
	"go/parser"
	"go/printer"
	"go/token"
	"os"
	"strings"
)

type File struct {
	Fset *token.FileSet
	File *ast.File
	Path string
}

func Parse(path string) *File {
	fset := token.NewFileSet()
	f, err := parser.ParseFile(fset, path, nil, parser.ParseComments)
	if err != nil {
		Fail("cannot parse %s: %v", path, err)
	}
	return &File{fset, f, path}
}

func Fail(format string, a ...interface{}) {
	fmt.Fprintf(os.Stderr, "translator: "+format+"\n", a...)
	os.Exit(3)
}

// Src renders a node as canonical one-line Go source.
func (f *File) Src(n ast.Node) string {
	var b bytes.Buffer
	printer.Fprint(&b, f.Fset, n)
	s := b.String()
	s = strings.Join(strings.Fields(s), " ")
	return s
}

func (f *File) Line(n ast.Node) int { return f.Fset.Position(n.Pos()).Line }

// Func finds a function or method by name (receiver type name optional, "" = any).
func (f *File) Func(recv, name string) *ast.FuncDecl {
	for _, d := range f.File.Decls {
		fd, ok := d.(*ast.FuncDecl)
		if !ok || fd.Name.Name != name {
			continue
		}
		if recv == "" {
			return fd
		}
		if fd.Recv != nil && len(fd.Recv.List) == 1 {
			t := fd.Recv.List[0].Type
			if st, ok := t.(*ast.StarExpr); ok {
				t = st.X
			}
			if id, ok := t.(*ast.Ident); ok && id.Name == recv {
				return fd
			}
		}
	}
	Fail("%s: function %s.%s not found", f.Path, recv, name)
	return nil
}

// IsNoise reports statements that do not matter to the model: logging and statistics calls.
func (f *File) IsNoise(s ast.Stmt) bool {
	es, ok := s.(*ast.ExprStmt)
	if !ok {
		return false
	}
	src := f.Src(es.X)
	return strings.HasPrefix(src, "logs.") || strings.HasPrefix(src, "statsSet(") || strings.HasPrefix(src, "statsInc(") ||
		strings.HasPrefix(src, "logError(")
}

// Stmts renders a statement list (noise removed) as canonical strings, nested blocks flattened with a path prefix.
func (f *File) Stmts(prefix string, list []ast.Stmt, out *[]string) {
	for _, s := range list {
		if f.IsNoise(s) {
			continue
		}
		switch x := s.(type) {
		case *ast.IfStmt:
			f.ifStmt(prefix, x, out)
		case *ast.BlockStmt:
			f.Stmts(prefix, x.List, out)
		case *ast.ForStmt:
			hdr := "for "
			if x.Init != nil {
				hdr += f.Src(x.Init)
			}
			hdr += "; "
			if x.Cond != nil {
				hdr += f.Src(x.Cond)
			}
			hdr += "; "
			if x.Post != nil {
				hdr += f.Src(x.Post)
			}
			*out = append(*out, prefix+hdr)
			f.Stmts(prefix+"for/", x.Body.List, out)
		case *ast.RangeStmt:
			*out = append(*out, prefix+"range "+f.Src(x.X))
			f.Stmts(prefix+"range/", x.Body.List, out)
		case *ast.SelectStmt:
			for _, c := range x.Body.List {
				cc := c.(*ast.CommClause)
				name := "default"
				if cc.Comm != nil {
					name = f.Src(cc.Comm)
				}
				*out = append(*out, prefix+"select-case "+name)
				f.Stmts(prefix+"case["+name+"]/", cc.Body, out)
			}
		default:
			*out = append(*out, prefix+f.Src(s))
		}
	}
}

func (f *File) ifStmt(prefix string, x *ast.IfStmt, out *[]string) {
	cond := f.Src(x.Cond)
	if x.Init != nil {
		cond = f.Src(x.Init) + "; " + cond
	}
	*out = append(*out, prefix+"if "+cond)
	f.Stmts(prefix+"then/", x.Body.List, out)
	switch e := x.Else.(type) {
	case nil:
	case *ast.BlockStmt:
		*out = append(*out, prefix+"else")
		f.Stmts(prefix+"else/", e.List, out)
	case *ast.IfStmt:
		*out = append(*out, prefix+"else")
		f.ifStmt(prefix+"else/", e, out)
	}
}

// LeanExpr translates an integer/boolean Go expression to Lean over Int, renaming operand expressions via names
// (canonical source text -> Lean variable). Unknown operands or operators are fatal.
func (f *File) LeanExpr(e ast.Expr, names map[string]string) string {
	src := f.Src(e)
	if v, ok := names[src]; ok {
		return v
	}
	switch x := e.(type) {
	case *ast.ParenExpr:
		return "(" + f.LeanExpr(x.X, names) + ")"
	case *ast.BasicLit:
		if x.Kind == token.INT {
			return "(" + x.Value + " : Int)"
		}
	case *ast.BinaryExpr:
		l, r := f.LeanExpr(x.X, names), f.LeanExpr(x.Y, names)
		switch x.Op {
		case token.LSS:
			return "decide (" + l + " < " + r + ")"
		case token.GTR:
			return "decide (" + l + " > " + r + ")"
		case token.LEQ:
			return "decide (" + l + " ≤ " + r + ")"
		case token.GEQ:
			return "decide (" + l + " ≥ " + r + ")"
		case token.EQL:
			return "decide (" + l + " = " + r + ")"
		case token.NEQ:
			return "decide (" + l + " ≠ " + r + ")"
		case token.ADD:
			return "(" + l + " + " + r + ")"
		case token.SUB:
			return "(" + l + " - " + r + ")"
		case token.MUL:
			return "(" + l + " * " + r + ")"
		case token.QUO:
			// Go integer division truncates toward zero: Int.tdiv
			return "(Int.tdiv " + l + " " + r + ")"
		case token.SHR:
			if lit, ok := x.Y.(*ast.BasicLit); ok && lit.Kind == token.INT {
				// arithmetic shift of an int = floor division by 2^k
				return "(" + l + " / (2 ^ " + lit.Value + " : Int))"
			}
		case token.LAND:
			return "(" + l + " && " + r + ")"
		case token.LOR:
			return "(" + l + " || " + r + ")"
		}
	}
	Fail("%s:%d: expression shape not handled by the translator: %s", f.Path, f.Line(e), src)
	return ""
}

// LeanStrings renders a []string as a Lean list literal.
func LeanStrings(xs []string) string {
	var b strings.Builder
	b.WriteString("[\n")
	for i, s := range xs {
		b.WriteString("  " + fmt.Sprintf("%q", s))
		if i < len(xs)-1 {
			b.WriteString(",")
		}
		b.WriteString("\n")
	}
	b.WriteString("]")
	return b.String()
}
