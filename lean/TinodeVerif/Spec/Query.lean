import TinodeVerif.Model.Search
/-
The query language as documented (docs/API.md "Query Language") plus the quoting rule of the property text:
terms are separated by runs of spaces, tabs and commas; a term is an OR term iff the separator run before or
after it contains a comma, otherwise an AND term; a quoted term is taken literally; malformed = unterminated
quote, two commas in one separator run, a quote glued to a word or to another quoted string.
Two phases: `lexItems` (declarative scanner: whole separator runs, whole words, whole quoted strings), then `classify`.
-/
namespace Tinode.Spec.Query
open Tinode.Search

inductive Item
  | sep (comma : Bool)
  | term (val : List Char)
  deriving DecidableEq, Repr

def isSepChar (c : Char) : Bool := c = ' ' || c = '\t' || c = ','
def isWordChar (c : Char) : Bool := !isSepChar c && c ≠ '"'

/-- scanner; `none` = malformed -/
def lexItems : Nat → List Char → Option (List Item)
  | 0, _ => some []
  | _ + 1, [] => some []
  | fuel + 1, c :: cs =>
    if isSepChar c then
      let run := (c :: cs).takeWhile isSepChar
      let rest := (c :: cs).dropWhile isSepChar
      if (run.filter (· = ',')).length ≥ 2 then none
      else (lexItems fuel rest).map (Item.sep ((run.filter (· = ',')).length = 1) :: ·)
    else if c = '"' then
      let body := cs.takeWhile (· ≠ '"')
      match cs.dropWhile (· ≠ '"') with
      | [] => none                                        -- unterminated
      | _ :: rest =>
        match rest with
        | [] => some [Item.term body]
        | d :: _ => if isSepChar d then (lexItems fuel rest).map (Item.term body :: ·) else none   -- "a"b  "a""b"
    else
      let word := (c :: cs).takeWhile isWordChar
      let rest := (c :: cs).dropWhile isWordChar
      if rest.head? = some '"' then none                 -- a"b
      else (lexItems fuel rest).map (Item.term word :: ·)

/-- the token of a term (none when it is empty after unquoting or not a valid tag) -/
def mkTok (rewrite : List Char → List Char) (v : List Char) (isOr : Bool) : List Tok :=
  let val := v.map lower
  let rw := rewrite val
  if val = [] ∨ rw = [] then []
  else [{ op := if isOr then Lex.or else Lex.and, val := val, rew := if rw ≠ val then rw else [] }]

/-- OR iff a neighbouring separator run contains a comma -/
def classify (rewrite : List Char → List Char) : Bool → List Item → List Tok
  | _, [] => []
  | _, Item.sep comma :: rest => classify rewrite comma rest
  | before, Item.term v :: rest =>
    let after : Bool := match rest with
      | Item.sep comma :: _ => comma
      | _ => false
    mkTok rewrite v (before || after) ++ classify rewrite false rest

def specParse (rewrite : List Char → List Char) (query : List Char) :
    Option (List (List (List Char)) × List (List Char)) :=
  let q := trimSpace query
  (lexItems (q.length + 1) q).map (fun items =>
    let toks := classify rewrite false items
    (groupAnd toks, groupOr toks))

end Tinode.Spec.Query
