import TinodeVerif.Model.Election
namespace Tinode.Election
open Tinode.Gen.Election

/-! ### facts about the regenerated guards — the only place the proofs look inside `Gen.Election` -/
theorem voteGuard_iff (a b : Int) : voteGuard a b = true ↔ a < b := by simp [voteGuard]
theorem voteGrantTerm_eq (a b : Int) : voteGrantTerm a b = b := rfl
theorem electTermStep_gt (a : Int) : a < electTermStep a := by simp only [electTermStep]; omega
theorem healthStale_iff (h m : Int) : healthStale h m = true ↔ h < m := by simp [healthStale]
theorem healthNewer_iff (h m : Int) : healthNewer h m = true ↔ m < h := by simp [healthNewer]
theorem elected_majority (k n : Nat) (h : electedGuard (k : Int) (expectVotes ((n : Int) - 1)) = true) : n < 2 * k := by
  simp [electedGuard, expectVotes] at h
  omega
theorem partitioned_iff (n a : Nat) (hn : 0 < n) : isPartitioned ((n : Int) - 1) (a : Int) = true ↔ 2 * a ≤ n := by
  simp only [isPartitioned, decide_eq_true_eq]
  have : ((n : Int) - 1 + 1) = (n : Int) := by omega
  rw [this, Int.tdiv_eq_ediv_of_nonneg (by omega)]
  omega

theorem setNode_same (w : World) (i : Nat) (x : Node) : (setNode w i x).nodes i = x := by simp [setNode]
theorem setNode_other (w : World) (i k : Nat) (x : Node) (h : k ≠ i) : (setNode w i x).nodes k = w.nodes k := by
  simp [setNode, h]
@[simp] theorem setNode_n (w : World) (i : Nat) (x : Node) : (setNode w i x).n = w.n := rfl
@[simp] theorem setNode_net (w : World) (i : Nat) (x : Node) : (setNode w i x).net = w.net := rfl
@[simp] theorem setNode_granted (w : World) (i : Nat) (x : Node) : (setNode w i x).granted = w.granted := rfl

theorem mem_others (n i j : Nat) : j ∈ others n i ↔ j < n ∧ j ≠ i := by simp [others]

structure Inv (w : World) : Prop where
  gterm : ∀ v t c, (v, t, c) ∈ w.granted → t ≤ (w.nodes v).term
  gfun : ∀ v t c c', (v, t, c) ∈ w.granted → (v, t, c') ∈ w.granted → c = c'
  glt : ∀ v t c, (v, t, c) ∈ w.granted → v < w.n
  resp : ∀ v c t vt, Msg.voteResp v c t true vt ∈ w.net → (v, t, c) ∈ w.granted
  hne : ∀ l j t, Msg.health l j t ∈ w.net → l ≠ j
  eln : ∀ c vs, (w.nodes c).electing = some vs → (w.nodes c).leader = none
  voters : ∀ c vs, (w.nodes c).electing = some vs → vs.Nodup ∧ ∀ v ∈ vs, (v, (w.nodes c).term, c) ∈ w.granted
  lead : ∀ i, (w.nodes i).leader = some i → (w.nodes i).electing = none →
    ∃ vs : List Nat, vs.Nodup ∧ (∀ v ∈ vs, (v, (w.nodes i).term, i) ∈ w.granted) ∧
      electedGuard (vs.length : Int) (expectVotes ((w.n : Int) - 1)) = true

theorem inv_init (n : Nat) : Inv (init n) := by
  constructor <;> simp [init]

theorem mem_eraseIdx {α} (l : List α) (k : Nat) (x : α) (h : x ∈ l.eraseIdx k) : x ∈ l :=
  (List.eraseIdx_sublist l k).subset h

/-- a node update that keeps or raises the term, clears or keeps `electing = none`, and does not make the node its own
leader preserves the invariant when `granted` and the positive replies in flight do not change -/
theorem inv_setNode_plain (w : World) (hw : Inv w) (j : Nat) (x : Node) (net' : List Msg)
    (hterm : (w.nodes j).term ≤ x.term) (hel : x.electing = none) (hld : x.leader ≠ some j)
    (hnet_resp : ∀ v c t vt, Msg.voteResp v c t true vt ∈ net' → Msg.voteResp v c t true vt ∈ w.net)
    (hnet_h : ∀ l k t, Msg.health l k t ∈ net' → Msg.health l k t ∈ w.net) :
    Inv { setNode w j x with net := net' } := by
  constructor
  · intro v t c h
    by_cases hv : v = j
    · subst hv; simp only [setNode_same]; exact Int.le_trans (hw.gterm _ _ _ h) hterm
    · show t ≤ ((setNode w j x).nodes v).term
      rw [setNode_other _ _ _ _ hv]; exact hw.gterm _ _ _ h
  · exact hw.gfun
  · exact hw.glt
  · intro v c t vt h; exact hw.resp _ _ _ _ (hnet_resp _ _ _ _ h)
  · intro l k t h; exact hw.hne _ _ _ (hnet_h _ _ _ h)
  · intro c vs h
    by_cases hc : c = j
    · subst hc; simp only [setNode_same] at h; rw [hel] at h; exact absurd h (by simp)
    · have h' : ((setNode w j x).nodes c).electing = some vs := h
      rw [setNode_other _ _ _ _ hc] at h'
      show ((setNode w j x).nodes c).leader = none
      rw [setNode_other _ _ _ _ hc]; exact hw.eln _ _ h'
  · intro c vs h
    by_cases hc : c = j
    · subst hc; simp only [setNode_same] at h; rw [hel] at h; exact absurd h (by simp)
    · have h' : ((setNode w j x).nodes c).electing = some vs := h
      rw [setNode_other _ _ _ _ hc] at h'
      show vs.Nodup ∧ ∀ v ∈ vs, (v, ((setNode w j x).nodes c).term, c) ∈ w.granted
      rw [setNode_other _ _ _ _ hc]; exact hw.voters _ _ h'
  · intro i h1 h2
    by_cases hi : i = j
    · subst hi; simp only [setNode_same] at h1; exact absurd h1 hld
    · have h1' : ((setNode w j x).nodes i).leader = some i := h1
      have h2' : ((setNode w j x).nodes i).electing = none := h2
      rw [setNode_other _ _ _ _ hi] at h1' h2'
      show ∃ vs : List Nat, vs.Nodup ∧ (∀ v ∈ vs, (v, ((setNode w j x).nodes i).term, i) ∈ w.granted) ∧ _
      rw [setNode_other _ _ _ _ hi]; exact hw.lead _ h1' h2'

/-- changing only the network (no new positive reply, no new health message from a node to itself) -/
theorem inv_net (w : World) (hw : Inv w) (net' : List Msg)
    (hnet_resp : ∀ v c t vt, Msg.voteResp v c t true vt ∈ net' → Msg.voteResp v c t true vt ∈ w.net)
    (hnet_h : ∀ l k t, Msg.health l k t ∈ net' → l ≠ k) :
    Inv { w with net := net' } := by
  constructor
  · exact hw.gterm
  · exact hw.gfun
  · exact hw.glt
  · intro v c t vt h; exact hw.resp _ _ _ _ (hnet_resp _ _ _ _ h)
  · exact hnet_h
  · exact hw.eln
  · exact hw.voters
  · exact hw.lead


theorem inv_timeout (w : World) (hw : Inv w) (i : Nat) (w' : World) (h : step w (.timeout i) = some w') : Inv w' := by
  simp only [step] at h
  split at h
  · rename_i hen
    obtain ⟨hin, hel, hld⟩ := hen
    simp only [Option.some.injEq] at h
    subst h
    have hgt := electTermStep_gt (w.nodes i).term
    constructor
    · intro v t c hm
      simp only [List.mem_cons, Prod.mk.injEq] at hm
      rcases hm with ⟨rfl, rfl, rfl⟩ | hm
      · simp [setNode_same]
      · by_cases hv : v = i
        · subst hv; simp only [setNode_same]; have := hw.gterm _ _ _ hm; omega
        · show t ≤ ((setNode w i _).nodes v).term
          rw [setNode_other _ _ _ _ hv]; exact hw.gterm _ _ _ hm
    · intro v t c c' h1 h2
      simp only [List.mem_cons, Prod.mk.injEq] at h1 h2
      rcases h1 with ⟨rfl, rfl, rfl⟩ | h1 <;> rcases h2 with ⟨h2a, h2b, h2c⟩ | h2
      · exact h2c.symm
      · have := hw.gterm _ _ _ h2; omega
      · subst h2a; subst h2b; have := hw.gterm _ _ _ h1; omega
      · exact hw.gfun _ _ _ _ h1 h2
    · intro v t c hm
      simp only [List.mem_cons, Prod.mk.injEq] at hm
      rcases hm with ⟨rfl, _, _⟩ | hm
      · exact hin
      · exact hw.glt _ _ _ hm
    · intro v c t vt hm
      simp only [List.mem_append, List.mem_map] at hm
      rcases hm with hm | ⟨j, _, hj⟩
      · exact List.mem_cons_of_mem _ (hw.resp _ _ _ _ hm)
      · cases hj
    · intro l j t hm
      simp only [List.mem_append, List.mem_map] at hm
      rcases hm with hm | ⟨j', _, hj⟩
      · exact hw.hne _ _ _ hm
      · cases hj
    · intro c vs hc
      by_cases hci : c = i
      · subst hci; simp [setNode_same]
      · have hc' : ((setNode w i _).nodes c).electing = some vs := hc
        rw [setNode_other _ _ _ _ hci] at hc'
        show ((setNode w i _).nodes c).leader = none
        rw [setNode_other _ _ _ _ hci]; exact hw.eln _ _ hc'
    · intro c vs hc
      by_cases hci : c = i
      · subst hci
        simp only [setNode_same, Option.some.injEq] at hc
        subst hc
        simp [setNode_same]
      · have hc' : ((setNode w i _).nodes c).electing = some vs := hc
        rw [setNode_other _ _ _ _ hci] at hc'
        have := hw.voters _ _ hc'
        refine ⟨this.1, ?_⟩
        intro v hv
        show (v, ((setNode w i _).nodes c).term, c) ∈ _ :: w.granted
        rw [setNode_other _ _ _ _ hci]
        exact List.mem_cons_of_mem _ (this.2 v hv)
    · intro k h1 h2
      by_cases hki : k = i
      · subst hki; simp [setNode_same] at h1
      · have h1' : ((setNode w i _).nodes k).leader = some k := h1
        have h2' : ((setNode w i _).nodes k).electing = none := h2
        rw [setNode_other _ _ _ _ hki] at h1' h2'
        obtain ⟨vs, a, b, c⟩ := hw.lead _ h1' h2'
        refine ⟨vs, a, ?_, c⟩
        intro v hv
        show (v, ((setNode w i _).nodes k).term, k) ∈ _ :: w.granted
        rw [setNode_other _ _ _ _ hki]
        exact List.mem_cons_of_mem _ (b v hv)
  · simp at h

theorem inv_drop (w : World) (hw : Inv w) (k : Nat) (w' : World) (h : step w (.drop k) = some w') : Inv w' := by
  simp only [step] at h
  split at h
  · simp only [Option.some.injEq] at h; subst h
    exact inv_net w hw _ (fun _ _ _ _ hm => mem_eraseIdx _ _ _ hm) (fun _ _ _ hm => hw.hne _ _ _ (mem_eraseIdx _ _ _ hm))
  · simp at h

theorem inv_heartbeat (w : World) (hw : Inv w) (i : Nat) (w' : World) (h : step w (.heartbeat i) = some w') : Inv w' := by
  simp only [step] at h
  split at h
  · simp only [Option.some.injEq] at h; subst h
    apply inv_net w hw
    · intro v c t vt hm
      simp only [List.mem_append, List.mem_map] at hm
      rcases hm with hm | ⟨j, _, hj⟩
      · exact hm
      · cases hj
    · intro l k t hm
      simp only [List.mem_append, List.mem_map] at hm
      rcases hm with hm | ⟨j, hj1, hj⟩
      · exact hw.hne _ _ _ hm
      · cases hj
        exact fun e => ((mem_others _ _ _).mp hj1).2 e.symm
  · simp at h

theorem inv_finish (w : World) (hw : Inv w) (i : Nat) (w' : World) (h : step w (.finish i) = some w') : Inv w' := by
  simp only [step] at h
  cases he : (w.nodes i).electing with
  | none => simp [he] at h
  | some vs =>
    simp only [he] at h
    have hvs := hw.voters i vs he
    have hln := hw.eln i vs he
    split at h
    · rename_i hg
      simp only [Option.some.injEq] at h; subst h
      -- elected: like a plain update except for the `lead` clause of node i
      constructor
      · intro v t c hm
        by_cases hv : v = i
        · subst hv; simp only [setNode_same]; exact hw.gterm _ _ _ hm
        · show t ≤ ((setNode w i _).nodes v).term
          rw [setNode_other _ _ _ _ hv]; exact hw.gterm _ _ _ hm
      · exact hw.gfun
      · exact hw.glt
      · exact hw.resp
      · exact hw.hne
      · intro c vs' hc
        by_cases hci : c = i
        · subst hci; simp [setNode_same] at hc
        · have hc' : ((setNode w i _).nodes c).electing = some vs' := hc
          rw [setNode_other _ _ _ _ hci] at hc'
          show ((setNode w i _).nodes c).leader = none
          rw [setNode_other _ _ _ _ hci]; exact hw.eln _ _ hc'
      · intro c vs' hc
        by_cases hci : c = i
        · subst hci; simp [setNode_same] at hc
        · have hc' : ((setNode w i _).nodes c).electing = some vs' := hc
          rw [setNode_other _ _ _ _ hci] at hc'
          show vs'.Nodup ∧ ∀ v ∈ vs', (v, ((setNode w i _).nodes c).term, c) ∈ w.granted
          rw [setNode_other _ _ _ _ hci]; exact hw.voters _ _ hc'
      · intro k h1 h2
        by_cases hki : k = i
        · subst hki
          simp only [setNode_same]
          exact ⟨vs, hvs.1, hvs.2, hg⟩
        · have h1' : ((setNode w i _).nodes k).leader = some k := h1
          have h2' : ((setNode w i _).nodes k).electing = none := h2
          rw [setNode_other _ _ _ _ hki] at h1' h2'
          show ∃ vs : List Nat, vs.Nodup ∧ (∀ v ∈ vs, (v, ((setNode w i _).nodes k).term, k) ∈ w.granted) ∧ _
          rw [setNode_other _ _ _ _ hki]; exact hw.lead _ h1' h2'
    · simp only [Option.some.injEq] at h; subst h
      have := inv_setNode_plain w hw i { w.nodes i with electing := none } w.net (Int.le_refl _) rfl
        (by simp [hln]) (fun _ _ _ _ hm => hm) (fun _ _ _ hm => hm)
      exact this


theorem getElem?_mem {α} (l : List α) (k : Nat) (x : α) (h : l[k]? = some x) : x ∈ l :=
  List.mem_of_getElem? h

theorem inv_deliver (w : World) (hw : Inv w) (k : Nat) (w' : World) (h : step w (.deliver k) = some w') : Inv w' := by
  simp only [step] at h
  cases hm : w.net[k]? with
  | none => simp [hm] at h
  | some m =>
    have hmem := getElem?_mem _ _ _ hm
    simp only [hm] at h
    cases m with
    | voteReq c j t =>
      simp only [] at h
      split at h
      · simp at h
      · rename_i hen
        have hel : (w.nodes j).electing = none := by
          cases he : (w.nodes j).electing with
          | none => rfl
          | some vs => exact absurd (Or.inl (by simp [he])) hen
        have hjn : j < w.n := by
          have : ¬ ¬ j < w.n := fun hh => hen (Or.inr hh)
          omega
        split at h
        · rename_i hg
          have hlt := (voteGuard_iff _ _).mp hg
          simp only [Option.some.injEq, voteGrantTerm_eq] at h
          subst h
          constructor
          · intro v t' c' hm'
            simp only [List.mem_cons, Prod.mk.injEq] at hm'
            rcases hm' with ⟨rfl, rfl, rfl⟩ | hm'
            · simp [setNode_same]
            · by_cases hv : v = j
              · subst hv; simp only [setNode_same]; have := hw.gterm _ _ _ hm'; omega
              · show t' ≤ ((setNode _ j _).nodes v).term
                rw [setNode_other _ _ _ _ hv]; exact hw.gterm _ _ _ hm'
          · intro v t' c1 c2 h1 h2
            simp only [List.mem_cons, Prod.mk.injEq] at h1 h2
            rcases h1 with ⟨rfl, rfl, rfl⟩ | h1 <;> rcases h2 with ⟨h2a, h2b, h2c⟩ | h2
            · exact h2c.symm
            · have := hw.gterm _ _ _ h2; omega
            · subst h2a; subst h2b; have := hw.gterm _ _ _ h1; omega
            · exact hw.gfun _ _ _ _ h1 h2
          · intro v t' c' hm'
            simp only [List.mem_cons, Prod.mk.injEq] at hm'
            rcases hm' with ⟨rfl, _, _⟩ | hm'
            · exact hjn
            · exact hw.glt _ _ _ hm'
          · intro v c' t' vt hm'
            simp only [List.mem_append, List.mem_singleton] at hm'
            rcases hm' with hm' | hm'
            · exact List.mem_cons_of_mem _ (hw.resp _ _ _ _ (mem_eraseIdx _ _ _ hm'))
            · cases hm'; exact List.mem_cons_self
          · intro l j' t' hm'
            simp only [List.mem_append, List.mem_singleton] at hm'
            rcases hm' with hm' | hm'
            · exact hw.hne _ _ _ (mem_eraseIdx _ _ _ hm')
            · cases hm'
          · intro c' vs hc
            by_cases hci : c' = j
            · subst hci; simp [setNode_same] at hc
            · have hc' : ((setNode _ j _).nodes c').electing = some vs := hc
              rw [setNode_other _ _ _ _ hci] at hc'
              show ((setNode _ j _).nodes c').leader = none
              rw [setNode_other _ _ _ _ hci]; exact hw.eln _ _ hc'
          · intro c' vs hc
            by_cases hci : c' = j
            · subst hci; simp [setNode_same] at hc
            · have hc' : ((setNode _ j _).nodes c').electing = some vs := hc
              rw [setNode_other _ _ _ _ hci] at hc'
              have := hw.voters _ _ hc'
              refine ⟨this.1, ?_⟩
              intro v hv
              show (v, ((setNode _ j _).nodes c').term, c') ∈ _ :: w.granted
              rw [setNode_other _ _ _ _ hci]
              exact List.mem_cons_of_mem _ (this.2 v hv)
          · intro i h1 h2
            by_cases hki : i = j
            · subst hki; simp [setNode_same] at h1
            · have h1' : ((setNode _ j _).nodes i).leader = some i := h1
              have h2' : ((setNode _ j _).nodes i).electing = none := h2
              rw [setNode_other _ _ _ _ hki] at h1' h2'
              obtain ⟨vs, a, b, c0⟩ := hw.lead _ h1' h2'
              refine ⟨vs, a, ?_, c0⟩
              intro v hv
              show (v, ((setNode _ j _).nodes i).term, i) ∈ _ :: w.granted
              rw [setNode_other _ _ _ _ hki]
              exact List.mem_cons_of_mem _ (b v hv)
        · simp only [Option.some.injEq] at h; subst h
          apply inv_net w hw
          · intro v c' t' vt hm'
            simp only [List.mem_append, List.mem_singleton] at hm'
            rcases hm' with hm' | hm'
            · exact mem_eraseIdx _ _ _ hm'
            · cases hm'
          · intro l j' t' hm'
            simp only [List.mem_append, List.mem_singleton] at hm'
            rcases hm' with hm' | hm'
            · exact hw.hne _ _ _ (mem_eraseIdx _ _ _ hm')
            · cases hm'
    | voteResp v c t yes vt =>
      have hnet : Inv { w with net := w.net.eraseIdx k } :=
        inv_net w hw _ (fun _ _ _ _ hm' => mem_eraseIdx _ _ _ hm') (fun _ _ _ hm' => hw.hne _ _ _ (mem_eraseIdx _ _ _ hm'))
      simp only [] at h
      cases he : (w.nodes c).electing with
      | none => simp only [he, Option.some.injEq] at h; subst h; exact hnet
      | some vs =>
        simp only [he] at h
        have hvs := hw.voters c vs he
        have hln := hw.eln c vs he
        split at h
        · rename_i hterm
          split at h
          · rename_i hyes
            subst hyes
            simp only [Option.some.injEq] at h; subst h
            have hg : (v, (w.nodes c).term, c) ∈ w.granted := by
              rw [hterm]; exact hw.resp _ _ _ _ hmem
            constructor
            · intro v' t' c' hm'
              by_cases hv : v' = c
              · subst hv; simp only [setNode_same]; exact hw.gterm _ _ _ hm'
              · show t' ≤ ((setNode _ c _).nodes v').term
                rw [setNode_other _ _ _ _ hv]; exact hw.gterm _ _ _ hm'
            · exact hw.gfun
            · exact hw.glt
            · exact hnet.resp
            · exact hnet.hne
            · intro c' vs' hc
              by_cases hci : c' = c
              · subst hci; simp only [setNode_same]; exact hln
              · have hc' : ((setNode _ c _).nodes c').electing = some vs' := hc
                rw [setNode_other _ _ _ _ hci] at hc'
                show ((setNode _ c _).nodes c').leader = none
                rw [setNode_other _ _ _ _ hci]; exact hw.eln _ _ hc'
            · intro c' vs' hc
              by_cases hci : c' = c
              · subst hci
                simp only [setNode_same, Option.some.injEq] at hc
                subst hc
                by_cases hvin : v ∈ vs
                · simp only [hvin, if_true, setNode_same, setNode_granted]; exact hvs
                · simp only [hvin, if_false, setNode_same, setNode_granted]
                  refine ⟨List.nodup_cons.mpr ⟨hvin, hvs.1⟩, ?_⟩
                  intro x hx
                  rcases List.mem_cons.mp hx with e | e
                  · subst e; exact hg
                  · exact hvs.2 x e
              · have hc' : ((setNode _ c _).nodes c').electing = some vs' := hc
                rw [setNode_other _ _ _ _ hci] at hc'
                show vs'.Nodup ∧ ∀ x ∈ vs', (x, ((setNode _ c _).nodes c').term, c') ∈ w.granted
                rw [setNode_other _ _ _ _ hci]; exact hw.voters _ _ hc'
            · intro i h1 h2
              by_cases hki : i = c
              · subst hki; simp [setNode_same] at h2
              · have h1' : ((setNode _ c _).nodes i).leader = some i := h1
                have h2' : ((setNode _ c _).nodes i).electing = none := h2
                rw [setNode_other _ _ _ _ hki] at h1' h2'
                show ∃ vs : List Nat, vs.Nodup ∧ (∀ x ∈ vs, (x, ((setNode _ c _).nodes i).term, i) ∈ w.granted) ∧ _
                rw [setNode_other _ _ _ _ hki]; exact hw.lead _ h1' h2'
          · split at h
            · simp only [Option.some.injEq] at h; subst h
              exact inv_setNode_plain w hw c { w.nodes c with electing := none } _ (Int.le_refl _) rfl
                (by simp [hln]) (fun _ _ _ _ hm' => mem_eraseIdx _ _ _ hm') (fun _ _ _ hm' => mem_eraseIdx _ _ _ hm')
            · simp only [Option.some.injEq] at h; subst h; exact hnet
        · simp only [Option.some.injEq] at h; subst h; exact hnet
    | health l j t =>
      have hnet : Inv { w with net := w.net.eraseIdx k } :=
        inv_net w hw _ (fun _ _ _ _ hm' => mem_eraseIdx _ _ _ hm') (fun _ _ _ hm' => hw.hne _ _ _ (mem_eraseIdx _ _ _ hm'))
      have hlj := hw.hne _ _ _ hmem
      simp only [] at h
      split at h
      · simp at h
      · rename_i hen
        have hel : (w.nodes j).electing = none := by
          cases he : (w.nodes j).electing with
          | none => rfl
          | some vs => exact absurd (by simp [he]) hen
        split at h
        · simp only [Option.some.injEq] at h; subst h; exact hnet
        · split at h
          · rename_i hnew
            have := (healthNewer_iff _ _).mp hnew
            simp only [Option.some.injEq] at h; subst h
            exact inv_setNode_plain w hw j { w.nodes j with term := t, leader := some l } _ (by simp; omega) hel
              (by simp; exact hlj) (fun _ _ _ _ hm' => mem_eraseIdx _ _ _ hm') (fun _ _ _ hm' => mem_eraseIdx _ _ _ hm')
          · split at h
            · simp only [Option.some.injEq] at h; subst h
              exact inv_setNode_plain w hw j { w.nodes j with leader := some l } _ (Int.le_refl _) hel
                (by simp; exact hlj) (fun _ _ _ _ hm' => mem_eraseIdx _ _ _ hm') (fun _ _ _ hm' => mem_eraseIdx _ _ _ hm')
            · simp only [Option.some.injEq] at h; subst h; exact hnet

theorem inv_step (w : World) (hw : Inv w) (a : Act) (w' : World) (h : step w a = some w') : Inv w' := by
  cases a with
  | timeout i => exact inv_timeout w hw i w' h
  | deliver k => exact inv_deliver w hw k w' h
  | drop k => exact inv_drop w hw k w' h
  | finish i => exact inv_finish w hw i w' h
  | heartbeat i => exact inv_heartbeat w hw i w' h

theorem inv_run (w : World) (hw : Inv w) (acts : List Act) : Inv (run w acts) := by
  induction acts generalizing w with
  | nil => exact hw
  | cons a as ih =>
    simp only [run]
    cases h : step w a with
    | none => simpa using ih w hw
    | some w' => simpa using ih w' (inv_step w hw a w' h)

theorem step_n (w : World) (a : Act) (w' : World) (h : step w a = some w') : w'.n = w.n := by
  cases a with
  | timeout i =>
    simp only [step] at h; split at h
    · simp only [Option.some.injEq] at h; subst h; rfl
    · simp at h
  | drop k =>
    simp only [step] at h; split at h
    · simp only [Option.some.injEq] at h; subst h; rfl
    · simp at h
  | heartbeat i =>
    simp only [step] at h; split at h
    · simp only [Option.some.injEq] at h; subst h; rfl
    · simp at h
  | finish i =>
    simp only [step] at h
    cases he : (w.nodes i).electing with
    | none => simp [he] at h
    | some vs =>
      simp only [he] at h
      split at h <;> (simp only [Option.some.injEq] at h; subst h; rfl)
  | deliver k =>
    simp only [step] at h
    cases hm : w.net[k]? with
    | none => simp [hm] at h
    | some m =>
      simp only [hm] at h
      cases m with
      | voteReq c j t =>
        simp only [] at h
        split at h
        · simp at h
        · split at h <;> (simp only [Option.some.injEq] at h; subst h; rfl)
      | voteResp v c t yes vt =>
        simp only [] at h
        cases he : (w.nodes c).electing with
        | none => simp only [he, Option.some.injEq] at h; subst h; rfl
        | some vs =>
          simp only [he] at h
          split at h
          · split at h
            · simp only [Option.some.injEq] at h; subst h; rfl
            · split at h <;> (simp only [Option.some.injEq] at h; subst h; rfl)
          · simp only [Option.some.injEq] at h; subst h; rfl
      | health l j t =>
        simp only [] at h
        split at h
        · simp at h
        · split at h
          · simp only [Option.some.injEq] at h; subst h; rfl
          · split at h
            · simp only [Option.some.injEq] at h; subst h; rfl
            · split at h <;> (simp only [Option.some.injEq] at h; subst h; rfl)

theorem run_n (w : World) (acts : List Act) : (run w acts).n = w.n := by
  induction acts generalizing w with
  | nil => rfl
  | cons a as ih =>
    simp only [run]
    cases h : step w a with
    | none => simpa using ih w
    | some w' => simp only [Option.getD_some]; rw [ih w', step_n w a w' h]

end Tinode.Election
