import TinodeVerif.Proofs.Acs
/-! Permission predicates as single bits: `isX m = m.getLsbD k`, and how they distribute over `&&&`, `|||`, masking. -/
namespace Tinode.Acs

theorem bit_test (m : Mode) (k : Nat) (hk : k < 32) (b : Mode) (hb : b = 1#32 <<< k) (hne : b ≠ 0) :
    decide (m &&& b ≠ 0) = m.getLsbD k := by
  subst hb
  rw [← ite_bit m k hk]
  cases h : m.getLsbD k
  · simp
  · simp; exact hne

theorem isJoiner_bit (m : Mode) : isJoiner m = m.getLsbD 0 := bit_test m 0 (by omega) _ (by decide) (by decide)
theorem isReader_bit (m : Mode) : isReader m = m.getLsbD 1 := bit_test m 1 (by omega) _ (by decide) (by decide)
theorem isWriter_bit (m : Mode) : isWriter m = m.getLsbD 2 := bit_test m 2 (by omega) _ (by decide) (by decide)
theorem isPresencer_bit (m : Mode) : isPresencer m = m.getLsbD 3 := bit_test m 3 (by omega) _ (by decide) (by decide)
theorem isOwner_bit (m : Mode) : isOwner m = m.getLsbD 7 := bit_test m 7 (by omega) _ (by decide) (by decide)

theorem isWriter_and (w g : Mode) : isWriter (w &&& g) = (isWriter w && isWriter g) := by
  simp only [isWriter_bit, BitVec.getLsbD_and]
theorem isReader_and (w g : Mode) : isReader (w &&& g) = (isReader w && isReader g) := by
  simp only [isReader_bit, BitVec.getLsbD_and]
theorem isOwner_and (w g : Mode) : isOwner (w &&& g) = (isOwner w && isOwner g) := by
  simp only [isOwner_bit, BitVec.getLsbD_and]
theorem isJoiner_and (w g : Mode) : isJoiner (w &&& g) = (isJoiner w && isJoiner g) := by
  simp only [isJoiner_bit, BitVec.getLsbD_and]
theorem isPresencer_and (w g : Mode) : isPresencer (w &&& g) = (isPresencer w && isPresencer g) := by
  simp only [isPresencer_bit, BitVec.getLsbD_and]

/-- clearing the owner bit -/
theorem isOwner_clear (m : Mode) : isOwner (m &&& ~~~modeOwner) = false := by
  rw [isOwner_bit, BitVec.getLsbD_and]
  have : (~~~modeOwner).getLsbD 7 = false := by decide
  rw [this, Bool.and_false]

end Tinode.Acs
