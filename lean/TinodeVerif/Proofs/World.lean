import TinodeVerif.Model.TopicReq
/-! Frame lemmas for the context primitives of the world model: what `emit`, `call`, `putLive`, the fan-out folds and the
presence helpers leave untouched. -/
namespace Tinode.World
open Tinode.Acs

@[simp] theorem emit_w (c : Ctx) (s f) : (c.emit s f).w = c.w := rfl
@[simp] theorem emit_pushes (c : Ctx) (s f) : (c.emit s f).pushes = c.pushes := rfl
@[simp] theorem emit_calls (c : Ctx) (s f) : (c.emit s f).calls = c.calls := rfl
@[simp] theorem emit_routed (c : Ctx) (s f) : (c.emit s f).routed = c.routed := rfl
@[simp] theorem emit_frames (c : Ctx) (s f) : (c.emit s f).frames = c.frames ++ [(s, f)] := rfl
@[simp] theorem emit_failK (c : Ctx) (s f) : (c.emit s f).failK = c.failK := rfl
@[simp] theorem emit_callNo (c : Ctx) (s f) : (c.emit s f).callNo = c.callNo := rfl

@[simp] theorem putLive_w (c : Ctx) (t : Topic) : (c.putLive t).w = c.w.setLive t := rfl
@[simp] theorem putLive_frames (c : Ctx) (t : Topic) : (c.putLive t).frames = c.frames := rfl
@[simp] theorem putLive_pushes (c : Ctx) (t : Topic) : (c.putLive t).pushes = c.pushes := rfl
@[simp] theorem putLive_routed (c : Ctx) (t : Topic) : (c.putLive t).routed = c.routed := rfl

/-- `Ctx.call` without the local definitions -/
theorem call_eq (c : Ctx) (name : String) (e : World → World) : c.call name e =
    if c.failK ≠ 0 ∧ c.callNo + 1 = c.failK then ({ c with callNo := c.callNo + 1, calls := c.calls ++ [name] }, false)
    else if c.crashK ≠ 0 ∧ c.callNo + 1 = c.crashK then
      ({ c with callNo := c.callNo + 1, calls := c.calls ++ [name], w := e c.w, snap := some (e c.w).store }, true)
    else ({ c with callNo := c.callNo + 1, calls := c.calls ++ [name], w := e c.w }, true) := by
  unfold Ctx.call
  dsimp only
  split
  · rfl
  · split <;> rfl

/-- a call which is not the planned failure succeeds and applies its effect -/
theorem call_ok (c : Ctx) (name : String) (e : World → World) (h : c.failK = 0 ∨ c.callNo + 1 ≠ c.failK) :
    (c.call name e).2 = true ∧ (c.call name e).1.w = e c.w := by
  have : ¬ (c.failK ≠ 0 ∧ c.callNo + 1 = c.failK) := by
    rcases h with h | h
    · simp [h]
    · intro hh; exact h hh.2
  rw [call_eq]; simp only [this, if_false]
  split <;> exact ⟨rfl, rfl⟩

/-- the planned failure: logged, no effect -/
theorem call_fail (c : Ctx) (name : String) (e : World → World) (h : c.failK ≠ 0 ∧ c.callNo + 1 = c.failK) :
    (c.call name e).2 = false ∧ (c.call name e).1.w = c.w := by
  rw [call_eq]; rw [if_pos h]; exact ⟨rfl, rfl⟩

@[simp] theorem call_frames (c : Ctx) (name : String) (e : World → World) : (c.call name e).1.frames = c.frames := by
  rw [call_eq]; split
  · rfl
  · split <;> rfl
@[simp] theorem call_pushes (c : Ctx) (name : String) (e : World → World) : (c.call name e).1.pushes = c.pushes := by
  rw [call_eq]; split
  · rfl
  · split <;> rfl
@[simp] theorem call_routed (c : Ctx) (name : String) (e : World → World) : (c.call name e).1.routed = c.routed := by
  rw [call_eq]; split
  · rfl
  · split <;> rfl
@[simp] theorem call_failK (c : Ctx) (name : String) (e : World → World) : (c.call name e).1.failK = c.failK := by
  rw [call_eq]; split
  · rfl
  · split <;> rfl
@[simp] theorem call_callNo (c : Ctx) (name : String) (e : World → World) : (c.call name e).1.callNo = c.callNo + 1 := by
  rw [call_eq]; split
  · rfl
  · split <;> rfl
theorem call_calls (c : Ctx) (name : String) (e : World → World) : (c.call name e).1.calls = c.calls ++ [name] := by
  rw [call_eq]; split
  · rfl
  · split <;> rfl

/-- a call changes the world by its effect or not at all -/
theorem call_w_cases (c : Ctx) (name : String) (e : World → World) :
    ((c.call name e).2 = true ∧ (c.call name e).1.w = e c.w) ∨ ((c.call name e).2 = false ∧ (c.call name e).1.w = c.w) := by
  by_cases h : c.failK ≠ 0 ∧ c.callNo + 1 = c.failK
  · exact Or.inr (call_fail c name e h)
  · refine Or.inl (call_ok c name e ?_)
    by_cases h0 : c.failK = 0
    · exact Or.inl h0
    · exact Or.inr (fun hh => h ⟨h0, hh⟩)

end Tinode.World

namespace Tinode.World
open Tinode.Acs

/-! ### upsert into a keyed list -/
theorem find_upsert {α} (key : α → String) (l : List α) (x : α) :
    (if l.any (fun y => key y = key x) then l.map (fun y => if key y = key x then x else y) else l ++ [x]).find?
      (fun y => key y = key x) = some x := by
  induction l with
  | nil => simp
  | cons y ys ih =>
    by_cases hy : key y = key x
    · simp [hy]
    · by_cases hany : ys.any (fun y => key y = key x) = true
      · simp only [List.any_cons, hy, decide_false, Bool.false_or, hany, if_true, List.map_cons, if_false] at ih ⊢
        rw [List.find?_cons_of_neg (by simpa using hy)]
        exact ih
      · simp only [List.any_cons, hy, decide_false, Bool.false_or, hany, if_false, Bool.false_eq_true, List.cons_append] at ih ⊢
        rw [List.find?_cons_of_neg (by simpa using hy)]
        exact ih

theorem find_upsert_other {α} (key : α → String) (l : List α) (x : α) (k : String) (hk : k ≠ key x) :
    (if l.any (fun y => key y = key x) then l.map (fun y => if key y = key x then x else y) else l ++ [x]).find?
      (fun y => key y = k) = l.find? (fun y => key y = k) := by
  induction l with
  | nil => simp; intro h; exact absurd h.symm hk
  | cons y ys ih =>
    by_cases hy : key y = key x
    · have hyk : ¬ key y = k := fun h => hk (h ▸ hy)
      have hxk : ¬ key x = k := fun h => hk h.symm
      simp only [List.any_cons, hy, decide_true, Bool.true_or, if_true, List.map_cons]
      rw [List.find?_cons_of_neg (by simpa using hxk), List.find?_cons_of_neg (by simpa using hyk)]
      -- the tail: every entry with the key of x is replaced by x, none of them matches k
      clear ih
      induction ys with
      | nil => rfl
      | cons z zs ihz =>
        by_cases hz : key z = key x
        · have hzk : ¬ key z = k := fun h => hk (h ▸ hz)
          simp only [List.map_cons, hz, if_true]
          rw [List.find?_cons_of_neg (by simpa using hxk), List.find?_cons_of_neg (by simpa using hzk)]
          exact ihz
        · simp only [List.map_cons, hz, if_false]
          by_cases hzk : key z = k
          · rw [List.find?_cons_of_pos (by simpa using hzk), List.find?_cons_of_pos (by simpa using hzk)]
          · rw [List.find?_cons_of_neg (by simpa using hzk), List.find?_cons_of_neg (by simpa using hzk)]
            exact ihz
    · by_cases hyk : key y = k
      · by_cases hany : ys.any (fun y => key y = key x) = true
        · simp only [List.any_cons, hy, decide_false, Bool.false_or, hany, if_true, List.map_cons, if_false]
          rw [List.find?_cons_of_pos (by simpa using hyk), List.find?_cons_of_pos (by simpa using hyk)]
        · simp only [List.any_cons, hy, decide_false, Bool.false_or, hany, if_false, Bool.false_eq_true, List.cons_append]
          rw [List.find?_cons_of_pos (by simpa using hyk), List.find?_cons_of_pos (by simpa using hyk)]
      · by_cases hany : ys.any (fun y => key y = key x) = true
        · simp only [List.any_cons, hy, decide_false, Bool.false_or, hany, if_true, List.map_cons, if_false] at ih ⊢
          rw [List.find?_cons_of_neg (by simpa using hyk), List.find?_cons_of_neg (by simpa using hyk)]
          exact ih
        · simp only [List.any_cons, hy, decide_false, Bool.false_or, hany, if_false, Bool.false_eq_true, List.cons_append] at ih ⊢
          rw [List.find?_cons_of_neg (by simpa using hyk), List.find?_cons_of_neg (by simpa using hyk)]
          exact ih

theorem live_setLive (w : World) (t : Topic) : (w.setLive t).live? t.name = some t := by
  unfold World.setLive World.live?
  exact find_upsert (fun t : Topic => t.name) w.live t
theorem live_setLive_other (w : World) (t : Topic) (k : TName) (h : k ≠ t.name) : (w.setLive t).live? k = w.live? k := by
  unfold World.setLive World.live?
  exact find_upsert_other (fun t : Topic => t.name) w.live t k h
theorem row_setRow (w : World) (r : TopicRow) : (w.setRow r).row? r.name = some r := by
  unfold World.setRow World.row?
  exact find_upsert (fun r : TopicRow => r.name) w.store r
theorem row_setRow_other (w : World) (r : TopicRow) (k : TName) (h : k ≠ r.name) : (w.setRow r).row? k = w.row? k := by
  unfold World.setRow World.row?
  exact find_upsert_other (fun r : TopicRow => r.name) w.store r k h
@[simp] theorem row_setLive (w : World) (t : Topic) (k : TName) : (w.setLive t).row? k = w.row? k := rfl
@[simp] theorem live_setRow (w : World) (r : TopicRow) (k : TName) : (w.setRow r).live? k = w.live? k := rfl
@[simp] theorem sess_setLive (w : World) (t : Topic) : (w.setLive t).sess = w.sess := rfl
@[simp] theorem sess_setRow (w : World) (r : TopicRow) : (w.setRow r).sess = w.sess := rfl

theorem row_name (w : World) (k : TName) (r : TopicRow) (h : w.row? k = some r) : r.name = k := by
  unfold World.row? at h
  have := List.find?_some h
  simpa using this
theorem live_name (w : World) (k : TName) (t : Topic) (h : w.live? k = some t) : t.name = k := by
  unfold World.live? at h
  have := List.find?_some h
  simpa using this

/-! ### fan-out folds: only frames grow -/
theorem foldl_emit_frames {β} (l : List β) (p : β → Bool) (sidOf : β → Sid) (f : String) (c : Ctx) :
    (l.foldl (fun c x => if p x then c else c.emit (sidOf x) f) c) =
      { c with frames := c.frames ++ (l.filter (fun x => !p x)).map (fun x => (sidOf x, f)) } := by
  induction l generalizing c with
  | nil => simp
  | cons x xs ih =>
    simp only [List.foldl_cons]
    by_cases hp : p x = true
    · simp only [hp, if_true, List.filter_cons, Bool.not_true, Bool.false_eq_true, if_false]; exact ih c
    · simp only [Bool.not_eq_true] at hp
      simp only [hp, Bool.false_eq_true, if_false, List.filter_cons, Bool.not_false, if_true, List.map_cons]
      rw [ih]; simp [Ctx.emit, List.append_assoc]

/-- the sessions that receive a {data} message: attached, not the skipped one, acting for a reader -/
def dataRcpt (t : Topic) (skipSid : Sid) : List (Sid × Uid) :=
  t.sessions.filter (fun (sid, uid) => !(decide (sid = skipSid) || !t.userIsReader uid))

theorem fanoutData_eq (c : Ctx) (t : Topic) (skipSid : Sid) (f : String) :
    c.fanoutData t skipSid f = { c with frames := c.frames ++ (dataRcpt t skipSid).map (fun x => (x.1, f)) } := by
  unfold Ctx.fanoutData dataRcpt
  have := foldl_emit_frames t.sessions (fun x => decide (x.1 = skipSid) || !t.userIsReader x.2) (fun x => x.1) f c
  rw [← this]
  congr 1
  funext c x
  rcases x with ⟨sid, uid⟩
  by_cases h1 : sid = skipSid
  · simp [h1]
  · by_cases h2 : t.userIsReader uid = true
    · simp [h1, h2]
    · simp only [Bool.not_eq_true] at h2; simp [h1, h2]

end Tinode.World

namespace Tinode.World
open Tinode.Acs

theorem alGet_alSet {β} (l : List (String × β)) (k : String) (v : β) : alGet (alSet l k v) k = some v := by
  unfold alGet alSet
  have := find_upsert (fun e : String × β => e.1) l (k, v)
  simp only at this
  rw [this]; rfl
theorem alGet_alSet_other {β} (l : List (String × β)) (k k' : String) (v : β) (h : k' ≠ k) :
    alGet (alSet l k v) k' = alGet l k' := by
  unfold alGet alSet
  have := find_upsert_other (fun e : String × β => e.1) l (k, v) k' h
  simp only at this
  rw [this]

theorem pud_setPud (t : Topic) (u : Uid) (p : PUD) : (t.setPud u p).pud u = p := by
  unfold Topic.pud Topic.setPud; simp only; rw [alGet_alSet]; rfl
theorem pud_setPud_other (t : Topic) (u v : Uid) (p : PUD) (h : v ≠ u) : (t.setPud u p).pud v = t.pud v := by
  unfold Topic.pud Topic.setPud; simp only; rw [alGet_alSet_other _ _ _ _ h]
@[simp] theorem sessions_setPud (t : Topic) (u : Uid) (p : PUD) : (t.setPud u p).sessions = t.sessions := rfl
@[simp] theorem name_setPud (t : Topic) (u : Uid) (p : PUD) : (t.setPud u p).name = t.name := rfl
@[simp] theorem lastId_setPud (t : Topic) (u : Uid) (p : PUD) : (t.setPud u p).lastId = t.lastId := rfl

/-- a successful call, packaged for `obtain` -/
theorem call_ok' (c : Ctx) (name : String) (e : World → World) (h : c.failK = 0) :
    ∃ c1, c.call name e = (c1, true) ∧ c1.w = e c.w ∧ c1.frames = c.frames ∧ c1.pushes = c.pushes ∧ c1.routed = c.routed ∧
      c1.failK = 0 ∧ c1.calls = c.calls ++ [name] := by
  refine ⟨(c.call name e).1, ?_, (call_ok c name e (Or.inl h)).2, call_frames .., call_pushes .., call_routed .., ?_, call_calls ..⟩
  · have := (call_ok c name e (Or.inl h)).1
    exact Prod.ext rfl this
  · rw [call_failK]; exact h

end Tinode.World
