import TinodeVerif.Model.Acs
/-! Helper lemmas for the access-mode algebra (C05). Core Lean only. -/
namespace Tinode.Acs

theorem mem_lettersFrom (i : Nat) (tbl : List Char) (m : Mode) :
    ∀ c ∈ lettersFrom i tbl m, c ∈ tbl := by
  induction tbl generalizing i with
  | nil => simp [lettersFrom]
  | cons t ts ih =>
    intro c hc
    unfold lettersFrom at hc
    split at hc
    · rcases List.mem_cons.mp hc with h | h
      · simp [h]
      · exact List.mem_cons_of_mem _ (ih _ c h)
    · exact List.mem_cons_of_mem _ (ih _ c hc)

theorem letters_noSign (m : Mode) : ∀ c ∈ letters m, isSign c = false := by
  intro c hc
  have := mem_lettersFrom 0 letterTable m c hc
  simp [letterTable] at this
  rcases this with h | h | h | h | h | h | h | h <;> subst h <;> decide

theorem letters_noN (m : Mode) : ∀ c ∈ letters m, c ≠ 'N' := by
  intro c hc
  have := mem_lettersFrom 0 letterTable m c hc
  simp [letterTable] at this
  rcases this with h | h | h | h | h | h | h | h <;> subst h <;> decide

/-- one step of the parse loop over an optional table letter -/
theorem parseLoop_ite (t : Bool) (c : Char) (b : Mode) (L : List Char) (acc : Mode)
    (hb : letterBit c = some b) :
    parseLoop (if t then c :: L else L) acc = parseLoop L (if t then acc ||| b else acc) := by
  cases t <;> simp [parseLoop, hb]

theorem ite_bit (m : Mode) (k : Nat) (hk : k < 32) :
    (if m.getLsbD k then (1#32 <<< k) else 0#32) = m &&& (1#32 <<< k) := by
  ext i hi
  by_cases h : m.getLsbD k
  · simp only [h, if_true, BitVec.getElem_and]
    by_cases hik : i = k
    · subst hik; simp [BitVec.getElem_shiftLeft, BitVec.getLsbD_eq_getElem hi] at h ⊢; simp [h]
    · simp [BitVec.getElem_shiftLeft]
      intro h1 h2; omega
  · simp only [h, BitVec.getElem_and]
    by_cases hik : i = k
    · subst hik; simp [BitVec.getLsbD_eq_getElem hi] at h; simp [h]
    · simp [BitVec.getElem_shiftLeft]
      intro _ h1 h2; omega

/-- Parsing the canonical letters of `m` ORs exactly the low eight bits of `m` into the accumulator. -/
theorem parseLoop_letters (m acc : Mode) :
    parseLoop (letters m) acc = .ok (acc ||| (m &&& modeBitmask)) := by
  unfold letters letterTable
  simp only [lettersFrom]
  rw [parseLoop_ite _ 'J' modeJoin _ _ (by decide)]
  rw [parseLoop_ite _ 'R' modeRead _ _ (by decide)]
  rw [parseLoop_ite _ 'W' modeWrite _ _ (by decide)]
  rw [parseLoop_ite _ 'P' modePres _ _ (by decide)]
  rw [parseLoop_ite _ 'A' modeApprove _ _ (by decide)]
  rw [parseLoop_ite _ 'S' modeShare _ _ (by decide)]
  rw [parseLoop_ite _ 'D' modeDelete _ _ (by decide)]
  rw [parseLoop_ite _ 'O' modeOwner _ _ (by decide)]
  simp only [parseLoop]
  congr 1
  have e : ∀ (t : Bool) (a b : Mode), (if t then a ||| b else a) = a ||| (if t then b else 0#32) := by
    intro t a b; cases t <;> simp
  simp only [e]
  have h0 := ite_bit m 0 (by omega)
  have h1 := ite_bit m 1 (by omega)
  have h2 := ite_bit m 2 (by omega)
  have h3 := ite_bit m 3 (by omega)
  have h4 := ite_bit m 4 (by omega)
  have h5 := ite_bit m 5 (by omega)
  have h6 := ite_bit m 6 (by omega)
  have h7 := ite_bit m 7 (by omega)
  simp only [modeJoin, modeRead, modeWrite, modePres, modeApprove, modeShare, modeDelete, modeOwner,
    modeBitmask] at *
  have c0 : (1#32 <<< 0) = 0x01#32 := by decide
  have c1 : (1#32 <<< 1) = 0x02#32 := by decide
  have c2 : (1#32 <<< 2) = 0x04#32 := by decide
  have c3 : (1#32 <<< 3) = 0x08#32 := by decide
  have c4 : (1#32 <<< 4) = 0x10#32 := by decide
  have c5 : (1#32 <<< 5) = 0x20#32 := by decide
  have c6 : (1#32 <<< 6) = 0x40#32 := by decide
  have c7 : (1#32 <<< 7) = 0x80#32 := by decide
  rw [c0] at h0; rw [c1] at h1; rw [c2] at h2; rw [c3] at h3
  rw [c4] at h4; rw [c5] at h5; rw [c6] at h6; rw [c7] at h7
  simp only [BitVec.ofNat_eq_ofNat] at *
  rw [h0, h1, h2, h3, h4, h5, h6, h7]
  simp only [BitVec.or_assoc, ← BitVec.and_or_distrib_left]
  rfl

end Tinode.Acs

namespace Tinode.Acs
/-! ### width-generic bit identities (u = ModeUnset, k = ModeBitmask, only `u &&& k = 0` is used) -/
section bits
variable {w : Nat}

theorem bits_A1 (u k x : BitVec w) (huk : u &&& k = 0) : (u ||| (x &&& k)) &&& k = x &&& k := by
  ext i hi
  have h := congrArg (fun y : BitVec w => y[i]'hi) huk
  simp at h ⊢
  cases hu : u[i] <;> cases hk : k[i] <;> cases hx : x[i] <;> simp_all

theorem bits_A2 (u k x : BitVec w) (huk : u &&& k = 0) (hx : x &&& k ≠ 0) : u ||| (x &&& k) ≠ u := by
  intro h
  apply hx
  have := bits_A1 u k x huk
  rw [h, huk] at this
  exact this.symm

theorem bits_D1 (o n k : BitVec w) (ho : o &&& k = o) (hn : n &&& k = n)
    (ha : k &&& n &&& ~~~o = 0) (hr : k &&& o &&& ~~~n = 0) : o = n := by
  ext i hi
  have h1 := congrArg (fun y : BitVec w => y[i]'hi) ho
  have h2 := congrArg (fun y : BitVec w => y[i]'hi) hn
  have h3 := congrArg (fun y : BitVec w => y[i]'hi) ha
  have h4 := congrArg (fun y : BitVec w => y[i]'hi) hr
  simp at h1 h2 h3 h4
  cases hoo : o[i] <;> cases hnn : n[i] <;> cases hk : k[i] <;> simp_all

theorem bits_D2 (o n k : BitVec w) (ho : o &&& k = o) (hn : n &&& k = n)
    (hr : k &&& o &&& ~~~n = 0) : o ||| (k &&& n &&& ~~~o) = n := by
  ext i hi
  have h1 := congrArg (fun y : BitVec w => y[i]'hi) ho
  have h2 := congrArg (fun y : BitVec w => y[i]'hi) hn
  have h4 := congrArg (fun y : BitVec w => y[i]'hi) hr
  simp at h1 h2 h4 ⊢
  cases hoo : o[i] <;> cases hnn : n[i] <;> cases hk : k[i] <;> simp_all

theorem bits_D3 (o n k : BitVec w) (ho : o &&& k = o) (hn : n &&& k = n)
    (ha : k &&& n &&& ~~~o = 0) : o &&& ~~~(k &&& o &&& ~~~n) = n := by
  ext i hi
  have h1 := congrArg (fun y : BitVec w => y[i]'hi) ho
  have h2 := congrArg (fun y : BitVec w => y[i]'hi) hn
  have h4 := congrArg (fun y : BitVec w => y[i]'hi) ha
  simp at h1 h2 h4 ⊢
  cases hoo : o[i] <;> cases hnn : n[i] <;> cases hk : k[i] <;> simp_all

theorem bits_D4 (o n k : BitVec w) (ho : o &&& k = o) (hn : n &&& k = n) :
    (o ||| (k &&& n &&& ~~~o)) &&& ~~~(k &&& o &&& ~~~n) = n := by
  ext i hi
  have h1 := congrArg (fun y : BitVec w => y[i]'hi) ho
  have h2 := congrArg (fun y : BitVec w => y[i]'hi) hn
  simp at h1 h2 ⊢
  cases hoo : o[i] <;> cases hnn : n[i] <;> cases hk : k[i] <;> simp_all

theorem bits_sub (k x y : BitVec w) : (k &&& x &&& y) &&& k = k &&& x &&& y := by
  ext i hi
  simp
  cases k[i] <;> cases x[i] <;> cases y[i] <;> simp_all
end bits

theorem unset_and_mask : modeUnset &&& modeBitmask = 0 := by decide
theorem invalid_and_mask : modeInvalid &&& modeBitmask = 0 := by decide

theorem parseAcs_letters (m : Mode) : parseAcs (letters m) = .ok (modeUnset ||| (m &&& modeBitmask)) :=
  parseLoop_letters m modeUnset

theorem letters_ne_nil (m : Mode) (h : m &&& modeBitmask ≠ 0) : letters m ≠ [] := by
  intro hnil
  have := parseLoop_letters m 0
  rw [hnil] at this
  simp [parseLoop] at this
  exact h this.symm

theorem ne_invalid_of_masked (m : Mode) (h : m &&& modeBitmask = m) (h0 : m ≠ 0) : m ≠ modeInvalid := by
  intro e; subst e; rw [invalid_and_mask] at h; exact h0 h.symm

theorem toStr_masked (m : Mode) (h : m &&& modeBitmask = m) (h0 : m ≠ 0) : toStr m = letters m := by
  have := ne_invalid_of_masked m h h0
  have h0' : ¬ m = 0#32 := h0
  simp [toStr, marshal, modeNone, h0', this]

theorem takeWhile_append_sign (L T : List Char) (hL : ∀ c ∈ L, isSign c = false)
    (hT : T = [] ∨ ∃ c T', T = c :: T' ∧ isSign c = true) :
    (L ++ T).takeWhile (fun c => !isSign c) = L ∧ (L ++ T).dropWhile (fun c => !isSign c) = T := by
  induction L with
  | nil =>
    rcases hT with h | ⟨c, T', h, hc⟩
    · subst h; simp
    · subst h; simp [List.takeWhile, List.dropWhile, hc]
  | cons a L ih =>
    have ha : isSign a = false := hL a (by simp)
    have := ih (fun c hc => hL c (by simp [hc]))
    simp [List.takeWhile, List.dropWhile, ha, this]

theorem applyLoop_step (fuel : Nat) (ch c2 : Char) (rest0 : List Char) (m0 : Mode) :
    applyLoop (fuel+1) (ch :: c2 :: rest0) m0 =
      match parseAcs ((c2 :: rest0).takeWhile (fun c => !isSign c)) with
      | .error e => .error e
      | .ok upd =>
        if ch = '+' then
          if (c2 :: rest0).dropWhile (fun c => !isSign c) = [] then
            .ok (if upd ≠ modeUnset then m0 ||| (upd &&& modeBitmask) else m0)
          else applyLoop fuel ((c2 :: rest0).dropWhile (fun c => !isSign c))
            (if upd ≠ modeUnset then m0 ||| (upd &&& modeBitmask) else m0)
        else if ch = '-' then
          if (c2 :: rest0).dropWhile (fun c => !isSign c) = [] then
            .ok (if upd ≠ modeUnset then m0 &&& ~~~(upd &&& modeBitmask) else m0)
          else applyLoop fuel ((c2 :: rest0).dropWhile (fun c => !isSign c))
            (if upd ≠ modeUnset then m0 &&& ~~~(upd &&& modeBitmask) else m0)
        else .error .badDelta := rfl

/-- One iteration of the ApplyDelta loop over a chunk of canonical letters. -/
theorem applyLoop_chunk (fuel : Nat) (ch : Char) (x : Mode) (T : List Char) (m0 : Mode)
    (hx : x &&& modeBitmask = x) (hx0 : x ≠ 0)
    (hT : T = [] ∨ ∃ c T', T = c :: T' ∧ isSign c = true) :
    applyLoop (fuel+1) (ch :: (letters x ++ T)) m0 =
      if ch = '+' then
        (if T = [] then .ok (m0 ||| x) else applyLoop fuel T (m0 ||| x))
      else if ch = '-' then
        (if T = [] then .ok (m0 &&& ~~~x) else applyLoop fuel T (m0 &&& ~~~x))
      else .error .badDelta := by
  have hne : letters x ≠ [] := letters_ne_nil x (by rw [hx]; exact hx0)
  obtain ⟨c2, rest0, hcons⟩ : ∃ c2 rest0, letters x ++ T = c2 :: rest0 := by
    cases hl : letters x with
    | nil => exact absurd hl hne
    | cons a l => exact ⟨a, l ++ T, by simp⟩
  have htd := takeWhile_append_sign (letters x) T (letters_noSign x) hT
  have hup : (modeUnset ||| (x &&& modeBitmask)) ≠ modeUnset :=
    bits_A2 _ _ _ unset_and_mask (by rw [hx]; exact hx0)
  have hand : (modeUnset ||| (x &&& modeBitmask)) &&& modeBitmask = x := by
    rw [bits_A1 _ _ _ unset_and_mask, hx]
  rw [hcons, applyLoop_step, ← hcons, htd.1, htd.2, parseAcs_letters]
  simp only [hup, ne_eq, not_false_eq_true, if_true, hand]


theorem applyLoop_plus_last (fuel : Nat) (x m0 : Mode) (hx : x &&& modeBitmask = x) (hx0 : x ≠ 0) :
    applyLoop (fuel+1) ('+' :: letters x) m0 = .ok (m0 ||| x) := by
  have h := applyLoop_chunk fuel '+' x [] m0 hx hx0 (Or.inl rfl)
  rw [List.append_nil] at h
  rw [h, if_pos rfl, if_pos rfl]

theorem applyLoop_minus_last (fuel : Nat) (x m0 : Mode) (hx : x &&& modeBitmask = x) (hx0 : x ≠ 0) :
    applyLoop (fuel+1) ('-' :: letters x) m0 = .ok (m0 &&& ~~~x) := by
  have h := applyLoop_chunk fuel '-' x [] m0 hx hx0 (Or.inl rfl)
  rw [List.append_nil] at h
  rw [h, if_neg (by decide), if_pos rfl, if_pos rfl]

theorem applyLoop_plus_more (fuel : Nat) (x m0 : Mode) (c : Char) (T : List Char)
    (hx : x &&& modeBitmask = x) (hx0 : x ≠ 0) (hc : isSign c = true) :
    applyLoop (fuel+1) ('+' :: (letters x ++ c :: T)) m0 = applyLoop fuel (c :: T) (m0 ||| x) := by
  have h := applyLoop_chunk fuel '+' x (c :: T) m0 hx hx0 (Or.inr ⟨c, T, rfl, hc⟩)
  rw [h, if_pos rfl, if_neg (by simp)]

theorem letterBit_some_mem (c : Char) (b : Mode) (hb : letterBit c = some b) :
    c ∈ ['J','R','W','P','A','S','D','O','N','j','r','w','p','a','s','d','o','n'] := by
  unfold letterBit at hb
  iterate 8 (split at hb; · rename_i h; rcases h with h | h <;> (subst h; decide))
  simp at hb

theorem pos_iff (x : Mode) : (0 < x) ↔ x ≠ 0 := BitVec.pos_iff_ne_zero x

/-- Shape of `Delta`: "+added" then "-removed", each part omitted when empty. -/
theorem delta_eq (o n : Mode) :
    delta o n =
      (if modeBitmask &&& n &&& ~~~o = 0 then [] else '+' :: letters (modeBitmask &&& n &&& ~~~o)) ++
      (if modeBitmask &&& o &&& ~~~n = 0 then [] else '-' :: letters (modeBitmask &&& o &&& ~~~n)) := by
  have hsubA : (modeBitmask &&& n &&& ~~~o) &&& modeBitmask = modeBitmask &&& n &&& ~~~o := bits_sub _ _ _
  have hsubR : (modeBitmask &&& o &&& ~~~n) &&& modeBitmask = modeBitmask &&& o &&& ~~~n := bits_sub _ _ _
  unfold delta
  simp only [gt_iff_lt, pos_iff]
  congr 1
  · by_cases ha : modeBitmask &&& n &&& ~~~o = 0
    · simp [ha]
    · have hne := letters_ne_nil _ (by rw [hsubA]; exact ha)
      simp [ha, toStr_masked _ hsubA ha, hne]
  · by_cases hr : modeBitmask &&& o &&& ~~~n = 0
    · simp [hr]
    · have hne := letters_ne_nil _ (by rw [hsubR]; exact hr)
      simp [hr, toStr_masked _ hsubR hr, hne]

end Tinode.Acs
