import TinodeVerif.Spec.Query
/-! Simulation of the parseSearchQuery state machine (`Model/Search.lean`) by the declarative scanner (`Spec/Query.lean`). -/
namespace Tinode.Search
open Tinode.Spec.Query

variable (q : List Char) (rw : List Char → List Char)

/-- the loop without the END iteration -/
def runChars : List Char → Nat → St → Except QErr St
  | [], _, st => .ok st
  | c :: cs, i, st =>
    match stepRune q rw st (some c) i with
    | .error e => .error e
    | .ok st' => runChars cs (i + 1) st'

theorem runLoop_append (xs ys : List Char) (i : Nat) (st : St) :
    runLoop q rw (xs ++ ys) i st =
      match runChars q rw xs i st with
      | .error e => .error e
      | .ok st1 => runLoop q rw ys (i + xs.length) st1 := by
  induction xs generalizing i st with
  | nil => simp [runChars]
  | cons x xs ih =>
    simp only [List.cons_append, runLoop, runChars]
    cases h : stepRune q rw st (some x) i with
    | error e => rfl
    | ok st' =>
      simp only []
      rw [ih]
      simp only [List.length_cons]
      have : i + 1 + xs.length = i + (xs.length + 1) := by omega
      rw [this]

theorem runChars_append (xs ys : List Char) (i : Nat) (st : St) :
    runChars q rw (xs ++ ys) i st =
      match runChars q rw xs i st with
      | .error e => .error e
      | .ok st1 => runChars q rw ys (i + xs.length) st1 := by
  induction xs generalizing i st with
  | nil => simp [runChars]
  | cons x xs ih =>
    simp only [List.cons_append, runChars]
    cases h : stepRune q rw st (some x) i with
    | error e => rfl
    | ok st' =>
      simp only []
      rw [ih]
      simp only [List.length_cons]
      have : i + 1 + xs.length = i + (xs.length + 1) := by omega
      rw [this]

/-! ### lexer facts -/
theorem lex_word (c : Char) (h : isWordChar c = true) : lexRune false (some c) = .ord := by
  simp [isWordChar, isSepChar] at h
  simp [lexRune, h]

theorem lex_inquote (c : Char) (h : c ≠ '"') : lexRune true (some c) = .ord := by
  simp [lexRune, h]

theorem lex_quote (b : Bool) : lexRune b (some '"') = .quo := by simp [lexRune]

theorem lex_sep (c : Char) (h : isSepChar c = true) :
    lexRune false (some c) = if c = ',' then .or else .and := by
  simp [isSepChar] at h
  rcases h with (h | h) | h <;> subst h <;> simp [lexRune]

/-! ### an ordinary character in the middle of a word or of a quoted string changes nothing -/
theorem St.eta_mid (st : St) (hp : st.prev = .ord) (hc : st.ctx.closed = false) :
    finish st.ctx st.out .ord false false = st := by
  cases st with
  | mk ctx out prev =>
    cases ctx
    simp_all [finish]

theorem step_mid (st : St) (c : Char) (i : Nat) (hl : lexRune st.ctx.quo (some c) = .ord)
    (hp : st.prev = .ord) (hc : st.ctx.closed = false) : stepRune q rw st (some c) i = .ok st := by
  simp only [stepRune, hl, stepOrd, hp, hc, emitAndFinish]
  simp [St.eta_mid st hp hc]

theorem run_mid (w : List Char) (st : St) (i : Nat) (hl : ∀ c ∈ w, lexRune st.ctx.quo (some c) = .ord)
    (hp : st.prev = .ord) (hc : st.ctx.closed = false) : runChars q rw w i st = .ok st := by
  induction w generalizing i with
  | nil => rfl
  | cons c w ih =>
    simp only [runChars, step_mid q rw st c i (hl c (by simp)) hp hc]
    exact ih (i + 1) (fun x hx => hl x (by simp [hx]))


/-! ### separator runs -/

theorem finish_ff (ctx : Ctx) (out : List Tok) (curr : Lex) :
    finish ctx out curr false false = { ctx := { ctx with closed := false }, out := out, prev := curr } := by
  simp [finish]

/-- effect of a separator run on `postOp`; `none` when a second comma is met -/
def sepPost : Lex → List Char → Option Lex
  | p, [] => some p
  | p, c :: cs =>
    if c = ',' then (if p = .or then none else sepPost .or cs)
    else sepPost (if p ≠ .or then .and else p) cs

/-- one separator character -/
theorem step_sep (st : St) (c : Char) (i : Nat) (hs : isSepChar c = true) (hq : st.ctx.quo = false) :
    stepRune q rw st (some c) i =
      if c = ',' then
        (if st.ctx.postOp = .or then .error .operatorSequence
         else .ok (finish { st.ctx with postOp := .or, end_ := if st.prev = .ord then i else st.ctx.end_ } st.out .or false false))
      else
        (if st.prev = .ord then .ok (finish { st.ctx with end_ := i, postOp := .and } st.out .and false false)
         else if st.ctx.postOp ≠ .or then .ok (finish { st.ctx with postOp := .and } st.out .and false false)
         else .ok (finish st.ctx st.out .and false false)) := by
  have hl : lexRune st.ctx.quo (some c) = if c = ',' then .or else .and := by rw [hq]; exact lex_sep c hs
  unfold stepRune
  rw [hl]
  by_cases hc : c = ','
  · simp only [hc, if_true]; rfl
  · simp only [hc, if_false]; rfl

/-- the rest of a separator run, once inside it -/
theorem run_sep_inside (cs : List Char) (st : St) (i : Nat) (hs : ∀ c ∈ cs, isSepChar c = true)
    (hq : st.ctx.quo = false) (hc : st.ctx.closed = false) (hp : st.prev = .and ∨ st.prev = .or) :
    match sepPost st.ctx.postOp cs with
    | none => runChars q rw cs i st = .error .operatorSequence
    | some p' => ∃ st', runChars q rw cs i st = .ok st' ∧ st'.ctx = { st.ctx with postOp := p' } ∧ st'.out = st.out ∧
        (st'.prev = .and ∨ st'.prev = .or) := by
  induction cs generalizing st i with
  | nil => exact ⟨st, rfl, rfl, rfl, hp⟩
  | cons c cs ih =>
    have hsc := hs c (by simp)
    have hpn : st.prev ≠ .ord := by rcases hp with h | h <;> simp [h]
    simp only [sepPost, runChars, step_sep q rw st c i hsc hq]
    by_cases hcomma : c = ','
    · simp only [hcomma, if_true]
      by_cases hor : st.ctx.postOp = .or
      · simp [hor]
      · simp only [hor, if_false]
        have := ih (finish { st.ctx with postOp := .or, end_ := if st.prev = .ord then i else st.ctx.end_ } st.out .or false false)
          (i + 1) (fun x hx => hs x (by simp [hx])) (by simp [finish_ff, hq]) (by simp [finish_ff]) (by simp [finish_ff])
        simp only [finish_ff, hpn, if_false] at this ⊢
        cases hsp : sepPost Lex.or cs with
        | none => simp only [hsp] at this ⊢; exact this
        | some p' =>
          simp only [hsp] at this ⊢
          obtain ⟨st', h1, h2, h3, h4⟩ := this
          exact ⟨st', h1, by rw [h2]; simp [hc], h3, h4⟩
    · simp only [hcomma, if_false, hpn]
      by_cases hor : st.ctx.postOp = .or
      · simp only [hor, ne_eq, not_true_eq_false, if_false]
        have := ih (finish st.ctx st.out .and false false) (i + 1) (fun x hx => hs x (by simp [hx]))
          (by simp [finish_ff, hq]) (by simp [finish_ff]) (by simp [finish_ff])
        simp only [finish_ff, hor] at this ⊢
        cases hsp : sepPost Lex.or cs with
        | none => simp only [hsp] at this ⊢; exact this
        | some p' =>
          simp only [hsp] at this ⊢
          obtain ⟨st', h1, h2, h3, h4⟩ := this
          exact ⟨st', h1, by rw [h2]; simp [hc], h3, h4⟩
      · simp only [hor, ne_eq, not_false_eq_true, if_true]
        have := ih (finish { st.ctx with postOp := .and } st.out .and false false) (i + 1) (fun x hx => hs x (by simp [hx]))
          (by simp [finish_ff, hq]) (by simp [finish_ff]) (by simp [finish_ff])
        simp only [finish_ff] at this ⊢
        cases hsp : sepPost Lex.and cs with
        | none => simp only [hsp] at this ⊢; exact this
        | some p' =>
          simp only [hsp] at this ⊢
          obtain ⟨st', h1, h2, h3, h4⟩ := this
          exact ⟨st', h1, by rw [h2]; simp [hc], h3, h4⟩

/-- a whole non-empty separator run, entered from a term (`prev = ord`) or from the start (`prev = none`) -/
theorem run_sep (c : Char) (cs : List Char) (st : St) (i : Nat) (hs : ∀ x ∈ c :: cs, isSepChar x = true)
    (hq : st.ctx.quo = false) (hnor : st.ctx.postOp ≠ .or) :
    match sepPost st.ctx.postOp (c :: cs) with
    | none => runChars q rw (c :: cs) i st = .error .operatorSequence
    | some p' => ∃ st', runChars q rw (c :: cs) i st = .ok st' ∧
        st'.ctx = { st.ctx with postOp := p', end_ := if st.prev = .ord then i else st.ctx.end_, closed := false } ∧
        st'.out = st.out ∧ (st'.prev = .and ∨ st'.prev = .or) := by
  have hsc := hs c (by simp)
  have hcs : ∀ x ∈ cs, isSepChar x = true := fun x hx => hs x (by simp [hx])
  simp only [sepPost, runChars, step_sep q rw st c i hsc hq]
  by_cases hcomma : c = ','
  · simp only [hcomma, if_true, hnor, if_false]
    have := run_sep_inside q rw cs
      (finish { st.ctx with postOp := .or, end_ := if st.prev = .ord then i else st.ctx.end_ } st.out .or false false)
      (i + 1) hcs (by simp [finish_ff, hq]) (by simp [finish_ff]) (by simp [finish_ff])
    simp only [finish_ff] at this ⊢
    cases hsp : sepPost Lex.or cs with
    | none => simp only [hsp] at this ⊢; exact this
    | some p' =>
      simp only [hsp] at this ⊢
      obtain ⟨st', h1, h2, h3, h4⟩ := this
      exact ⟨st', h1, by rw [h2], h3, h4⟩
  · simp only [hcomma, if_false, hnor, ne_eq, not_false_eq_true, if_true]
    by_cases hpo : st.prev = .ord
    · simp only [hpo, if_true]
      have := run_sep_inside q rw cs (finish { st.ctx with end_ := i, postOp := .and } st.out .and false false)
        (i + 1) hcs (by simp [finish_ff, hq]) (by simp [finish_ff]) (by simp [finish_ff])
      simp only [finish_ff] at this ⊢
      cases hsp : sepPost Lex.and cs with
      | none => simp only [hsp] at this ⊢; exact this
      | some p' =>
        simp only [hsp] at this ⊢
        obtain ⟨st', h1, h2, h3, h4⟩ := this
        exact ⟨st', h1, by rw [h2], h3, h4⟩
    · simp only [hpo, if_false]
      have := run_sep_inside q rw cs (finish { st.ctx with postOp := .and } st.out .and false false) (i + 1) hcs
        (by simp [finish_ff, hq]) (by simp [finish_ff]) (by simp [finish_ff])
      simp only [finish_ff] at this ⊢
      cases hsp : sepPost Lex.and cs with
      | none => simp only [hsp] at this ⊢; exact this
      | some p' =>
        simp only [hsp] at this ⊢
        obtain ⟨st', h1, h2, h3, h4⟩ := this
        exact ⟨st', h1, by rw [h2], h3, h4⟩


/-! ### comma counting -/
theorem sepPost_count (p : Lex) (run : List Char) :
    sepPost p run =
      if (run.filter (· = ',')).length + (if p = .or then 1 else 0) ≥ 2 then none
      else some (if (run.filter (· = ',')).length ≥ 1 ∨ p = .or then .or else if run = [] then p else .and) := by
  induction run generalizing p with
  | nil => by_cases h : p = .or <;> simp [sepPost, h]
  | cons c cs ih =>
    by_cases hc : c = ','
    · subst hc
      by_cases h : p = .or
      · simp [sepPost, h]
      · simp only [sepPost, if_true, h, if_false, ih]
        simp
    · simp only [sepPost, hc, if_false, ih]
      by_cases h : p = .or <;> simp [hc, h]

/-! ### the pending token -/
theorem pend_word (pre w rest : List Char) (ctx : Ctx) (p : Lex) (cl : Bool) (hq : q = pre ++ w ++ rest)
    (hs : ctx.start = pre.length) (hu : ctx.unquote = false) (hpre : ctx.preOp = .and ∨ ctx.preOp = .or) :
    pendingTok q rw { ctx with postOp := p, end_ := pre.length + w.length, closed := cl } =
      mkTok rw w (decide (ctx.preOp = .or) || decide (p = .or)) := by
  have hdrop : ((q.drop pre.length).take w.length) = w := by
    rw [hq, List.append_assoc, List.drop_left, List.take_left]
  unfold pendingTok mkTok
  simp only [hu, hs, Bool.false_eq_true, if_false]
  have e1 : pre.length + w.length - pre.length = w.length := by omega
  rw [e1, hdrop]
  by_cases hw : w = []
  · subst hw; simp
  · have hlt : pre.length < pre.length + w.length := by
      have : 0 < w.length := List.length_pos_iff.mpr hw
      omega
    have hmne : List.map lower w ≠ [] := by simpa using hw
    simp only [hlt, if_true, hmne, false_or]
    by_cases hr : rw (List.map lower w) = []
    · simp [hr]
    · simp only [hr, ne_eq, not_false_eq_true, if_true, if_false]
      congr 2
      rcases hpre with h | h <;> by_cases hp : p = .or <;> simp [h, hp]

theorem pend_quote (pre body rest : List Char) (ctx : Ctx) (p : Lex) (cl : Bool)
    (hq : q = pre ++ ('"' :: body ++ '"' :: rest))
    (hs : ctx.start = pre.length) (hu : ctx.unquote = true) (hpre : ctx.preOp = .and ∨ ctx.preOp = .or) :
    pendingTok q rw { ctx with postOp := p, end_ := pre.length + (body.length + 2), closed := cl } =
      mkTok rw body (decide (ctx.preOp = .or) || decide (p = .or)) := by
  have hdrop : ((q.drop (pre.length + 1)).take body.length) = body := by
    have : q = (pre ++ ['"']) ++ (body ++ '"' :: rest) := by rw [hq]; simp
    rw [this]
    have hl : (pre ++ ['"']).length = pre.length + 1 := by simp
    rw [← hl, List.drop_left, List.take_left]
  unfold pendingTok mkTok
  simp only [hu, hs, if_true]
  have e1 : pre.length + (body.length + 2) - 1 - (pre.length + 1) = body.length := by omega
  rw [e1, hdrop]
  by_cases hw : body = []
  · subst hw; simp
  · have hlt : pre.length + 1 < pre.length + (body.length + 2) - 1 := by
      have : 0 < body.length := List.length_pos_iff.mpr hw
      omega
    have hmne : List.map lower body ≠ [] := by simpa using hw
    simp only [hlt, if_true, hmne, false_or]
    by_cases hr : rw (List.map lower body) = []
    · simp [hr]
    · simp only [hr, ne_eq, not_false_eq_true, if_true, if_false]
      congr 2
      rcases hpre with h | h <;> by_cases hp : p = .or <;> simp [h, hp]


/-! ### list helpers -/
theorem dropWhile_head {α} (p : α → Bool) (l : List α) (c : α) (cs : List α) (h : l.dropWhile p = c :: cs) :
    p c = false := by
  have := List.head?_dropWhile_not p l
  rw [h] at this
  simpa using this

theorem mem_takeWhile {α} (p : α → Bool) (l : List α) : ∀ x ∈ l.takeWhile p, p x = true := by
  have := @List.all_takeWhile α p l
  exact fun x hx => (List.all_eq_true.mp this) x hx

/-! ### the first character of a term -/
theorem step_start (st : St) (i : Nat) (opening : Bool) (hq : st.ctx.quo = false) (hc : st.ctx.closed = false)
    (hp : st.prev = .none ∨ st.prev = .and ∨ st.prev = .or) :
    stepOrd q rw st i opening false =
      .ok (finish (if st.prev = .none then st.ctx else emitCtx st.ctx i)
        (if st.prev = .none then st.out else st.out ++ pendingTok q rw st.ctx) .ord opening false) := by
  have hno : st.prev ≠ .ord := by rcases hp with h | h | h <;> simp [h]
  unfold stepOrd
  simp only [hno, and_false, if_false, hc, Bool.false_eq_true, emitAndFinish]
  rcases hp with h | h | h <;> simp [h, hq]

/-- machine state right after a complete term `v` that ends just before index `e` -/
structure AfterTerm (st : St) (e : Nat) (v : List Char) (before : Bool) : Prop where
  endok : (if st.prev = .ord then e else st.ctx.end_) = e
  quo : st.ctx.quo = false
  post : st.ctx.postOp = .none
  pend : ∀ p cl, pendingTok q rw { st.ctx with postOp := p, end_ := e, closed := cl } =
    mkTok rw v (before || decide (p = .or))

/-- machine state at the start of the query or right after a separator run, at index `i` -/
structure Boundary (st : St) (i : Nat) : Prop where
  quo : st.ctx.quo = false
  closed : st.ctx.closed = false
  prev : st.prev = .none ∨ st.prev = .and ∨ st.prev = .or
  init : st.prev = .none → i = 0 ∧ st.ctx.start = 0 ∧ st.ctx.unquote = false ∧ st.ctx.preOp = .and ∧
    st.ctx.postOp = .none ∧ pendingTok q rw st.ctx = []
  post : st.prev ≠ .none → (st.ctx.postOp = .and ∨ st.ctx.postOp = .or)

def NStmt (fuel : Nat) : Prop :=
  ∀ (pre rest : List Char) (st : St) (v : List Char) (before : Bool),
    q = pre ++ rest → AfterTerm q rw st pre.length v before → rest.length < fuel →
    (∀ c cs, rest = c :: cs → isSepChar c = true) →
    match lexItems fuel rest with
    | none => ∃ e, runLoop q rw rest pre.length st = .error e
    | some items => ∃ st', runLoop q rw rest pre.length st = .ok st' ∧
        st'.out = st.out ++ classify rw before (Item.term v :: items)

def MStmt (fuel : Nat) : Prop :=
  ∀ (pre rest : List Char) (st : St),
    q = pre ++ rest → Boundary q rw st pre.length → rest.length < fuel →
    (∀ c cs, rest = c :: cs → isSepChar c = false) →
    match lexItems fuel rest with
    | none => ∃ e, runLoop q rw rest pre.length st = .error e
    | some items => ∃ st', runLoop q rw rest pre.length st = .ok st' ∧
        st'.out = st.out ++ pendingTok q rw st.ctx ++ classify rw (decide (st.ctx.postOp = .or)) items

/-- END right after a term -/
theorem end_after_term (st : St) (i : Nat) (v : List Char) (before : Bool) (h : AfterTerm q rw st i v before) :
    ∃ st', stepRune q rw st none i = .ok st' ∧ st'.out = st.out ++ mkTok rw v (before || false) := by
  have hp : pendingTok q rw { st.ctx with end_ := i } = mkTok rw v (before || decide (st.ctx.postOp = .or)) :=
    h.pend st.ctx.postOp st.ctx.closed
  have hd : decide (st.ctx.postOp = Lex.or) = false := by rw [h.post]; rfl
  rw [hd] at hp
  simp only [stepRune, lexRune, stepEnd, emitAndFinish, h.endok, if_true, h.quo, Bool.false_eq_true, if_false]
  refine ⟨_, rfl, ?_⟩
  simp only [finish]
  rw [← hp]
  simp [h.quo]

theorem N_of_M (fuel : Nat) (hM : MStmt q rw fuel) : NStmt q rw (fuel + 1) := by
  intro pre rest st v before hq hat hlen hsep
  cases rest with
  | nil =>
    simp only [lexItems, runLoop]
    obtain ⟨st', h1, h2⟩ := end_after_term q rw st pre.length v before hat
    exact ⟨st', h1, by rw [h2]; simp [classify]⟩
  | cons c cs =>
    have hc := hsep c cs rfl
    simp only [lexItems, hc, if_true]
    -- the run and what follows it
    have hrun : (c :: cs).takeWhile isSepChar = c :: cs.takeWhile isSepChar := by simp [hc]
    have hcs : c :: cs = (c :: cs.takeWhile isSepChar) ++ (c :: cs).dropWhile isSepChar := by
      rw [← hrun]; exact (List.takeWhile_append_dropWhile).symm
    have hrunsep : ∀ x ∈ c :: cs.takeWhile isSepChar, isSepChar x = true := by
      rw [← hrun]; exact mem_takeWhile _ _
    have hnor : st.ctx.postOp ≠ .or := by rw [hat.post]; simp
    have hrs := run_sep q rw c (cs.takeWhile isSepChar) st pre.length hrunsep hat.quo hnor
    rw [sepPost_count, hat.post] at hrs
    simp only [reduceCtorEq, if_false, Nat.add_zero, or_false] at hrs
    rw [hrun]
    have hloop : runLoop q rw (c :: cs) pre.length st =
        runLoop q rw ((c :: cs.takeWhile isSepChar) ++ (c :: cs).dropWhile isSepChar) pre.length st := by rw [← hcs]
    rw [hloop, runLoop_append]
    by_cases h2 : (List.filter (fun x => decide (x = ',')) (c :: cs.takeWhile isSepChar)).length ≥ 2
    · simp only [h2, if_true] at hrs ⊢
      rw [hrs]
      exact ⟨_, rfl⟩
    · simp only [h2, if_false] at hrs ⊢
      obtain ⟨st2, hr1, hr2, hr3, hr4⟩ := hrs
      rw [hr1]
      simp only []
      have hne : (c :: cs.takeWhile isSepChar) ≠ [] := by simp
      simp only [hne, if_false, hat.endok] at hr2
      -- boundary after the run
      have hb : Boundary q rw st2 (pre ++ (c :: cs.takeWhile isSepChar)).length := by
        refine ⟨by rw [hr2]; exact hat.quo, by rw [hr2], Or.inr hr4, ?_, ?_⟩
        · intro h0; rcases hr4 with h | h <;> rw [h] at h0 <;> cases h0
        · intro _
          rw [hr2]
          by_cases h1 : (List.filter (fun x => decide (x = ',')) (c :: cs.takeWhile isSepChar)).length ≥ 1
          · simp [h1]
          · simp [h1]
      have hq2 : q = (pre ++ (c :: cs.takeWhile isSepChar)) ++ (c :: cs).dropWhile isSepChar := by
        rw [List.append_assoc, ← hcs]; exact hq
      have hlen2 : ((c :: cs).dropWhile isSepChar).length < fuel := by
        have := congrArg List.length hcs
        simp only [List.length_append, List.length_cons] at this hlen
        omega
      have hns : ∀ d ds, (c :: cs).dropWhile isSepChar = d :: ds → isSepChar d = false :=
        fun d ds hd => dropWhile_head _ _ d ds hd
      have hm := hM _ _ st2 hq2 hb hlen2 hns
      have hidx : pre.length + (c :: cs.takeWhile isSepChar).length = (pre ++ (c :: cs.takeWhile isSepChar)).length := by
        simp
      rw [hidx]
      cases hl : lexItems fuel ((c :: cs).dropWhile isSepChar) with
      | none =>
        simp only [hl] at hm ⊢
        simpa using hm
      | some items =>
        simp only [hl] at hm ⊢
        obtain ⟨st', h1, h3⟩ := hm
        refine ⟨st', by simpa using h1, ?_⟩
        rw [h3, hr3]
        have hpend := hat.pend st2.ctx.postOp false
        have hctx : st2.ctx = { st.ctx with postOp := st2.ctx.postOp, end_ := pre.length, closed := false } := by
          rw [hr2]
        rw [← hctx] at hpend
        rw [hpend]
        simp only [Option.map_some, classify, List.append_assoc]
        have hcomma : decide (st2.ctx.postOp = Lex.or) =
            decide ((List.filter (fun x => decide (x = ',')) (c :: cs.takeWhile isSepChar)).length = 1) := by
          rw [hr2]
          by_cases h1 : (List.filter (fun x => decide (x = ',')) (c :: cs.takeWhile isSepChar)).length ≥ 1
          · have : (List.filter (fun x => decide (x = ',')) (c :: cs.takeWhile isSepChar)).length = 1 := by omega
            simp [h1, this]
          · have : ¬ (List.filter (fun x => decide (x = ',')) (c :: cs.takeWhile isSepChar)).length = 1 := by omega
            simp [h1, this]
        rw [hcomma]


/-! ### a bare word and a quoted string, entered from a boundary -/

/-- context and output right after the first character of a term -/
def startCtx (st : St) (i : Nat) : Ctx := if st.prev = .none then st.ctx else emitCtx st.ctx i
def startOut (st : St) : List Tok := if st.prev = .none then st.out else st.out ++ pendingTok q rw st.ctx

theorem startOut_eq (st : St) (i : Nat) (hb : Boundary q rw st i) :
    startOut q rw st = st.out ++ pendingTok q rw st.ctx := by
  unfold startOut
  by_cases h : st.prev = .none
  · simp [h, (hb.init h).2.2.2.2.2]
  · simp [h]

theorem startCtx_facts (st : St) (i : Nat) (hb : Boundary q rw st i) :
    (startCtx st i).quo = false ∧ (startCtx st i).postOp = .none ∧ (startCtx st i).start = i ∧
    (startCtx st i).unquote = false ∧ ((startCtx st i).preOp = .and ∨ (startCtx st i).preOp = .or) ∧
    decide ((startCtx st i).preOp = .or) = decide (st.ctx.postOp = .or) := by
  unfold startCtx
  by_cases h : st.prev = .none
  · obtain ⟨h1, h2, h3, h4, h5, _⟩ := hb.init h
    simp [h, hb.quo, h1, h2, h3, h4, h5]
  · have := hb.post h
    simp only [h, if_false, emitCtx, hb.quo]
    refine ⟨trivial, trivial, trivial, trivial, this, trivial⟩

theorem run_word (st : St) (i : Nat) (c : Char) (w : List Char) (hb : Boundary q rw st i)
    (hw : ∀ x ∈ c :: w, isWordChar x = true) :
    runChars q rw (c :: w) i st = .ok (finish (startCtx st i) (startOut q rw st) .ord false false) := by
  have hf := startCtx_facts q rw st i hb
  have h1 : stepRune q rw st (some c) i = .ok (finish (startCtx st i) (startOut q rw st) .ord false false) := by
    have hl : lexRune st.ctx.quo (some c) = .ord := by rw [hb.quo]; exact lex_word c (hw c (by simp))
    unfold stepRune
    rw [hl]
    exact step_start q rw st i false hb.quo hb.closed hb.prev
  simp only [runChars, h1]
  apply run_mid
  · intro x hx
    simp only [finish_ff, hf.1]
    exact lex_word x (hw x (by simp [hx]))
  · simp [finish_ff]
  · simp [finish_ff]

theorem after_word (pre w rest : List Char) (st : St) (hq : q = pre ++ w ++ rest) (hb : Boundary q rw st pre.length) :
    AfterTerm q rw (finish (startCtx st pre.length) (startOut q rw st) .ord false false) (pre.length + w.length) w
      (decide (st.ctx.postOp = .or)) := by
  obtain ⟨f1, f2, f3, f4, f5, f6⟩ := startCtx_facts q rw st pre.length hb
  refine ⟨by simp [finish_ff], by simp [finish_ff, f1], by simp [finish_ff, f2], ?_⟩
  intro p cl
  have := pend_word q rw pre w rest (startCtx st pre.length) p cl hq f3 f4 f5
  rw [f6] at this
  simpa [finish_ff] using this

/-- state after `"body"` -/
def quotedSt (st : St) (i : Nat) : St :=
  { ctx := { startCtx st i with quo := false, unquote := true, closed := true }, out := startOut q rw st, prev := .ord }

theorem run_quoted (st : St) (i : Nat) (body : List Char) (hb : Boundary q rw st i)
    (hbody : ∀ x ∈ body, x ≠ '"') :
    runChars q rw ('"' :: body) i st = .ok (finish (startCtx st i) (startOut q rw st) .ord true false) ∧
    stepRune q rw (finish (startCtx st i) (startOut q rw st) .ord true false) (some '"') (i + (body.length + 1)) =
      .ok (quotedSt q rw st i) := by
  have hf := startCtx_facts q rw st i hb
  have h1 : stepRune q rw st (some '"') i = .ok (finish (startCtx st i) (startOut q rw st) .ord true false) := by
    unfold stepRune
    rw [lex_quote, hb.quo]
    exact step_start q rw st i true hb.quo hb.closed hb.prev
  constructor
  · simp only [runChars, h1]
    apply run_mid
    · intro x hx
      simp only [finish]
      exact lex_inquote x (hbody x hx)
    · simp [finish]
    · simp [finish]
  · unfold stepRune
    simp only [finish, lex_quote, if_true, stepOrd, emitAndFinish]
    simp [quotedSt, hf.1]

theorem after_quoted (pre body rest : List Char) (st : St) (hq : q = pre ++ ('"' :: body ++ '"' :: rest))
    (hb : Boundary q rw st pre.length) :
    AfterTerm q rw (quotedSt q rw st pre.length) (pre.length + (body.length + 2)) body (decide (st.ctx.postOp = .or)) := by
  obtain ⟨f1, f2, f3, f4, f5, f6⟩ := startCtx_facts q rw st pre.length hb
  refine ⟨by simp [quotedSt], rfl, by simp [quotedSt, f2], ?_⟩
  intro p cl
  have := pend_quote q rw pre body rest { startCtx st pre.length with unquote := true } p cl hq f3 rfl f5
  rw [f6] at this
  simpa [quotedSt, f1] using this

theorem err_open_after_ord (st : St) (i : Nat) (cs : List Char) (hq : st.ctx.quo = false) (hp : st.prev = .ord) :
    ∃ e, runLoop q rw ('"' :: cs) i st = .error e := by
  refine ⟨.missingOperator, ?_⟩
  simp only [runLoop, stepRune, lex_quote, hq, Bool.false_eq_true, if_false, stepOrd, hp, and_self, if_true]

theorem err_ord_after_closed (st : St) (i : Nat) (c : Char) (cs : List Char) (hq : st.ctx.quo = false)
    (hcl : st.ctx.closed = true) (hc : isWordChar c = true) :
    ∃ e, runLoop q rw (c :: cs) i st = .error e := by
  refine ⟨.missingOperator, ?_⟩
  have hl : lexRune st.ctx.quo (some c) = .ord := by rw [hq]; exact lex_word c hc
  simp only [runLoop, stepRune, hl, stepOrd, hcl, if_true, Bool.false_eq_true, false_and, if_false]


theorem word_or_sep_or_quote (c : Char) : isWordChar c = true ∨ isSepChar c = true ∨ c = '"' := by
  unfold isWordChar
  by_cases h1 : isSepChar c = true
  · exact Or.inr (Or.inl h1)
  · by_cases h2 : c = '"'
    · exact Or.inr (Or.inr h2)
    · left; simp [h1, h2]

theorem M_of_N (fuel : Nat) (hN : NStmt q rw fuel) : MStmt q rw (fuel + 1) := by
  intro pre rest st hq hb hlen hns
  cases rest with
  | nil =>
    simp only [lexItems, runLoop]
    have hno : st.prev ≠ .ord := by rcases hb.prev with h | h | h <;> simp [h]
    refine ⟨finish (emitCtx st.ctx pre.length) (st.out ++ pendingTok q rw st.ctx) .end_ false false, ?_, ?_⟩
    · have e : ({ st.ctx with end_ := st.ctx.end_ } : Ctx) = st.ctx := rfl
      simp only [stepRune, lexRune, stepEnd, emitAndFinish, hno, if_false, if_true, e]
      rw [hb.quo]
      rfl
    · simp [finish, classify]
  | cons c cs =>
    have hc := hns c cs rfl
    simp only [lexItems, hc, Bool.false_eq_true, if_false]
    by_cases hquote : c = '"'
    · -- a quoted term
      subst hquote
      simp only [if_true]
      have hcs : cs = cs.takeWhile (· ≠ '"') ++ cs.dropWhile (· ≠ '"') := (List.takeWhile_append_dropWhile).symm
      have hbody : ∀ x ∈ cs.takeWhile (fun x => decide (x ≠ '"')), x ≠ '"' := by
        intro x hx; simpa using mem_takeWhile _ _ x hx
      obtain ⟨hr1, hr2⟩ := run_quoted q rw st pre.length (cs.takeWhile (· ≠ '"')) hb hbody
      have hloop : runLoop q rw ('"' :: cs) pre.length st =
          runLoop q rw (('"' :: cs.takeWhile (· ≠ '"')) ++ cs.dropWhile (· ≠ '"')) pre.length st := by
        rw [List.cons_append, ← hcs]
      rw [hloop, runLoop_append, hr1]
      simp only []
      cases hd : cs.dropWhile (· ≠ '"') with
      | nil =>
        -- unterminated
        simp only [runLoop]
        refine ⟨.unterminated, ?_⟩
        simp [stepRune, lexRune, stepEnd, emitAndFinish, finish]
      | cons d rest2 =>
        have hdq : d = '"' := by
          have := dropWhile_head _ _ d rest2 hd
          simpa using this
        subst hdq
        simp only [runLoop, List.length_cons]
        rw [hr2]
        simp only []
        have hq2 : q = pre ++ ('"' :: cs.takeWhile (· ≠ '"') ++ '"' :: rest2) := by
          rw [hq]; congr 1; rw [List.cons_append]; congr 1; rw [← hd]; exact hcs
        have hat := after_quoted q rw pre (cs.takeWhile (· ≠ '"')) rest2 st hq2 hb
        have hidx : pre.length + ((cs.takeWhile (· ≠ '"')).length + 1) + 1 =
            (pre ++ ('"' :: cs.takeWhile (· ≠ '"') ++ ['"'])).length := by simp; omega
        have hidx2 : pre.length + ((cs.takeWhile (· ≠ '"')).length + 2) =
            (pre ++ ('"' :: cs.takeWhile (· ≠ '"') ++ ['"'])).length := by simp
        rw [hidx]
        rw [hidx2] at hat
        have hq3 : q = (pre ++ ('"' :: cs.takeWhile (· ≠ '"') ++ ['"'])) ++ rest2 := by
          rw [hq2]; simp
        have hlen3 : rest2.length < fuel := by
          have h1 := congrArg List.length hcs
          rw [hd] at h1
          simp only [List.length_append, List.length_cons] at h1 hlen
          omega
        cases rest2 with
        | nil =>
          have := hN _ [] _ _ _ hq3 hat (by simp at hlen3 ⊢; omega) (by intro c cs h; cases h)
          have hl0 : lexItems fuel [] = some [] := by cases fuel <;> rfl
          simp only [hl0] at this
          obtain ⟨st', h1, h2⟩ := this
          refine ⟨st', h1, ?_⟩
          rw [h2]
          simp [quotedSt, startOut_eq q rw st pre.length hb]
        | cons d2 r2 =>
          simp only []
          by_cases hsep : isSepChar d2 = true
          · simp only [hsep, if_true]
            have := hN _ (d2 :: r2) _ _ _ hq3 hat hlen3 (by intro c cs h; cases h; exact hsep)
            cases hl : lexItems fuel (d2 :: r2) with
            | none => simp only [hl] at this ⊢; simpa using this
            | some items =>
              simp only [hl] at this ⊢
              obtain ⟨st', h1, h2⟩ := this
              refine ⟨st', h1, ?_⟩
              rw [h2]
              simp [quotedSt, startOut_eq q rw st pre.length hb]
          · simp only [hsep, Bool.false_eq_true, if_false]
            rcases word_or_sep_or_quote d2 with hw | hs | hqq
            · exact err_ord_after_closed q rw _ _ d2 r2 rfl rfl hw
            · exact absurd hs hsep
            · subst hqq; exact err_open_after_ord q rw _ _ r2 rfl rfl
    · -- a bare word
      simp only [hquote, if_false]
      have hwc : isWordChar c = true := by
        rcases word_or_sep_or_quote c with h | h | h
        · exact h
        · rw [hc] at h; cases h
        · exact absurd h hquote
      have hrun : (c :: cs).takeWhile isWordChar = c :: cs.takeWhile isWordChar := by simp [hwc]
      have hcs : c :: cs = (c :: cs.takeWhile isWordChar) ++ (c :: cs).dropWhile isWordChar := by
        rw [← hrun]; exact (List.takeWhile_append_dropWhile).symm
      have hw : ∀ x ∈ c :: cs.takeWhile isWordChar, isWordChar x = true := by
        rw [← hrun]; exact mem_takeWhile _ _
      have hr1 := run_word q rw st pre.length c (cs.takeWhile isWordChar) hb hw
      rw [hrun]
      have hloop : runLoop q rw (c :: cs) pre.length st =
          runLoop q rw ((c :: cs.takeWhile isWordChar) ++ (c :: cs).dropWhile isWordChar) pre.length st := by rw [← hcs]
      rw [hloop, runLoop_append, hr1]
      simp only []
      have hq2 : q = pre ++ (c :: cs.takeWhile isWordChar) ++ (c :: cs).dropWhile isWordChar := by
        rw [List.append_assoc, ← hcs]; exact hq
      have hat := after_word q rw pre (c :: cs.takeWhile isWordChar) _ st hq2 hb
      have hidx : pre.length + (c :: cs.takeWhile isWordChar).length = (pre ++ (c :: cs.takeWhile isWordChar)).length := by
        simp
      rw [hidx] at hat ⊢
      have hlen2 : ((c :: cs).dropWhile isWordChar).length < fuel := by
        have := congrArg List.length hcs
        simp only [List.length_append, List.length_cons] at this hlen
        omega
      cases hd : (c :: cs).dropWhile isWordChar with
      | nil =>
        rw [hd] at hq2 hlen2
        have := hN _ [] _ _ _ hq2 hat (by simpa using hlen2) (by intro c cs h; cases h)
        have hl0 : lexItems fuel [] = some [] := by cases fuel <;> rfl
        simp only [hl0, List.head?_nil, reduceCtorEq, if_false] at this ⊢
        obtain ⟨st', h1, h2⟩ := this
        refine ⟨st', h1, ?_⟩
        rw [h2]
        simp [finish_ff, startOut_eq q rw st pre.length hb]
      | cons d r2 =>
        rw [hd] at hq2 hlen2
        have hdw : isWordChar d = false := dropWhile_head _ _ d r2 hd
        by_cases hdq : d = '"'
        · subst hdq
          simp only [List.head?_cons, if_true]
          exact err_open_after_ord q rw _ _ r2 (by simp [finish_ff, (startCtx_facts q rw st pre.length hb).1]) (by simp [finish_ff])
        · have hds : isSepChar d = true := by
            rcases word_or_sep_or_quote d with h | h | h
            · rw [hdw] at h; cases h
            · exact h
            · exact absurd h hdq
          have hh : (d :: r2).head? ≠ some '"' := by simpa using hdq
          simp only [hh, if_false]
          have := hN _ (d :: r2) _ _ _ hq2 hat hlen2 (by intro c cs h; cases h; exact hds)
          cases hl : lexItems fuel (d :: r2) with
          | none => simp only [hl] at this ⊢; simpa using this
          | some items =>
            simp only [hl] at this ⊢
            obtain ⟨st', h1, h2⟩ := this
            refine ⟨st', h1, ?_⟩
            rw [h2]
            simp [finish_ff, startOut_eq q rw st pre.length hb]

theorem sim_all : ∀ fuel, MStmt q rw fuel ∧ NStmt q rw fuel
  | 0 => ⟨fun _ _ _ _ _ h => absurd h (Nat.not_lt_zero _), fun _ _ _ _ _ _ _ h => absurd h (Nat.not_lt_zero _)⟩
  | fuel + 1 => ⟨M_of_N q rw fuel (sim_all fuel).2, N_of_M q rw fuel (sim_all fuel).1⟩

end Tinode.Search
