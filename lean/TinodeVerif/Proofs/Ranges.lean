import TinodeVerif.Model.Ranges
namespace Tinode.Ranges

/-- what the callers guarantee about each entry (topic.go:3013-3032): a non-negative low and either a single id or low < hi -/
def Range.WF (r : Range) : Prop := 0 ≤ r.low ∧ (r.hi = 0 ∨ r.low < r.hi)

instance (r : Range) : Decidable r.WF := by unfold Range.WF; infer_instance

theorem upper_gt_low (r : Range) (h : r.WF) : r.low < upper r := by
  unfold upper; unfold Range.WF at h
  split <;> omega

theorem memList_cons (r : Range) (rs : List Range) (x : Int) :
    memList (r :: rs) x ↔ (r.mem x ∨ memList rs x) := by
  simp [memList]

theorem memList_nil (x : Int) : ¬ memList [] x := by simp [memList]

theorem upper_ext (acc cur : Range) (hcur : cur.WF) :
    upper ({ acc with hi := upper cur } : Range) = upper cur := by
  have := upper_gt_low cur hcur
  have h0 : upper cur ≠ 0 := by unfold Range.WF at hcur; omega
  show (if upper cur = 0 then acc.low + 1 else upper cur) = upper cur
  rw [if_neg h0]

theorem ext_wf (acc cur : Range) (hacc : acc.WF) (hcur : cur.WF) (hle : acc.low ≤ cur.low) :
    ({ acc with hi := upper cur } : Range).WF := by
  have := upper_gt_low cur hcur
  unfold Range.WF at *
  simp; omega

theorem merge_mem (acc cur : Range) (hacc : acc.WF) (hcur : cur.WF) (hle : acc.low ≤ cur.low)
    (hov : upper acc ≥ cur.low) (hlt : upper acc < upper cur) (x : Int) :
    ({ acc with hi := upper cur } : Range).mem x ↔ (acc.mem x ∨ cur.mem x) := by
  have h1 := upper_ext acc cur hcur
  unfold Range.mem
  rw [h1]
  simp only []
  constructor
  · rintro ⟨a, b⟩
    by_cases hx : x < upper acc
    · exact Or.inl ⟨a, hx⟩
    · exact Or.inr ⟨by omega, b⟩
  · rintro (⟨a, b⟩ | ⟨a, b⟩)
    · exact ⟨a, by omega⟩
    · exact ⟨by omega, b⟩

theorem absorb_mem (acc cur : Range) (hle : acc.low ≤ cur.low)
    (hge : ¬ upper acc < upper cur) (x : Int) :
    acc.mem x ↔ (acc.mem x ∨ cur.mem x) := by
  unfold Range.mem
  constructor
  · intro h; exact Or.inl h
  · rintro (h | ⟨a, b⟩)
    · exact h
    · exact ⟨by omega, by omega⟩

theorem normAux_mem (acc : Range) (rest : List Range) (hacc : acc.WF)
    (hrest : ∀ r ∈ rest, r.WF ∧ acc.low ≤ r.low)
    (hsorted : rest.Pairwise (fun a b => a.low ≤ b.low)) (x : Int) :
    memList (normAux acc rest) x ↔ (acc.mem x ∨ memList rest x) := by
  induction rest generalizing acc with
  | nil => simp [normAux, memList]
  | cons cur rest ih =>
    have hcur := hrest cur (by simp)
    have hp := List.pairwise_cons.mp hsorted
    have hrest0 : ∀ r ∈ rest, r.WF ∧ acc.low ≤ r.low := fun r hr => hrest r (by simp [hr])
    unfold normAux
    rw [memList_cons]
    split
    · rename_i hov
      split
      · rename_i hlt
        rw [ih _ (ext_wf acc cur hacc hcur.1 hcur.2) (fun r hr => ⟨(hrest0 r hr).1, (hrest0 r hr).2⟩) hp.2,
          merge_mem acc cur hacc hcur.1 hcur.2 hov hlt, or_assoc]
      · rename_i hge
        rw [ih _ hacc hrest0 hp.2]
        have hab := absorb_mem acc cur hcur.2 hge x
        constructor
        · rintro (h | h)
          · exact Or.inl h
          · exact Or.inr (Or.inr h)
        · rintro (h | h | h)
          · exact Or.inl h
          · exact Or.inl (hab.mpr (Or.inr h))
          · exact Or.inr h
    · have hrest' : ∀ r ∈ rest, r.WF ∧ cur.low ≤ r.low := fun r hr => ⟨(hrest0 r hr).1, hp.1 r hr⟩
      rw [memList_cons, ih cur hcur.1 hrest' hp.2]

/-- the emitted ranges are well formed, start at or after `acc.low`, and are pairwise separated by at least one id -/
theorem normAux_sep (acc : Range) (rest : List Range) (hacc : acc.WF)
    (hrest : ∀ r ∈ rest, r.WF ∧ acc.low ≤ r.low)
    (hsorted : rest.Pairwise (fun a b => a.low ≤ b.low)) :
    (∀ r ∈ normAux acc rest, r.WF ∧ acc.low ≤ r.low) ∧
    (normAux acc rest).Pairwise (fun a b => upper a < b.low) := by
  induction rest generalizing acc with
  | nil =>
    refine ⟨?_, by simp [normAux]⟩
    intro r hr
    simp [normAux] at hr
    subst hr
    exact ⟨hacc, Int.le_refl _⟩
  | cons cur rest ih =>
    have hcur := hrest cur (by simp)
    have hcurwf := hcur.1
    have hp := List.pairwise_cons.mp hsorted
    have hrest0 : ∀ r ∈ rest, r.WF ∧ acc.low ≤ r.low := fun r hr => hrest r (by simp [hr])
    unfold normAux
    split
    · split
      · exact ih _ (ext_wf acc cur hacc hcurwf hcur.2) (fun r hr => ⟨(hrest0 r hr).1, (hrest0 r hr).2⟩) hp.2
      · exact ih _ hacc hrest0 hp.2
    · rename_i hno
      have hrest' : ∀ r ∈ rest, r.WF ∧ cur.low ≤ r.low := fun r hr => ⟨(hrest0 r hr).1, hp.1 r hr⟩
      obtain ⟨h1, h2⟩ := ih cur hcurwf hrest' hp.2
      refine ⟨?_, ?_⟩
      · intro r hr
        rcases List.mem_cons.mp hr with e | e
        · subst e; exact ⟨hacc, Int.le_refl _⟩
        · have := h1 r e; exact ⟨this.1, by omega⟩
      · apply List.pairwise_cons.mpr
        refine ⟨?_, h2⟩
        intro b hb
        have := (h1 b hb).2
        omega

end Tinode.Ranges
