import TinodeVerif.Model.Uid
namespace Tinode.Uid

theorem dec_enc : ∀ (bs : List Nat), (∀ b ∈ bs, b < 256) → dec64 (enc64 bs) = some bs
  | [], _ => rfl
  | [a], h => by
    have := h a (by simp)
    simp only [enc64, dec64]
    rw [if_pos (by omega)]
    congr 2; omega
  | [a, b], h => by
    have ha := h a (by simp); have hb := h b (by simp)
    simp only [enc64, dec64]
    rw [if_pos (by omega)]
    congr 2
    · omega
    · congr 1; omega
  | a :: b :: c :: rest, h => by
    have ha := h a (by simp); have hb := h b (by simp); have hc := h c (by simp)
    have ih := dec_enc rest (fun x hx => h x (by simp [hx]))
    simp only [enc64, dec64, ih, Option.map_some]
    congr 2
    · omega
    · congr 1
      · omega
      · congr 1; omega

theorem enc_lt : ∀ (bs : List Nat), (∀ b ∈ bs, b < 256) → ∀ s ∈ enc64 bs, s < 64
  | [], _ => by simp [enc64]
  | [a], h => by
    have := h a (by simp)
    intro s hs; simp [enc64] at hs; omega
  | [a, b], h => by
    have ha := h a (by simp); have hb := h b (by simp)
    intro s hs; simp [enc64] at hs; omega
  | a :: b :: c :: rest, h => by
    have ha := h a (by simp); have hb := h b (by simp); have hc := h c (by simp)
    have ih := enc_lt rest (fun x hx => h x (by simp [hx]))
    intro s hs
    simp only [enc64, List.mem_cons] at hs
    rcases hs with e | e | e | e | e
    · omega
    · omega
    · omega
    · omega
    · exact ih s e

/-- strict decoding is injective: the only sextet string that decodes to `bs` is `enc64 bs` -/
theorem enc_dec : ∀ (ss bs : List Nat), (∀ s ∈ ss, s < 64) → dec64 ss = some bs → enc64 bs = ss
  | [], bs, _, hd => by simp [dec64] at hd; subst hd; rfl
  | [_], bs, _, hd => by simp [dec64] at hd
  | [s0, s1], bs, h, hd => by
    have h0 := h s0 (by simp); have h1 := h s1 (by simp)
    simp only [dec64] at hd
    split at hd
    · rename_i hz
      simp at hd; subst hd
      simp only [enc64]
      congr 1
      · omega
      · congr 1; omega
    · simp at hd
  | [s0, s1, s2], bs, h, hd => by
    have h0 := h s0 (by simp); have h1 := h s1 (by simp); have h2 := h s2 (by simp)
    simp only [dec64] at hd
    split at hd
    · rename_i hz
      simp at hd; subst hd
      simp only [enc64]
      congr 1
      · omega
      · congr 1
        · omega
        · congr 1; omega
    · simp at hd
  | s0 :: s1 :: s2 :: s3 :: rest, bs, h, hd => by
    have h0 := h s0 (by simp); have h1 := h s1 (by simp); have h2 := h s2 (by simp); have h3 := h s3 (by simp)
    simp only [dec64] at hd
    cases hr : dec64 rest with
    | none => simp [hr] at hd
    | some r =>
      simp [hr] at hd; subst hd
      have ih := enc_dec rest r (fun x hx => h x (by simp [hx])) hr
      simp only [enc64, ih]
      congr 1
      · omega
      · congr 1
        · omega
        · congr 1
          · omega
          · congr 1; omega

theorem idxOf_charOf : ∀ k, k < 64 → idxOf (charOf k) = some k := by decide

theorem charOf_idxOf_mem : ∀ c ∈ alphabet64, charOf (alphabet64.idxOf c) = c := by decide

theorem charOf_idxOf (c : Char) (k : Nat) (h : idxOf c = some k) : charOf k = c ∧ k < 64 := by
  unfold idxOf at h
  simp only [] at h
  split at h
  · rename_i hlt
    simp at h; subst h
    refine ⟨?_, hlt⟩
    have hl : alphabet64.length = 64 := by decide
    exact charOf_idxOf_mem c (List.idxOf_lt_length_iff.mp (by rw [hl]; exact hlt))
  · simp at h

theorem mapM_idxOf_charOf (ss : List Nat) (h : ∀ s ∈ ss, s < 64) : (ss.map charOf).mapM idxOf = some ss := by
  induction ss with
  | nil => rfl
  | cons s ss ih =>
    have := idxOf_charOf s (h s (by simp))
    simp [List.mapM_cons, this, ih (fun x hx => h x (by simp [hx]))]

theorem mapM_idxOf_inv (cs : List Char) (ss : List Nat) (h : cs.mapM idxOf = some ss) :
    ss.map charOf = cs ∧ (∀ s ∈ ss, s < 64) ∧ ss.length = cs.length := by
  induction cs generalizing ss with
  | nil => simp at h; subst h; simp
  | cons c cs ih =>
    cases hc : idxOf c with
    | none => simp [List.mapM_cons, hc] at h
    | some k =>
      cases hm : List.mapM idxOf cs with
      | none => simp [List.mapM_cons, hc, hm] at h
      | some ss' =>
        simp [List.mapM_cons, hc, hm] at h
        subst h
        have h1 := charOf_idxOf c k hc
        have h2 := ih ss' hm
        refine ⟨by simp [h1.1, h2.1], ?_, by simp [h2.2.2]⟩
        intro s hs
        rcases List.mem_cons.mp hs with e | e
        · subst e; exact h1.2
        · exact h2.2.1 s e

theorem charOf_not_newline (k : Nat) (hk : k < 64) : isNewline (charOf k) = false := by
  revert k; decide

theorem filter_enc (ss : List Nat) (h : ∀ s ∈ ss, s < 64) :
    (ss.map charOf).filter (fun c => !isNewline c) = ss.map charOf := by
  apply List.filter_eq_self.mpr
  intro c hc
  simp at hc
  obtain ⟨k, hk, e⟩ := hc
  subst e
  simp [charOf_not_newline k (h k hk)]

/-- decoding what was encoded gives the bytes back -/
theorem decodeB64_encodeB64 (bs : List Nat) (h : ∀ b ∈ bs, b < 256) : decodeB64 (encodeB64 bs) = some bs := by
  unfold decodeB64 encodeB64
  rw [filter_enc _ (enc_lt bs h), mapM_idxOf_charOf _ (enc_lt bs h)]
  exact dec_enc bs h

theorem bytesLE_lt (u : Nat) : ∀ b ∈ bytesLE u, b < 256 := by
  intro b hb; simp [bytesLE] at hb; omega

theorem fromLE_bytesLE (u : Nat) (hu : u < 2 ^ 64) : fromLE (bytesLE u) = u := by
  simp only [bytesLE, fromLE]; omega

theorem bytesLE_fromLE (b0 b1 b2 b3 b4 b5 b6 b7 : Nat) (h0 : b0 < 256) (h1 : b1 < 256) (h2 : b2 < 256)
    (h3 : b3 < 256) (h4 : b4 < 256) (h5 : b5 < 256) (h6 : b6 < 256) (h7 : b7 < 256) :
    bytesLE (fromLE [b0, b1, b2, b3, b4, b5, b6, b7]) = [b0, b1, b2, b3, b4, b5, b6, b7] := by
  simp only [bytesLE, fromLE]
  congr 1; omega; congr 1; omega; congr 1; omega; congr 1; omega; congr 1; omega; congr 1; omega
  congr 1; omega; congr 1; omega

theorem enc64_length : ∀ (bs : List Nat), (enc64 bs).length = (bs.length * 4 + 2) / 3
  | [] => by simp [enc64]
  | [_] => by simp [enc64]
  | [_, _] => by simp [enc64]
  | _ :: _ :: _ :: rest => by
    simp only [enc64, List.length_cons, enc64_length rest]; omega

theorem dec64_length : ∀ (ss bs : List Nat), dec64 ss = some bs → bs.length = ss.length * 3 / 4
  | [], bs, h => by simp [dec64] at h; subst h; rfl
  | [_], bs, h => by simp [dec64] at h
  | [_, _], bs, h => by simp only [dec64] at h; split at h <;> simp at h; subst h; simp
  | [_, _, _], bs, h => by simp only [dec64] at h; split at h <;> simp at h; subst h; simp
  | _ :: _ :: _ :: _ :: rest, bs, h => by
    simp only [dec64] at h
    cases hr : dec64 rest with
    | none => simp [hr] at h
    | some r =>
      simp [hr] at h; subst h
      have := dec64_length rest r hr
      simp only [List.length_cons, this]; omega

end Tinode.Uid

namespace Tinode.Uid

theorem dec_lt : ∀ (ss bs : List Nat), (∀ s ∈ ss, s < 64) → dec64 ss = some bs → ∀ b ∈ bs, b < 256
  | [], bs, _, hd => by simp [dec64] at hd; subst hd; simp
  | [_], bs, _, hd => by simp [dec64] at hd
  | [s0, s1], bs, h, hd => by
    have h0 := h s0 (by simp); have h1 := h s1 (by simp)
    simp only [dec64] at hd
    split at hd <;> simp at hd
    subst hd; intro b hb; simp at hb; omega
  | [s0, s1, s2], bs, h, hd => by
    have h0 := h s0 (by simp); have h1 := h s1 (by simp); have h2 := h s2 (by simp)
    simp only [dec64] at hd
    split at hd <;> simp at hd
    subst hd; intro b hb; simp at hb; omega
  | s0 :: s1 :: s2 :: s3 :: rest, bs, h, hd => by
    have h0 := h s0 (by simp); have h1 := h s1 (by simp); have h2 := h s2 (by simp); have h3 := h s3 (by simp)
    simp only [dec64] at hd
    cases hr : dec64 rest with
    | none => simp [hr] at hd
    | some r =>
      simp [hr] at hd; subst hd
      have ih := dec_lt rest r (fun x hx => h x (by simp [hx])) hr
      intro b hb
      simp only [List.mem_cons] at hb
      rcases hb with e | e | e | e
      · omega
      · omega
      · omega
      · exact ih b e

/-- If strict decoding of a string of `n` characters yields the full byte count, the string is the
canonical encoding of those bytes. -/
theorem decodeB64_canonical (s : List Char) (bs : List Nat) (n : Nat) (hlen : s.length = n)
    (hd : decodeB64 s = some bs) (hfull : n * 3 / 4 ≤ bs.length) (hn : (n - 1) * 3 / 4 < n * 3 / 4) :
    s = encodeB64 bs ∧ (∀ b ∈ bs, b < 256) ∧ bs.length = n * 3 / 4 := by
  unfold decodeB64 at hd
  cases hm : (s.filter (fun c => !isNewline c)).mapM idxOf with
  | none => simp [hm] at hd
  | some ss =>
    simp only [hm] at hd
    obtain ⟨h1, h2, h3⟩ := mapM_idxOf_inv _ ss hm
    have hl := dec64_length ss bs hd
    have hfl : (s.filter (fun c => !isNewline c)).length ≤ s.length := List.length_filter_le _ _
    have hss : ss.length = n := by
      by_cases h : ss.length = n
      · exact h
      · exfalso
        have : ss.length ≤ n - 1 := by omega
        have : ss.length * 3 / 4 ≤ (n - 1) * 3 / 4 := Nat.div_le_div_right (Nat.mul_le_mul_right 3 this)
        omega
    have hfs : s.filter (fun c => !isNewline c) = s := by
      apply List.filter_eq_self.mpr
      have : (s.filter (fun c => !isNewline c)).length = s.length := by omega
      exact List.length_filter_eq_length_iff.mp this
    refine ⟨?_, dec_lt ss bs h2 hd, by rw [hl, hss]⟩
    unfold encodeB64
    rw [enc_dec ss bs h2 hd, h1, hfs]

/-! XTEA -/
theorem dec_enc_round (tab : Nat → W) (i : Nat) (v : W × W) : decRound tab i (encRound tab i v) = v := by
  unfold decRound encRound
  simp only [BitVec.add_sub_cancel]

theorem decrypt_encrypt (tab : Nat → W) (n : Nat) (v : W × W) : decrypt tab n (encrypt tab n v) = v := by
  induction n generalizing v with
  | zero => rfl
  | succ n ih => simp only [encrypt, decrypt, dec_enc_round, ih]

theorem enc_dec_round (tab : Nat → W) (i : Nat) (v : W × W) : encRound tab i (decRound tab i v) = v := by
  unfold decRound encRound
  simp only [BitVec.sub_add_cancel]

theorem encrypt_decrypt (tab : Nat → W) (n : Nat) (v : W × W) : encrypt tab n (decrypt tab n v) = v := by
  induction n generalizing v with
  | zero => rfl
  | succ n ih => simp only [encrypt, decrypt, ih, enc_dec_round]

end Tinode.Uid

namespace Tinode.Uid
theorem idx32_char32 : ∀ k, k < 32 → idx32 (char32 k) = some k := by decide
theorem char32_lower : ∀ k, k < 32 → (char32 k).toLower = char32 k := by decide

theorem dec32_enc32 (a b c d e f g h : Nat) (ha : a < 256) (hb : b < 256) (hc : c < 256) (hd : d < 256)
    (he : e < 256) (hf : f < 256) (hg : g < 256) (hh : h < 256) :
    dec32x13 (enc32x8 [a, b, c, d, e, f, g, h]) = some [a, b, c, d, e, f, g, h] := by
  simp only [enc32x8, dec32x13]
  congr 2; omega; congr 1; omega; congr 1; omega; congr 1; omega; congr 1; omega; congr 1; omega
  congr 1; omega; congr 1; omega

theorem enc32_lt (a b c d e f g h : Nat) (ha : a < 256) (hb : b < 256) (hc : c < 256) (hd : d < 256)
    (he : e < 256) (hf : f < 256) (hg : g < 256) (hh : h < 256) :
    ∀ q ∈ enc32x8 [a, b, c, d, e, f, g, h], q < 32 := by
  intro q hq
  simp only [enc32x8, List.mem_cons, List.not_mem_nil, or_false] at hq
  omega

theorem mapM_idx32 (qs : List Nat) (h : ∀ q ∈ qs, q < 32) :
    ((qs.map char32).map Char.toLower).mapM idx32 = some qs := by
  induction qs with
  | nil => rfl
  | cons q qs ih =>
    have hq := h q (by simp)
    simp [List.mapM_cons, char32_lower q hq, idx32_char32 q hq]
    have := ih (fun x hx => h x (by simp [hx]))
    simp at this
    simp [this]
end Tinode.Uid
