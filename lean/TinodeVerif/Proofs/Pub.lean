import TinodeVerif.Proofs.World
import TinodeVerif.Proofs.Modes
/-! What the two halves of an accepted publish do: `Ctx.saveMessage` (the store) and `Ctx.deliverPub` (memory and traffic). -/
namespace Tinode.World
open Tinode.Acs

theorem subsUpdate_eq (c : Ctx) (tn : TName) (u : Uid) (f : SubRow → SubRow) :
    c.subsUpdate tn u f = c.call "SubsUpdate" (fun w => match w.row? tn with
      | some r => w.setRow { r with subs := r.subs.map (fun s => if u = "" ∨ s.user = u then f s else s) }
      | none => w) := rfl

/-- effect of the subscription update on the topic row: only `subs` changes -/
theorem row_after_subsUpd (w : World) (tn : TName) (r : TopicRow) (g : List SubRow → List SubRow) (h : w.row? tn = some r) :
    (match w.row? tn with
      | some r => w.setRow { r with subs := g r.subs }
      | none => w).row? tn = some { r with subs := g r.subs } := by
  have hn := row_name _ _ _ h
  subst hn
  rw [h]
  exact row_setRow w { r with subs := g r.subs }

structure SaveOk (c c1 : Ctx) (tn : TName) (m : MsgRow) : Prop where
  frames : c1.frames = c.frames
  pushes : c1.pushes = c.pushes
  routed : c1.routed = c.routed
  live : ∀ k, c1.w.live? k = c.w.live? k
  sess : c1.w.sess = c.w.sess
  row : ∀ r, c.w.row? tn = some r → ∃ r', c1.w.row? tn = some r' ∧ r'.seq = m.seq ∧ r'.msgs = r.msgs ++ [m] ∧ r'.del = r.del ∧
          r'.owner = r.owner ∧ r'.dellog = r.dellog

theorem effBumpSeq_row (w : World) (tn : TName) (q : Int) (r : TopicRow) (h : w.row? tn = some r) :
    (effBumpSeq tn q w).row? tn = some { r with seq := q } := by
  have hn := row_name _ _ _ h
  subst hn
  unfold effBumpSeq; rw [h]
  exact row_setRow w { r with seq := q }
theorem effSaveMsg_row (w : World) (tn : TName) (m : MsgRow) (r : TopicRow) (h : w.row? tn = some r) :
    (effSaveMsg tn m w).row? tn = some { r with msgs := r.msgs ++ [m] } := by
  have hn := row_name _ _ _ h
  subst hn
  unfold effSaveMsg; rw [h]
  exact row_setRow w { r with msgs := r.msgs ++ [m] }
theorem effBumpSeq_live (w : World) (tn : TName) (q : Int) (k) : (effBumpSeq tn q w).live? k = w.live? k := by
  unfold effBumpSeq; split <;> rfl
theorem effSaveMsg_live (w : World) (tn : TName) (m : MsgRow) (k) : (effSaveMsg tn m w).live? k = w.live? k := by
  unfold effSaveMsg; split <;> rfl
theorem effBumpSeq_sess (w : World) (tn : TName) (q : Int) : (effBumpSeq tn q w).sess = w.sess := by
  unfold effBumpSeq; split <;> rfl
theorem effSaveMsg_sess (w : World) (tn : TName) (m : MsgRow) : (effSaveMsg tn m w).sess = w.sess := by
  unfold effSaveMsg; split <;> rfl

/-- with no injected failure the save succeeds: counter set, message appended, nothing else of the topic row's counters touched -/
theorem saveMessage_ok (c : Ctx) (tn : TName) (m : MsgRow) (rbs : Bool) (hf : c.failK = 0) :
    ∃ c1 mk, c.saveMessage tn m rbs = (c1, some mk) ∧ SaveOk c c1 tn m ∧ (rbs = false → mk = false) := by
  unfold Ctx.saveMessage
  obtain ⟨c1, h1, hw1, hfr1, hpu1, hro1, hf1, _⟩ := call_ok' c "TopicUpdateOnMessage" (effBumpSeq tn m.seq) hf
  rw [h1]; simp only [Bool.not_true, Bool.false_eq_true, if_false]
  obtain ⟨c2, h2, hw2, hfr2, hpu2, hro2, hf2, _⟩ := call_ok' c1 "MessageSave" (effSaveMsg tn m) hf1
  rw [h2]; simp only [Bool.not_true, Bool.false_eq_true, if_false]
  have hrow2 : ∀ r, c.w.row? tn = some r → c2.w.row? tn = some { r with seq := m.seq, msgs := r.msgs ++ [m] } := by
    intro r hr
    rw [hw2, hw1]
    have := effSaveMsg_row _ tn m _ (effBumpSeq_row c.w tn m.seq r hr)
    exact this
  cases rbs with
  | false =>
    refine ⟨c2, false, rfl, ⟨by rw [hfr2, hfr1], by rw [hpu2, hpu1], by rw [hro2, hro1], ?_, ?_, ?_⟩, fun _ => rfl⟩
    · intro k; rw [hw2, hw1, effSaveMsg_live, effBumpSeq_live]
    · rw [hw2, hw1, effSaveMsg_sess, effBumpSeq_sess]
    · intro r hr; exact ⟨_, hrow2 r hr, rfl, rfl, rfl, rfl, rfl⟩
  | true =>
    simp only [if_true]
    rw [subsUpdate_eq]
    obtain ⟨c3, h3, hw3, hfr3, hpu3, hro3, _, _⟩ := call_ok' c2 "SubsUpdate" (fun w => match w.row? tn with
      | some r => w.setRow { r with subs := r.subs.map (fun (s : SubRow) => if m.sender = "" ∨ s.user = m.sender then
          (fun s : SubRow => { s with readId := m.seq, recvId := m.seq }) s else s) }
      | none => w) hf2
    rw [h3]
    refine ⟨c3, true, rfl, ⟨by rw [hfr3, hfr2, hfr1], by rw [hpu3, hpu2, hpu1], by rw [hro3, hro2, hro1], ?_, ?_, ?_⟩,
      fun h => by cases h⟩
    · intro k; rw [hw3]
      have : ∀ w : World, (match w.row? tn with
          | some r => w.setRow { r with subs := r.subs.map (fun (s : SubRow) => if m.sender = "" ∨ s.user = m.sender then
              (fun s : SubRow => { s with readId := m.seq, recvId := m.seq }) s else s) }
          | none => w).live? k = w.live? k := by intro w; split <;> rfl
      rw [this, hw2, hw1, effSaveMsg_live, effBumpSeq_live]
    · rw [hw3]
      have : ∀ w : World, (match w.row? tn with
          | some r => w.setRow { r with subs := r.subs.map (fun (s : SubRow) => if m.sender = "" ∨ s.user = m.sender then
              (fun s : SubRow => { s with readId := m.seq, recvId := m.seq }) s else s) }
          | none => w).sess = w.sess := by intro w; split <;> rfl
      rw [this, hw2, hw1, effSaveMsg_sess, effBumpSeq_sess]
    · intro r hr
      have h2r := hrow2 r hr
      rw [hw3]
      have := row_after_subsUpd c2.w tn _ (fun subs => subs.map (fun (s : SubRow) => if m.sender = "" ∨ s.user = m.sender then
          (fun s : SubRow => { s with readId := m.seq, recvId := m.seq }) s else s)) h2r
      exact ⟨_, this, rfl, rfl, rfl, rfl, rfl⟩

/-- a failed save: no traffic, memory untouched, no message stored; the stored counter is either untouched (the first call
failed) or already advanced to the new number (the second call failed) -/
theorem saveMessage_none (c c1 : Ctx) (tn : TName) (m : MsgRow) (rbs : Bool) (h : c.saveMessage tn m rbs = (c1, none)) :
    c1.frames = c.frames ∧ c1.pushes = c.pushes ∧ c1.routed = c.routed ∧ (∀ k, c1.w.live? k = c.w.live? k) ∧ c1.w.sess = c.w.sess ∧
    ∀ r, c.w.row? tn = some r → ∃ r', c1.w.row? tn = some r' ∧ r'.msgs = r.msgs ∧ (r'.seq = r.seq ∨ r'.seq = m.seq) := by
  unfold Ctx.saveMessage at h
  rcases call_w_cases c "TopicUpdateOnMessage" (effBumpSeq tn m.seq) with ⟨hok, hw⟩ | ⟨hok, hw⟩
  · -- the first call succeeded
    generalize hc : c.call "TopicUpdateOnMessage" (effBumpSeq tn m.seq) = p1 at h hok hw
    obtain ⟨ca, oka⟩ := p1
    simp only at hok hw h
    subst hok
    simp only [Bool.not_true, Bool.false_eq_true, if_false] at h
    have hfa : ca.frames = c.frames := by have := call_frames c "TopicUpdateOnMessage" (effBumpSeq tn m.seq); rw [hc] at this; exact this
    have hpa : ca.pushes = c.pushes := by have := call_pushes c "TopicUpdateOnMessage" (effBumpSeq tn m.seq); rw [hc] at this; exact this
    have hra : ca.routed = c.routed := by have := call_routed c "TopicUpdateOnMessage" (effBumpSeq tn m.seq); rw [hc] at this; exact this
    rcases call_w_cases ca "MessageSave" (effSaveMsg tn m) with ⟨hok2, hw2⟩ | ⟨hok2, hw2⟩
    · generalize hc2 : ca.call "MessageSave" (effSaveMsg tn m) = p2 at h hok2 hw2
      obtain ⟨cb, okb⟩ := p2
      simp only at hok2 hw2 h
      subst hok2
      simp only [Bool.not_true, Bool.false_eq_true, if_false] at h
      -- the save went through: the result cannot be `none`
      cases rbs <;> simp at h
    · generalize hc2 : ca.call "MessageSave" (effSaveMsg tn m) = p2 at h hok2 hw2
      obtain ⟨cb, okb⟩ := p2
      simp only at hok2 hw2 h
      subst hok2
      simp only [Bool.not_false, if_true, Prod.mk.injEq, and_true] at h
      subst h
      have hfb : cb.frames = ca.frames := by have := call_frames ca "MessageSave" (effSaveMsg tn m); rw [hc2] at this; exact this
      have hpb : cb.pushes = ca.pushes := by have := call_pushes ca "MessageSave" (effSaveMsg tn m); rw [hc2] at this; exact this
      have hrb : cb.routed = ca.routed := by have := call_routed ca "MessageSave" (effSaveMsg tn m); rw [hc2] at this; exact this
      refine ⟨by rw [hfb, hfa], by rw [hpb, hpa], by rw [hrb, hra], ?_, ?_, ?_⟩
      · intro k; rw [hw2, hw, effBumpSeq_live]
      · rw [hw2, hw, effBumpSeq_sess]
      · intro r hr; rw [hw2, hw]
        exact ⟨_, effBumpSeq_row c.w tn m.seq r hr, rfl, Or.inr rfl⟩
  · generalize hc : c.call "TopicUpdateOnMessage" (effBumpSeq tn m.seq) = p1 at h hok hw
    obtain ⟨ca, oka⟩ := p1
    simp only at hok hw h
    subst hok
    simp only [Bool.not_false, if_true, Prod.mk.injEq, and_true] at h
    subst h
    have hfa : ca.frames = c.frames := by have := call_frames c "TopicUpdateOnMessage" (effBumpSeq tn m.seq); rw [hc] at this; exact this
    have hpa : ca.pushes = c.pushes := by have := call_pushes c "TopicUpdateOnMessage" (effBumpSeq tn m.seq); rw [hc] at this; exact this
    have hra : ca.routed = c.routed := by have := call_routed c "TopicUpdateOnMessage" (effBumpSeq tn m.seq); rw [hc] at this; exact this
    refine ⟨hfa, hpa, hra, ?_, ?_, ?_⟩
    · intro k; rw [hw]
    · rw [hw]
    · intro r hr; rw [hw]; exact ⟨r, hr, rfl, Or.inl rfl⟩

/-- a subscription update leaves the counters, messages and deletion log of the row alone, whether it fails or not -/
theorem subsUpdate_row (c : Ctx) (tn : TName) (u : Uid) (f : SubRow → SubRow) (r : TopicRow) (h : c.w.row? tn = some r) :
    ∃ r', (c.subsUpdate tn u f).1.w.row? tn = some r' ∧ r'.seq = r.seq ∧ r'.msgs = r.msgs ∧ r'.del = r.del ∧ r'.owner = r.owner ∧
      r'.dellog = r.dellog := by
  rw [subsUpdate_eq]
  rcases call_w_cases c "SubsUpdate" (fun w => match w.row? tn with
      | some r => w.setRow { r with subs := r.subs.map (fun (s : SubRow) => if u = "" ∨ s.user = u then f s else s) }
      | none => w) with ⟨_, hw⟩ | ⟨_, hw⟩
  · rw [hw]
    exact ⟨_, row_after_subsUpd c.w tn r (fun subs => subs.map (fun (s : SubRow) => if u = "" ∨ s.user = u then f s else s)) h,
      rfl, rfl, rfl, rfl, rfl⟩
  · rw [hw]; exact ⟨r, h, rfl, rfl, rfl, rfl, rfl⟩

/-- a save that reports success has stored the counter and the message, whatever the fault plan was -/
theorem saveMessage_some (c c1 : Ctx) (tn : TName) (m : MsgRow) (rbs mk : Bool) (h : c.saveMessage tn m rbs = (c1, some mk))
    (r : TopicRow) (hrow : c.w.row? tn = some r) :
    ∃ r', c1.w.row? tn = some r' ∧ r'.seq = m.seq ∧ r'.msgs = r.msgs ++ [m] := by
  unfold Ctx.saveMessage at h
  rcases call_w_cases c "TopicUpdateOnMessage" (effBumpSeq tn m.seq) with ⟨hok, hw⟩ | ⟨hok, hw⟩
  · generalize hc : c.call "TopicUpdateOnMessage" (effBumpSeq tn m.seq) = p1 at h hok hw
    obtain ⟨ca, oka⟩ := p1
    simp only at hok hw h
    subst hok
    simp only [Bool.not_true, Bool.false_eq_true, if_false] at h
    rcases call_w_cases ca "MessageSave" (effSaveMsg tn m) with ⟨hok2, hw2⟩ | ⟨hok2, hw2⟩
    · generalize hc2 : ca.call "MessageSave" (effSaveMsg tn m) = p2 at h hok2 hw2
      obtain ⟨cb, okb⟩ := p2
      simp only at hok2 hw2 h
      subst hok2
      simp only [Bool.not_true, Bool.false_eq_true, if_false] at h
      have hrb : cb.w.row? tn = some { r with seq := m.seq, msgs := r.msgs ++ [m] } := by
        rw [hw2, hw]; exact effSaveMsg_row _ tn _ _ (effBumpSeq_row c.w tn _ r hrow)
      cases rbs with
      | false =>
        simp only [Bool.false_eq_true, if_false, Prod.mk.injEq] at h
        obtain ⟨hcd, _⟩ := h
        subst hcd
        exact ⟨_, hrb, rfl, rfl⟩
      | true =>
        simp only [if_true] at h
        obtain ⟨r', hr', hq, hm, _⟩ := subsUpdate_row cb tn m.sender (fun s => { s with readId := m.seq, recvId := m.seq }) _ hrb
        generalize hc3 : cb.subsUpdate tn m.sender (fun s => { s with readId := m.seq, recvId := m.seq }) = p3 at h hr'
        obtain ⟨cd, okd⟩ := p3
        simp only [Prod.mk.injEq] at h
        obtain ⟨hcd, _⟩ := h
        subst hcd
        exact ⟨r', hr', hq, hm⟩
    · generalize hc2 : ca.call "MessageSave" (effSaveMsg tn m) = p2 at h hok2 hw2
      obtain ⟨cb, okb⟩ := p2
      simp only at hok2 hw2 h
      subst hok2
      simp at h
  · generalize hc : c.call "TopicUpdateOnMessage" (effBumpSeq tn m.seq) = p1 at h hok hw
    obtain ⟨ca, oka⟩ := p1
    simp only at hok hw h
    subst hok
    simp at h

/-- the loaded topic after an accepted publish -/
def pubTopic (t : Topic) (a : Actor) (m : MsgRow) (marked : Bool) : Topic :=
  let t' := { t with lastId := m.seq }
  if (t.pud? a.uid).isSome ∧ marked then t'.setPud a.uid { t.pud a.uid with readId := m.seq, recvId := m.seq } else t'

theorem pubTopic_lastId (t a m mk) : (pubTopic t a m mk).lastId = m.seq := by
  unfold pubTopic; simp only; split <;> rfl
theorem pubTopic_sessions (t a m mk) : (pubTopic t a m mk).sessions = t.sessions := by
  unfold pubTopic; simp only; split <;> rfl
theorem pubTopic_name (t a m mk) : (pubTopic t a m mk).name = t.name := by
  unfold pubTopic; simp only; split <;> rfl

/-- modes are not touched by a publish: every user's effective mode is as before -/
theorem pubTopic_eff (t : Topic) (a : Actor) (m : MsgRow) (mk : Bool) (u : Uid) : eff ((pubTopic t a m mk).pud u) = eff (t.pud u) := by
  unfold pubTopic; simp only
  split
  · by_cases hu : u = a.uid
    · subst hu; rw [pud_setPud]; rfl
    · rw [pud_setPud_other _ _ _ _ hu]; rfl
  · rfl

theorem pubTopic_reader (t : Topic) (a : Actor) (m : MsgRow) (mk : Bool) (u : Uid) :
    (pubTopic t a m mk).userIsReader u = t.userIsReader u := by
  unfold Topic.userIsReader; rw [pubTopic_eff]

theorem dataRcpt_pubTopic (t : Topic) (a : Actor) (m : MsgRow) (mk : Bool) (skip : Sid) :
    dataRcpt (pubTopic t a m mk) skip = dataRcpt t skip := by
  unfold dataRcpt
  rw [pubTopic_sessions]
  congr 1
  funext x
  rcases x with ⟨sid, uid⟩
  simp only [pubTopic_reader]

/-- `deliverPub`, spelled out: the new loaded topic, the acknowledgement followed by one copy per recipient session, at most
one push -/
theorem deliverPub_eq (c : Ctx) (t : Topic) (a : Actor) (m : MsgRow) (mk noEcho : Bool) :
    (c.deliverPub t a m mk noEcho).w = c.w.setLive (pubTopic t a m mk) ∧
    (c.deliverPub t a m mk noEcho).frames = c.frames ++ [(a.sid, ctrl 202 t.name s!" seq={m.seq}")] ++
      (dataRcpt t (if noEcho then a.sid else "")).map (fun x => (x.1, dataFrame t.name a.uid m.seq m.head m.content)) ∧
    (c.deliverPub t a m mk noEcho).routed = c.routed ∧
    (c.deliverPub t a m mk noEcho).pushes = (if (pushRcpt (pubTopic t a m mk)).isEmpty then c.pushes else c.pushes ++
      [s!"push what=msg topic={t.name} seq={m.seq} to=\{{",".intercalate ((pushRcpt (pubTopic t a m mk)).mergeSort (· ≤ ·))}} chan=-"]) := by
  unfold Ctx.deliverPub
  simp only [fanoutData_eq]
  have hT : (if (t.pud? a.uid).isSome = true ∧ mk = true then
        ({ t with lastId := m.seq } : Topic).setPud a.uid { t.pud a.uid with readId := m.seq, recvId := m.seq }
      else { t with lastId := m.seq }) = pubTopic t a m mk := by
    unfold pubTopic; rfl
  rw [hT]
  rw [dataRcpt_pubTopic]
  refine ⟨?_, ?_, ?_, ?_⟩
  · split <;> rfl
  · split <;> simp [Ctx.putLive, Ctx.emit, Ctx.offq, List.append_assoc]
  · split <;> rfl
  · split <;> rfl

/-- `opPub` past its guards -/
theorem opPub_guarded (c : Ctx) (a : Actor) (tn : TName) (content : String) (head : List (String × String)) (noEcho : Bool) (t : Topic)
    (hatt : c.w.attached a.sid tn = true) (hlive : c.w.live? tn = some t)
    (hact : t.inactive = false) (hro : t.readOnly = false) (hw : isWriter (eff (t.pud a.uid)) = true) :
    c.opPub a tn content head noEcho =
      (match c.saveMessage tn { seq := t.lastId + 1, sender := a.uid, head := pubHead a head, content := some content }
          (isReader (eff (t.pud a.uid)) && decide (a.uid ≠ "")) with
        | (c1, none) => c1.emit a.sid (ctrl 500 tn)
        | (c1, some marked) => c1.deliverPub t a { seq := t.lastId + 1, sender := a.uid, head := pubHead a head, content := some content } marked noEcho) := by
  unfold Ctx.opPub
  simp only [hatt, Bool.not_true, Bool.false_eq_true, if_false, hlive, hact, hro, hw]
  generalize c.saveMessage tn { seq := t.lastId + 1, sender := a.uid, head := pubHead a head, content := some content }
      (isReader (eff (t.pud a.uid)) && decide (a.uid ≠ "")) = p
  rcases p with ⟨c1, s⟩
  cases s <;> rfl

end Tinode.World
