import TinodeVerif.Model.Ring
namespace Tinode.Ring

/-- what is assumed of the order on node names -/
structure TotalOrder (kle : String → String → Bool) : Prop where
  total : ∀ a b, kle a b || kle b a
  trans : ∀ a b c, kle a b → kle b c → kle a c
  antisymm : ∀ a b, kle a b → kle b a → a = b

variable {kle : String → String → Bool}

theorem ele_total (h : TotalOrder kle) (a b : Elem) : (ele kle a b || ele kle b a) = true := by
  unfold ele
  rcases Nat.lt_trichotomy a.hash b.hash with h1 | h1 | h1
  · simp [h1]
  · have := h.total a.key b.key
    simp [h1] at this ⊢
    exact this
  · simp [h1]

theorem ele_trans (h : TotalOrder kle) (a b c : Elem) : ele kle a b = true → ele kle b c = true → ele kle a c = true := by
  unfold ele
  simp only [Bool.or_eq_true, decide_eq_true_eq, Bool.and_eq_true, beq_iff_eq]
  rintro (h1 | ⟨h1, h2⟩) (h3 | ⟨h3, h4⟩)
  · exact Or.inl (by omega)
  · exact Or.inl (by omega)
  · exact Or.inl (by omega)
  · exact Or.inr ⟨by omega, h.trans _ _ _ h2 h4⟩

theorem ele_antisymm (h : TotalOrder kle) (a b : Elem) : ele kle a b = true → ele kle b a = true → a = b := by
  unfold ele
  simp only [Bool.or_eq_true, decide_eq_true_eq, Bool.and_eq_true, beq_iff_eq]
  rintro (h1 | ⟨h1, h2⟩) (h3 | ⟨h3, h4⟩)
  · omega
  · omega
  · omega
  · have := h.antisymm _ _ h2 h4
    cases a; cases b; simp_all

/-- two sorted lists with the same elements (as multisets) are equal -/
theorem sorted_perm_eq (h : TotalOrder kle) (l1 l2 : List Elem) (hp : l1.Perm l2)
    (s1 : l1.Pairwise (fun a b => ele kle a b = true)) (s2 : l2.Pairwise (fun a b => ele kle a b = true)) : l1 = l2 :=
  List.Perm.eq_of_pairwise (fun a b _ _ hab hba => ele_antisymm h a b hab hba) s1 s2 hp

theorem ring_sorted (h : TotalOrder kle) (hash : String → Nat) (n : Nat) (nodes : List String) :
    (ring kle hash n nodes).Pairwise (fun a b => ele kle a b = true) :=
  List.pairwise_mergeSort (le := ele kle) (fun a b c => ele_trans h a b c) (fun a b => ele_total h a b) _

theorem ring_perm (hash : String → Nat) (n : Nat) (nodes : List String) :
    (ring kle hash n nodes).Perm (elemsOf hash n nodes) := List.mergeSort_perm _ _

theorem elemsOf_filter (hash : String → Nat) (n : Nat) (nodes : List String) (p : String → Bool) :
    elemsOf hash n (nodes.filter p) = (elemsOf hash n nodes).filter (fun e => p e.key) := by
  induction nodes with
  | nil => rfl
  | cons a l ih =>
    unfold elemsOf at *
    by_cases hp : p a
    · simp only [List.filter_cons, hp, if_true, List.flatMap_cons, List.filter_append, ih]
      congr 1
      rw [List.filter_eq_self.mpr]
      intro e he
      simp at he
      obtain ⟨i, _, rfl⟩ := he
      exact hp
    · have this : List.filter (fun e => p e.key) (List.map (fun i => ({ hash := hash (toString i ++ a), key := a } : Elem)) (List.range n)) = [] := by
        apply List.filter_eq_nil_iff.mpr
        intro e he
        simp only [List.mem_map] at he
        obtain ⟨i, _, rfl⟩ := he
        simpa using hp
      simp only [List.filter_cons, hp, Bool.false_eq_true, if_false, List.flatMap_cons, List.filter_append]
      rw [this, List.nil_append]
      exact ih

/-- removing nodes from the membership removes exactly their replicas from the sorted ring -/
theorem ring_filter (h : TotalOrder kle) (hash : String → Nat) (n : Nat) (nodes : List String) (p : String → Bool) :
    ring kle hash n (nodes.filter p) = (ring kle hash n nodes).filter (fun e => p e.key) := by
  apply sorted_perm_eq h
  · have h1 := ring_perm (kle := kle) hash n (nodes.filter p)
    have h2 := (ring_perm (kle := kle) hash n nodes).filter (fun e => p e.key)
    rw [elemsOf_filter] at h1
    exact h1.trans h2.symm
  · exact ring_sorted h hash n _
  · exact (ring_sorted h hash n nodes).filter _

theorem find_filter_some (l : List Elem) (p q : Elem → Bool) (e : Elem) (hq : l.find? q = some e) (hp : p e = true) :
    (l.filter p).find? q = some e := by
  induction l with
  | nil => simp at hq
  | cons a l ih =>
    simp only [List.find?_cons] at hq
    by_cases hqa : q a
    · simp [hqa] at hq; subst hq
      simp [List.filter_cons, hp, hqa]
    · simp [hqa] at hq
      by_cases hpa : p a
      · simp [List.filter_cons, hpa, hqa, ih hq]
      · simp [List.filter_cons, hpa, ih hq]

theorem find_filter_none (l : List Elem) (p q : Elem → Bool) (hq : l.find? q = none) :
    (l.filter p).find? q = none := by
  simp only [List.find?_eq_none] at hq ⊢
  intro x hx
  exact hq x (List.mem_filter.mp hx).1

theorem mem_elemsOf (hash : String → Nat) (n : Nat) (nodes : List String) (e : Elem) (he : e ∈ elemsOf hash n nodes) :
    e.key ∈ nodes := by
  unfold elemsOf at he
  simp at he
  obtain ⟨a, ha, i, _, rfl⟩ := he
  exact ha

end Tinode.Ring
