import TinodeVerif.Model.Search
namespace Tinode.Search

/-- what is assumed of `sort.Strings`: it sorts (w.r.t. a transitive, antisymmetric order `le`) and only permutes -/
structure SortSpec (le : List Char → List Char → Bool) (sortS : List (List Char) → List (List Char)) : Prop where
  trans : ∀ a b c, le a b → le b c → le a c
  antisymm : ∀ a b, le a b → le b a → a = b
  perm : ∀ l, (sortS l).Perm l
  sorted : ∀ l, (sortS l).Pairwise (fun a b => le a b = true)

variable (isLetter isDigit : Char → Bool)

theorem dedup_props {le : List Char → List Char → Bool}
    (htrans : ∀ a b c, le a b → le b c → le a c) (hanti : ∀ a b, le a b → le b a → a = b)
    (l : List (List Char)) (prev : List Char) (r : List (List Char))
    (hs : l.Pairwise (fun a b => le a b = true)) (hprev : ∀ x ∈ l, le prev x = true)
    (h : dedupLoop isLetter isDigit l prev = some r) :
    r.Sublist l ∧
    (∀ x ∈ r, minTagLength ≤ x.length ∧ x.length ≤ maxTagLength ∧ x ≠ prev ∧ x ≠ nullValue ∧
      ∃ c cs, x = c :: cs ∧ (isLetter c = true ∨ isDigit c = true)) ∧
    r.Pairwise (fun a b => le a b = true ∧ a ≠ b) := by
  induction l generalizing prev r with
  | nil => simp [dedupLoop] at h; subst h; simp
  | cons curr rest ih =>
    have hp := List.pairwise_cons.mp hs
    have hrest_prev : ∀ x ∈ rest, le prev x = true := fun x hx => hprev x (by simp [hx])
    unfold dedupLoop at h
    split at h
    · simp at h
    · rename_i hnull
      split at h
      · obtain ⟨a, b, c⟩ := ih prev r hp.2 hrest_prev h
        exact ⟨a.cons _, b, c⟩
      · rename_i hcond
        have hlen1 : ¬ curr.length < minTagLength := fun hh => hcond (Or.inl hh)
        have hlen2 : ¬ curr.length > maxTagLength := fun hh => hcond (Or.inr (Or.inl hh))
        have hne : curr ≠ prev := fun hh => hcond (Or.inr (Or.inr hh))
        split at h
        · obtain ⟨a, b, c⟩ := ih prev r hp.2 hrest_prev h
          exact ⟨a.cons _, b, c⟩
        · rename_i c0 cs0
          split at h
          · obtain ⟨a, b, c⟩ := ih prev r hp.2 hrest_prev h
            exact ⟨a.cons _, b, c⟩
          · rename_i hfirst
            cases hr : dedupLoop isLetter isDigit rest (c0 :: cs0) with
            | none => simp [hr] at h
            | some r' =>
              simp [hr] at h
              subst h
              obtain ⟨a, b, c⟩ := ih (c0 :: cs0) r' hp.2 hp.1 hr
              refine ⟨a.cons_cons _, ?_, ?_⟩
              · intro x hx
                rcases List.mem_cons.mp hx with e | e
                · subst e
                  refine ⟨by omega, by omega, hne, hnull, c0, cs0, rfl, ?_⟩
                  simp at hfirst
                  by_cases hl : isLetter c0 = true
                  · exact Or.inl hl
                  · right; simp at hl; exact hfirst hl
                · obtain ⟨b1, b2, b3, b4, b5⟩ := b x e
                  refine ⟨b1, b2, ?_, b4, b5⟩
                  intro hxp
                  subst hxp
                  -- x = prev ≤ curr ≤ x, hence curr = prev
                  have h1 : le x (c0 :: cs0) = true := hprev _ (by simp)
                  have h2 : le (c0 :: cs0) x = true := hp.1 x (a.subset e)
                  exact hne (hanti _ _ h1 h2).symm
              · apply List.pairwise_cons.mpr
                refine ⟨?_, c⟩
                intro x hx
                exact ⟨hp.1 x (a.subset hx), fun e => (b x hx).2.2.1 e.symm⟩


/-- the loop as `normalizeTags` starts it (`prev = ""`): the empty string is shorter than any kept tag, so the
`x ≠ prev` clause is vacuous and no lower bound on the list is needed -/
theorem dedup_props_nil {le : List Char → List Char → Bool}
    (htrans : ∀ a b c, le a b → le b c → le a c) (hanti : ∀ a b, le a b → le b a → a = b)
    (l : List (List Char)) (r : List (List Char))
    (hs : l.Pairwise (fun a b => le a b = true))
    (h : dedupLoop isLetter isDigit l [] = some r) :
    r.Sublist l ∧
    (∀ x ∈ r, minTagLength ≤ x.length ∧ x.length ≤ maxTagLength ∧ x ≠ nullValue ∧
      ∃ c cs, x = c :: cs ∧ (isLetter c = true ∨ isDigit c = true)) ∧
    r.Pairwise (fun a b => le a b = true ∧ a ≠ b) := by
  induction l generalizing r with
  | nil => simp [dedupLoop] at h; subst h; simp
  | cons curr rest ih =>
    have hp := List.pairwise_cons.mp hs
    unfold dedupLoop at h
    split at h
    · simp at h
    · rename_i hnull
      split at h
      · obtain ⟨a, b, c⟩ := ih r hp.2 h
        exact ⟨a.cons _, b, c⟩
      · rename_i hcond
        have hlen1 : ¬ curr.length < minTagLength := fun hh => hcond (Or.inl hh)
        have hlen2 : ¬ curr.length > maxTagLength := fun hh => hcond (Or.inr (Or.inl hh))
        split at h
        · obtain ⟨a, b, c⟩ := ih r hp.2 h
          exact ⟨a.cons _, b, c⟩
        · rename_i c0 cs0
          split at h
          · obtain ⟨a, b, c⟩ := ih r hp.2 h
            exact ⟨a.cons _, b, c⟩
          · rename_i hfirst
            cases hr : dedupLoop isLetter isDigit rest (c0 :: cs0) with
            | none => simp [hr] at h
            | some r' =>
              simp [hr] at h
              subst h
              obtain ⟨a, b, c⟩ := dedup_props isLetter isDigit htrans hanti rest (c0 :: cs0) r' hp.2 hp.1 hr
              refine ⟨a.cons_cons _, ?_, ?_⟩
              · intro x hx
                rcases List.mem_cons.mp hx with e | e
                · subst e
                  refine ⟨by omega, by omega, hnull, c0, cs0, rfl, ?_⟩
                  simp at hfirst
                  by_cases hl : isLetter c0 = true
                  · exact Or.inl hl
                  · right; simp at hl; exact hfirst hl
                · obtain ⟨b1, b2, _, b4, b5⟩ := b x e
                  exact ⟨b1, b2, b4, b5⟩
              · apply List.pairwise_cons.mpr
                refine ⟨?_, c⟩
                intro x hx
                exact ⟨hp.1 x (a.subset hx), fun e => (b x hx).2.2.1 e.symm⟩

end Tinode.Search
