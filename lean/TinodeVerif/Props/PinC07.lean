import TinodeVerif.Gen.AdapterPin
import TinodeVerif.Props.Pin
/-! C07: the adapter functions its store behaviour rests on are the ones which were transcribed and reviewed (see Props/Pin.lean). -/
namespace Tinode.Props.Pin
open Tinode.AdapterPin

theorem C07_store_functions_as_reviewed : pinsFor Tinode.Gen.AdapterPin.pins "C07" = pinsFor expected "C07" := by decide

end Tinode.Props.Pin
