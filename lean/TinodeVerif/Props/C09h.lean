import TinodeVerif.Props.C09
import TinodeVerif.Props.C01
import TinodeVerif.Props.C03
/-!
C09 over whole histories: "for every subscription the marks satisfy 0 ≤ read ≤ received ≤ latest message ID at all times … and
neither mark ever decreases, whatever notes clients send".

`Props/C09.lean` proves what one note does to one subscriber's marks.  Here: for EVERY sequence - of any length - of notes (of any
kind, with any number, from anybody, attached or not, with the store call failing or not) and publishes (accepted, refused, failing
in the store), every subscriber's marks in the loaded topic stay within 0 ≤ read ≤ recv ≤ last.
-/
namespace Tinode.Props.C09
open Tinode.World Tinode.Acs
open Tinode.Props.C03 (pubAllowed)

/-- the invariant of a loaded topic: the counter is not negative and every record's marks are in order below it (a user without a
record reads as the empty record: 0, 0) -/
def MarksInv (t : Topic) : Prop := 0 ≤ t.lastId ∧ ∀ u, Bounded (t.pud u) t.lastId

private theorem pud_with_lastId (t : Topic) (x : Int) (u : Uid) : ({ t with lastId := x } : Topic).pud u = t.pud u := rfl

/-- an accepted publish numbered `last + 1`: its author's marks jump to it, everybody else's stay below -/
theorem pub_keeps_marks (t : Topic) (a : Actor) (m : MsgRow) (mk : Bool) (h : MarksInv t) (hm : m.seq = t.lastId + 1) :
    MarksInv (pubTopic t a m mk) := by
  obtain ⟨h0, hb⟩ := h
  refine ⟨by rw [pubTopic_lastId]; omega, ?_⟩
  intro u
  rw [pubTopic_lastId]
  unfold pubTopic
  simp only
  split
  · by_cases hu : u = a.uid
    · subst hu; rw [pud_setPud]; unfold Bounded; refine ⟨?_, ?_, ?_⟩ <;> simp only <;> omega
    · rw [pud_setPud_other _ _ _ _ hu, pud_with_lastId]
      have := hb u; unfold Bounded at *; omega
  · rw [pud_with_lastId]
    have := hb u; unfold Bounded at *; omega

/-- a note which the handler lets through (`q ≤ last`): the sender's marks as `noteMarks` computes them, nobody else's touched -/
theorem note_keeps_marks (t : Topic) (u : Uid) (what : String) (q : Int) (p' : PUD) (rd rv : Int) (h : MarksInv t)
    (hq : q ≤ t.lastId) (hn : noteMarks (t.pud u) what q = some (p', rd, rv)) : MarksInv (t.setPud u p') := by
  obtain ⟨h0, hb⟩ := h
  refine ⟨h0, ?_⟩
  intro v
  rw [lastId_setPud]
  by_cases hv : v = u
  · subst hv; rw [pud_setPud]; exact note_marks_bounded _ what q _ p' rd rv (hb v) hq hn
  · rw [pud_setPud_other _ _ _ _ hv]; exact hb v

/-! ### the two handlers, in terms of the loaded topic -/

private theorem call_live (c : Ctx) (n : String) (e : World → World) (he : ∀ w k, (e w).live? k = w.live? k) (k : TName) :
    (c.call n e).1.w.live? k = c.w.live? k := by
  rcases call_w_cases c n e with ⟨_, hw⟩ | ⟨_, hw⟩ <;> rw [hw]
  exact he _ _

private theorem subsUpdate_live (c : Ctx) (tn : TName) (u : Uid) (f : SubRow → SubRow) (k : TName) :
    (c.subsUpdate tn u f).1.w.live? k = c.w.live? k := by
  rw [subsUpdate_eq]
  apply call_live
  intro w k
  split <;> simp

private theorem after_subsUpdate_live (c : Ctx) (tn : TName) (u : Uid) (f : SubRow → SubRow) (g : Ctx → Ctx)
    (hg : ∀ x, (g x).w = x.w) (k : TName) :
    (match c.subsUpdate tn u f with | (c1, ok) => if !ok then (c1, false) else (g c1, true)).1.w.live? k = c.w.live? k := by
  have h := subsUpdate_live c tn u f k
  rcases hc : c.subsUpdate tn u f with ⟨c1, ok⟩
  rw [hc] at h
  cases ok
  · simpa using h
  · simp only [Bool.not_true, Bool.false_eq_true, if_false]; rw [hg]; exact h

private theorem noteStore_live (c : Ctx) (tn : TName) (u : Uid) (rd rv : Int) (k : TName) :
    (c.noteStore tn u rd rv).1.w.live? k = c.w.live? k := by
  unfold Ctx.noteStore
  by_cases hc : (if rd > 0 then rd else rv) > 0
  · rw [if_pos hc]
    exact after_subsUpdate_live c tn u _
      (fun c => if rd > 0 then { c with pushes := c.pushes ++ [s!"push what=read topic={tn} seq={rd} to=\{{u}} chan=-"] } else c)
      (by intro x; split <;> rfl) k
  · rw [if_neg hc]

private theorem fanoutInfo_w (c : Ctx) (t : Topic) (sk : Sid) (sender : Uid) (what f : String) : (c.fanoutInfo t sk sender what f).w = c.w := by
  rw [fanoutInfo_eq]

private theorem ite2_w (p q : Prop) [Decidable p] [Decidable q] (a b d : Ctx) (x : World) (ha : a.w = x) (hb : b.w = x) (hd : d.w = x) :
    (if p then a else if q then b else d).w = x := by
  split
  · exact ha
  · split
    · exact hb
    · exact hd

/-- what a note leaves in memory: the topic as it was, or with the sender's marks moved by `noteMarks` for a number which exists -/
theorem opNote_live (c : Ctx) (a : Actor) (tn : TName) (what : String) (q : Int) (t : Topic) (hl : c.w.live? tn = some t) :
    (c.opNote a tn what q).w.live? tn = some t ∨
    ∃ p' rd rv, noteMarks (t.pud a.uid) what q = some (p', rd, rv) ∧ q ≤ t.lastId ∧
      (c.opNote a tn what q).w.live? tn = some (t.setPud a.uid p') := by
  have hname := live_name _ _ _ hl
  unfold Ctx.opNote
  split; · exact Or.inl hl
  split; · exact Or.inl hl
  split; · exact Or.inl hl
  simp only [hl]
  split; · exact Or.inl hl
  split; · exact Or.inl hl
  rename_i hq
  split; · exact Or.inl hl
  split
  · exact Or.inl hl
  · rename_i pud' rd rv hnm
    have hlive := noteStore_live c tn a.uid rd rv tn
    generalize c.noteStore tn a.uid rd rv = p at hlive
    obtain ⟨c1, ok⟩ := p
    cases ok with
    | false => simp only; left; rw [hlive]; exact hl
    | true =>
      simp only
      by_cases hmv : (if rd > 0 then rd else rv) > 0
      · right
        refine ⟨pud', rd, rv, hnm, by omega, ?_⟩
        simp only [hmv, if_true]
        have := live_setLive (c1.w) (t.setPud a.uid pud')
        rw [name_setPud, hname] at this
        show (World.setLive _ _).live? tn = _
        rw [fanoutInfo_w]
        show (World.setLive (Ctx.w (Ctx.infoSubsOffline (ite _ _ _) _ _ _ _ _)) _).live? tn = _
        show (World.setLive (Ctx.w (ite _ _ _)) _).live? tn = _
        split <;> (try split) <;> exact this
      · left
        simp only [hmv, if_false]
        have := live_setLive (c1.w) t
        rw [hname] at this
        show (World.setLive _ _).live? tn = _
        rw [fanoutInfo_w]
        show (World.setLive (Ctx.w (Ctx.infoSubsOffline (ite _ _ _) _ _ _ _ _)) _).live? tn = _
        show (World.setLive (Ctx.w (ite _ _ _)) _).live? tn = _
        split <;> (try split) <;> exact this

/-- what a publish leaves in memory: the topic as it was (refused, or the save failed), or with the next number -/
theorem opPub_live (c : Ctx) (a : Actor) (tn : TName) (content : String) (head : List (String × String)) (noEcho : Bool) (t : Topic)
    (hl : c.w.live? tn = some t) :
    (c.opPub a tn content head noEcho).w.live? tn = some t ∨
    ∃ m mk, m.seq = t.lastId + 1 ∧ (c.opPub a tn content head noEcho).w.live? tn = some (pubTopic t a m mk) := by
  have hname := live_name _ _ _ hl
  by_cases hall : pubAllowed c.w a tn = true
  · unfold pubAllowed at hall
    simp only [hl, Bool.and_eq_true, Bool.not_eq_true'] at hall
    obtain ⟨hat, ⟨⟨hact, hro⟩, hww⟩, hwg⟩ := hall
    have hwr : isWriter (eff (t.pud a.uid)) = true := by
      unfold eff; rw [Tinode.Props.C03.writer_both]; simp [hww, hwg]
    rw [opPub_guarded c a tn content head noEcho t hat hl hact hro hwr]
    generalize hsv : c.saveMessage tn { seq := t.lastId + 1, sender := a.uid, head := pubHead a head, content := some content }
        (isReader (eff (t.pud a.uid)) && decide (a.uid ≠ "")) = p
    rcases p with ⟨c1, sv⟩
    cases sv with
    | none =>
      left
      obtain ⟨_, _, _, hlv, _, _⟩ := saveMessage_none c c1 tn _ _ hsv
      simp only; rw [emit_w, hlv]; exact hl
    | some mk =>
      right
      refine ⟨{ seq := t.lastId + 1, sender := a.uid, head := pubHead a head, content := some content }, mk, rfl, ?_⟩
      simp only
      obtain ⟨hw', _, _, _⟩ := deliverPub_eq c1 t a { seq := t.lastId + 1, sender := a.uid, head := pubHead a head, content := some content } mk noEcho
      rw [hw']
      have := live_setLive c1.w (pubTopic t a { seq := t.lastId + 1, sender := a.uid, head := pubHead a head, content := some content } mk)
      rw [pubTopic_name, hname] at this
      exact this
  · left
    have hall : pubAllowed c.w a tn = false := by simpa using hall
    obtain ⟨hw, _⟩ := Tinode.Props.C03.pub_refused_no_effect c a tn content head noEcho (fun _ => by rw [hl]; rfl) hall _ rfl
    rw [hw]; exact hl

/-! ### every history -/

inductive Step
  | note (a : Actor) (what : String) (q : Int) (failK : Nat)
  | pub (a : Actor) (content : String) (head : List (String × String)) (noEcho : Bool) (failK crashK : Nat)

def stepW (tn : TName) (w : World) : Step → World
  | .note a what q fk => (({ w := w, failK := fk } : Ctx).opNote a tn what q).w
  | .pub a content head noEcho fk ck => (({ w := w, failK := fk, crashK := ck } : Ctx).opPub a tn content head noEcho).w

def runW (tn : TName) (w : World) (steps : List Step) : World := steps.foldl (stepW tn) w

/-- one step keeps the topic loaded and its marks in order -/
theorem step_marks (tn : TName) (w : World) (s : Step) (t : Topic) (hl : w.live? tn = some t) (h : MarksInv t) :
    ∃ t', (stepW tn w s).live? tn = some t' ∧ MarksInv t' := by
  cases s with
  | note a what q fk =>
    rcases opNote_live ({ w := w, failK := fk } : Ctx) a tn what q t hl with h1 | ⟨p', rd, rv, hn, hq, h1⟩
    · exact ⟨t, h1, h⟩
    · exact ⟨_, h1, note_keeps_marks t a.uid what q p' rd rv h hq hn⟩
  | pub a content head noEcho fk ck =>
    rcases opPub_live ({ w := w, failK := fk, crashK := ck } : Ctx) a tn content head noEcho t hl with h1 | ⟨m, mk, hm, h1⟩
    · exact ⟨t, h1, h⟩
    · exact ⟨_, h1, pub_keeps_marks t a m mk h hm⟩

/-- **every history**: whatever notes and publishes arrive, in whatever order and number, from whomever, with whatever store call
failing - every subscriber's marks in the loaded topic satisfy 0 ≤ read ≤ recv ≤ last -/
theorem history_marks (tn : TName) (steps : List Step) (w : World) (t : Topic) (hl : w.live? tn = some t) (h : MarksInv t) :
    ∃ t', (runW tn w steps).live? tn = some t' ∧ MarksInv t' := by
  induction steps generalizing w t with
  | nil => exact ⟨t, hl, h⟩
  | cons s rest ih =>
    obtain ⟨t1, hl1, h1⟩ := step_marks tn w s t hl h
    exact ih (stepW tn w s) t1 hl1 h1

/-- the premises are met: a topic as it is loaded from a row whose marks are in order -/
example : MarksInv { name := "T1", lastId := 3, perUser := [("U1", { readId := 1, recvId := 2 })] } := by
  refine ⟨by decide, ?_⟩
  intro u
  by_cases hu : u = "U1"
  · subst hu; unfold Bounded; decide
  · have : ({ name := "T1", lastId := 3, perUser := [("U1", { readId := 1, recvId := 2 })] } : Topic).pud u = {} := by
      unfold Topic.pud alGet
      simp [List.find?, Ne.symm hu]
    rw [this]; unfold Bounded; decide

end Tinode.Props.C09
