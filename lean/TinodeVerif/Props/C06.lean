import TinodeVerif.Proofs.Pub
/-!
C06 — a group topic has exactly one owner at all times.

The decisions which can create, move or remove ownership are the pure functions `newSubGiven`, `newSubWant`,
`selfModeCheck`, `selfWant`, `stripOwner`, `inviteRefused`, `inviteGiven`, `inviteWantPrev`, `inviteWantDefault`,
`grantRefused` (Model/TopicOps.lean) which `Ctx.thisUserSub` / `Ctx.anotherUserSub` only sequence with store calls; the
owner's exits are `Ctx.replyLeaveUnsub`, `Ctx.opDelSub`, `Ctx.opDelTopic`, `Ctx.opSetDesc`. Each theorem closes one way in
which a second owner could appear or the owner could disappear.
-/
namespace Tinode.Props.C06
open Tinode.World Tinode.Acs

/-! ### nobody becomes an owner by subscribing or by being invited -/

/-- a first-time subscriber is never given ownership by the topic's default access -/
theorem new_sub_grant_not_owner (defAcc : Mode) : isOwner (newSubGiven defAcc modeUnset) = false := by
  unfold newSubGiven; simp only [if_true]; exact isOwner_clear defAcc

/-- a first-time subscriber never requests ownership, whatever mode string was sent -/
theorem new_sub_want_not_owner (defAcc modeWant0 : Mode) : isOwner (newSubWant defAcc modeWant0) = false := by
  unfold newSubWant; exact isOwner_clear _

/-- hence a first-time subscriber is not an effective owner, even when a previous (soft-deleted) grant contained O -/
theorem new_sub_not_effective_owner (defAcc given0 modeWant0 : Mode) :
    isOwner (newSubWant defAcc modeWant0 &&& newSubGiven defAcc given0) = false := by
  rw [isOwner_and, new_sub_want_not_owner]; rfl

/-- an invited user's recorded request never contains ownership: an offer of O has to be accepted explicitly -/
theorem invite_want_not_owner (prev userAuth given : Mode) :
    isOwner (inviteWantPrev prev) = false ∧ isOwner (inviteWantDefault userAuth given) = false := by
  unfold inviteWantPrev inviteWantDefault; exact ⟨isOwner_clear _, isOwner_clear _⟩

/-- a default invitation (no explicit mode) never offers ownership -/
theorem invite_default_not_owner (defAuth : Mode) : isOwner (inviteGiven defAuth modeUnset) = false := by
  unfold inviteGiven; simp only [if_true]
  rw [isOwner_bit, BitVec.getLsbD_or, ← isOwner_bit, isOwner_clear]
  decide

/-- only the owner can offer ownership: anybody else's {set sub mode=..O} is refused -/
theorem only_owner_offers_ownership (owner actor : Uid) (hostMode g : Mode) (hg : isOwner g = true) (hne : owner ≠ actor) :
    inviteRefused owner actor hostMode g = true := by
  unfold inviteRefused; simp [hg, hne]

/-! ### an existing subscriber gets ownership only by accepting an offer -/

/-- a subscriber whose grant lacks O cannot request O -/
theorem nonowner_cannot_request_ownership (owner u : Uid) (ud0 : PUD) (w : Mode)
    (hw : w ≠ modeUnset) (hO : isOwner w = true) (hg : isOwner ud0.given = false) (hne : owner ≠ u) :
    selfModeCheck owner u ud0 w = .error () := by
  unfold selfModeCheck
  simp [hw, hO, hg, hne]

/-- the acceptance flag is raised exactly when a subscriber holding an offer (O granted) asks for O for the first time -/
theorem transfer_flag_iff (owner u : Uid) (ud0 : PUD) (w : Mode) (ud : PUD) (m : Mode) (oc : Bool)
    (h : selfModeCheck owner u ud0 w = .ok (ud, m, oc)) :
    oc = true ↔ (w ≠ modeUnset ∧ isOwner ud0.given = true ∧ isOwner w = true ∧ isOwner ud0.want = false) := by
  unfold selfModeCheck at h
  split at h
  · rename_i hu; simp only [Except.ok.injEq, Prod.mk.injEq] at h; obtain ⟨_, _, rfl⟩ := h; simp [hu]
  · rename_i hu
    split at h
    · cases h
    · split at h
      · rename_i hg
        simp only [Except.ok.injEq, Prod.mk.injEq] at h
        obtain ⟨_, _, rfl⟩ := h
        simp [hu, hg]
      · rename_i hg
        split at h
        · cases h
        · split at h <;>
          · simp only [Except.ok.injEq, Prod.mk.injEq] at h
            obtain ⟨_, _, rfl⟩ := h
            simp at hg; simp [hg]

/-- when the offer is accepted the previous owner loses ownership in both modes, and nothing else -/
theorem transfer_strips_previous_owner (od : PUD) :
    isOwner (stripOwner od).given = false ∧ isOwner (stripOwner od).want = false ∧
    (stripOwner od).readId = od.readId ∧ (stripOwner od).recvId = od.recvId ∧ (stripOwner od).priv = od.priv := by
  unfold stripOwner; exact ⟨isOwner_clear _, isOwner_clear _, rfl, rfl, rfl⟩

/-- re-joining without a mode (un-self-ban) never picks ownership up for anybody but the owner -/
theorem rejoin_not_owner (owner u : Uid) (defAcc : Mode) (ud : PUD) (oldWant : Mode) (hne : owner ≠ u)
    (hw : isOwner ud.want = false) : isOwner (selfWant owner u defAcc ud oldWant modeUnset).want = false := by
  unfold selfWant
  simp only [if_true, hne, ne_eq, not_false_eq_true]
  split
  · exact isOwner_clear _
  · exact hw

/-! ### the owner cannot be demoted, banned, evicted or leave -/

/-- the owner cannot drop O or J from the own request -/
theorem owner_cannot_give_up (owner : Uid) (ud0 : PUD) (w : Mode) (hw : w ≠ modeUnset) (h : isOwner w = false ∨ isJoiner w = false) :
    selfModeCheck owner owner ud0 w = .error () := by
  unfold selfModeCheck
  rcases h with h | h <;> simp [hw, h]

/-- nobody can change the owner's grant to one without O or J -/
theorem owner_grant_protected (owner : Uid) (ud0 : PUD) (g : Mode) (hne : g ≠ ud0.given) (h : isOwner g = false ∨ isJoiner g = false) :
    grantRefused owner owner ud0 g = true := by
  unfold grantRefused
  rcases h with h | h <;> simp [hne, h]

/-- {leave unsub} by the owner is refused and changes nothing -/
theorem owner_cannot_unsubscribe (c : Ctx) (t : Topic) (a : Actor) (h : t.owner = a.uid) :
    c.replyLeaveUnsub t a = (c.emit a.sid (ctrl 403 t.name), t) := by
  unfold Ctx.replyLeaveUnsub; simp [h]

/-- {del sub} cannot evict an effective owner: refused, nothing changes -/
theorem owner_cannot_be_evicted (c : Ctx) (a : Actor) (tn : TName) (target : Uid) (t : Topic) (pud : PUD)
    (hatt : c.w.attached a.sid tn = true) (hlive : c.w.live? tn = some t) (hp : t.pud? target = some pud)
    (ho : isOwner (eff pud) = true) :
    (c.opDelSub a tn target).w = c.w ∧ (c.opDelSub a tn target).calls = c.calls := by
  unfold Ctx.opDelSub
  simp only [hatt, Bool.not_true, Bool.false_eq_true, if_false, hlive]
  split
  · exact ⟨rfl, rfl⟩
  · simp only [hp, ho, true_or, if_true]; exact ⟨rfl, rfl⟩

/-! ### only the owner deletes the topic or edits its description -/

/-- {del topic} on a loaded topic from anybody but the owner is handled as that user's own unsubscribe: the topic row is not
deleted (no TopicDelete call) -/
theorem nonowner_delete_is_unsubscribe (c : Ctx) (a : Actor) (tn : TName) (hard : Bool) (t : Topic)
    (hlive : c.w.live? tn = some t) (hne : t.owner ≠ a.uid) :
    c.opDelTopic a tn hard = (c.replyLeaveUnsub t a).1.putLive (c.replyLeaveUnsub t a).2 := by
  unfold Ctx.opDelTopic
  simp only [hlive]
  have : ¬ (a.uid ≠ "" ∧ t.owner = a.uid) := fun h => hne h.2
  simp only [this, if_false]

/-- {set desc} carrying public data or default access from anybody but the owner is refused and changes nothing -/
theorem nonowner_cannot_edit_description (c : Ctx) (a : Actor) (tn : TName) (o : SetDescOpts) (t : Topic)
    (hatt : c.w.attached a.sid tn = true) (hlive : c.w.live? tn = some t) (hne : t.owner ≠ a.uid)
    (hreq : o.auth ≠ "" ∨ o.anon ≠ "" ∨ o.pub ≠ .absent) :
    c.opSetDesc a tn o = c.emit a.sid (ctrl 403 tn) := by
  unfold Ctx.opSetDesc
  simp only [hatt, Bool.not_true, Bool.false_eq_true, if_false, hlive]
  have h1 : decide (t.owner = a.uid) = false := by simp [hne]
  have h2 : (o.auth ≠ "" ∨ o.anon ≠ "") ∨ o.pub ≠ .absent := by
    rcases hreq with h | h | h
    · exact Or.inl (Or.inl h)
    · exact Or.inl (Or.inr h)
    · exact Or.inr h
  simp [h1, h2]

end Tinode.Props.C06
