import TinodeVerif.Model.TopicFnd
/-!
C19, the search itself (`fnd` topics): what `{get sub}` on a user's `fnd` topic shows.

`World.findSubs` (Model/TopicFnd.lean) transcribes store.Users.FindSubs over the matching rule of the adapters; `Ctx.opGetFndSub` the
TopicCatFnd branch of replyGetSub: the session's query (or the stored one), `parseSearchQuery` (the parser of Model/Search.lean, whose
reading of a query string is proved against the documented grammar in Props/C19.lean), the check for tags of masked namespaces, the
two store calls, the rendering. The theorems say what is found, for every world, query and searcher.
-/
namespace Tinode.Props.C19
open Tinode.World Tinode.Acs

/-- what a match means: the matched tags are exactly the item's tags named by the query, there is at least one, and every AND-group
of the query is represented among them -/
theorem matchTags_iff (tags : List String) (req : List (List String)) (opt : List String) (found : List String) :
    matchTags tags req opt = some found ↔
      found = tags.filter (fun t => (req.flatten ++ opt).contains t) ∧ found ≠ [] ∧
      ∀ g ∈ req, g ≠ [] → ∃ t ∈ g, t ∈ found := by
  unfold matchTags
  simp only
  generalize hF : tags.filter (fun t => (req.flatten ++ opt).contains t) = F
  constructor
  · intro h
    split at h
    · cases h
    · rename_i hne
      split at h
      · rename_i hall
        simp only [Option.some.injEq] at h
        subst h
        refine ⟨rfl, ?_, ?_⟩
        · intro he; rw [he] at hne; simp at hne
        · intro g hg hgne
          have := (List.all_eq_true.mp hall) g hg
          simp only [Bool.or_eq_true, List.isEmpty_iff, List.any_eq_true] at this
          rcases this with h1 | ⟨t, ht, hf⟩
          · exact absurd h1 hgne
          · exact ⟨t, ht, List.contains_iff_mem.mp hf⟩
      · cases h
  · rintro ⟨hf, hne, hall⟩
    subst hf
    have h1 : found.isEmpty = false := by
      cases h : found with
      | nil => exact absurd h hne
      | cons _ _ => rfl
    rw [if_neg (by simp [h1])]
    have h2 : (req.all fun g => g.isEmpty || g.any fun t => found.contains t) = true := by
      rw [List.all_eq_true]
      intro g hg
      by_cases hge : g = []
      · simp [hge]
      · obtain ⟨t, ht, hf⟩ := hall g hg hge
        simp only [Bool.or_eq_true, List.any_eq_true]
        exact Or.inr ⟨t, ht, List.contains_iff_mem.mpr hf⟩
    rw [if_pos h2]

/-- every matched tag is a tag of the item and a term of the query -/
theorem matched_are_shared (tags : List String) (req : List (List String)) (opt : List String) (found : List String)
    (h : matchTags tags req opt = some found) (t : String) (ht : t ∈ found) : t ∈ tags ∧ (t ∈ req.flatten ∨ t ∈ opt) := by
  have := (matchTags_iff tags req opt found).mp h
  rw [this.1] at ht
  simp only [List.mem_filter, List.contains_eq_mem, List.mem_append, decide_eq_true_eq] at ht
  exact ht

/-- **Soundness and completeness of the search.** An entry is among the results iff it is an account other than the searcher's, or a
topic, whose tags match the query - shown with exactly the matched tags - and which is in the normal state unless a root session
asks (a suspended or deleted account, a deleted topic is never shown to an ordinary user). -/
theorem found_iff (w : World) (caller : Uid) (lvl : Level) (req : List (List String)) (opt : List String) (f : Found) :
    f ∈ w.findSubs caller lvl req opt ↔
      (∃ u ∈ w.users, u.uid ≠ caller ∧ (lvl ≠ .root → u.suspended = false ∧ u.deleted = false) ∧ matchTags u.tags req opt = some f.tags ∧
          f.name = u.uid ∧ f.mode = (match lvl with | .anon => u.anon | _ => u.auth)) ∨
      (∃ r ∈ w.store, (lvl ≠ .root → r.state = 0) ∧ matchTags r.tags req opt = some f.tags ∧
          f.name = (if r.chan then "chn:" ++ r.name else r.name) ∧
          f.mode = (if r.chan then modeCChnReader else (match lvl with | .anon => r.anon | _ => r.auth))) := by
  unfold World.findSubs
  simp only [List.mem_append, List.mem_filterMap]
  constructor
  · rintro (⟨u, hu, h⟩ | ⟨r, hr, h⟩)
    · left
      by_cases h1 : u.uid = caller
      · simp [h1] at h
      · by_cases h2 : lvl ≠ .root ∧ (u.suspended = true ∨ u.deleted = true)
        · simp [h1, h2] at h
        · simp only [h1, if_false, h2] at h
          cases hm : matchTags u.tags req opt with
          | none => simp [hm] at h
          | some fd =>
            simp only [hm, Option.some.injEq] at h
            subst h
            refine ⟨u, hu, h1, ?_, hm, rfl, rfl⟩
            intro hl
            cases hs : u.suspended with
            | true => exact absurd ⟨hl, Or.inl hs⟩ h2
            | false =>
              cases hd : u.deleted with
              | true => exact absurd ⟨hl, Or.inr hd⟩ h2
              | false => exact ⟨rfl, rfl⟩
    · right
      by_cases h2 : lvl ≠ .root ∧ r.state ≠ 0
      · simp [h2] at h
      · simp only [h2, if_false] at h
        cases hm : matchTags r.tags req opt with
        | none => simp [hm] at h
        | some fd =>
          simp only [hm, Option.some.injEq] at h
          subst h
          refine ⟨r, hr, ?_, hm, rfl, rfl⟩
          intro hl
          by_cases hs : r.state = 0
          · exact hs
          · exact absurd ⟨hl, hs⟩ h2
  · rintro (⟨u, hu, h1, h2, hm, hn, hmo⟩ | ⟨r, hr, h2, hm, hn, hmo⟩)
    · left
      refine ⟨u, hu, ?_⟩
      have h2' : ¬(lvl ≠ .root ∧ (u.suspended = true ∨ u.deleted = true)) := by
        rintro ⟨hl, hs | hs⟩
        · rw [(h2 hl).1] at hs; cases hs
        · rw [(h2 hl).2] at hs; cases hs
      simp only [h1, if_false, h2', hm]
      obtain ⟨n, m, tg⟩ := f
      simp only at hn hmo
      subst hn; subst hmo; rfl
    · right
      refine ⟨r, hr, ?_⟩
      have h2' : ¬(lvl ≠ .root ∧ r.state ≠ 0) := by
        rintro ⟨hl, hs⟩; exact hs (h2 hl)
      simp only [h2', if_false, hm]
      obtain ⟨n, m, tg⟩ := f
      simp only at hn hmo
      subst hn; subst hmo; rfl

/-- the searcher is never among the accounts found -/
theorem never_the_searcher (w : World) (caller : Uid) (lvl : Level) (req : List (List String)) (opt : List String) (f : Found)
    (h : f ∈ w.findSubs caller lvl req opt) (hu : ∀ r ∈ w.store, (if r.chan then "chn:" ++ r.name else r.name) ≠ caller) :
    f.name ≠ caller := by
  rcases (found_iff w caller lvl req opt f).mp h with ⟨u, _, h1, _, _, hn, _⟩ | ⟨r, hr, _, _, hn, _⟩
  · rw [hn]; exact h1
  · rw [hn]; exact hu r hr

/-- an ordinary (or anonymous) searcher is never shown a suspended or deleted account or a deleted topic -/
theorem hidden_from_ordinary_users (w : World) (caller : Uid) (lvl : Level) (hl : lvl ≠ .root) (req : List (List String))
    (opt : List String) (f : Found) (h : f ∈ w.findSubs caller lvl req opt) :
    (∃ u ∈ w.users, f.name = u.uid ∧ u.suspended = false ∧ u.deleted = false) ∨ (∃ r ∈ w.store, r.state = 0 ∧
      f.name = (if r.chan then "chn:" ++ r.name else r.name)) := by
  rcases (found_iff w caller lvl req opt f).mp h with ⟨u, hu, _, h2, _, hn, _⟩ | ⟨r, hr, h2, _, hn, _⟩
  · exact Or.inl ⟨u, hu, hn, h2 hl⟩
  · exact Or.inr ⟨r, hr, h2 hl, hn⟩

/-- a query which names a tag of a masked namespace is refused before the store is asked (a `fnd` topic carries no tags of its own) -/
theorem masked_tag_refused (c : Ctx) (a : Actor) (isL isN : Char → Bool) (masked : List (List Char)) (t : Topic) (q : String)
    (req : List (List (List Char))) (opt : List (List Char))
    (hatt : c.w.attached a.sid (fndName a.uid) = true) (hl : c.w.live? (fndName a.uid) = some t)
    (hq : (t.fndPub.find? (·.1 = a.sid)).map (·.2) = some q) (hne : q.isEmpty = false)
    (hp : Search.parseSearchQuery (rewriteQ isL isN) q.toList = .ok (req, opt)) (hreq : ¬(req.isEmpty ∧ opt.isEmpty))
    (hm : (Search.filterRestricted isL isN masked (req.flatten ++ opt)).isEmpty = false) :
    c.opGetFndSub a isL isN masked = c.emit a.sid (ctrl 403 (fndName a.uid)) := by
  unfold Ctx.opGetFndSub
  simp only [hatt, Bool.not_true, Bool.false_eq_true, if_false, hl, hq, hne, hp]
  simp only [hm, Bool.not_false, if_true]
  split
  · rename_i h; exact absurd h hreq
  · rfl

/-! ### the tags of an account ({set tags} on `me`) -/

/-- a change of an account's tags which adds or removes a tag of an immutable namespace is refused: 403, no store call, nothing
changes -/
theorem account_tags_immutable_refused (c : Ctx) (a : Actor) (src : List String) (t : Topic) (tags : List String)
    (hatt : c.w.attached a.sid a.uid = true) (hl : c.w.live? a.uid = some t)
    (hn : normTags src = some tags) (hi : immutableSame t.tags tags = false) :
    c.opSetTagsMe a src = c.emit a.sid (ctrl 403 a.uid) := by
  unfold Ctx.opSetTagsMe
  simp [hatt, hl, hn, hi]

/-- only a session attached to the account's own `me` sets its tags -/
theorem account_tags_need_attachment (c : Ctx) (a : Actor) (src : List String) (hatt : c.w.attached a.sid a.uid = false) :
    c.opSetTagsMe a src = c.emit a.sid (ctrl 403 a.uid) := by
  unfold Ctx.opSetTagsMe
  simp [hatt]

/-- an accepted change stores the normalised list - for the account which asked and for no other -, and that list is what the search
matches from then on (`found_iff` reads `User.tags`) -/
theorem account_tags_stored_normalised (c : Ctx) (a : Actor) (src : List String) (t : Topic) (tags : List String)
    (hatt : c.w.attached a.sid a.uid = true) (hl : c.w.live? a.uid = some t)
    (hn : normTags src = some tags) (hi : immutableSame t.tags tags = true)
    (hch : ¬((tags.filter (fun x => !t.tags.contains x)).length = 0 ∧ (t.tags.filter (fun x => !tags.contains x)).length = 0))
    (hok : (c.call "UserUpdate").2 = true) :
    ∀ x ∈ (c.opSetTagsMe a src).w.users, (x.uid = a.uid → x.tags = tags) ∧
      (x.uid ≠ a.uid → ∃ y ∈ c.w.users, y.uid = x.uid ∧ y.tags = x.tags) := by
  have hcall : ∀ eff : World → World, (c.call "UserUpdate" eff).2 = true ∧ (c.call "UserUpdate" eff).1.w = eff c.w := by
    intro eff
    unfold Ctx.call at hok ⊢
    by_cases hf : c.failK ≠ 0 ∧ c.callNo + 1 = c.failK
    · simp [hf] at hok
    · simp only [hf, if_false]
      refine ⟨trivial, ?_⟩
      split <;> rfl
  intro x hx
  unfold Ctx.opSetTagsMe at hx
  simp only [hatt, Bool.not_true, Bool.false_eq_true, if_false, hl, hn, hi, hch] at hx
  generalize heff : (fun (w : World) => { w with users := w.users.map (fun (x : User) => if x.uid = a.uid then { x with tags := tags } else x) }) = eff at hx
  obtain ⟨h1, h2⟩ := hcall eff
  generalize hc' : c.call "UserUpdate" eff = r at hx h1 h2
  obtain ⟨c', ok⟩ := r
  simp only at h1 h2
  subst h1
  simp only [Bool.not_true, Bool.false_eq_true, if_false] at hx
  have hw : ∀ (cc : Ctx) (tt : Topic) (s : Sid) (f : String), ((cc.emit s f).putLive tt).w.users = cc.w.users := by
    intro cc tt s f; rfl
  rw [hw] at hx
  have hpo : ∀ (cc : Ctx) (tt : Topic) (p : PresMsg), (cc.presOnline tt p).w.users = cc.w.users := by
    intro cc tt p; unfold Ctx.presOnline; rfl
  rw [hpo, h2, ← heff] at hx
  simp only [List.mem_map] at hx
  obtain ⟨y, hy, rfl⟩ := hx
  by_cases hu : y.uid = a.uid
  · simp [hu]
  · rw [if_neg hu]
    exact ⟨fun h => absurd h hu, fun _ => ⟨y, hy, rfl, rfl⟩⟩

example : matchTags ["flowers", "music", "a1"] [["music"], ["travel"]] [] = none := by decide
example : matchTags ["music", "travel", "b2"] [["music"], ["travel"]] [] = some ["music", "travel"] := by decide
example : matchTags ["flowers", "music", "a1"] [["a1"]] ["b2", "music"] = some ["music", "a1"] := by decide

end Tinode.Props.C19
