import TinodeVerif.Props.C04
import TinodeVerif.Proofs.World
/-!
C04, layers 2-4 — the delete request, the history query and the permission gate over the world model
(`convRanges`, `queryMsgs`, `Ctx.opDelMsg`, `Ctx.getData` in Model/TopicReq.lean; layer 1, `normalize_union`, is in C04.lean).
-/
namespace Tinode.Props.C04
open Tinode.World Tinode.Ranges Tinode.Acs

/-- what a client range `[lo, hi)` asks for: `hi = 0` or `hi = lo` mean the single id `lo` -/
def reqMem (lo hi x : Int) : Prop := if hi = 0 ∨ hi = lo then x = lo else lo ≤ x ∧ x < hi

/-- one accepted range denotes exactly the requested ids clipped to the existing ones -/
theorem conv_one (lastId lo hi : Int) (hok : ¬ (lo > lastId ∨ lo < 0 ∨ hi < 0 ∨ (hi > 0 ∧ lo > hi) ∨ (lo = 0 ∧ hi = 0))) (x : Int) :
    (⟨lo, if hi > lastId then lastId + 1 else if lo = hi ∨ lo + 1 = hi then 0 else hi⟩ : Range).mem x ↔ (reqMem lo hi x ∧ x ≤ lastId) := by
  unfold Range.mem upper reqMem
  simp only
  repeat' split
  all_goals omega

/-- A delete request hides exactly the union of its ranges clipped to existing ids: an id is covered by the converted list
iff some listed range asks for it and it exists. With `normalize_union` the stored (sorted, collapsed) list covers the same
ids, whatever the order, overlap or adjacency of the listed ranges. -/
theorem conv_exact (lastId : Int) (inp : List (Int × Int)) (rs : List Range) (n : Int) (h : convRanges lastId inp = some (rs, n)) (x : Int) :
    memList rs x ↔ ∃ p ∈ inp, reqMem p.1 p.2 x ∧ x ≤ lastId := by
  induction inp generalizing rs n with
  | nil =>
    simp only [convRanges, Option.some.injEq, Prod.mk.injEq] at h
    obtain ⟨rfl, _⟩ := h
    simp [memList]
  | cons p ps ih =>
    obtain ⟨lo, hi⟩ := p
    simp only [convRanges] at h
    split at h
    · cases h
    · rename_i hok
      cases hrec : convRanges lastId ps with
      | none => simp [hrec] at h
      | some q =>
        obtain ⟨rs', n'⟩ := q
        simp only [hrec, Option.some.injEq, Prod.mk.injEq] at h
        obtain ⟨rfl, _⟩ := h
        have := ih rs' n' hrec
        unfold memList at this ⊢
        simp only [List.mem_cons, exists_eq_or_imp]
        rw [this, conv_one lastId lo hi hok x]

/-- a malformed entry (negative, inverted, beyond the last id, 0:0) rejects the whole request -/
theorem conv_rejects (lastId lo hi : Int) (rest : List (Int × Int))
    (h : lo > lastId ∨ lo < 0 ∨ hi < 0 ∨ (hi > 0 ∧ lo > hi) ∨ (lo = 0 ∧ hi = 0)) : convRanges lastId ((lo, hi) :: rest) = none := by
  simp [convRanges, h]

/-! ### the history query -/

/-- is the message soft-deleted by this user -/
def softDeletedBy (r : TopicRow) (u : Uid) (seq : Int) : Bool :=
  r.dellog.any (fun d => d.forUser = u ∧ u ≠ "" ∧ d.ranges.any (fun rg => decide (rg.mem seq)))

/-- Everything a history query returns is a stored message of this topic, not hard-deleted, inside `[since, before)`, and not
soft-deleted by the asking user (another user's soft deletions play no part); never more than the limit (at most 100). -/
theorem query_sound (r : TopicRow) (u : Uid) (since before limit : Int) (m : MsgRow) (h : m ∈ queryMsgs r u since before limit) :
    m ∈ r.msgs ∧ m.delId = 0 ∧ (if since > 0 then since else 0) ≤ m.seq ∧ (before > 0 → m.seq < before) ∧ softDeletedBy r u m.seq = false := by
  unfold queryMsgs at h
  have h' := List.mem_of_mem_take h
  rw [List.mem_reverse, List.mem_filter] at h'
  obtain ⟨hm, hc⟩ := h'
  simp only [decide_eq_true_eq, Bool.not_eq_true'] at hc
  obtain ⟨h1, h2, h3, h4⟩ := hc
  refine ⟨hm, h1, h2, ?_, h4⟩
  intro hb
  simp only [hb, if_true] at h3
  omega

theorem query_limit (r : TopicRow) (u : Uid) (since before limit : Int) :
    (queryMsgs r u since before limit).length ≤ 100 ∧ (0 < limit → limit < 100 → (queryMsgs r u since before limit).length ≤ limit.toNat) := by
  unfold queryMsgs
  simp only [List.length_take]
  constructor
  · split <;> omega
  · intro h1 h2
    simp only [h1, h2, and_self, if_true]
    omega

/-- and when the matching messages fit under the limit, the answer is all of them -/
theorem query_complete (r : TopicRow) (u : Uid) (since before limit : Int) (m : MsgRow)
    (hm : m ∈ r.msgs) (h1 : m.delId = 0) (h2 : (if since > 0 then since else 0) ≤ m.seq)
    (h3 : m.seq ≤ (if before > 0 then before - 1 else 2147483647)) (h4 : softDeletedBy r u m.seq = false)
    (hfit : (r.msgs.filter (fun m => m.delId = 0 ∧ (if since > 0 then since else 0) ≤ m.seq ∧
        m.seq ≤ (if before > 0 then before - 1 else 2147483647) ∧ !softDeletedBy r u m.seq)).length ≤
        (if limit > 0 ∧ limit < 100 then limit else 100).toNat) :
    m ∈ queryMsgs r u since before limit := by
  unfold queryMsgs
  simp only
  rw [List.take_of_length_le (by rw [List.length_reverse]; exact hfit)]
  rw [List.mem_reverse, List.mem_filter]
  refine ⟨hm, ?_⟩
  simp only [decide_eq_true_eq, Bool.not_eq_true']
  exact ⟨h1, h2, h3, h4⟩

/-- a user without read permission gets no history -/
theorem no_read_no_history (c : Ctx) (t : Topic) (a : Actor) (since before limit : Int) (h : isReader (eff (t.pud a.uid)) = false) :
    c.getData t a since before limit = c.emit a.sid (ctrl 204 t.name " what=data") := by
  unfold Ctx.getData; simp [h]

/-! ### the delete gate -/

/-- deleting needs D or at least R: with neither the request is refused and nothing changes -/
theorem delete_needs_permission (c : Ctx) (a : Actor) (tn : TName) (rs : List (Int × Int)) (hard : Bool) (t : Topic)
    (hatt : c.w.attached a.sid tn = true) (hlive : c.w.live? tn = some t)
    (hd : isDeleter (eff (t.pud a.uid)) = false) (hr : isReader (eff (t.pud a.uid)) = false) :
    c.opDelMsg a tn rs hard = c.emit a.sid (ctrl 403 tn) := by
  unfold Ctx.opDelMsg
  simp [hatt, hlive, hd, hr]

example : convRanges 7 [(7, 8), (2, 0)] = some ([⟨7, 8⟩, ⟨2, 0⟩], 2) := by decide
example : reqMem 2 0 2 ∧ ¬ reqMem 2 0 3 := by unfold reqMem; simp

end Tinode.Props.C04
