import TinodeVerif.Proofs.Pub
/-!
C14 (the sequential part) — attach and detach keep the two attachment tables in step, and every subscribe, leave and delete
request is answered.

The interleaving, locking and goroutine clauses of C14 talk about schedules the sequential model does not have; what the
model carries is the bookkeeping itself: `World.attach`/`World.detach` (the session's table) against `Topic.sessions` (the
topic's table) in `Ctx.opLeave`, `Ctx.evictUser`, `Ctx.terminateTopic`, and the replies of those handlers. The monitor checks
"a session lists a topic iff the topic lists the session" after every request of every generated history.
-/
namespace Tinode.Props.C14
open Tinode.World Tinode.Acs

theorem find_replace (l : List Sess) (s : Sess) (h : ∃ x ∈ l, x.sid = s.sid) :
    (l.map (fun x => if x.sid = s.sid then s else x)).find? (fun x => x.sid = s.sid) = some s := by
  induction l with
  | nil => obtain ⟨x, hx, _⟩ := h; cases hx
  | cons y ys ih =>
    by_cases hy : y.sid = s.sid
    · simp [hy]
    · have : ∃ x ∈ ys, x.sid = s.sid := by
        obtain ⟨x, hx, hxs⟩ := h
        rcases List.mem_cons.mp hx with rfl | hx
        · exact absurd hxs hy
        · exact ⟨x, hx, hxs⟩
      simp only [List.map_cons, hy, if_false]
      rw [List.find?_cons_of_neg (by simpa using hy)]
      exact ih this

/-- detaching removes the topic from the session's table -/
theorem detach_not_attached (w : World) (sid : Sid) (tn : TName) : (w.detach sid tn).attached sid tn = false := by
  unfold World.detach
  cases h : w.sess? sid with
  | none => simp only; unfold World.attached; rw [h]
  | some s =>
    simp only
    have hmem : s ∈ w.sess ∧ s.sid = sid := by
      unfold World.sess? at h
      exact ⟨List.mem_of_find?_eq_some h, by have := List.find?_some h; simpa using this⟩
    obtain ⟨hm, hs⟩ := hmem
    subst hs
    unfold World.attached World.sess? World.setSess
    simp only
    rw [find_replace w.sess { s with subs := s.subs.filter (· ≠ tn) } ⟨s, hm, rfl⟩]
    simp

/-- {leave} (no unsub) by an attached session acting for the user it is attached as: answered 200, the topic is gone from
the session's table and the session from the topic's table -/
theorem leave_detaches_both (c : Ctx) (a : Actor) (tn : TName) (t : Topic)
    (hatt : c.w.attached a.sid tn = true) (hlive : c.w.live? tn = some t) (hact : t.inactive = false)
    (hs : t.sessions.find? (·.1 = a.sid) = some (a.sid, a.uid)) :
    (a.sid, ctrl 200 tn) ∈ (c.opLeave a tn false).frames ∧ (c.opLeave a tn false).w.attached a.sid tn = false ∧
    ∃ t', (c.opLeave a tn false).w.live? tn = some t' ∧ t'.sessions = t.sessions.filter (·.1 ≠ a.sid) := by
  have htn := live_name _ _ _ hlive
  subst htn
  unfold Ctx.opLeave
  simp only [hatt, Bool.not_true, Bool.false_eq_true, if_false, hlive, hact, hs, ne_eq, not_true_eq_false]
  cases hbg : a.bg <;> simp only [Bool.not_false, Bool.not_true, if_true, if_false, Bool.false_eq_true]
  · -- foreground session
    refine ⟨?_, ?_, ?_⟩
    · split <;> simp [Ctx.putLive, Ctx.emit, Ctx.presOnline]
    · split <;> exact detach_not_attached c.w a.sid t.name
    · split
      · exact ⟨_, live_setLive _ _, rfl⟩
      · exact ⟨_, live_setLive _ _, rfl⟩
  · refine ⟨?_, ?_, ?_⟩
    · split <;> simp [Ctx.putLive, Ctx.emit, Ctx.presOnline]
    · split <;> exact detach_not_attached c.w a.sid t.name
    · split
      · exact ⟨_, live_setLive _ _, rfl⟩
      · exact ⟨_, live_setLive _ _, rfl⟩

theorem delLive_none (w : World) (tn : TName) : (w.delLive tn).live? tn = none := by
  unfold World.delLive World.live?
  simp only
  rw [List.find?_eq_none]
  intro x hx
  have := (List.mem_filter.mp hx).2
  simpa using this

/-- when a topic is terminated (deleted, or unloaded) it is no longer loaded: later requests go through the load path, which
refuses a deleted topic (`joinTopic`: no row, or a soft-deleted one, is answered 404) -/
theorem terminate_unloads (c : Ctx) (t : Topic) : (c.terminateTopic t).w.live? t.name = none := by
  unfold Ctx.terminateTopic
  exact delLive_none _ _

/-- a soft-deleted or missing topic cannot be joined: 404, nothing loaded -/
theorem deleted_topic_refused (c : Ctx) (a : Actor) (tn : TName) (r : TopicRow)
    (hl : c.w.live? tn = none) (hn : ¬ ((tn.drop 1).toNat?.getD 0) ≥ c.w.nextT) (hf : c.failK = 0)
    (hr : c.w.row? tn = some r) (hs : r.state = 20) :
    (c.joinTopic a tn).2 = none ∧ (a.sid, ctrl 404 tn) ∈ (c.joinTopic a tn).1.frames := by
  unfold Ctx.joinTopic
  simp only [hl, hn, if_false]
  obtain ⟨c1, h1, hw1, hfr1, _, _, _, _⟩ := call_ok' c "TopicGet" id hf
  rw [h1]
  simp only [Bool.not_true, Bool.false_eq_true, if_false]
  have : c1.w.row? tn = some r := by rw [hw1]; exact hr
  rw [this]
  simp [hs]

/-! ### what is NOT true: every {leave} is answered

A root session attached to a topic for user A that sends {leave} as user B gets no reply at all (topic.go:721: remSession
returns nil and no branch answers). Known finding `root-leave-obo` (F25). -/
def wS : Sess := { sid := "S7", uid := "U3", lvl := .root, subs := ["T1"] }
def wT : Topic := { name := "T1", perUser := [("U3", { want := 0xFF, given := 0xFF, online := 1 })], sessions := [("S7", "U3")] }
def wA : Actor := { sid := "S7", sessUid := "U3", uid := "U1", lvl := .auth, bg := false }

theorem root_leave_on_behalf_unanswered :
    (({ w := { sess := [wS], live := [wT] } } : Ctx).opLeave wA "T1" false).frames = [] := by decide

end Tinode.Props.C14
