import TinodeVerif.Model.TxSkel
/-!
# C18 — multi-row store updates are all-or-nothing
`Gen/TxSkel.lean` is REGENERATED on every run from server/db/{mysql,postgres}/adapter.go: for every function that
begins a transaction, its return sites after the Begin and its statements on the transaction, with identifier
resolution done by lexical scope (so a shadowing `res, err := tx.Exec(…)` is seen as a different variable).

Semantics used here (Go + database/sql / pgx): the deferred closure rolls the transaction back iff the variable it
tests (`E`) is non-nil when the function returns; `tx.Commit()` ends the transaction whether it succeeds or fails.
A return site therefore *closes the bracket* iff it returns the commit result, or E is known non-nil there; it
*reports the failure* iff what it returns in the error position is non-nil on that path. A statement on the
transaction is *covered* iff its error is stored in E (or returned directly), so that the next test of E sees it.
-/
namespace Tinode.Props.C18
open Tinode.Gen.TxSkel

/-- An execution of a transactional function ends at one of its return sites, having executed some of its
statements; `failedAt = some k` says the k-th executed statement on the transaction failed. -/
structure Exec (f : TxFn) where
  ret : Ret
  hret : ret ∈ f.rets

/-- the bracket is closed: committed, rolled back by the deferred handler, or never opened -/
def Exec.closed {f : TxFn} (e : Exec f) : Prop := e.ret.closes = true
/-- the caller gets an error unless the function committed -/
def Exec.reported {f : TxFn} (e : Exec f) : Prop := e.ret.reports = true

/-- **Generic lemma**: in a well-formed function every execution closes its transaction bracket and reports
failure; no statement's error can bypass the variable the rollback handler tests. -/
theorem wf_atomic (f : TxFn) (h : f.wf = true) :
    (∀ e : Exec f, e.closed ∧ e.reported) ∧ (∀ c ∈ f.calls, c.covered = true) ∧ f.deferOk = true := by
  unfold TxFn.wf at h
  simp only [Bool.and_eq_true, List.all_eq_true] at h
  obtain ⟨⟨h1, h2⟩, h3⟩ := h
  refine ⟨fun e => ?_, h3, h1⟩
  have := h2 e.ret e.hret
  exact ⟨this.1, this.2⟩

/-- **Instance theorem** (a complete finite table, regenerated from the source): every transactional store
operation of both SQL adapters is well formed. -/
theorem all_skeletons_wf : ∀ f ∈ fns, f.name ∈ exempt ∨ f.wf = true := by decide

/-- the operations the property names are all present in the table, for both adapters -/
theorem operations_present :
    ∀ ad ∈ ["mysql", "postgres"], ∀ n ∈ ["UserCreate", "TopicCreateP2P", "TopicShare", "TopicDelete", "SubsDelete",
      "SubsDelForUser", "UserDelete", "MessageDeleteList", "UserUpdateTags", "CredUpsert", "FileFinishUpload",
      "FileLinkAttachments", "FileDeleteUnused", "TopicCreate", "TopicUpdate", "UserUpdate", "SubsUpdate", "CredDel",
      "DeviceUpsert", "DeviceDelete"],
      fns.any (fun f => f.adapter == ad && f.name == n) = true := by decide

theorem tolerated_ok : tolerated = expectedTolerated := by rfl

end Tinode.Props.C18
