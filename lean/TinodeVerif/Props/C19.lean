import TinodeVerif.Proofs.Search
import TinodeVerif.Proofs.Tags
/-!
# C19 — search finds only what the query and the tag rules allow
Model: `Model/Search.lean`; grammar: `Spec/Query.lean`; simulation proof: `Proofs/Search.lean`.
-/
namespace Tinode.Props.C19
open Tinode.Search Tinode.Spec.Query

/-- **The parser implements the documented grammar** — for every query string and every tag-rewriting function
(validators/authenticators): it fails exactly on the malformed queries, and otherwise returns exactly the
required (AND) groups and optional (OR) terms the grammar assigns. -/
theorem parse_eq_grammar (rewrite : List Char → List Char) (query : List Char) :
    match specParse rewrite query with
    | none => ∃ e, parseSearchQuery rewrite query = .error e
    | some r => parseSearchQuery rewrite query = .ok r := by
  unfold specParse parseSearchQuery
  generalize trimSpace query = q
  -- the start state is "after an empty term", so a leading separator run needs no special case
  have hat : AfterTerm q rewrite ({} : St) 0 [] false := by
    refine ⟨rfl, rfl, rfl, ?_⟩
    intro p cl
    simp [pendingTok, mkTok]
  by_cases hsep : ∀ c cs, q = c :: cs → isSepChar c = true
  · have := (sim_all q rewrite (q.length + 1)).2 [] q {} [] false rfl hat (by simp) hsep
    simp only [List.length_nil] at this
    cases hl : lexItems (q.length + 1) q with
    | none =>
      simp only [hl] at this ⊢
      obtain ⟨e, he⟩ := this
      exact ⟨e, by simp [he]⟩
    | some items =>
      simp only [hl] at this ⊢
      obtain ⟨st', h1, h2⟩ := this
      simp only [Option.map_some, h1]
      have : st'.out = classify rewrite false items := by
        rw [h2]; simp [classify, mkTok]
      rw [this]
  · have hns : ∀ c cs, q = c :: cs → isSepChar c = false := by
      intro c cs h
      cases hq : q with
      | nil => rw [hq] at h; cases h
      | cons d ds =>
        rw [hq] at h; cases h
        by_cases hd : isSepChar c = true
        · exfalso; apply hsep
          intro c' cs' h'
          rw [hq] at h'; cases h'; exact hd
        · simpa using hd
    have hb : Boundary q rewrite ({} : St) 0 := by
      refine ⟨rfl, rfl, Or.inl rfl, ?_, ?_⟩
      · intro _; exact ⟨rfl, rfl, rfl, rfl, rfl, by simp [pendingTok]⟩
      · intro h; exact absurd rfl h
    have := (sim_all q rewrite (q.length + 1)).1 [] q {} rfl hb (by simp) hns
    simp only [List.length_nil] at this
    cases hl : lexItems (q.length + 1) q with
    | none =>
      simp only [hl] at this ⊢
      obtain ⟨e, he⟩ := this
      exact ⟨e, by simp [he]⟩
    | some items =>
      simp only [hl] at this ⊢
      obtain ⟨st', h1, h2⟩ := this
      simp only [Option.map_some, h1]
      have : st'.out = classify rewrite false items := by
        rw [h2]; simp [pendingTok]
      rw [this]

/-- **Malformed queries are rejected, not misread**: whenever the grammar has no reading for the query (an
unterminated quote, two commas in one separator run, a quote glued to a word or to another quoted string), the
parser returns an error. -/
theorem malformed_rejected (rewrite : List Char → List Char) (query : List Char)
    (h : specParse rewrite query = none) : ∃ e, parseSearchQuery rewrite query = .error e := by
  have := parse_eq_grammar rewrite query
  rw [h] at this
  exact this

/-- the malformed shapes named by the property are indeed outside the grammar -/
example : specParse id "aa \"bb".toList = none ∧ specParse id "aa,,bb".toList = none ∧
    specParse id "aa , ,bb".toList = none ∧ specParse id "a\"b\"".toList = none ∧
    specParse id "\"a\"b".toList = none ∧ specParse id "\"a\"\"b\"".toList = none := by decide

/-- **Stored tags are normalised**: whatever list a client sends, every tag that `normalizeTags` keeps is the
trimmed, lower-cased form of one of the first `maxTagCount` inputs, has between 2 and 96 characters, starts with a
letter or a digit, is not the null marker; the result is strictly sorted (so duplicate-free) and no longer than
`maxTagCount`. `le`/`sortS` are any order and sorting function satisfying `SortSpec`. -/
theorem tags_normal {le : List Char → List Char → Bool} {sortS : List (List Char) → List (List Char)}
    (hss : SortSpec le sortS) (isLetter isDigit : Char → Bool) (trimLower : List Char → List Char)
    (maxTagCount : Nat) (src r : List (List Char))
    (h : normalizeTags isLetter isDigit sortS trimLower maxTagCount src = some r) :
    (∀ x ∈ r, (∃ s ∈ src.take maxTagCount, x = trimLower s) ∧ 2 ≤ x.length ∧ x.length ≤ 96 ∧ x ≠ nullValue ∧
      ∃ c cs, x = c :: cs ∧ (isLetter c = true ∨ isDigit c = true)) ∧
    r.Pairwise (fun a b => le a b = true ∧ a ≠ b) ∧ r.length ≤ maxTagCount := by
  unfold normalizeTags at h
  have hsrc : (if src.length > maxTagCount then src.take maxTagCount else src) = src.take maxTagCount := by
    split
    · rfl
    · rw [List.take_of_length_le (by omega)]
  rw [hsrc] at h
  change (match dedupLoop isLetter isDigit (sortS ((src.take maxTagCount).map trimLower)) [] with
    | some [] => none
    | some r => some r
    | none => some []) = some r at h
  cases hd : dedupLoop isLetter isDigit (sortS ((src.take maxTagCount).map trimLower)) [] with
  | none =>
    rw [hd] at h
    simp only [Option.some.injEq] at h
    subst h; simp
  | some r' =>
    rw [hd] at h
    have hr : r = r' := by
      cases r' with
      | nil => simp at h
      | cons a b => simp only [Option.some.injEq] at h; exact h.symm
    subst hr
    have hsorted := hss.sorted ((src.take maxTagCount).map trimLower)
    obtain ⟨hsub, hall, hpw⟩ := dedup_props_nil isLetter isDigit hss.trans hss.antisymm _ r hsorted hd
    refine ⟨?_, hpw, ?_⟩
    · intro x hx
      obtain ⟨b1, b2, b4, b5⟩ := hall x hx
      have hmem : x ∈ (src.take maxTagCount).map trimLower := (hss.perm _).mem_iff.mp (hsub.subset hx)
      obtain ⟨s, hs, rfl⟩ := List.mem_map.mp hmem
      exact ⟨⟨s, hs, rfl⟩, b1, b2, b4, b5⟩
    · have h1 := hsub.length_le
      have h2 : (sortS ((src.take maxTagCount).map trimLower)).length = (src.take maxTagCount).length := by
        rw [(hss.perm _).length_eq, List.length_map]
      have h3 : (src.take maxTagCount).length ≤ maxTagCount := List.length_take_le _ _
      omega

/-- **Restricted namespaces are immutable for clients**: `restrictedTagsEqual` — the gate on every client tag
update (topic.go:2817-2820, user.go) — accepts exactly when the tags in restricted namespaces are the same
multiset before and after; a client can neither add nor remove one. -/
theorem restricted_ns_immutable {le : List Char → List Char → Bool} {sortS : List (List Char) → List (List Char)}
    (hss : SortSpec le sortS) (isL isN : Char → Bool) (namespaces oldTags newTags : List (List Char)) :
    restrictedEqual isL isN sortS namespaces oldTags newTags = true ↔
      (filterRestricted isL isN namespaces oldTags).Perm (filterRestricted isL isN namespaces newTags) := by
  unfold restrictedEqual
  constructor
  · intro h
    simp only [] at h
    split at h
    · simp at h
    · have he : sortS (filterRestricted isL isN namespaces oldTags) = sortS (filterRestricted isL isN namespaces newTags) := by
        simpa using h
      exact (hss.perm _).symm.trans (he ▸ hss.perm _)
  · intro hp
    have hlen := hp.length_eq
    simp only [hlen, ne_eq, not_true_eq_false, if_false, beq_iff_eq]
    apply List.Perm.eq_of_pairwise (le := fun a b => le a b = true)
    · intro a b _ _ hab hba; exact hss.antisymm a b hab hba
    · exact hss.sorted _
    · exact hss.sorted _
    · exact (hss.perm _).trans (hp.trans (hss.perm _).symm)

/-! non-vacuity / documented examples (API.md): `aaa bbb, ccc` is `(bbb OR ccc) AND aaa` -/
example : parseSearchQuery id "aaa bbb, ccc".toList = .ok ([["aaa".toList]], ["bbb".toList, "ccc".toList]) := by decide
example : parseSearchQuery id "flowers, travel puppies, kittens".toList =
    .ok ([], ["flowers".toList, "travel".toList, "puppies".toList, "kittens".toList]) := by decide
example : parseSearchQuery id "aa \"b,b\" cc".toList = .ok ([["aa".toList], ["b,b".toList], ["cc".toList]], []) := by decide

end Tinode.Props.C19
