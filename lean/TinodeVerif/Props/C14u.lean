import TinodeVerif.Model.TopicUser
import TinodeVerif.Props.C14
/-!
C14 / C11 / C08, the deletion of an account ({del what=user}: `replyDelUser`, `SessionStore.EvictUser`, the hub's
`stopTopicsForUser`, the adapters' `UserDelete`), as transcribed in Model/TopicUser.lean and tied to the code by the world stream.

* who may delete whom (`delUserTarget`): an account is deleted by its own session or by a root session, by nobody else;
* what the store holds afterwards (`userDeleteHard`, `userDeleteSoft`): no subscription of the account, none of its topics;
* what the hub stops (`stopsFor`) and that a stopped topic lets go of every session;
* a group topic which hears that a subscriber's account is gone forgets the subscriber (`evictGone`, fix of the cached phantom);
* once the deletion is acknowledged every session of the account is logged out (`delUserDone`) - with C11w's `logged_out_refused`
  whatever such a session sends afterwards is refused.
-/
namespace Tinode.Props.C14
open Tinode.World Tinode.Acs

/-! ### who may delete whom -/

/-- a session which is not root cannot delete somebody else's account: 403 and nothing else happens -/
theorem only_root_deletes_others (c : Ctx) (s : Sess) (target : String) (hard : Bool)
    (hl : s.lvl ≠ .root) (ht : target ≠ "") (hne : target ≠ s.uid) :
    c.opDelUser s target hard = c.emit s.sid (ctrl 403 "-") := by
  unfold Ctx.opDelUser delUserTarget
  simp [ht, hne, hl]

/-- … and the refusal changes nothing but the requester's queue of frames -/
theorem refused_deletion_no_effect (c : Ctx) (s : Sess) (target : String) (hard : Bool)
    (hl : s.lvl ≠ .root) (ht : target ≠ "") (hne : target ≠ s.uid) :
    (c.opDelUser s target hard).w = c.w ∧ (c.opDelUser s target hard).calls = c.calls ∧
    (c.opDelUser s target hard).off = c.off ∧ (c.opDelUser s target hard).pushes = c.pushes := by
  rw [only_root_deletes_others c s target hard hl ht hne]
  exact ⟨rfl, rfl, rfl, rfl⟩

/-- a session deletes its own account whether it names it or not; root deletes whom it names -/
theorem deletes_self (s : Sess) : delUserTarget s "" = .ok s.uid ∧ delUserTarget s s.uid = .ok s.uid := by
  unfold delUserTarget; simp

theorem root_deletes_named (s : Sess) (u : String) (hl : s.lvl = .root) (hu : u.startsWith "U" = true) (hne : u ≠ "") :
    delUserTarget s u = .ok u := by
  unfold delUserTarget
  by_cases h : u = s.uid
  · simp [h]
  · simp [hne, h, hl, hu]

/-! ### the store after UserDelete -/

/-- hard: no topic owned by the account is left, no subscription of the account (of either kind), no record of messages deleted
for it; the account has no row any more and is listed as gone -/
theorem hard_delete_leaves_nothing (w : World) (u : Uid) (hu : u ≠ "") :
    (∀ r ∈ (w.userDeleteHard u).store, r.owner ≠ u ∧ (∀ s ∈ r.subs, s.user ≠ u) ∧ (∀ s ∈ r.csubs, s.user ≠ u) ∧
        (∀ d ∈ r.dellog, d.forUser ≠ u)) ∧
    (w.userDeleteHard u).user? u = none ∧ (w.userDeleteHard u).hasRecord u = false ∧ u ∈ (w.userDeleteHard u).gone ∧
    (∀ s ∈ (w.userDeleteHard u).meSubs, s.user ≠ u) ∧ (∀ s ∈ (w.userDeleteHard u).fndSubs, s.user ≠ u) := by
  unfold World.userDeleteHard World.user? World.hasRecord
  refine ⟨?_, ?_, ?_, ?_, ?_, ?_⟩
  · intro r hr
    simp only [List.mem_map, List.mem_filter] at hr
    obtain ⟨r0, ⟨_, hown⟩, rfl⟩ := hr
    refine ⟨?_, ?_, ?_, ?_⟩
    · intro h
      simp [hu] at hown
      exact hown h
    · intro s hs; simp only [List.mem_filter] at hs; simpa using hs.2
    · intro s hs; simp only [List.mem_filter] at hs; simpa using hs.2
    · intro d hd; simp only [List.mem_filter] at hd; simpa using hd.2
  · simp only [List.find?_eq_none, List.mem_filter]
    intro x hx
    have := hx.2
    simp at this
    simp [this]
  · simp only [List.any_eq_false, List.mem_filter]
    intro x hx
    simpa using hx.2
  · simp only
    split
    · rename_i h; simpa using h
    · simp
  · intro s hs; simp only [List.mem_filter] at hs; simpa using hs.2
  · intro s hs; simp only [List.mem_filter] at hs; simpa using hs.2

/-- soft: every subscription of the account is marked deleted, every topic it owns is marked deleted with all its
subscriptions; nothing reads the account as an account any more, but its row stays (foreign keys still find it) -/
theorem soft_delete_marks_everything (w : World) (u : Uid) :
    (∀ r ∈ (w.userDeleteSoft u).store,
        (∀ s ∈ r.subs, s.user = u → s.deleted = true) ∧ (∀ s ∈ r.csubs, s.user = u → s.deleted = true) ∧
        (u ≠ "" → r.owner = u → r.state = 20 ∧ ∀ s ∈ r.subs, s.deleted = true)) ∧
    (w.userDeleteSoft u).user? u = none ∧ (w.userDeleteSoft u).hasRecord u = w.hasRecord u ∧ u ∈ (w.userDeleteSoft u).gone := by
  unfold World.userDeleteSoft World.user? World.hasRecord
  refine ⟨?_, ?_, ?_, ?_⟩
  · intro r hr
    simp only [List.mem_map] at hr
    obtain ⟨r0, _, rfl⟩ := hr
    refine ⟨?_, ?_, ?_⟩
    · intro s hs hsu
      split at hs
      · simp only [List.mem_map] at hs
        obtain ⟨s1, _, rfl⟩ := hs; rfl
      · split at hs
        · simp only [List.mem_map] at hs
          obtain ⟨s1, _, rfl⟩ := hs; rfl
        · simp only [List.mem_map] at hs
          obtain ⟨s1, _, rfl⟩ := hs
          by_cases h : s1.user = u
          · simp [h]
          · simp [h] at hsu
    · intro s hs hsu
      have hcs : s ∈ r0.csubs.map (fun s => if s.user = u then { s with deleted := true } else s) := by
        split at hs <;> (try split at hs) <;> exact hs
      simp only [List.mem_map] at hcs
      obtain ⟨s1, _, rfl⟩ := hcs
      by_cases h : s1.user = u
      · simp [h]
      · simp [h] at hsu
    · intro hne hown
      -- the update leaves the owner as it was
      have ho : r0.owner = u := by
        revert hown
        split
        · exact id
        · split <;> exact id
      split
      · refine ⟨rfl, ?_⟩
        intro s hs
        simp only [List.mem_map] at hs
        obtain ⟨s1, _, rfl⟩ := hs; rfl
      · rename_i h
        exact absurd ⟨hne, ho⟩ h
  · simp only [List.find?_eq_none, List.mem_map]
    rintro x ⟨x0, _, rfl⟩
    split
    · simp
    · rename_i h; simp [h]
  · simp only [List.any_map]
    congr 1
    funext x
    simp only [Function.comp]
    split <;> rfl
  · simp only
    split
    · rename_i h; simpa using h
    · simp

/-! ### what the hub stops -/

/-- stopTopicsForUser: the account's own `me` and `fnd`, every p2p topic it takes part in, the system topic if it is subscribed to
it, every topic it owns -/
theorem stops_own_and_personal (u : Uid) (t : Topic) :
    stopsFor u t = true ↔
      ((t.isMe ∨ t.isFnd ∨ isP2PKey t.name = true ∨ t.name = "sys") ∧ (t.pud? u).isSome) ∨ (u ≠ "" ∧ t.owner = u) := by
  unfold stopsFor Topic.isGrpCat
  by_cases hs : t.name = "sys" <;>
    cases t.isMe <;> cases t.isFnd <;> cases isP2PKey t.name <;> cases (t.pud? u).isSome <;> simp [hs]

/-- a group topic in which the account is a mere subscriber is not stopped: it is told that the subscriber is gone instead -/
theorem member_topic_not_stopped (u : Uid) (t : Topic) (hg : t.isGrpCat = true) (ho : t.owner ≠ u) : stopsFor u t = false := by
  unfold stopsFor
  simp [hg, ho]

/-- a stopped topic is off the hub and none of the sessions it listed is attached to it any more -/
theorem stopped_topic_lets_go (c : Ctx) (hard : Bool) (t : Topic) :
    (c.exitOne hard t).w.live? t.name = none := by
  unfold Ctx.exitOne
  exact terminate_unloads _ t

/-! ### a group topic forgets a subscriber whose account is gone -/

/-- the news is acted upon by a loaded group topic exactly when it is about a subscriber other than the owner -/
theorem gone_member_iff (t : Topic) (src : Uid) :
    goneMember t { what := "gone", src := src } = true ↔
      t.isGrpCat = true ∧ src ≠ "" ∧ src ≠ t.owner ∧ (t.pud? src).isSome = true := by
  unfold goneMember
  simp [Bool.and_eq_true]
  constructor
  · rintro ⟨⟨⟨h1, h2⟩, h3⟩, h4⟩; exact ⟨h1, h2, h3, h4⟩
  · rintro ⟨h1, h2, h3, h4⟩; exact ⟨⟨⟨h1, h2⟩, h3⟩, h4⟩

/-- … and afterwards the topic's cache has no entry for that user (evictUser with `unsub`), in a plain group … -/
theorem forgotten_by_group (c : Ctx) (t : Topic) (u : Uid) :
    ((c.evictUser t u true "").2.pud? u) = none := by
  unfold Ctx.evictUser Topic.pud? Topic.delPud alGet alDel
  simp only [if_true]
  simp

/-- … and in a channel-enabled one -/
theorem forgotten_by_channel (c : Ctx) (t : Topic) (u : Uid) :
    ((c.evictUserC t u true "").2.pud? u) = none := by
  unfold Ctx.evictUserC Topic.pud? Topic.delPud alGet alDel
  simp only [Bool.true_or, if_true]
  simp

/-! ### once acknowledged -/

/-- every session of the deleted account is logged out from then on -/
theorem deleted_account_logged_out (c : Ctx) (s : Sess) (u : Uid) :
    ∀ x ∈ (c.delUserDone s u).w.sess, x.uid = u → x.out = true := by
  intro x hx hxu
  unfold Ctx.delUserDone at hx
  simp only [List.mem_map] at hx
  obtain ⟨x0, _, rfl⟩ := hx
  split
  · rfl
  · rename_i h
    split at hxu
    · exact absurd hxu h
    · exact absurd hxu h

/-- the premises are met by small worlds -/
example : stopsFor "U1" { name := "U1", isMe := true, perUser := [("U1", {})] } = true ∧
          stopsFor "U1" { name := "T1", owner := "U2", perUser := [("U1", {}), ("U2", {})] } = false ∧
          stopsFor "U1" { name := "P:U1:U2", perUser := [("U1", {}), ("U2", {})] } = true := by decide +kernel
example : goneMember { name := "T1", owner := "U2", perUser := [("U1", {}), ("U2", {})] } { what := "gone", src := "U1" } = true := by
  decide +kernel

end Tinode.Props.C14
