import TinodeVerif.Props.C01
/-!
C02 — each accepted message reaches exactly the attached readers, once, unaltered.

By `C01.accepted_number` the traffic of an accepted publish is the acknowledgement followed by
`(dataRcpt t skip).map (fun x => (x.1, copy))` where `copy` is one fixed frame. The theorems here say who is in `dataRcpt`,
that nobody is in it twice, what the copy carries, and whom the push is addressed to.
-/
namespace Tinode.Props.C02
open Tinode.World Tinode.Acs

/-- A session gets a copy iff it is attached to the topic, is not the publishing session that asked for no echo, and acts
for a user whose effective mode (requested AND granted) has R. -/
theorem recipient_iff (t : Topic) (skip : Sid) (sid : Sid) (uid : Uid) :
    (sid, uid) ∈ dataRcpt t skip ↔ (sid, uid) ∈ t.sessions ∧ sid ≠ skip ∧ isReader ((t.pud uid).want &&& (t.pud uid).given) = true := by
  unfold dataRcpt Topic.userIsReader eff
  simp only [List.mem_filter, Bool.not_eq_true', Bool.or_eq_false_iff, decide_eq_false_iff_not, Bool.not_eq_false']

/-- the copies delivered by an accepted publish, as (session, frame) pairs -/
def copies (t : Topic) (a : Actor) (tn : TName) (q : Int) (head : List (String × String)) (content : String) (noEcho : Bool) :
    List (Sid × String) :=
  (dataRcpt t (if noEcho then a.sid else "")).map (fun x => (x.1, dataFrame tn a.uid q (pubHead a head) (some content)))

/-- exactly one copy per recipient session: when no session is attached twice, no session appears twice among the copies -/
theorem one_copy_each (t : Topic) (a : Actor) (tn : TName) (q : Int) (head : List (String × String)) (content : String) (noEcho : Bool)
    (hnd : (t.sessions.map (·.1)).Nodup) : ((copies t a tn q head content noEcho).map (·.1)).Nodup := by
  unfold copies dataRcpt
  rw [List.map_map]
  have : ((fun x : Sid × String => x.1) ∘ fun x : Sid × Uid => (x.1, dataFrame tn a.uid q (pubHead a head) (some content))) = (·.1) := rfl
  rw [this]
  exact (List.Sublist.map _ List.filter_sublist).nodup hnd

/-- every copy is the same frame: the acknowledged number, the true author, the topic name, the content as published and
the headers of `pubHead` -/
theorem copy_is_uniform (t : Topic) (a : Actor) (tn : TName) (q : Int) (head : List (String × String)) (content : String) (noEcho : Bool) :
    ∀ x ∈ copies t a tn q head content noEcho, x.2 = dataFrame tn a.uid q (pubHead a head) (some content) := by
  intro x hx
  unfold copies at hx
  obtain ⟨y, _, rfl⟩ := List.mem_map.mp hx
  rfl

/-- the no-echo publisher is not among the recipients -/
theorem no_echo (t : Topic) (a : Actor) (tn : TName) (q : Int) (head : List (String × String)) (content : String) :
    ∀ x ∈ copies t a tn q head content true, x.1 ≠ a.sid := by
  intro x hx
  unfold copies at hx
  obtain ⟨⟨sid, uid⟩, hy, rfl⟩ := List.mem_map.mp hx
  exact ((recipient_iff t a.sid sid uid).mp (by simpa using hy)).2.1

/-- Headers are delivered as published: every header other than `sender` is in the delivered list iff it was in the request;
the `sender` header is the server's (the session's own user when it publishes on behalf of somebody else, absent otherwise). -/
theorem head_unaltered (a : Actor) (head : List (String × String)) (k v : String) (hk : k ≠ "sender") :
    (k, v) ∈ pubHead a head ↔ (k, v) ∈ head := by
  unfold pubHead
  simp only
  split
  · rw [List.mem_mergeSort, List.mem_append, List.mem_filter]
    constructor
    · rintro (⟨h, _⟩ | h)
      · exact h
      · simp only [List.mem_singleton, Prod.mk.injEq] at h; exact absurd h.1 hk
    · intro h; exact Or.inl ⟨h, by simpa using hk⟩
  · rw [List.mem_filter]
    exact ⟨fun h => h.1, fun h => ⟨h, by simpa using hk⟩⟩

theorem sender_header (a : Actor) (head : List (String × String)) (v : String) :
    ("sender", v) ∈ pubHead a head ↔ (a.sessUid ≠ a.uid ∧ v = a.sessUid) := by
  unfold pubHead
  simp only
  split
  · rename_i h
    rw [List.mem_mergeSort, List.mem_append, List.mem_filter]
    constructor
    · rintro (⟨_, h2⟩ | h2)
      · simp at h2
      · simp only [List.mem_singleton, Prod.mk.injEq, true_and] at h2; exact ⟨h, h2⟩
    · rintro ⟨_, rfl⟩; exact Or.inr (by simp)
  · rename_i h
    rw [List.mem_filter]
    constructor
    · rintro ⟨_, h2⟩; simp at h2
    · rintro ⟨h1, _⟩; exact absurd h1 h

/-- The push for a message is addressed exactly to the subscribers whose effective mode has both R and P and who are not
removed. -/
theorem push_addressees (t : Topic) (u : Uid) :
    u ∈ pushRcpt t ↔ ∃ p, (u, p) ∈ t.perUser ∧ isReader (p.want &&& p.given) = true ∧ isPresencer (p.want &&& p.given) = true ∧ p.deleted = false := by
  unfold pushRcpt eff
  simp only [List.mem_map, List.mem_filter, decide_eq_true_eq, Bool.not_eq_true', Prod.exists]
  constructor
  · rintro ⟨u', p, ⟨hm, h⟩, rfl⟩; exact ⟨p, hm, h⟩
  · rintro ⟨p, hm, h⟩; exact ⟨u, p, ⟨hm, h⟩, rfl⟩

/-- the traffic of an accepted publish is the acknowledgement followed by the copies (restating `C01.accepted_number`) -/
theorem accepted_traffic (c : Ctx) (a : Actor) (tn : TName) (content : String) (head : List (String × String)) (noEcho : Bool)
    (t : Topic) (r : TopicRow) (g : C01.Guards c a tn t) (hrow : c.w.row? tn = some r) (hf : c.failK = 0) :
    (c.opPub a tn content head noEcho).frames =
      c.frames ++ [(a.sid, ctrl 202 tn s!" seq={t.lastId + 1}")] ++ copies t a tn (t.lastId + 1) head content noEcho :=
  (C01.accepted_number c a tn content head noEcho t r g hrow hf).1

end Tinode.Props.C02
