import TinodeVerif.Proofs.Acs
/-!
# C05 — access modes obey one consistent algebra in every representation

Property theorems only; helpers live in `Proofs/Acs.lean`. Model: `Model/Acs.lean`
(types.go:524-835, topic.go:3376-3392, topic_proxy.go:288-310).
-/
namespace Tinode.Props.C05
open Tinode.Acs

/-- A permission set: only the eight bits J R W P A S D O. -/
def Valid (m : Mode) : Prop := m &&& modeBitmask = m
instance (m : Mode) : Decidable (Valid m) := by unfold Valid; infer_instance

/-- The mode alphabet in both cases. -/
def alphabet : List Char :=
  ['J','R','W','P','A','S','D','O','N','j','r','w','p','a','s','d','o','n']

/-- **Round trip.** Every permission set has a canonical text which parses back to the same
set whatever the target held before; the empty set is written `N`. -/
theorem marshal_parse (m t : Mode) (hm : Valid m) :
    ∃ s, marshal m = .ok s ∧ unmarshal t s = .ok m ∧ (m = 0 → s = ['N']) := by
  by_cases h0 : m = 0
  · subst h0
    exact ⟨['N'], by decide, by simp [unmarshal, show parseAcs ['N'] = .ok modeNone by decide, show modeNone ≠ modeUnset by decide]; decide, fun _ => rfl⟩
  · have hinv := ne_invalid_of_masked m hm h0
    refine ⟨letters m, ?_, ?_, fun h => absurd h h0⟩
    · have h0' : ¬ m = 0#32 := h0
      simp [marshal, modeNone, h0', hinv]
    · unfold unmarshal
      rw [parseAcs_letters]
      have hne : modeUnset ||| (m &&& modeBitmask) ≠ modeUnset :=
        bits_A2 _ _ _ unset_and_mask (by rw [hm]; exact h0)
      simp only [hne, ne_eq, not_false_eq_true, if_true]
      rw [bits_A1 _ _ _ unset_and_mask, hm]

/-- lower-casing on the mode alphabet -/
def lower (c : Char) : Char :=
  if c = 'J' then 'j' else if c = 'R' then 'r' else if c = 'W' then 'w' else if c = 'P' then 'p'
  else if c = 'A' then 'a' else if c = 'S' then 's' else if c = 'D' then 'd' else if c = 'O' then 'o'
  else if c = 'N' then 'n' else c

private theorem lower_spec (c : Char) :
    letterBit (lower c) = letterBit c ∧ ((lower c = 'N' ∨ lower c = 'n') ↔ (c = 'N' ∨ c = 'n')) := by
  unfold lower
  by_cases h1 : c = 'J'; · subst h1; decide
  by_cases h2 : c = 'R'; · subst h2; decide
  by_cases h3 : c = 'W'; · subst h3; decide
  by_cases h4 : c = 'P'; · subst h4; decide
  by_cases h5 : c = 'A'; · subst h5; decide
  by_cases h6 : c = 'S'; · subst h6; decide
  by_cases h7 : c = 'D'; · subst h7; decide
  by_cases h8 : c = 'O'; · subst h8; decide
  by_cases h9 : c = 'N'; · subst h9; decide
  simp [h1, h2, h3, h4, h5, h6, h7, h8, h9]

private theorem parseLoop_lower (s : List Char) (acc : Mode) :
    parseLoop (s.map lower) acc = parseLoop s acc := by
  induction s generalizing acc with
  | nil => rfl
  | cons c cs ih =>
    have ⟨hb, hn⟩ := lower_spec c
    simp only [List.map_cons, parseLoop, hb]
    cases letterBit c with
    | some b => exact ih _
    | none =>
      have : (List.map lower cs ≠ []) ↔ (cs ≠ []) := by cases cs <;> simp
      simp only [hn, this]

/-- **Letters in any case.** Lower-casing a mode string does not change what it parses to. -/
theorem parse_case_insensitive (s : List Char) : parseAcs (s.map lower) = parseAcs s :=
  parseLoop_lower s modeUnset

private theorem parseLoop_bad (s : List Char) (acc : Mode) (h : ∃ c ∈ s, c ∉ alphabet) :
    ∃ e, parseLoop s acc = .error e := by
  induction s generalizing acc with
  | nil => simp at h
  | cons c cs ih =>
    unfold parseLoop
    cases hb : letterBit c with
    | some b =>
      have hc : c ∈ alphabet := letterBit_some_mem c b hb
      obtain ⟨d, hd, hbad⟩ := h
      rcases List.mem_cons.mp hd with e | e
      · subst e; exact absurd hc hbad
      · exact ih _ ⟨d, e, hbad⟩
    | none =>
      simp only []
      by_cases hN : c = 'N' ∨ c = 'n'
      · simp only [hN, if_true]
        by_cases hcs : cs = []
        · subst hcs
          obtain ⟨d, hd, hbad⟩ := h
          simp at hd; subst hd
          exfalso; apply hbad
          rcases hN with e | e <;> subst e <;> decide
        · simp [hcs]
      · simp [hN]

/-- **Unknown letters are rejected.** A string containing any character outside the mode
alphabet makes `UnmarshalText` fail; the model returns no new value, i.e. the target is unchanged
(the Go side of the correspondence prints the target after the failed call). -/
theorem parse_reject_unchanged (t : Mode) (s : List Char) (h : ∃ c ∈ s, c ∉ alphabet) :
    ∃ e, unmarshal t s = .error e := by
  obtain ⟨e, he⟩ := parseLoop_bad s modeUnset h
  exact ⟨e, by simp [unmarshal, parseAcs, he]⟩

/-- **Empty string means no change.** -/
theorem empty_is_nochange (t : Mode) : unmarshal t [] = .ok t ∧ applyMutation t [] = .ok t ∧
    applyDelta t [] = .ok t := by
  refine ⟨?_, rfl, rfl⟩
  simp [unmarshal, parseAcs, parseLoop]

/-- **Effective permission is the intersection**: each permission test on `want &&& given`
holds iff it holds on both. -/
theorem effective_is_inter (w g : Mode) :
    isJoiner (w &&& g) = (isJoiner w && isJoiner g) ∧ isReader (w &&& g) = (isReader w && isReader g) ∧
    isWriter (w &&& g) = (isWriter w && isWriter g) ∧ isPresencer (w &&& g) = (isPresencer w && isPresencer g) ∧
    isApprover (w &&& g) = (isApprover w && isApprover g) ∧ isDeleter (w &&& g) = (isDeleter w && isDeleter g) ∧
    isOwner (w &&& g) = (isOwner w && isOwner g) := by
  have key : ∀ (b : Mode) (k : Nat) (hk : k < 32), b = 1#32 <<< k →
      (decide (w &&& g &&& b ≠ 0)) = (decide (w &&& b ≠ 0) && decide (g &&& b ≠ 0)) := by
    intro b k hk hb
    subst hb
    have t : ∀ x : Mode, (x &&& (1#32 <<< k) ≠ 0) ↔ x.getLsbD k = true := by
      intro x
      rw [← ite_bit x k hk]
      cases x.getLsbD k <;> simp
      intro h
      have := congrArg (fun y : Mode => y.getLsbD k) h
      simp [hk] at this
    simp only [t, BitVec.getLsbD_and]
    cases w.getLsbD k <;> cases g.getLsbD k <;> simp
  refine ⟨key _ 0 (by omega) (by decide), key _ 1 (by omega) (by decide), key _ 2 (by omega) (by decide),
    key _ 3 (by omega) (by decide), key _ 4 (by omega) (by decide), key _ 6 (by omega) (by decide),
    key _ 7 (by omega) (by decide)⟩

/-- **Delta law.** The textual difference between any two permission sets, applied to the
first, yields the second. -/
theorem delta_apply (o n : Mode) (ho : Valid o) (hn : Valid n) :
    applyDelta o (delta o n) = .ok n := by
  unfold Valid at ho hn
  have hsubA : (modeBitmask &&& n &&& ~~~o) &&& modeBitmask = modeBitmask &&& n &&& ~~~o := bits_sub _ _ _
  have hsubR : (modeBitmask &&& o &&& ~~~n) &&& modeBitmask = modeBitmask &&& o &&& ~~~n := bits_sub _ _ _
  rw [delta_eq]
  by_cases ha : modeBitmask &&& n &&& ~~~o = 0 <;> by_cases hr : modeBitmask &&& o &&& ~~~n = 0
  · -- nothing added, nothing removed
    rw [if_pos ha, if_pos hr]
    simp only [applyDelta, List.append_nil, true_or, if_true]
    rw [bits_D1 o n modeBitmask ho hn ha hr]
  · -- only removed
    rw [if_pos ha, if_neg hr, List.nil_append]
    have hN : ¬ ('-' :: letters (modeBitmask &&& o &&& ~~~n) = [] ∨ '-' :: letters (modeBitmask &&& o &&& ~~~n) = ['N']) := by
      simp
    rw [applyDelta, if_neg hN, List.length_cons, applyLoop_minus_last _ _ _ hsubR hr,
      bits_D3 o n modeBitmask ho hn ha]
  · -- only added
    rw [if_neg ha, if_pos hr, List.append_nil]
    have hN : ¬ ('+' :: letters (modeBitmask &&& n &&& ~~~o) = [] ∨ '+' :: letters (modeBitmask &&& n &&& ~~~o) = ['N']) := by
      simp
    rw [applyDelta, if_neg hN, List.length_cons, applyLoop_plus_last _ _ _ hsubA ha,
      bits_D2 o n modeBitmask ho hn hr]
  · -- both
    rw [if_neg ha, if_neg hr]
    have hlen : ('+' :: letters (modeBitmask &&& n &&& ~~~o) ++ '-' :: letters (modeBitmask &&& o &&& ~~~n)).length
        = ((letters (modeBitmask &&& n &&& ~~~o)).length + (letters (modeBitmask &&& o &&& ~~~n)).length + 1) + 1 := by
      simp; omega
    have hN : ¬ ('+' :: letters (modeBitmask &&& n &&& ~~~o) ++ '-' :: letters (modeBitmask &&& o &&& ~~~n) = [] ∨
        '+' :: letters (modeBitmask &&& n &&& ~~~o) ++ '-' :: letters (modeBitmask &&& o &&& ~~~n) = ['N']) := by
      simp
    rw [applyDelta, if_neg hN, hlen, List.cons_append,
      applyLoop_plus_more _ _ _ '-' _ hsubA ha (by decide),
      applyLoop_minus_last _ _ _ hsubR hr, bits_D4 o n modeBitmask ho hn]

/-- What a tracker (another session, a cluster proxy) holds for a subscription side: the
permission set, with "no subscription" (`ModeUnset`) seen as the empty set `N`. -/
def view (m : Mode) : Mode := if m = modeUnset then 0 else m

private theorem delta_nil_or_sign (o n : Mode) : delta o n = [] ∨ (delta o n).any isSign = true := by
  rw [delta_eq]
  by_cases ha : modeBitmask &&& n &&& ~~~o = 0 <;> by_cases hr : modeBitmask &&& o &&& ~~~n = 0
  · simp [ha, hr]
  · right; rw [if_pos ha, if_neg hr]; simp [isSign]
  · right; rw [if_neg ha, if_pos hr]; simp [isSign]
  · right; rw [if_neg ha, if_neg hr]; simp [isSign]

/-- **One notification.** The string the authoritative topic puts into a change notification
(`notifySubChange`), applied by a tracker holding the old value (`updateAcsFromPresMsg` →
`ApplyMutation`), leaves the tracker with the new value. -/
theorem notify_apply (old new : Mode) (hold : Valid old ∨ old = modeUnset) (hnew : Valid new ∨ new = modeUnset) :
    applyMutation (view old) (notifyStr old new) = .ok (view new) := by
  have hN : ∀ t, applyMutation t ['N'] = .ok 0 := by
    intro t
    simp [applyMutation, isSign, unmarshal, show parseAcs ['N'] = .ok modeNone by decide,
      show modeNone ≠ modeUnset by decide]
    decide
  have hvalid_def : ∀ m, Valid m → isDefined m = true := by
    intro m hm
    have h1 : m ≠ modeInvalid := by
      intro e; subst e; exact absurd hm (by decide)
    have h2 : m ≠ modeUnset := by
      intro e; subst e; exact absurd hm (by decide)
    simp [isDefined, h1, h2]
  have hfull : ∀ t n, Valid n → applyMutation t (toStr n) = .ok n := by
    intro t n hn
    by_cases h0 : n = 0
    · subst h0; exact hN t
    · obtain ⟨s, hs, hu, _⟩ := marshal_parse n t hn
      have hts : toStr n = s := by simp [toStr, hs]
      have hne : letters n ≠ [] := letters_ne_nil n (by rw [show n &&& modeBitmask = n from hn]; exact h0)
      have hs' : s = letters n := by
        have := toStr_masked n hn h0
        rw [hts] at this; exact this
      rw [hts]
      unfold applyMutation
      rw [if_neg (by rw [hs']; exact hne)]
      have hns : s.any isSign = false := by
        rw [hs']
        apply List.any_eq_false.mpr
        intro c hc
        simp [letters_noSign n c hc]
      simp [hns, hu]
  rcases hnew with hnv | hnu
  · -- new is a permission set
    have hdn := hvalid_def new hnv
    have hvn : view new = new := by
      have : new ≠ modeUnset := by intro e; subst e; exact absurd hnv (by decide)
      simp [view, this]
    rw [hvn]
    unfold notifyStr
    rw [if_pos hdn]
    rcases hold with hov | hou
    · have hdo := hvalid_def old hov
      have hvo : view old = old := by
        have : old ≠ modeUnset := by intro e; subst e; exact absurd hov (by decide)
        simp [view, this]
      rw [hvo]
      by_cases hz : old = 0
      · subst hz
        simp only [isZero, modeNone, decide_true, Bool.not_true, Bool.and_false, Bool.false_eq_true, if_false]
        exact hfull _ _ hnv
      · have hz' : ¬ old = 0#32 := hz
        have : (isDefined old && !isZero old) = true := by simp [hdo, isZero, modeNone, hz']
        rw [if_pos this]
        rcases delta_nil_or_sign old new with hnil | hsg
        · have := delta_apply old new hov hnv
          rw [hnil] at this ⊢
          simpa [applyDelta, applyMutation] using this
        · unfold applyMutation
          have hne : delta old new ≠ [] := by intro e; rw [e] at hsg; simp at hsg
          rw [if_neg hne, if_pos hsg]
          exact delta_apply old new hov hnv
    · subst hou
      have : (isDefined modeUnset && !isZero modeUnset) = false := by decide
      simp only [this, Bool.false_eq_true, if_false]
      exact hfull _ _ hnv
  · subst hnu
    have : isDefined modeUnset = false := by decide
    simp only [notifyStr, this, Bool.false_eq_true, if_false]
    have hts : toStr modeNone = ['N'] := by decide
    rw [hts, hN]
    rfl

/-- One subscription side as the authoritative topic and a tracker see it evolve: the master
assigns `new`, the tracker applies the notification string. -/
def masterStep (_m new : Mode) : Mode := new
def trackerStep (p : Except Err Mode) (m new : Mode) : Except Err Mode :=
  match p with
  | .ok v => applyMutation v (notifyStr m new)
  | .error e => .error e

def replay : Mode → Except Err Mode → List Mode → Mode × Except Err Mode
  | m, p, [] => (m, p)
  | m, p, new :: rest => replay (masterStep m new) (trackerStep p m new) rest

/-- **Trackers converge on the authoritative value.** After any sequence of permission
changes (each to a permission set, or to "unsubscribed"), a tracker that started in agreement
and applied every notification holds exactly what the authoritative topic holds. -/
theorem proxy_tracks_master (m0 : Mode) (news : List Mode)
    (h0 : Valid m0 ∨ m0 = modeUnset) (hs : ∀ n ∈ news, Valid n ∨ n = modeUnset) :
    (replay m0 (.ok (view m0)) news).2 = .ok (view (replay m0 (.ok (view m0)) news).1) := by
  induction news generalizing m0 with
  | nil => rfl
  | cons n rest ih =>
    have hn := hs n (by simp)
    simp only [replay, masterStep, trackerStep]
    rw [notify_apply m0 n h0 hn]
    exact ih n hn (fun x hx => hs x (by simp [hx]))

/-! non-vacuity: concrete modes meet the hypotheses and exercise all branches -/
example : Valid 0x2F ∧ Valid 0xFF ∧ Valid 0 := by decide
example : delta 0x1B 0x27 = "+WS-PA".toList := by decide
example : applyDelta 0x1B "+WS-PA".toList = .ok 0x27 := by decide
example : (replay 0 (.ok 0) [0x2F, 0xFF, modeUnset, 0x03]).2 = .ok 0x03 := by decide

end Tinode.Props.C05
