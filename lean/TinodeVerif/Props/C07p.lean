import TinodeVerif.Props.C07
import TinodeVerif.Model.TopicP2P
import TinodeVerif.Proofs.World
/-!
C07, the peer-to-peer clause: "a peer-to-peer topic never has a third participant and its modes never exceed
join/read/write/presence/approve and always keep approve".

The modes: every mode which a p2p handler writes is either `p2pSan` of something, or built from such modes by operations
which stay within JRWPA and keep A. The participants: `anotherUserSubP2P` refuses any user who is not cached in the topic, and
no p2p handler adds a key to `perUser`; `initP2P` caches the two users of the topic's name when it creates anything.
-/
namespace Tinode.Props.C07
open Tinode.World Tinode.Acs

/-- no permission beyond join/read/write/presence/approve -/
def Within (m : Mode) : Prop := m &&& modeCP2P = m
/-- what the property asks of a mode in a p2p topic -/
def P2PMode (m : Mode) : Prop := Within m ∧ isApprover m = true

private theorem sub_bits (a c : Mode) (h : a &&& c = a) (k : Nat) : a.getLsbD k = true → c.getLsbD k = true := by
  intro ha
  have := congrArg (fun x => x.getLsbD k) h
  simp only [BitVec.getLsbD_and] at this
  rw [ha] at this; simpa using this

theorem within_and (a b : Mode) (h : Within a) : Within (a &&& b) := by
  unfold Within at *
  apply BitVec.eq_of_getLsbD_eq; intro k _
  have hk := sub_bits a modeCP2P h k
  simp only [BitVec.getLsbD_and]
  cases ha : a.getLsbD k <;> cases hb : b.getLsbD k <;> cases hc : modeCP2P.getLsbD k <;> simp_all

theorem within_or (a b : Mode) (ha : Within a) (hb : Within b) : Within (a ||| b) := by
  unfold Within at *
  apply BitVec.eq_of_getLsbD_eq; intro k _
  have h1 := sub_bits a modeCP2P ha k
  have h2 := sub_bits b modeCP2P hb k
  simp only [BitVec.getLsbD_and, BitVec.getLsbD_or]
  cases hx : a.getLsbD k <;> cases hy : b.getLsbD k <;> cases hc : modeCP2P.getLsbD k <;> simp_all

theorem approver_or_left (a b : Mode) (h : isApprover a = true) : isApprover (a ||| b) = true := by
  unfold isApprover at *
  have hb : ∀ m : Mode, decide (m &&& modeApprove ≠ 0) = m.getLsbD 4 := fun m => bit_test m 4 (by omega) _ (by decide) (by decide)
  rw [hb] at *; simp [BitVec.getLsbD_or, h]

theorem approver_or_right (a b : Mode) (h : isApprover b = true) : isApprover (a ||| b) = true := by
  unfold isApprover at *
  have hb : ∀ m : Mode, decide (m &&& modeApprove ≠ 0) = m.getLsbD 4 := fun m => bit_test m 4 (by omega) _ (by decide) (by decide)
  rw [hb] at *; simp [BitVec.getLsbD_or, h]

theorem approver_clear_owner (a : Mode) (h : isApprover a = true) : isApprover (a &&& ~~~modeOwner) = true := by
  unfold isApprover at *
  have hb : ∀ m : Mode, decide (m &&& modeApprove ≠ 0) = m.getLsbD 4 := fun m => bit_test m 4 (by omega) _ (by decide) (by decide)
  rw [hb] at *
  have : (~~~modeOwner).getLsbD 4 = true := by decide
  rw [BitVec.getLsbD_and, h, this]; rfl

/-- the sanity mask: whatever the client asks for, the result is within JRWPA and has A -/
theorem p2pSan_mode (m : Mode) : P2PMode (p2pSan m) := by
  constructor
  · unfold Within p2pSan
    apply BitVec.eq_of_getLsbD_eq; intro k _
    simp only [BitVec.getLsbD_and, BitVec.getLsbD_or]
    have h := sub_bits modeApprove modeCP2P (by decide) k
    cases hm : m.getLsbD k <;> cases hc : modeCP2P.getLsbD k <;> cases ha : modeApprove.getLsbD k <;> simp_all
  · unfold p2pSan
    exact approver_or_right _ _ (by decide)

example : P2PMode (p2pSan modeCFull) ∧ p2pSan modeCFull = modeCP2P ∧ p2pSan modeNone = modeApprove := by
  refine ⟨p2pSan_mode _, by decide, by decide⟩

/-! ### the modes written when a p2p topic is created (initTopicP2P) -/

/-- the requester's own mode at creation: the other side's grant, or the requested mode masked, with J added -/
theorem init_want_mode (dflt : Mode) (hd : P2PMode dflt) (hasSetSub : Bool) (userArg me : Uid) (mode : String) :
    P2PMode (p2pInitWant dflt hasSetSub userArg me mode) := by
  unfold p2pInitWant
  have hj : Within modeJoin := by unfold Within; decide
  split
  · exact hd
  · dsimp only
    split
    · exact ⟨within_or _ _ hd.1 hj, approver_or_left _ _ hd.2⟩
    · exact ⟨within_or _ _ (p2pSan_mode _).1 hj, approver_or_left _ _ (p2pSan_mode _).2⟩

/-! ### a participant's own request (thisUserSub) -/

/-- an explicit mode is masked; ownership cannot be asked for -/
theorem self_mode_p2p (ud0 : PUD) (w m : Mode) (h : selfModeCheckP2P ud0 w = .ok m) : m = modeUnset ∨ P2PMode m := by
  unfold selfModeCheckP2P at h
  split at h
  · simp only [Except.ok.injEq] at h; exact Or.inl (by rw [← h]; assumption)
  · split at h
    · simp only [Except.ok.injEq] at h; exact Or.inr (h ▸ p2pSan_mode w)
    · split at h
      · cases h
      · simp only [Except.ok.injEq] at h; exact Or.inr (h ▸ p2pSan_mode w)

theorem ownership_not_requested_p2p (ud0 : PUD) (w : Mode) (hw : w ≠ modeUnset) (ho : isOwner w = true) (hg : isOwner ud0.given = false) :
    selfModeCheckP2P ud0 w = .error () := by
  unfold selfModeCheckP2P; simp [hw, ho, hg]

/-- the requested mode after the checks stays a p2p mode: the un-self-ban restores the grant (plus the root default), never
ownership -/
theorem self_want_p2p (lvl : Level) (ud : PUD) (oldWant m : Mode) (hw : P2PMode ud.want) (hg : P2PMode ud.given)
    (hm : m = modeUnset ∨ P2PMode m) : P2PMode (selfWantP2P lvl ud oldWant m).want := by
  unfold selfWantP2P
  split
  · split
    · dsimp only
      have ha : Within (accessForP2P lvl) := by
        unfold accessForP2P levelMode Within; cases lvl <;> decide
      exact ⟨within_and _ _ (within_or _ _ hg.1 ha), approver_clear_owner _ (approver_or_left _ _ hg.2)⟩
    · exact hw
  · rename_i hne
    split
    · dsimp only
      rcases hm with hm | hm
      · exact absurd hm hne
      · exact hm
    · exact hw

/-! ### the other participant's grant (anotherUserSub) -/

theorem grant_p2p (g : Mode) : p2pGrant g = modeUnset ∨ P2PMode (p2pGrant g) := by
  unfold p2pGrant; split
  · exact Or.inl rfl
  · exact Or.inr (p2pSan_mode g)

/-- inviting the participant who has left: the explicit (masked) grant, or the masked default -/
theorem reinvite_given_mode (g : Mode) : P2PMode (p2pReinviteGiven (p2pGrant g)) := by
  unfold p2pReinviteGiven
  split
  · exact p2pSan_mode _
  · rename_i h
    rcases grant_p2p g with h' | h'
    · exact absurd h' h
    · exact h'

/-- the requested mode recorded for the invited participant is within JRWPA when the grant is: it is the account's default
limited by the grant, or the previous one without ownership -/
theorem invite_want_default_within (userAuth g : Mode) (hg : Within g) : Within (inviteWantDefault userAuth g) := by
  unfold inviteWantDefault
  have : userAuth &&& g &&& ~~~modeOwner = g &&& (userAuth &&& ~~~modeOwner) := by
    apply BitVec.eq_of_getLsbD_eq; intro k _
    simp only [BitVec.getLsbD_and]
    cases userAuth.getLsbD k <;> cases g.getLsbD k <;> cases (~~~modeOwner).getLsbD k <;> rfl
  rw [this]; exact within_and _ _ hg

theorem invite_want_prev_within (w : Mode) (hw : Within w) : Within (inviteWantPrev w) := by
  unfold inviteWantPrev; exact within_and _ _ hw

/-! ### never a third participant -/

/-- a user who is not cached in the p2p topic cannot be subscribed to it by a participant: nothing happens to the topic -/
theorem no_third_participant (c : Ctx) (t : Topic) (a : Actor) (target : Uid) (mode : String) (h : t.pud? target = none) :
    (c.anotherUserSubP2P t a target mode).2 = (t, none) := by
  unfold Ctx.anotherUserSubP2P
  simp only [h]
  repeat' split
  all_goals rfl

/-- cases 1 and 2 of initTopicP2P cache the requester and the user named in the request, nobody else -/
theorem made_with_two (c : Ctx) (a : Actor) (peer : Uid) (mode : String) (priv : PrivArg) (userArg : Uid) (re : Bool) (subs : List SubRow)
    (l d : Int) (c' : Ctx) (i : P2PInit) (ro : Bool) (h : c.p2pMake a peer mode priv userArg re subs l d ro = (c', some i)) :
    i.t.perUser.map (·.1) = [a.uid, peer] := by
  unfold Ctx.p2pMake at h
  dsimp only at h
  repeat' split at h
  all_goals (try (simp only [Prod.mk.injEq, Option.some.injEq, reduceCtorEq, and_false] at h))
  all_goals (try (obtain ⟨_, rfl⟩ := h))
  all_goals (try rfl)

/-- a p2p topic which initTopicP2P creates, or in which it makes a subscription, has the two users of its name and nobody else -/
theorem created_with_two (c : Ctx) (a : Actor) (peer : Uid) (mode : String) (priv : PrivArg) (userArg : Uid) (c' : Ctx) (i : P2PInit)
    (h : c.initP2P a peer mode priv userArg = (c', some i)) (hc : i.created = true ∨ i.newsub = true) :
    i.t.perUser.map (·.1) = [a.uid, peer] := by
  unfold Ctx.initP2P at h
  dsimp only at h
  repeat' split at h
  all_goals (try (simp only [Prod.mk.injEq, Option.some.injEq, reduceCtorEq, and_false] at h))
  all_goals (try (exact made_with_two _ _ _ _ _ _ _ _ _ _ _ _ _ h))
  all_goals (try (obtain ⟨_, rfl⟩ := h; simp at hc))

/-- the subscriptions initTopicP2P writes have p2p modes, given that the one it found (if any) has -/
theorem plan_modes (a : Actor) (peer : Uid) (u1 u2 : User) (subs : List SubRow) (mode : String) (priv : PrivArg) (userArg : Uid) (pg : Option Mode)
    (hs : ∀ s ∈ subs, P2PMode s.want ∧ P2PMode s.given) :
    P2PMode (p2pPlan a peer u1 u2 subs mode priv userArg pg).sub1.want ∧ P2PMode (p2pPlan a peer u1 u2 subs mode priv userArg pg).sub1.given ∧
    P2PMode (p2pPlan a peer u1 u2 subs mode priv userArg pg).sub2.want ∧ P2PMode (p2pPlan a peer u1 u2 subs mode priv userArg pg).sub2.given := by
  have h1 : ∀ s, (if subs.length = 1 then subs.find? (·.user = a.uid) else none) = some s → P2PMode s.want ∧ P2PMode s.given := by
    intro s h; split at h
    · exact hs s (List.mem_of_find?_eq_some h)
    · cases h
  have h2 : ∀ s, (if subs.length = 1 then subs.find? (·.user ≠ a.uid) else none) = some s → P2PMode s.want ∧ P2PMode s.given := by
    intro s h; split at h
    · exact hs s (List.mem_of_find?_eq_some h)
    · cases h
  unfold p2pPlan
  dsimp only
  generalize (if subs.length = 1 then subs.find? (·.user = a.uid) else none) = o1 at h1
  generalize (if subs.length = 1 then subs.find? (·.user ≠ a.uid) else none) = o2 at h2
  cases o1 <;> cases o2 <;> simp only [Option.isSome_none, Option.isSome_some, Bool.not_true, Bool.not_false, if_true]
  · exact ⟨init_want_mode _ (p2pSan_mode _) _ _ _ _, p2pSan_mode _, p2pSan_mode _, p2pSan_mode _⟩
  · rename_i s2
    exact ⟨init_want_mode _ (h2 s2 rfl).2 _ _ _ _, p2pSan_mode _, (h2 s2 rfl).1, (h2 s2 rfl).2⟩
  · rename_i s1
    exact ⟨(h1 s1 rfl).1, (h1 s1 rfl).2, p2pSan_mode _, p2pSan_mode _⟩
  · rename_i s1 s2
    exact ⟨(h1 s1 rfl).1, (h1 s1 rfl).2, (h2 s2 rfl).1, (h2 s2 rfl).2⟩

/-- a participant who deleted the subscription and subscribes again when the topic is not loaded gets the previous grant
(masked), not the other account's default: a restriction set by the other participant sticks -/
theorem reload_restores_grant (a : Actor) (peer : Uid) (u1 u2 : User) (subs : List SubRow) (mode : String) (priv : PrivArg) (userArg : Uid)
    (g : Mode) (h : (if subs.length = 1 then subs.find? (·.user = a.uid) else none) = none) :
    (p2pPlan a peer u1 u2 subs mode priv userArg (some g)).sub1.given = p2pSan g ∧
    (p2pPlan a peer u1 u2 subs mode priv userArg (some g)).newsub = true := by
  unfold p2pPlan
  dsimp only
  rw [h]
  exact ⟨rfl, rfl⟩

/-! ### the set of participants never changes once the topic is cached -/

theorem alSet_keys {β} (l : List (String × β)) (k : String) (v : β) (h : l.any (·.1 = k) = true) :
    (alSet l k v).map (·.1) = l.map (·.1) := by
  unfold alSet
  rw [if_pos h, List.map_map]
  apply List.map_congr_left
  intro e _
  simp only [Function.comp]
  split
  · rename_i he; exact he.symm
  · rfl

theorem pud_some_any (t : Topic) (u : Uid) (p : PUD) (h : t.pud? u = some p) : t.perUser.any (·.1 = u) = true := by
  unfold Topic.pud? alGet at h
  cases hf : t.perUser.find? (fun x => decide (x.1 = u)) with
  | none => rw [hf] at h; cases h
  | some e =>
    have hm := List.mem_of_find?_eq_some hf
    have hp := List.find?_some hf
    exact List.any_eq_true.mpr ⟨e, hm, hp⟩

/-- setting the data of a cached participant keeps the participants -/
theorem setPud_keys (t : Topic) (u : Uid) (p q : PUD) (h : t.pud? u = some p) :
    (t.setPud u q).perUser.map (·.1) = t.perUser.map (·.1) := by
  unfold Topic.setPud; exact alSet_keys _ _ _ (pud_some_any t u p h)

/-- evicting a participant (leaving for good included) keeps both participants cached -/
theorem evict_keeps_participants (c : Ctx) (t : Topic) (u : Uid) (unsub : Bool) (skip : Sid) :
    (c.evictUserP2P t u unsub skip).2.perUser.map (·.1) = t.perUser.map (·.1) := by
  unfold Ctx.evictUserP2P
  dsimp only
  cases h : t.pud? u with
  | none => rfl
  | some p => exact setPud_keys t u p _ h

/-- a participant's own request keeps the participants -/
theorem self_keeps_participants (c : Ctx) (t : Topic) (a : Actor) (want : String) (priv : PrivArg) (n : Bool) :
    (c.thisUserSubP2P t a want priv n).2.1.perUser.map (·.1) = t.perUser.map (·.1) := by
  unfold Ctx.thisUserSubP2P
  dsimp only
  repeat' split
  all_goals (try rfl)
  all_goals (try (rw [evict_keeps_participants]))
  all_goals (first | (exact setPud_keys _ _ _ _ (by assumption)) | (dsimp only; exact setPud_keys _ _ _ _ (by assumption)))

set_option maxHeartbeats 1600000 in
/-- a request on the other participant's subscription keeps the participants -/
theorem other_keeps_participants (c : Ctx) (t : Topic) (a : Actor) (target : Uid) (mode : String) :
    (c.anotherUserSubP2P t a target mode).2.1.perUser.map (·.1) = t.perUser.map (·.1) := by
  unfold Ctx.anotherUserSubP2P
  dsimp only
  repeat' split
  all_goals (try rfl)
  all_goals (try (rw [evict_keeps_participants]))
  all_goals (first | (exact setPud_keys _ _ _ _ (by assumption)) | (dsimp only; exact setPud_keys _ _ _ _ (by assumption)))

theorem evict_name (c : Ctx) (t : Topic) (u : Uid) (unsub : Bool) (skip : Sid) : (c.evictUserP2P t u unsub skip).2.name = t.name := by
  unfold Ctx.evictUserP2P
  dsimp only
  cases h : t.pud? u <;> rfl

set_option maxHeartbeats 1600000 in
theorem other_name (c : Ctx) (t : Topic) (a : Actor) (target : Uid) (mode : String) :
    (c.anotherUserSubP2P t a target mode).2.1.name = t.name := by
  unfold Ctx.anotherUserSubP2P
  dsimp only
  repeat' split
  all_goals (try rfl)
  all_goals (try (rw [evict_name]))
  all_goals (try rfl)

theorem self_name (c : Ctx) (t : Topic) (a : Actor) (want : String) (priv : PrivArg) (n : Bool) :
    (c.thisUserSubP2P t a want priv n).2.1.name = t.name := by
  unfold Ctx.thisUserSubP2P
  dsimp only
  repeat' split
  all_goals (try rfl)
  all_goals (try (rw [evict_name]))
  all_goals (try rfl)

/-- {set sub} on an attached p2p topic, whoever it names: the topic stays cached with the same two participants -/
theorem setsub_keeps_participants (c : Ctx) (a : Actor) (peer target : Uid) (mode : String) (t : Topic)
    (hp : peer ≠ a.uid) (hatt : c.w.attached a.sid (p2pKey a.uid peer) = true) (hl : c.w.live? (p2pKey a.uid peer) = some t) :
    ∃ t', (c.opSetSubP2P a peer target mode).w.live? (p2pKey a.uid peer) = some t' ∧ t'.perUser.map (·.1) = t.perUser.map (·.1) := by
  have hn := live_name _ _ _ hl
  unfold Ctx.opSetSubP2P
  simp only [hp, if_false, hatt, Bool.not_true, Bool.false_eq_true, hl]
  by_cases htg : (if target = "" then a.uid else target) = a.uid
  · simp only [htg, if_true]
    refine ⟨_, ?_, self_keeps_participants c t a mode .absent false⟩
    generalize hr : c.thisUserSubP2P t a mode PrivArg.absent false = r
    have h1 : r.2.1.name = p2pKey a.uid peer := by rw [← hr, self_name, hn]
    obtain ⟨c1, t1, r1⟩ := r
    dsimp only at h1 ⊢
    cases r1 with
    | none => simp only [putLive_w]; rw [← h1]; exact live_setLive _ _
    | some res =>
      cases res.modeChanged <;> (simp only [putLive_w]; rw [← h1]; exact live_setLive _ _)
  · simp only [htg, if_false]
    generalize (if target = "" then a.uid else target) = tg
    refine ⟨_, ?_, other_keeps_participants c t a tg mode⟩
    generalize hr : c.anotherUserSubP2P t a tg mode = r
    have h1 : r.2.1.name = p2pKey a.uid peer := by rw [← hr, other_name, hn]
    obtain ⟨c1, t1, r1⟩ := r
    dsimp only at h1 ⊢
    cases r1 with
    | none => simp only [putLive_w]; rw [← h1]; exact live_setLive _ _
    | some res =>
      cases res.modeChanged <;> (simp only [putLive_w]; rw [← h1]; exact live_setLive _ _)

end Tinode.Props.C07
