import TinodeVerif.Props.C19
import TinodeVerif.Model.TopicTags
/-!
C19 at the handler: the tags of a group topic are read and written by its owner only, and a {set tags} which would add or remove a
tag of an immutable namespace is refused without any effect (the tag functions themselves are the subject of `Props/C19.lean`).
-/
namespace Tinode.Props.C19
open Tinode.World Tinode.Acs

/-- somebody who is not the owner cannot change the tags: 403, nothing else -/
theorem settags_nonowner_refused (c : Ctx) (a : Actor) (tn : TName) (src : List String) (t : Topic)
    (hatt : c.w.attached a.sid tn = true) (hl : c.w.live? tn = some t) (ho : t.owner ≠ a.uid) :
    c.opSetTags a tn src false = c.emit a.sid (ctrl 403 tn) := by
  unfold Ctx.opSetTags
  simp [hatt, hl, ho]

/-- … nor read them -/
theorem gettags_nonowner_refused (c : Ctx) (a : Actor) (tn : TName) (t : Topic)
    (hatt : c.w.attached a.sid tn = true) (hl : c.w.live? tn = some t) (ho : t.owner ≠ a.uid) :
    c.opGetTags a tn false = c.emit a.sid (ctrl 403 tn) := by
  unfold Ctx.opGetTags
  simp [hatt, hl, ho]

/-- a change which touches the immutable namespace is refused whoever asks: 403, no store call, the topic as it was -/
theorem settags_immutable_refused (c : Ctx) (a : Actor) (tn : TName) (src : List String) (t : Topic) (tags : List String)
    (hatt : c.w.attached a.sid tn = true) (hl : c.w.live? tn = some t) (ho : t.owner = a.uid)
    (hn : normTags src = some tags) (hi : immutableSame t.tags tags = false) :
    c.opSetTags a tn src false = c.emit a.sid (ctrl 403 tn) := by
  unfold Ctx.opSetTags
  simp [hatt, hl, ho, hn, hi]

/-- a session which is not attached cannot set tags -/
theorem settags_needs_attachment (c : Ctx) (a : Actor) (tn : TName) (src : List String) (p2p : Bool)
    (hatt : c.w.attached a.sid tn = false) : c.opSetTags a tn src p2p = c.emit a.sid (ctrl 403 tn) := by
  unfold Ctx.opSetTags
  simp [hatt]

/-- a new topic cannot be created with a tag of an immutable namespace -/
theorem new_topic_immutable_refused (src : List String) (tags : List String) (hn : normTags src = some tags) (hne : tags ≠ [])
    (hi : immutableSame tags [] = false) : newTopicTags src = .error () := by
  unfold newTopicTags
  have : tags.isEmpty = false := by cases tags <;> simp_all
  simp [hn, hi, this]

end Tinode.Props.C19
