import TinodeVerif.Model.Auth
/-!
# C12 — secrets cannot be forged, outlive their validity, or be guessed by brute force
Model: `Model/Auth.lean`. HMAC-SHA256 / HMAC-MD5 are the parameters `mac` / `mac16`: the theorems reduce every
acceptance to "the tag matched" — unforgeability proper is a computational assumption, not a theorem.
-/
namespace Tinode.Props.C12
open Tinode.Auth

/-- fields of a record fit the token layout -/
def Fits (r : Rec) : Prop := r.uid < 2 ^ 64 ∧ r.expires < 2 ^ 32 ∧ r.level ≤ levelRoot ∧ r.features < 2 ^ 16
instance (r : Rec) : Decidable (Fits r) := by unfold Fits; infer_instance

/-- **Acceptance, spelled out**: a token authenticates iff it has at least 50 bytes, bytes 18..50 are the MAC of
bytes 0..18 under the server's key, the level is valid, the serial number is the configured one and it has not
expired (with the one-second margin); the result is exactly the decoded fields. -/
theorem token_auth_iff (mac : List Nat → List Nat → List Nat) (key : List Nat) (serialCfg : Int) (nowMs : Nat)
    (token : List Nat) (r : Rec) :
    tokenAuth mac key serialCfg nowMs token = .ok r ↔
      (50 ≤ token.length ∧ (token.drop 18).take 32 = mac key (token.take 18) ∧
       le (((token.take 18).drop 12).take 2) ≤ levelRoot ∧
       (le (((token.take 18).drop 14).take 2) : Int) = serialCfg ∧
       nowMs + 1000 ≤ le (((token.take 18).drop 8).take 4) * 1000 ∧
       r = { uid := le ((token.take 18).take 8), level := le (((token.take 18).drop 12).take 2),
             features := le (((token.take 18).drop 16).take 2), expires := le (((token.take 18).drop 8).take 4) }) := by
  unfold tokenAuth
  rw [show dataSize = 18 from rfl, show macSize = 32 from rfl]
  by_cases c1 : token.length < 18 + 32
  · simp only [c1, if_true]
    constructor
    · intro h; cases h
    · rintro ⟨h1, _⟩; omega
  · simp only [c1, if_false]
    by_cases c2 : (token.drop 18).take 32 = mac key (token.take 18)
    · simp only [c2, ne_eq, not_true_eq_false, if_false]
      by_cases c3 : le (((token.take 18).drop 12).take 2) > levelRoot
      · simp only [c3, if_true]
        constructor
        · intro h; cases h
        · rintro ⟨_, _, h3, _⟩; omega
      · simp only [c3, if_false]
        by_cases c4 : (le (((token.take 18).drop 14).take 2) : Int) = serialCfg
        · simp only [c4, not_true_eq_false, if_false]
          by_cases c5 : le (((token.take 18).drop 8).take 4) * 1000 < nowMs + 1000
          · simp only [c5, if_true]
            constructor
            · intro h; cases h
            · rintro ⟨_, _, _, _, h5, _⟩; omega
          · simp only [c5, if_false, Except.ok.injEq]
            constructor
            · intro h; exact ⟨by omega, trivial, by omega, trivial, by omega, h.symm⟩
            · rintro ⟨_, _, _, _, _, h6⟩; exact h6.symm
        · simp only [c4, not_false_eq_true, if_true]
          constructor
          · intro h; cases h
          · rintro ⟨_, _, _, h4, _⟩; exact h4.elim
    · simp only [c2, ne_eq, not_false_eq_true, if_true]
      constructor
      · intro h; cases h
      · rintro ⟨_, h2, _⟩; exact h2.elim

/-- **An accepted token carries a valid tag on its own data** — so any accepted change to the 18 signed bytes means
the sender produced a MAC under the server's key for data the server never signed. -/
theorem token_accept_needs_mac (mac : List Nat → List Nat → List Nat) (key : List Nat) (serialCfg : Int) (nowMs : Nat)
    (token : List Nat) (r : Rec) (h : tokenAuth mac key serialCfg nowMs token = .ok r) :
    (token.drop 18).take 32 = mac key (token.take 18) :=
  ((token_auth_iff mac key serialCfg nowMs token r).mp h).2.1

/-- **No altered signature passes**: if `t'` is accepted and agrees with an issued token `t` on the signed bytes, it
agrees with it on all 50 bytes. -/
theorem token_mutation_refused (mac : List Nat → List Nat → List Nat) (key : List Nat) (serialCfg : Int) (nowMs : Nat)
    (t t' : List Nat) (r r' : Rec)
    (ht : tokenAuth mac key serialCfg nowMs t = .ok r) (ht' : tokenAuth mac key serialCfg nowMs t' = .ok r')
    (hdata : t'.take 18 = t.take 18) : t'.take 50 = t.take 50 ∧ r' = r := by
  have h1 := (token_auth_iff mac key serialCfg nowMs t r).mp ht
  have h2 := (token_auth_iff mac key serialCfg nowMs t' r').mp ht'
  have hs : (t'.drop 18).take 32 = (t.drop 18).take 32 := by rw [h1.2.1, h2.2.1, hdata]
  constructor
  · have e : ∀ l : List Nat, l.take 50 = l.take 18 ++ (l.drop 18).take 32 := by
      intro l
      have := List.take_add (l := l) (i := 18) (j := 32)
      simpa using this
    rw [e t, e t', hdata, hs]
  · rw [h2.2.2.2.2.2, h1.2.2.2.2.2, hdata]

private theorem le_toLE2 (x : Nat) (h : x < 2 ^ 16) : le (toLE 2 x) = x := by simp [toLE, le]; omega
private theorem le_toLE4 (x : Nat) (h : x < 2 ^ 32) : le (toLE 4 x) = x := by simp [toLE, le]; omega
private theorem le_toLE8 (x : Nat) (h : x < 2 ^ 64) : le (toLE 8 x) = x := by simp [toLE, le]; omega

/-- **Round trip**: a token generated for a record authenticates, while unexpired, as exactly that user, level and
feature set. -/
theorem token_roundtrip (mac : List Nat → List Nat → List Nat) (key : List Nat) (serialCfg : Int) (nowMs : Nat)
    (r : Rec) (hr : Fits r) (hs : 0 ≤ serialCfg ∧ serialCfg < 65536) (hmac : ∀ d, (mac key d).length = 32)
    (hexp : nowMs + 1000 ≤ r.expires * 1000) :
    tokenAuth mac key serialCfg nowMs (tokenGen mac key serialCfg r) = .ok r := by
  obtain ⟨h1, h2, h3, h4⟩ := hr
  have hser : (serialCfg % 65536).toNat < 2 ^ 16 := by omega
  have hlvl : r.level < 2 ^ 16 := by unfold levelRoot at h3; omega
  rw [token_auth_iff]
  have hd : (encodeData r (serialCfg % 65536).toNat).length = 18 := by simp [encodeData, toLE]
  have htake : (tokenGen mac key serialCfg r).take 18 = encodeData r (serialCfg % 65536).toNat := by
    unfold tokenGen; simp only []; rw [List.take_left' hd]
  have hdrop : (tokenGen mac key serialCfg r).drop 18 = mac key (encodeData r (serialCfg % 65536).toNat) := by
    unfold tokenGen; simp only []; rw [List.drop_left' hd]
  rw [htake, hdrop]
  have f8 : (encodeData r (serialCfg % 65536).toNat).take 8 = toLE 8 r.uid := by simp [encodeData, toLE]
  have f4 : ((encodeData r (serialCfg % 65536).toNat).drop 8).take 4 = toLE 4 r.expires := by simp [encodeData, toLE]
  have f2a : ((encodeData r (serialCfg % 65536).toNat).drop 12).take 2 = toLE 2 r.level := by simp [encodeData, toLE]
  have f2b : ((encodeData r (serialCfg % 65536).toNat).drop 14).take 2 = toLE 2 (serialCfg % 65536).toNat := by
    simp [encodeData, toLE]
  have f2c : ((encodeData r (serialCfg % 65536).toNat).drop 16).take 2 = toLE 2 r.features := by simp [encodeData, toLE]
  rw [f8, f4, f2a, f2b, f2c, le_toLE8 _ h1, le_toLE4 _ h2, le_toLE2 _ hlvl, le_toLE2 _ hser, le_toLE2 _ h4]
  refine ⟨?_, ?_, h3, by omega, hexp, rfl⟩
  · unfold tokenGen; simp only [List.length_append, hd, hmac]; omega
  · rw [List.take_of_length_le (by rw [hmac]; omega)]

/-- **API keys**: a key is valid iff it decodes to exactly 24 bytes whose first byte is the algorithm version 1 and
whose last 16 bytes are the MAC of the first 8 under the server's salt; the root flag is byte 7. -/
theorem apikey_valid_iff (mac16 : List Nat → List Nat → List Nat) (salt : List Nat) (declenOk : Bool)
    (data : Option (List Nat)) (root : Bool) :
    checkKeyData mac16 salt declenOk data = (true, root) ↔
      declenOk = true ∧ ∃ d, data = some d ∧ d.length = 24 ∧ d.head? = some 1 ∧ d.drop 8 = mac16 salt (d.take 8) ∧
        root = decide ((d.drop 7).head? = some 1) := by
  unfold checkKeyData apikeyLength
  cases declenOk <;> simp
  cases data with
  | none => simp
  | some d =>
    simp only [Option.some.injEq, exists_eq_left']
    by_cases h1 : d.length = 24 <;> simp [h1]
    by_cases h2 : d.head? = some 1 <;> simp [h2]
    by_cases h3 : d.drop 8 = mac16 salt (d.take 8) <;> simp [h3]
    exact eq_comm

/-! ### reset codes -/
theorem get_put (c : Cache) (k : List Char) (e : Entry) : (c.put k e).get k = some e := by
  simp [Cache.put, Cache.get]

theorem get_del (c : Cache) (k : List Char) : (c.del k).get k = none := by
  simp only [Cache.get, Cache.del, Option.map_eq_none_iff, List.find?_eq_none]
  intro x hx
  simpa using (List.mem_filter.mp hx).2

/-- guesses against one credential, no new code being generated in between -/
def guesses (maxRetries : Nat) (c : Cache) (cred : List Char) : List (List Char) → List (Except Err Nat) × Cache
  | [] => ([], c)
  | g :: gs =>
    let (r, c') := codeAuth maxRetries c cred g
    let (rs, c'') := guesses maxRetries c' cred gs
    (r :: rs, c'')

private theorem guesses_none (maxRetries : Nat) (c : Cache) (cred : List Char) (gs : List (List Char))
    (h : c.get cred = none) : ∀ r ∈ (guesses maxRetries c cred gs).1, r = .error .failed := by
  induction gs generalizing c with
  | nil => simp [guesses]
  | cons g gs ih =>
    simp only [guesses, codeAuth, h]
    intro r hr
    rcases List.mem_cons.mp hr with e | e
    · exact e
    · exact ih c h r e

private theorem guesses_locked (maxRetries : Nat) (c : Cache) (cred : List Char) (gs : List (List Char)) (e : Entry)
    (h : c.get cred = some e) (hl : e.attempts ≥ maxRetries) :
    ∀ r ∈ (guesses maxRetries c cred gs).1, r = .error .failed := by
  induction gs with
  | nil => simp [guesses]
  | cons g gs ih =>
    simp only [guesses, codeAuth, h, hl, if_true]
    intro r hr
    rcases List.mem_cons.mp hr with e' | e'
    · exact e'
    · exact ih r e'

/-- **A code is accepted at most once**: in any sequence of attempts, after the first success every later attempt
fails (the entry is deleted on success). -/
theorem code_once (maxRetries : Nat) (c : Cache) (cred : List Char) (g : List Char) (gs : List (List Char)) (uid : Nat)
    (h : (codeAuth maxRetries c cred g).1 = .ok uid) :
    ∀ r ∈ (guesses maxRetries (codeAuth maxRetries c cred g).2 cred gs).1, r = .error .failed := by
  unfold codeAuth at h ⊢
  cases hg : c.get cred with
  | none => simp [hg] at h
  | some e =>
    simp only [hg] at h ⊢
    split at h
    · simp at h
    · split at h
      · simp at h
      · rename_i h1 h2
        simp only [h1, h2, if_false]
        exact guesses_none maxRetries _ cred gs (get_del c cred)

/-- **Lock-out**: after `maxRetries` wrong guesses no guess is accepted any more, the right code included. -/
theorem code_lockout (maxRetries : Nat) (c : Cache) (cred : List Char) (e : Entry) (wrong gs : List (List Char))
    (h : c.get cred = some e) (hw : ∀ g ∈ wrong, g ≠ e.code) (hn : e.attempts + wrong.length ≥ maxRetries) :
    (∀ r ∈ (guesses maxRetries c cred wrong).1, r = .error .failed) ∧
    ∀ r ∈ (guesses maxRetries (guesses maxRetries c cred wrong).2 cred gs).1, r = .error .failed := by
  induction wrong generalizing c e with
  | nil =>
    simp only [guesses, List.not_mem_nil, false_implies, implies_true, true_and]
    exact guesses_locked maxRetries c cred gs e h (by simpa using hn)
  | cons w ws ih =>
    have hwne : w ≠ e.code := hw w (by simp)
    by_cases hl : e.attempts ≥ maxRetries
    · -- already locked
      have hc : codeAuth maxRetries c cred w = (.error .failed, c) := by simp [codeAuth, h, hl]
      simp only [guesses, hc]
      have := ih c e h (fun g hg => hw g (by simp [hg])) (by omega)
      refine ⟨?_, this.2⟩
      intro r hr
      rcases List.mem_cons.mp hr with e' | e'
      · exact e'
      · exact this.1 r e'
    · have hc : codeAuth maxRetries c cred w = (.error .failed, c.put cred { e with attempts := e.attempts + 1 }) := by
        simp [codeAuth, h, hl, Ne.symm hwne]
      simp only [guesses, hc]
      have := ih (c.put cred { e with attempts := e.attempts + 1 }) { e with attempts := e.attempts + 1 }
        (get_put c cred _) (fun g hg => hw g (by simp [hg])) (by simp at hn ⊢; omega)
      refine ⟨?_, this.2⟩
      intro r hr
      rcases List.mem_cons.mp hr with e' | e'
      · exact e'
      · exact this.1 r e'

/-- a wrong or unknown code never authenticates -/
theorem wrong_code_never (maxRetries : Nat) (c : Cache) (cred g : List Char)
    (h : ∀ e, c.get cred = some e → e.code ≠ g) : (codeAuth maxRetries c cred g).1 = .error .failed := by
  unfold codeAuth
  cases hg : c.get cred with
  | none => rfl
  | some e =>
    simp only []
    have := h e hg
    split
    · rfl
    · simp [this]

/-! non-vacuity -/
example : Fits { uid := 12345, level := 20, features := 1, expires := 2000000000 } := by decide
example : (codeAuth 3 [("email:a".toList, { code := "123456".toList, attempts := 0, uid := 7 })] "email:a".toList
    "123456".toList).1 = .ok 7 := by decide

end Tinode.Props.C12
