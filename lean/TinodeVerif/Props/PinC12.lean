import TinodeVerif.Gen.AdapterPin
import TinodeVerif.Props.Pin
/-! C12: the adapter functions its store behaviour rests on are the ones which were transcribed and reviewed (see Props/Pin.lean). -/
namespace Tinode.Props.Pin
open Tinode.AdapterPin

theorem C12_store_functions_as_reviewed : pinsFor Tinode.Gen.AdapterPin.pins "C12" = pinsFor expected "C12" := by decide

end Tinode.Props.Pin
