import TinodeVerif.Gen.AdapterPin
import TinodeVerif.Props.Pin
/-! C04: the adapter functions its store behaviour rests on are the ones which were transcribed and reviewed (see Props/Pin.lean). -/
namespace Tinode.Props.Pin
open Tinode.AdapterPin

theorem C04_store_functions_as_reviewed : pinsFor Tinode.Gen.AdapterPin.pins "C04" = pinsFor expected "C04" := by decide

end Tinode.Props.Pin
