import TinodeVerif.Model.TopicMe
/-!
C10, the part carried by the users' `me` topics: what a topic tells users who are not attached to it, how a `me` topic keeps its
table of contacts (who was last reported online), and what it passes on to the user's sessions.

* `presSubsOfflineMsgs`, `presSingleOfflineMsgs`, `infoSubsOfflineMsgs` (Model/TopicGrp.lean) transcribe presSubsOffline,
  presSingleUserOffline, infoSubsOffline and presOfflineFilter (pres.go:432-501, 587-628, 708-719);
* `procPresReqCore` (Model/TopicMe.lean) transcribes the on/off/?unkn handshake of procPresReq (pres.go:97-226);
* `Ctx.forwardOnMe` the {pres}/{info} branches of broadcastToSessions for a `me` topic;
* `Ctx.presUsersOfInterestCore` presUsersOfInterest (pres.go:254-283).

The theorems state who is addressed and what the table says afterwards, for every topic, population and mode. That the whole
exchange (several topics, the hub's queue, unloads) ends in agreement is observed on the implementation's own histories by the C10
monitor (`[p2p-converge]`, `[grp-converge]`), with the model tied to the code by the differential run.
-/
namespace Tinode.Props.C10
open Tinode.World Tinode.Acs

/-! ### who is addressed -/

/-- A notification sent to the subscribers on their `me` topics is addressed to subscribers only, never to a removed one, and -
apart from permission changes (`acs`), removals (`gone`) and, for anybody who may join, description updates (`upd`) - only to those
whose effective permissions include presence. -/
theorem subs_offline_entitled (t : Topic) (what base : String) (actor target : Uid) (sIn sOut : Mode) (tgt : PresMsg) (sk : Sid)
    (off : Bool) (u : TName) (p : PresMsg)
    (h : (u, p) ∈ presSubsOfflineMsgs t what base actor target sIn sOut tgt sk off) :
    ∃ pud, (u, pud) ∈ t.perUser ∧ pud.deleted = false ∧
      (what = "acs" ∨ what = "gone" ∨ (what = "upd" ∧ isJoiner (eff pud) = true) ∨
        (isJoiner (eff pud) = true ∧ isPresencer (eff pud) = true)) := by
  unfold presSubsOfflineMsgs at h
  simp only [List.mem_filterMap, Prod.exists] at h
  obtain ⟨uid, pud, hm, hf⟩ := h
  by_cases hc : (pud.deleted || !presOfflineFilter (eff pud) what sIn sOut) = true
  · simp [hc] at hf
  · simp only [hc, Bool.false_eq_true, if_false, Option.some.injEq, Prod.mk.injEq] at hf
    simp only [Bool.or_eq_true, Bool.not_eq_true', not_or, Bool.not_eq_true, Bool.not_eq_false] at hc
    refine ⟨pud, hf.1 ▸ hm, hc.1, ?_⟩
    have hp := hc.2
    unfold presOfflineFilter at hp
    by_cases h1 : what = "acs" ∨ what = "gone"
    · rcases h1 with h1 | h1
      · exact Or.inl h1
      · exact Or.inr (Or.inl h1)
    · rw [if_neg h1] at hp
      by_cases h2 : what = "upd" ∧ isJoiner (eff pud) = true
      · exact Or.inr (Or.inr (Or.inl h2))
      · rw [if_neg h2] at hp
        simp only [Bool.and_eq_true] at hp
        exact Or.inr (Or.inr (Or.inr ⟨hp.1.1.1, hp.1.1.2⟩))

/-- nothing but a permission change or a removal is ever addressed to a banned subscriber (no J) -/
theorem subs_offline_never_banned (t : Topic) (what base : String) (actor target : Uid) (sIn sOut : Mode) (tgt : PresMsg) (sk : Sid)
    (off : Bool) (u : TName) (p : PresMsg) (hw : what ≠ "acs" ∧ what ≠ "gone")
    (h : (u, p) ∈ presSubsOfflineMsgs t what base actor target sIn sOut tgt sk off) :
    ∃ pud, (u, pud) ∈ t.perUser ∧ pud.deleted = false ∧ isJoiner (eff pud) = true := by
  obtain ⟨pud, hm, hd, hc⟩ := subs_offline_entitled t what base actor target sIn sOut tgt sk off u p h
  refine ⟨pud, hm, hd, ?_⟩
  rcases hc with hc | hc | hc | hc
  · exact absurd hc hw.1
  · exact absurd hc hw.2
  · exact hc.2
  · exact hc.1

/-- an ordinary notification (online, offline, new message, receipt, deletion) never goes to a subscriber without presence -/
theorem subs_offline_needs_P (t : Topic) (what base : String) (actor target : Uid) (sIn sOut : Mode) (tgt : PresMsg) (sk : Sid)
    (off : Bool) (u : TName) (p : PresMsg) (hw : what ≠ "acs" ∧ what ≠ "gone" ∧ what ≠ "upd")
    (h : (u, p) ∈ presSubsOfflineMsgs t what base actor target sIn sOut tgt sk off) :
    ∃ pud, (u, pud) ∈ t.perUser ∧ pud.deleted = false ∧ isPresencer (eff pud) = true := by
  obtain ⟨pud, hm, hd, hc⟩ := subs_offline_entitled t what base actor target sIn sOut tgt sk off u p h
  refine ⟨pud, hm, hd, ?_⟩
  rcases hc with hc | hc | hc | hc
  · exact absurd hc hw.1
  · exact absurd hc hw.2.1
  · exact absurd hc.1 hw.2.2
  · exact hc.2

/-- the notification for one user: to that user only, never for a removed subscription (`ModeInvalid`), and with the same
presence rule -/
theorem single_offline_entitled (t : Topic) (uid : Uid) (mode : Mode) (what base : String) (actor target : Uid) (sk : Sid) (off : Bool)
    (u : TName) (p : PresMsg) (h : (u, p) ∈ presSingleOfflineMsgs t uid mode what base actor target sk off) :
    u = uid ∧ mode ≠ modeInvalid ∧
      (what = "acs" ∨ what = "gone" ∨ (what = "upd" ∧ isJoiner mode = true) ∨ (isJoiner mode = true ∧ isPresencer mode = true)) := by
  unfold presSingleOfflineMsgs at h
  by_cases hc : mode ≠ modeInvalid ∧ presOfflineFilter mode what 0 0 = true
  · rw [if_pos hc] at h
    simp only [List.mem_singleton, Prod.mk.injEq] at h
    refine ⟨h.1, hc.1, ?_⟩
    have hp := hc.2
    unfold presOfflineFilter at hp
    by_cases h1 : what = "acs" ∨ what = "gone"
    · rcases h1 with h1 | h1
      · exact Or.inl h1
      · exact Or.inr (Or.inl h1)
    · rw [if_neg h1] at hp
      by_cases h2 : what = "upd" ∧ isJoiner mode = true
      · exact Or.inr (Or.inr (Or.inl h2))
      · rw [if_neg h2] at hp
        simp only [Bool.and_eq_true] at hp
        exact Or.inr (Or.inr (Or.inr ⟨hp.1.1.1, hp.1.1.2⟩))
  · rw [if_neg hc] at h
    cases h

/-- a receipt relayed as {info} to the users' `me` topics: to subscribers with presence and read permission only -/
theorem info_offline_entitled (t : Topic) (from_ : Uid) (what : String) (seq : Int) (sk : Sid) (u : TName) (p : PresMsg)
    (h : (u, p) ∈ infoSubsOfflineMsgs t from_ what seq sk) :
    ∃ pud, (u, pud) ∈ t.perUser ∧ pud.deleted = false ∧ isPresencer (eff pud) = true ∧ isReader (eff pud) = true := by
  unfold infoSubsOfflineMsgs at h
  simp only [List.mem_filterMap, Prod.exists] at h
  obtain ⟨uid, pud, hm, hf⟩ := h
  by_cases hc : (pud.deleted || !isPresencer (eff pud) || !isReader (eff pud)) = true
  · simp [hc] at hf
  · simp only [hc, Bool.false_eq_true, if_false, Option.some.injEq, Prod.mk.injEq] at hf
    simp only [Bool.or_eq_true, Bool.not_eq_true', not_or, Bool.not_eq_true, Bool.not_eq_false] at hc
    exact ⟨pud, hf.1 ▸ hm, hc.1.1, hc.1.2, hc.2⟩

/-! ### what a `me` topic passes on -/

/-- whatever reaches a `me` topic is passed on to sessions attached to that topic only, never to the session the news came from -/
theorem forward_on_me_recipients (t : Topic) (p : PresMsg) (what : String) (c : Ctx) (sid : Sid) (f : String)
    (h : (sid, f) ∈ (c.forwardOnMe t p what).frames) :
    (sid, f) ∈ c.frames ∨ (∃ uid, (sid, uid) ∈ t.sessions ∧ sid ≠ p.skipSid) := by
  unfold Ctx.forwardOnMe at h
  generalize hl : t.sessions = l at h
  have key : ∀ (l : List (Sid × Uid)) (c : Ctx),
      (sid, f) ∈ (l.foldl (fun c (x : Sid × Uid) =>
        if x.1 = p.skipSid then c
        else if p.skipTopic ≠ "" ∧ c.w.attached x.1 p.skipTopic = true then c
        else if p.isInfo = true then
          (if p.what = "kp" ∧ p.infoFrom = x.2 then c
           else c.emit x.1 s!"info {t.name} src={p.src} from={p.infoFrom} what={p.what}{p.extra}")
        else if p.singleUser ≠ "" ∧ x.2 ≠ p.singleUser then c
        else if p.excludeUser ≠ "" ∧ x.2 = p.excludeUser then c
        else if (!passesPres t what p.filterIn p.filterOut x.2) = true then c
        else c.emit x.1 (presFrame t.name { p with what := what })) c).frames →
      (sid, f) ∈ c.frames ∨ (∃ uid, (sid, uid) ∈ l ∧ sid ≠ p.skipSid) := by
    intro l
    induction l with
    | nil => intro c h; exact Or.inl h
    | cons x xs ih =>
      intro c h
      rw [List.foldl_cons] at h
      have := ih _ h
      rcases this with h1 | ⟨uid, hm, hs⟩
      · -- the frame was there after the step for `x`
        by_cases hx : x.1 = p.skipSid
        · rw [if_pos hx] at h1; exact Or.inl h1
        · rw [if_neg hx] at h1
          have emitCase : ∀ g : String, (sid, f) ∈ (c.emit x.1 g).frames →
              (sid, f) ∈ c.frames ∨ (∃ uid, (sid, uid) ∈ x :: xs ∧ sid ≠ p.skipSid) := by
            intro g hg
            unfold Ctx.emit at hg
            simp only [List.mem_append, List.mem_singleton, Prod.mk.injEq] at hg
            rcases hg with hg | hg
            · exact Or.inl hg
            · exact Or.inr ⟨x.2, by rw [hg.1]; exact List.mem_cons_self .., by rw [hg.1]; exact hx⟩
          split at h1
          · exact Or.inl h1
          · split at h1
            · split at h1
              · exact Or.inl h1
              · exact emitCase _ h1
            · split at h1
              · exact Or.inl h1
              · split at h1
                · exact Or.inl h1
                · split at h1
                  · exact Or.inl h1
                  · exact emitCase _ h1
      · exact Or.inr ⟨uid, List.mem_cons_of_mem _ hm, hs⟩
  have := key l c h
  rcases this with h1 | ⟨uid, hm, hs⟩
  · exact Or.inl h1
  · exact Or.inr ⟨uid, hm, hs⟩

/-! ### the table of contacts -/

theorem psGet_psSet_self (l : List (String × Bool × Bool)) (k : String) (v : Bool × Bool) : psGet (psSet l k v) k = some v := by
  unfold psGet psSet
  by_cases h : l.any (fun e => decide (e.1 = k)) = true
  · rw [if_pos h]
    induction l with
    | nil => simp at h
    | cons x xs ih =>
      simp only [List.map_cons, List.find?_cons]
      by_cases hx : x.1 = k
      · simp [hx]
      · have : (if x.1 = k then (k, v) else x) = x := by rw [if_neg hx]
        rw [this]
        simp only [hx, decide_false]
        simp only [List.any_cons, hx, decide_false, Bool.false_or] at h
        exact ih h
  · rw [if_neg h]
    simp only [List.any_eq_true, decide_eq_true_eq, not_exists, not_and] at h
    rw [List.find?_append]
    have : List.find? (fun x => decide (x.1 = k)) l = none := by
      rw [List.find?_eq_none]; intro x hx; simpa using h x hx
    rw [this]; simp

theorem psGet_psSet_other (l : List (String × Bool × Bool)) (k y : String) (v : Bool × Bool) (hy : y ≠ k) :
    psGet (psSet l k v) y = psGet l y := by
  have hmap : ∀ l : List (String × Bool × Bool),
      List.find? (fun e => decide (e.1 = y)) (l.map (fun e => if e.1 = k then (k, v) else e)) =
        List.find? (fun e => decide (e.1 = y)) l := by
    intro l
    induction l with
    | nil => rfl
    | cons e es ih =>
      simp only [List.map_cons, List.find?_cons]
      by_cases he : e.1 = k
      · have hey : e.1 ≠ y := fun h => hy (h ▸ he)
        have hky : k ≠ y := fun h => hy h.symm
        simp only [he, if_true, hky, decide_false]
        exact ih
      · simp only [he, if_false]
        by_cases hey : e.1 = y
        · simp [hey]
        · simp only [hey, decide_false]; exact ih
  unfold psGet psSet
  split
  · rw [hmap]
  · rw [List.find?_append]
    cases hf : List.find? (fun e => decide (e.1 = y)) l with
    | some v => rfl
    | none => simp [Ne.symm hy]

theorem psGet_psDel_self (l : List (String × Bool × Bool)) (k : String) : psGet (psDel l k) k = none := by
  unfold psGet psDel
  have : List.find? (fun x => decide (x.1 = k)) (List.filter (fun x => decide (x.1 ≠ k)) l) = none := by
    rw [List.find?_eq_none]; intro x hx
    simp only [List.mem_filter, decide_eq_true_eq] at hx
    simpa using hx.2
  rw [this]; rfl

/-- "online" from an enabled contact which was known as offline: the table says online now, the news is passed on to the sessions,
and - when the sender asked for it - the answer is this user's own status, which asks for nothing in return -/
theorem on_from_enabled_contact (t : Topic) (x : String) (wantReply : Bool) (ponl : Bool)
    (hme : t.isMe = true) (hact : t.inactive = false) (hc : psGet t.perSubs x = some (ponl, true)) :
    let r := procPresReqCore t x "on" "" wantReply
    psGet r.1.perSubs x = some (true, true) ∧ r.2.1 = (if ponl then "" else "on") ∧
    r.2.2 = (if wantReply then some { what := "on", src := t.name, wantReply := false } else none) := by
  unfold procPresReqCore
  simp only [hact, hme, hc]
  refine ⟨?_, ?_, ?_⟩
  · simp [psGet_psSet_self]
  · cases ponl <;> simp
  · cases wantReply <;> simp

/-- … and nothing else about the topic changes: only the entry of that contact -/
theorem on_from_enabled_topic (t : Topic) (x : String) (wantReply : Bool) (ponl : Bool)
    (hme : t.isMe = true) (hact : t.inactive = false) (hc : psGet t.perSubs x = some (ponl, true)) :
    (procPresReqCore t x "on" "" wantReply).1 = { t with perSubs := psSet t.perSubs x (true, true) } := by
  unfold procPresReqCore
  simp [hact, hme, hc]

/-- "offline" from an enabled contact: the table says offline; passed on only if the contact was known as online; never answered -/
theorem off_from_enabled_contact (t : Topic) (x : String) (wantReply : Bool) (ponl : Bool)
    (hme : t.isMe = true) (hact : t.inactive = false) (hc : psGet t.perSubs x = some (ponl, true)) :
    let r := procPresReqCore t x "off" "" wantReply
    psGet r.1.perSubs x = some (false, true) ∧ r.2.1 = (if ponl then "off" else "") ∧ r.2.2 = none := by
  unfold procPresReqCore
  simp only [hact, hme, hc]
  refine ⟨?_, ?_, ?_⟩
  · simp [psGet_psSet_self]
  · cases ponl <;> simp
  · simp

theorem off_from_enabled_topic (t : Topic) (x : String) (wantReply : Bool) (ponl : Bool)
    (hme : t.isMe = true) (hact : t.inactive = false) (hc : psGet t.perSubs x = some (ponl, true)) :
    (procPresReqCore t x "off" "" wantReply).1 = { t with perSubs := psSet t.perSubs x (false, true) } := by
  unfold procPresReqCore
  simp [hact, hme, hc]

/-- a contact whose notifications are not enabled (no presence permission on this side) stays offline in the table and nothing
about it is passed on -/
theorem muted_contact_is_silent (t : Topic) (x : String) (what : String) (wantReply : Bool) (ponl : Bool)
    (hw : what = "on" ∨ what = "off")
    (hme : t.isMe = true) (hact : t.inactive = false) (hc : psGet t.perSubs x = some (ponl, false)) :
    let r := procPresReqCore t x what "" wantReply
    psGet r.1.perSubs x = some (false, false) ∧ r.2.1 = "" := by
  unfold procPresReqCore
  rcases hw with hw | hw <;> subst hw <;> simp [hact, hme, hc, psGet_psSet_self]

/-- "gone": the contact leaves the table -/
theorem gone_removes_contact (t : Topic) (x : String) (cmd : String) (wantReply : Bool) (v : Bool × Bool)
    (hme : t.isMe = true) (hact : t.inactive = false) (hc : psGet t.perSubs x = some v) :
    psGet (procPresReqCore t x "gone" cmd wantReply).1.perSubs x = none := by
  unfold procPresReqCore
  obtain ⟨a, b⟩ := v
  simp [hact, hme, hc, psGet_psDel_self]

/-- The two-message exchange between two users who list each other as enabled contacts: the first user's `on` (asking for an
answer) makes the second user's table say online and produces an answer which asks for nothing; that answer makes the first user's
table say online and produces nothing more. Both end up knowing the other is online, and the exchange stops. -/
theorem handshake_completes (tO tX : Topic) (o1 o2 : Bool)
    (hO : tO.isMe = true ∧ tO.inactive = false) (hX : tX.isMe = true ∧ tX.inactive = false)
    (hcO : psGet tO.perSubs tX.name = some (o1, true)) (hcX : psGet tX.perSubs tO.name = some (o2, true)) :
    let r1 := procPresReqCore tO tX.name "on" "" true           -- X announces itself to O
    psGet r1.1.perSubs tX.name = some (true, true) ∧
    r1.2.2 = some { what := "on", src := tO.name, wantReply := false } ∧
    (let r2 := procPresReqCore tX tO.name "on" "" false         -- O's answer reaches X
     psGet r2.1.perSubs tO.name = some (true, true) ∧ r2.2.2 = none) := by
  have h1 := on_from_enabled_contact tO tX.name true o1 hO.1 hO.2 hcO
  have h2 := on_from_enabled_contact tX tO.name false o2 hX.1 hX.2 hcX
  simp only at h1 h2
  exact ⟨h1.1, by simpa using h1.2.2, h2.1, by simpa using h2.2.2⟩

/-! ### going online / offline -/

/-- a `me` topic tells every contact it may tell (`notifyOnOrSkip`) - nobody else is addressed -/
theorem users_of_interest_addressees (c : Ctx) (t : Topic) (what : String) (wr go : Bool) (rcpt : TName) (p : PresMsg)
    (cmd : String := "")
    (h : (rcpt, p) ∈ (c.presUsersOfInterestCore t what wr go cmd).1.off) :
    (rcpt, p) ∈ c.off ∨ (∃ o e, (rcpt, o, e) ∈ t.perSubs ∧ (notifyOnOrSkip rcpt what o).isSome = true ∧
      p = { what := what, cmd := cmd, src := t.name, wantReply := wr }) := by
  unfold Ctx.presUsersOfInterestCore at h
  simp only at h
  generalize t.perSubs = l at h ⊢
  induction l generalizing c with
  | nil => exact Or.inl h
  | cons x xs ih =>
    rw [List.foldl_cons] at h
    rcases ih _ h with h1 | ⟨o, e, hm, hn, hp⟩
    · obtain ⟨n, o, e⟩ := x
      simp only at h1
      cases hn : notifyOnOrSkip n what o with
      | none => rw [hn] at h1; exact Or.inl h1
      | some v =>
        rw [hn] at h1
        unfold Ctx.offq at h1
        simp only [List.mem_append, List.mem_singleton, Prod.mk.injEq] at h1
        rcases h1 with h1 | h1
        · exact Or.inl h1
        · exact Or.inr ⟨o, e, by rw [h1.1]; exact List.mem_cons_self .., by rw [h1.1, hn]; rfl, h1.2⟩
    · exact Or.inr ⟨o, e, List.mem_cons_of_mem _ hm, hn, hp⟩

/-- … and every such contact is told -/
theorem users_of_interest_complete (c : Ctx) (t : Topic) (what : String) (wr go : Bool) (n : String) (o e : Bool)
    (hm : (n, o, e) ∈ t.perSubs) (hn : (notifyOnOrSkip n what o).isSome = true) (cmd : String := "") :
    (n, { what := what, cmd := cmd, src := t.name, wantReply := wr }) ∈ (c.presUsersOfInterestCore t what wr go cmd).1.off := by
  unfold Ctx.presUsersOfInterestCore
  simp only
  generalize t.perSubs = l at hm ⊢
  have mono : ∀ (l : List (String × Bool × Bool)) (c : Ctx) (m : TName × PresMsg), m ∈ c.off →
      m ∈ (l.foldl (fun c (x : String × Bool × Bool) =>
        match notifyOnOrSkip x.1 what x.2.1 with
        | none => c
        | some _ => c.offq x.1 { what := what, cmd := cmd, src := t.name, wantReply := wr }) c).off := by
    intro l
    induction l with
    | nil => intro c m h; exact h
    | cons x xs ih =>
      intro c m h
      rw [List.foldl_cons]
      apply ih
      cases notifyOnOrSkip x.1 what x.2.1 with
      | none => exact h
      | some v => unfold Ctx.offq; simp only [List.mem_append]; exact Or.inl h
  induction l generalizing c with
  | nil => cases hm
  | cons x xs ih =>
    rw [List.foldl_cons]
    rcases List.mem_cons.mp hm with hx | hx
    · subst hx
      apply mono
      cases hv : notifyOnOrSkip n what o with
      | none => rw [hv] at hn; cases hn
      | some v => simp only; unfold Ctx.offq; simp
    · exact ih _ hx

/-- what is on the queue stays on it when a `me` topic tells its contacts something more -/
theorem users_of_interest_mono (c : Ctx) (t : Topic) (what : String) (wr go : Bool) (cmd : String) (m : TName × PresMsg)
    (h : m ∈ c.off) : m ∈ (c.presUsersOfInterestCore t what wr go cmd).1.off := by
  unfold Ctx.presUsersOfInterestCore
  simp only
  generalize t.perSubs = l
  induction l generalizing c with
  | nil => exact h
  | cons x xs ih =>
    rw [List.foldl_cons]
    apply ih
    obtain ⟨n, o, e⟩ := x
    simp only
    cases notifyOnOrSkip n what o with
    | none => exact h
    | some v => unfold Ctx.offq; simp only [List.mem_append]; exact Or.inl h

/-! ### the premises are met by concrete states -/

example : psGet (psSet [("U2", false, true)] "U2" (true, true)) "U2" = some (true, true) := psGet_psSet_self _ _ _

example : let t : Topic := { name := "U1", isMe := true, perSubs := [("U2", false, true)] }
    (procPresReqCore t "U2" "on" "" true).2.2 = some { what := "on", src := "U1", wantReply := false } := by
  have := on_from_enabled_contact { name := "U1", isMe := true, perSubs := [("U2", false, true)] } "U2" true false rfl rfl
    (by unfold psGet; simp)
  simpa using this.2.2

end Tinode.Props.C10
