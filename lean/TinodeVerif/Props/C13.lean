import TinodeVerif.Props.C03
import TinodeVerif.Props.C14
import TinodeVerif.Model.Preview
/-!
C13 (the part a model can carry) — every request other than a note is answered; ill-formed or non-existent topic names get
an error code, not silence.

"Never terminates the server process" is a statement about the Go runtime: it is decided by the world stream itself (every
generated request, including requests addressed to names that were never issued, to deleted topics and from sessions that
are not attached, is run through the real Session.dispatch / Hub / Topic code; a panic is reported with the history that
caused it - this is how the hub panic on {del topic} for an ill-formed name was found and fixed). The theorems below are
about the reply obligation of the transcribed handlers.
-/
namespace Tinode.Props.C13
open Tinode.World Tinode.Acs

theorem saveMessage_frames (c : Ctx) (tn : TName) (m : MsgRow) (rbs : Bool) : (c.saveMessage tn m rbs).1.frames = c.frames := by
  unfold Ctx.saveMessage
  generalize h1 : c.call "TopicUpdateOnMessage" (effBumpSeq tn m.seq) = p1
  have f1 : p1.1.frames = c.frames := by rw [← h1]; exact call_frames ..
  obtain ⟨ca, oka⟩ := p1
  cases oka
  · simpa using f1
  · simp only [Bool.not_true, Bool.false_eq_true, if_false]
    generalize h2 : ca.call "MessageSave" (effSaveMsg tn m) = p2
    have f2 : p2.1.frames = ca.frames := by rw [← h2]; exact call_frames ..
    obtain ⟨cb, okb⟩ := p2
    cases okb
    · simp only [Bool.not_false, if_true]; rw [f2]; exact f1
    · simp only [Bool.not_true, Bool.false_eq_true, if_false]
      cases rbs
      · simp only [Bool.false_eq_true, if_false]; rw [f2]; exact f1
      · simp only [if_true]
        rw [subsUpdate_eq]
        generalize h3 : cb.call "SubsUpdate" _ = p3
        have f3 : p3.1.frames = cb.frames := by rw [← h3]; exact call_frames ..
        obtain ⟨cd, okd⟩ := p3
        simp only at f3 ⊢
        rw [f3, f2]; exact f1

/-- A publish is always answered, whatever the state and whatever store call fails: the first frame produced by the request
goes to the requesting session (an error, or the acknowledgement). The only silent case - the session lists a topic which is
not loaded - is excluded by the attachment invariant the C14 monitor checks. -/
theorem pub_always_answered (c : Ctx) (a : Actor) (tn : TName) (content : String) (head : List (String × String)) (noEcho : Bool)
    (hl : c.w.attached a.sid tn = true → (c.w.live? tn).isSome) :
    ∃ f rest, (c.opPub a tn content head noEcho).frames = c.frames ++ (a.sid, f) :: rest := by
  by_cases hal : C03.pubAllowed c.w a tn = true
  · unfold C03.pubAllowed at hal
    cases hlive : c.w.live? tn with
    | none => simp [hlive] at hal
    | some t =>
      simp only [hlive, Bool.and_eq_true, Bool.not_eq_true'] at hal
      obtain ⟨hatt, ⟨⟨hact, hro⟩, hww⟩, hwg⟩ := hal
      have hw : isWriter (eff (t.pud a.uid)) = true := by unfold eff; rw [isWriter_and, hww, hwg]; rfl
      have htn := live_name _ _ _ hlive
      rw [opPub_guarded c a tn content head noEcho t hatt hlive hact hro hw]
      have hfr := saveMessage_frames c tn { seq := t.lastId + 1, sender := a.uid, head := pubHead a head, content := some content }
        (isReader (eff (t.pud a.uid)) && decide (a.uid ≠ ""))
      generalize c.saveMessage tn { seq := t.lastId + 1, sender := a.uid, head := pubHead a head, content := some content }
        (isReader (eff (t.pud a.uid)) && decide (a.uid ≠ "")) = p at hfr
      obtain ⟨c1, s⟩ := p
      simp only at hfr
      cases s with
      | none => exact ⟨ctrl 500 tn, [], by simp [hfr]⟩
      | some mk =>
        simp only
        obtain ⟨_, hf2, _, _⟩ := deliverPub_eq c1 t a { seq := t.lastId + 1, sender := a.uid, head := pubHead a head, content := some content } mk noEcho
        exact ⟨_, _, by rw [hf2, hfr, List.append_assoc]; rfl⟩
  · simp only [Bool.not_eq_true] at hal
    obtain ⟨_, _, _, _, code, _, hfr⟩ := C03.pub_refused_no_effect c a tn content head noEcho hl hal _ rfl
    exact ⟨_, [], hfr⟩

/-- {del what=topic} for a name which is neither loaded nor stored - an ill-formed name, a name never issued - is answered
(304 no action, or 500 when the lookup fails); before the repair the hub panicked here -/
theorem del_unknown_topic_answered (c : Ctx) (a : Actor) (tn : TName) (hard : Bool)
    (hl : c.w.live? tn = none) (hr : c.w.row? tn = none) :
    ∃ code, (c.opDelTopic a tn hard).frames = c.frames ++ [(a.sid, ctrl code tn)] := by
  unfold Ctx.opDelTopic
  simp only [hl]
  rcases call_w_cases c "SubsForTopic" id with ⟨hok, hw⟩ | ⟨hok, hw⟩
  · generalize hc : c.call "SubsForTopic" id = p at hok hw
    have hf : p.1.frames = c.frames := by rw [← hc]; exact call_frames ..
    obtain ⟨c1, ok⟩ := p
    simp only at hok hw hf
    subst hok
    have : c1.w.row? tn = none := by rw [hw]; exact hr
    simp only [Bool.not_true, Bool.false_eq_true, if_false, this, Option.map_none, Option.getD_none, List.filter_nil, List.isEmpty_nil, if_true]
    refine ⟨304, ?_⟩
    simp only [Ctx.emit]
    split <;> simp [hf, call_frames]
  · generalize hc : c.call "SubsForTopic" id = p at hok hw
    have hf : p.1.frames = c.frames := by rw [← hc]; exact call_frames ..
    obtain ⟨c1, ok⟩ := p
    simp only at hok hw hf
    subst hok
    simp only [Bool.not_false, if_true]
    exact ⟨500, by simp [hf]⟩

/-- invalid notes are dropped without a reply (C09.invalid_note_no_effect): a note is the one request kind that may stay
unanswered -/
theorem invalid_note_silent (c : Ctx) (a : Actor) (tn : TName) (what : String) (q : Int) (h : noteValid what q = false) :
    (c.opNote a tn what q).frames = c.frames := by
  unfold Ctx.opNote
  split
  · rfl
  · simp [h]

/-- NOT true: every {leave} is answered - see `C14.root_leave_on_behalf_unanswered` (known finding root-leave-obo) -/
theorem leave_unanswered_witness :
    (({ w := { sess := [C14.wS], live := [C14.wT] } } : Ctx).opLeave C14.wA "T1" false).frames = [] :=
  C14.root_leave_on_behalf_unanswered

/-! ### message content rendered into a push preview (push/fcm/payload.go:46-58) -/
open Tinode.Preview in
/-- short strings - at most 128 bytes - are passed through -/
theorem preview_short_unchanged (bs : List Nat) (h : bs.length ≤ maxLen) : preview bs = bs := by
  unfold preview
  have : ¬ bs.length > maxLen := by omega
  simp [this]

open Tinode.Preview in
/-- a string of more than 128 bytes but at most 128 runes (multi-byte text) is passed through: nothing is sliced -/
theorem preview_few_runes_unchanged (bs : List Nat) (h : (decode bs).length ≤ maxLen) : preview bs = bs := by
  unfold preview
  split
  · have : ¬ (decode bs).length > maxLen := by omega
    simp [this]
  · rfl

open Tinode.Preview in
/-- otherwise the preview is the first 128 runes - the slice is always within bounds - re-encoded, plus an ellipsis -/
theorem preview_long_cut (bs : List Nat) (h1 : bs.length > maxLen) (h2 : (decode bs).length > maxLen) :
    preview bs = encode ((decode bs).take maxLen) ++ ellipsis ∧ ((decode bs).take maxLen).length = maxLen := by
  unfold preview
  rw [if_pos h1]
  simp only [h2, if_true]
  exact ⟨trivial, by rw [List.length_take]; omega⟩

open Tinode.Preview in
/-- every byte string has a preview: the three cases above are exhaustive -/
theorem preview_cases (bs : List Nat) :
    preview bs = bs ∨ (preview bs = encode ((decode bs).take maxLen) ++ ellipsis ∧ (decode bs).length > maxLen) := by
  by_cases h1 : bs.length > maxLen
  · by_cases h2 : (decode bs).length > maxLen
    · exact Or.inr ⟨(preview_long_cut bs h1 h2).1, h2⟩
    · exact Or.inl (preview_few_runes_unchanged bs (by omega))
  · exact Or.inl (preview_short_unchanged bs (by omega))

example : Tinode.Preview.decode [0xD0, 0x96, 0x41, 0xFF, 0xE2, 0x82, 0xAC, 0xF0, 0x9F, 0x98, 0x80] = [0x416, 0x41, 0xFFFD, 0x20AC, 0x1F600] := by decide

end Tinode.Props.C13
