import TinodeVerif.Model.TopicP2PRaw
/-!
C07, the peer-to-peer clause, for a request which names the topic by its routable name: "a peer-to-peer topic never has a
third participant".  Somebody who is not one of the two can send {sub} under the `p2p…` name.  Whatever the store holds and
wherever a store call fails, the request is refused, nothing in the store changes, the session is attached to nothing, and a
topic which the request causes to be loaded has the two stored subscribers and nobody else.
-/
namespace Tinode.Props.C07
open Tinode.World

private theorem call_id_w (c : Ctx) (n : String) : (c.call n).1.w = c.w := by
  unfold Ctx.call; simp only [id]; split <;> (try split) <;> rfl

private theorem call_id_frames (c : Ctx) (n : String) : (c.call n).1.frames = c.frames := by
  unfold Ctx.call; simp only [id]; split <;> (try split) <;> rfl

/-- the store is as it was: no subscription is created, changed or revived -/
theorem stranger_sub_store_unchanged (c : Ctx) (a : Actor) (key : TName) :
    (c.opSubStrangerP2P a key).w.store = c.w.store := by
  unfold Ctx.opSubStrangerP2P
  split
  · rfl
  · simp only [Ctx.emit, Ctx.putLive, World.setLive]
    repeat' split
    all_goals simp [call_id_w]

/-- the session is attached to nothing new -/
theorem stranger_sub_not_attached (c : Ctx) (a : Actor) (key : TName) :
    (c.opSubStrangerP2P a key).w.sess = c.w.sess := by
  unfold Ctx.opSubStrangerP2P
  split
  · rfl
  · simp only [Ctx.emit, Ctx.putLive, World.setLive]
    repeat' split
    all_goals simp [call_id_w]

/-- the one reply is a refusal -/
theorem stranger_sub_refused (c : Ctx) (a : Actor) (key : TName) :
    ∃ code, (code = 403 ∨ code = 404 ∨ code = 500) ∧
      (c.opSubStrangerP2P a key).frames = c.frames ++ [(a.sid, ctrl code key)] := by
  unfold Ctx.opSubStrangerP2P
  split
  · exact ⟨403, by simp, rfl⟩
  · simp only [Ctx.emit, Ctx.putLive]
    repeat' split
    all_goals (refine ⟨_, ?_, by simp only [call_id_frames]; rfl⟩; simp)

/-- a topic the request brings into memory is the one read from a row with exactly two subscriptions … -/
theorem stranger_sub_loads_two (c : Ctx) (a : Actor) (key : TName) :
    (c.opSubStrangerP2P a key).w.live = c.w.live ∨
    ∃ r, c.w.row? key = some r ∧ (r.subs.filter (!·.deleted)).length = 2 ∧
      (c.opSubStrangerP2P a key).w.live = (c.w.setLive (p2pAttachTopic key r)).live := by
  unfold Ctx.opSubStrangerP2P
  split
  · left; rfl
  · simp only [Ctx.emit, Ctx.putLive]
    repeat' split
    all_goals first
      | (left; simp [call_id_w]; done)
      | (right
         rename_i r hrow _ _ hlen
         refine ⟨r, ?_, hlen, ?_⟩
         · simpa [call_id_w] using hrow
         · simp [call_id_w])

/-- … whose participants are those two subscribers: the requester is not among them unless the store said so -/
theorem attached_participants (key : TName) (r : TopicRow) :
    (p2pAttachTopic key r).perUser.map (·.1) = (r.subs.filter (!·.deleted)).map (·.user) ∧ (p2pAttachTopic key r).name = key := by
  simp [p2pAttachTopic, List.map_map, Function.comp_def]

/-- the description is not given either -/
theorem stranger_desc_refused (c : Ctx) (a : Actor) (key : TName) :
    (c.opGetDescStrangerP2P a key).frames = c.frames ++ [(a.sid, ctrl 400 key)] ∧ (c.opGetDescStrangerP2P a key).w = c.w := by
  simp [Ctx.opGetDescStrangerP2P, Ctx.emit]

/-- the premises are met: a stored topic with both subscriptions is loaded and the stranger refused with 403 -/
example :
    let r : TopicRow := { name := "P:U1:U2", subs := [{ user := "U1", want := 0, given := 0 }, { user := "U2", want := 0, given := 0 }] }
    let c : Ctx := { w := { store := [r] } }
    let a : Actor := { sid := "S3", uid := "U3", lvl := .auth, sessUid := "U3", bg := false }
    (c.opSubStrangerP2P a "P:U1:U2").frames = [("S3", ctrl 403 "P:U1:U2")] ∧
    ((c.opSubStrangerP2P a "P:U1:U2").w.live.map (fun t => t.perUser.map (·.1))) = [["U1", "U2"]] := by
  decide +kernel

end Tinode.Props.C07
