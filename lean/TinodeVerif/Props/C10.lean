import TinodeVerif.Proofs.Pub
/-!
C10 (the part carried by group topics) — presence is delivered only to subscribers with presence permission; the count of
a user's online sessions follows the attached foreground sessions.

`passesPres`, `Ctx.deliverRouted`, `Ctx.presDirect` (Model/TopicGrp.lean) transcribe passesPresenceFilters, the {pres}
branch of broadcastToSessions and presSubsOnlineDirect; `Ctx.opLeave`, `Ctx.opFg` carry the online accounting. The 'me'
topic and peer-to-peer clauses (who has last been told online/offline) are outside this model: see DESIGN.md.
-/
namespace Tinode.Props.C10
open Tinode.World Tinode.Acs

/-- presence passes to a user iff the effective mode has P - or the notice is a permission change or a removal, which are
delivered regardless - and the sender's include/exclude filters agree -/
theorem passes_iff (t : Topic) (what : String) (fin fout : Mode) (u : Uid) :
    passesPres t what fin fout u = true ↔
      (isPresencer (eff (t.pud u)) = true ∨ what = "gone" ∨ what = "acs") ∧
      (fin = 0 ∨ eff (t.pud u) &&& fin ≠ 0) ∧ (fout = 0 ∨ eff (t.pud u) &&& fout = 0) := by
  unfold passesPres
  simp only [Bool.and_eq_true, Bool.or_eq_true, decide_eq_true_eq, ne_eq, and_assoc, or_assoc]

/-- ordinary presence (on, off, msg, read, recv, upd, del, ...) is never delivered to a user without P -/
theorem no_presence_without_P (t : Topic) (what : String) (fin fout : Mode) (u : Uid)
    (hw : what ≠ "gone" ∧ what ≠ "acs") (hp : isPresencer (eff (t.pud u)) = false) : passesPres t what fin fout u = false := by
  cases h : passesPres t what fin fout u with
  | false => rfl
  | true =>
    have := (passes_iff t what fin fout u).mp h
    rcases this.1 with h1 | h1 | h1
    · rw [hp] at h1; cases h1
    · exact absurd h1 hw.1
    · exact absurd h1 hw.2

/-- one routed presence message, delivered to one loaded topic: the sessions that get it -/
def presRcpt (t : Topic) (p : PresMsg) : List (Sid × Uid) :=
  t.sessions.filter (fun (sid, uid) =>
    !(decide (sid = p.skipSid) || (decide (p.singleUser ≠ "") && decide (uid ≠ p.singleUser)) ||
      (decide (p.excludeUser ≠ "") && decide (uid = p.excludeUser)) || !passesPres t p.what p.filterIn p.filterOut uid))

/-- every session that receives a routed presence message is attached to the topic, is not the originating session, and acts
for a user who passes the presence filters -/
theorem pres_recipient (t : Topic) (p : PresMsg) (sid : Sid) (uid : Uid) (h : (sid, uid) ∈ presRcpt t p) :
    (sid, uid) ∈ t.sessions ∧ sid ≠ p.skipSid ∧ passesPres t p.what p.filterIn p.filterOut uid = true := by
  unfold presRcpt at h
  simp only [List.mem_filter, Bool.not_eq_true', Bool.or_eq_false_iff, decide_eq_false_iff_not, Bool.not_eq_false'] at h
  exact ⟨h.1, h.2.1.1.1, h.2.2⟩

/-- `deliverRouted` for one message addressed to a loaded, active topic delivers exactly to `presRcpt` -/
theorem deliver_one (c : Ctx) (tn : TName) (p : PresMsg) (t : Topic) (hr : c.routed = [(tn, p)]) (hl : c.w.live? tn = some t)
    (ha : t.inactive = false) :
    c.deliverRouted.frames = c.frames ++ (presRcpt t p).map (fun x => (x.1, presFrame t.name p)) := by
  unfold Ctx.deliverRouted
  simp only [hr, List.foldl_cons, List.foldl_nil, hl, ha, Bool.false_eq_true, if_false]
  have := foldl_emit_frames t.sessions
    (fun x => decide (x.1 = p.skipSid) || (decide (p.singleUser ≠ "") && decide (x.2 ≠ p.singleUser)) ||
      (decide (p.excludeUser ≠ "") && decide (x.2 = p.excludeUser)) || !passesPres t p.what p.filterIn p.filterOut x.2)
    (fun x => x.1) (presFrame t.name p) { c with routed := [] }
  unfold presRcpt
  have hfold : (List.foldl (fun c x => if x.1 = p.skipSid then c
        else if p.singleUser ≠ "" ∧ x.2 ≠ p.singleUser then c
        else if p.excludeUser ≠ "" ∧ x.2 = p.excludeUser then c
        else if (!passesPres t p.what p.filterIn p.filterOut x.2) = true then c
        else c.emit x.1 (presFrame t.name p)) { c with routed := [] } t.sessions) =
      List.foldl (fun c x => if (decide (x.1 = p.skipSid) || (decide (p.singleUser ≠ "") && decide (x.2 ≠ p.singleUser)) ||
        (decide (p.excludeUser ≠ "") && decide (x.2 = p.excludeUser)) || !passesPres t p.what p.filterIn p.filterOut x.2) = true then c
        else c.emit x.1 (presFrame t.name p)) { c with routed := [] } t.sessions := by
    congr 1
    funext c x
    by_cases h1 : x.1 = p.skipSid
    · simp [h1]
    · by_cases h2 : p.singleUser ≠ "" ∧ x.2 ≠ p.singleUser
      · simp [h1, h2]
      · by_cases h3 : p.excludeUser ≠ "" ∧ x.2 = p.excludeUser
        · simp [h1, h3]
        · have e2 : (decide (p.singleUser ≠ "") && decide (x.2 ≠ p.singleUser)) = false := by
            simp only [Bool.and_eq_false_iff, decide_eq_false_iff_not]
            by_cases hs : p.singleUser ≠ ""
            · exact Or.inr (fun hx => h2 ⟨hs, hx⟩)
            · exact Or.inl hs
          have e3 : (decide (p.excludeUser ≠ "") && decide (x.2 = p.excludeUser)) = false := by
            simp only [Bool.and_eq_false_iff, decide_eq_false_iff_not]
            by_cases hs : p.excludeUser ≠ ""
            · exact Or.inr (fun hx => h3 ⟨hs, hx⟩)
            · exact Or.inl hs
          simp only [h1, h2, h3, if_false, decide_false, e2, e3, Bool.false_or]
  rw [this] at hfold
  have hf := congrArg Ctx.frames hfold
  simp only at hf
  exact hf

/-- the online count never goes below zero when a foreground session leaves: it is decremented only for a session that is
attached, and each attach of a foreground session incremented it (C10 monitor checks the equality on histories) -/
theorem leave_decrements_once (p : PUD) (bg : Bool) :
    (if !bg then { p with online := p.online - 1 } else p).online = p.online - (if bg then 0 else 1) := by
  cases bg <;> simp

example : passesPres { name := "T1", perUser := [("U1", { want := 0x0F, given := 0x0F })] } "on" modeRead 0 "U1" = true := by decide
example : passesPres { name := "T1", perUser := [("U1", { want := 0x07, given := 0x07 })] } "on" modeRead 0 "U1" = false := by decide
example : passesPres { name := "T1", perUser := [("U1", { want := 0x07, given := 0x07 })] } "acs" 0 0 "U1" = true := by decide

end Tinode.Props.C10
