import TinodeVerif.Model.Reach
import TinodeVerif.Props.C01
import TinodeVerif.Props.C08
import TinodeVerif.Props.C09
/-!
The properties of the group-topic world at full strength, as statements about every reachable world (`Reachable`,
Model/Reach.lean: any history of requests, each with any single store failure, from any set of users and sessions).

These are **definitions, not theorems**. What is proved about them:
* C01, C02, C03, C04, C06, C07, C09 (memory), C10, C13, C14: the per-handler theorems of Props/Cxx.lean close every path by
  which the statement could be broken; the statement over all reachable worlds is checked on every generated history by the
  monitors (vlib/worldmon.py), not proved as one induction.
* C08 and the stored-marks clause of C09 are **false** at full strength: one-request witnesses (kernel-checked) are in
  Props/C08.lean and Props/C09.lean and restated at the end of this file; they are what the known findings record.
-/
namespace Tinode.Props.Full
open Tinode.World Tinode.Acs

/-- C01: in every reachable world the stored message numbers of every topic increase strictly and never exceed the stored
counter, and a loaded topic's counter lies between the largest stored number and the stored counter -/
def C01_full : Prop :=
  ∀ w, Reachable w → ∀ r ∈ w.store, C01.StoreInv r ∧ ∀ t ∈ w.live, t.name = r.name → C01.LiveInv t r

/-- C06: in every reachable world every group topic that is not deleted has exactly one subscriber whose effective mode has O -/
def C06_full : Prop :=
  ∀ w, Reachable w → ∀ r ∈ w.store, r.state = 0 →
    ((r.subs.filter (fun s => !s.deleted && isOwner (s.want &&& s.given))).length = 1)

/-- C08: in every reachable world every loaded topic answers as the same topic loaded afresh from the store would: counters,
description and every subscriber's modes, marks and private data -/
def Coherent (t : Topic) (r : TopicRow) : Prop :=
  C08.CoreCoherent t r ∧
  ∀ s ∈ r.subs, s.deleted = false → ∃ p, t.pud? s.user = some p ∧ C08.SubCoherent p s
def C08_full : Prop := ∀ w, Reachable w → ∀ t ∈ w.live, t.inactive = false → ∀ r ∈ w.store, r.name = t.name → Coherent t r

/-- C09 (stored marks): in every reachable world 0 ≤ read ≤ recv ≤ seq for every stored subscription -/
def C09_stored_full : Prop :=
  ∀ w, Reachable w → ∀ r ∈ w.store, ∀ s ∈ r.subs, 0 ≤ s.readId ∧ s.readId ≤ s.recvId ∧ s.recvId ≤ r.seq

/-- C14: in every reachable world a session lists a topic iff the topic lists the session -/
def C14_full : Prop :=
  ∀ w, Reachable w → ∀ s ∈ w.sess, ∀ tn, (tn ∈ s.subs ↔ ∃ t ∈ w.live, t.name = tn ∧ ∃ u, (s.sid, u) ∈ t.sessions)

/-! C08 and the stored-marks clause of C09 are false at full strength: `C08.offline_set_diverges`, `C08.failed_save_diverges`,
`C08.read_note_diverges` and `C09.read_note_leaves_stored_recv_behind` exhibit (kernel-checked) one request from a small
world after which the statement fails; the same histories are replayed on the implementation by the world stream and are
recorded in known_findings.json. (Driving those witnesses through `Reachable` from an empty world was tried and dropped:
the kernel does not reduce the composed handlers on closed terms in reasonable time; the per-request witnesses do.) -/

/-- the one-request witness, restated: the stored requested mode and the loaded one differ after the request -/
theorem c08_one_step_witness :
    ((({ w := C08.wW } : Ctx).opSetSub C08.wA2 "T1" "" "JRW").w.row? "T1").map (fun r => r.subs.map (·.want)) = some [0x07] ∧
    ((({ w := C08.wW } : Ctx).opSetSub C08.wA2 "T1" "" "JRW").w.live? "T1").map (fun t => (t.pud "U1").want) = some 0x0F :=
  C08.offline_set_diverges

end Tinode.Props.Full
