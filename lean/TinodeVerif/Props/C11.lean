import TinodeVerif.Model.Gate
import TinodeVerif.Props.C02
/-!
C11 — sessions can only act within their handshake and authentication state.

`Gate.gate`, `Gate.hello`, `Gate.login` (Model/Gate.lean) transcribe Session.dispatch, Session.hello and
Session.login/onLogin; the authenticator's answer is a parameter (`AuthOutcome`), so the theorems hold for every
authenticator. The clause about the author recorded on a message is `C02.sender_header` (world model).
-/
namespace Tinode.Props.C11
open Tinode.Gate

/-- before a successful handshake every request other than the handshake itself is refused (409), a note is dropped
silently, an empty message is malformed -/
theorem before_handshake (s : GS) (k : Kind) (h : s.ver = 0) :
    gate s k none = (match k with
      | .hi => .pass s.uid s.lvl
      | .note => .drop
      | .empty => .refuse 400 false
      | _ => .refuse 409 true) := by
  unfold gate resolveAs
  cases k <;> simp [h]

/-- before login every request other than handshake, account creation and login is refused (401), notes are dropped -/
theorem before_login (s : GS) (k : Kind) (hv : s.ver ≠ 0) (hu : s.uid = "") :
    gate s k none = (match k with
      | .hi | .login | .acc => .pass "" s.lvl
      | .note => .drop
      | .empty => .refuse 400 false
      | _ => .refuse 401 true) := by
  unfold gate resolveAs
  cases k <;> simp [hv, hu]

/-- a request that reaches its handler without on-behalf-of data is executed as the logged-in user at the logged-in level -/
theorem executed_as_logged_in (s : GS) (k : Kind) (u : String) (l : Nat) (h : gate s k none = .pass u l) : u = s.uid ∧ l = s.lvl := by
  unfold gate resolveAs at h
  cases k <;> simp at h <;> (try split at h) <;> (try split at h) <;> simp_all

/-- only a root session may act on behalf of another user or level; anybody else's attempt is refused whatever the request -/
theorem only_root_on_behalf (s : GS) (k : Kind) (x : String × Bool × String) (h : s.lvl ≠ lvlRoot) :
    gate s k (some x) = .refuse 403 false := by
  unfold gate resolveAs
  obtain ⟨u, v, l⟩ := x
  simp [h]

/-- a root session's on-behalf-of request runs as the named user at the named level (auth when none is named) -/
theorem root_on_behalf (s : GS) (u lv : String) (hr : s.lvl = lvlRoot) (hv : s.ver ≠ 0) (hu : u ≠ "") :
    gate s .pub (some (u, true, lv)) = .pass u (if parseLevel lv = lvlNone then lvlAuth else parseLevel lv) := by
  unfold gate resolveAs
  simp [hr, hv, hu]

/-- a session logs in at most once -/
theorem login_at_most_once (s : GS) (o : AuthOutcome) (h : s.uid ≠ "") : login s o = (s, 409, false) := by
  unfold login; simp [h]

/-- a login that fails, is refused by the authenticator, belongs to an account which is not in good standing, needs another
round (challenge) or presents a restricted (no-login) token leaves the session exactly as it was -/
theorem failed_login_leaves_unauthenticated (s : GS) (o : AuthOutcome)
    (h : o = .unknownScheme ∨ (∃ c, o = .error c) ∨ (∃ u l nl ch, o = .ok u l false nl ch) ∨ (∃ u l so nl, o = .ok u l so nl true) ∨
         (∃ u l so ch, o = .ok u l so true ch)) :
    (login s o).1 = s := by
  unfold login
  split
  · rfl
  · rcases h with rfl | ⟨c, rfl⟩ | ⟨u, l, nl, ch, rfl⟩ | ⟨u, l, so, nl, rfl⟩ | ⟨u, l, so, ch, rfl⟩
    · rfl
    · rfl
    · simp
    · cases so <;> simp
    · cases so <;> cases ch <;> simp

/-- the session becomes authenticated only through a successful, unrestricted, final answer of the authenticator for an
account in good standing, and then as exactly that user and level -/
theorem login_success_only (s : GS) (o : AuthOutcome) (hs : s.uid = "") (h : (login s o).1.uid ≠ "") :
    ∃ u l, o = .ok u l true false false ∧ (login s o).1 = { s with uid := u, lvl := l } ∧ (login s o).2.1 = 200 := by
  have hne : ¬ s.uid ≠ "" := by simp [hs]
  unfold login at h ⊢
  rw [if_neg hne] at h ⊢
  cases o with
  | unknownScheme => exact absurd hs h
  | error c => exact absurd hs h
  | ok u l so nl ch =>
    cases so <;> cases ch <;> cases nl
    all_goals first
      | exact absurd hs h
      | exact ⟨u, l, rfl, rfl, rfl⟩

/-- and such an answer does authenticate a session which was not authenticated -/
theorem login_success (s : GS) (u : String) (l : Nat) (hs : s.uid = "") :
    login s (.ok u l true false false) = ({ s with uid := u, lvl := l }, 200, true) := by
  unfold login; simp [hs]

/-! ### credential validation (validators configured for the account's level) -/

/-- without anything missing the login is the one above -/
theorem loginV_complete (s : GS) (o : AuthOutcome) :
    (loginV s o false).1 = (login s o).1 ∧ (loginV s o false).2.1 = (login s o).2.1 ∧ (loginV s o false).2.2.1 = (login s o).2.2 := by
  unfold loginV login
  split
  · exact ⟨rfl, rfl, rfl⟩
  · cases o with
    | unknownScheme => exact ⟨rfl, rfl, rfl⟩
    | error c => exact ⟨rfl, rfl, rfl⟩
    | ok u l so nl ch => cases so <;> cases ch <;> cases nl <;> exact ⟨rfl, rfl, rfl⟩

/-- **a login which requires more credential validation leaves the session unauthenticated**, whatever the authenticator answered -/
theorem missing_credentials_leave_unauthenticated (s : GS) (o : AuthOutcome) : (loginV s o true).1 = s := by
  unfold loginV
  split
  · rfl
  · cases o with
    | unknownScheme => rfl
    | error c => rfl
    | ok u l so nl ch => cases so <;> cases ch <;> rfl

/-- … and the token handed out with the request for validation does not say "validated": presenting it goes through the check again -/
theorem token_validated_only_when_complete (s : GS) (o : AuthOutcome) (m : Bool) (h : (loginV s o m).2.2.2 = true) :
    m = false ∧ (loginV s o m).2.1 = 200 := by
  unfold loginV at h ⊢
  split at h
  · cases h
  · cases o with
    | unknownScheme => cases h
    | error c => cases h
    | ok u l so nl ch =>
      rename_i hs
      rw [if_neg hs]
      cases so <;> cases ch <;> cases m <;> cases nl <;> simp_all

/-- when something is missing: not for a record which says "validated" itself, not for a level without validators, not for an account
which has a validated credential - and in every other case -/
theorem cred_missing_iff (v r c : Bool) : credMissing v r c = true ↔ (v = false ∧ r = true ∧ c = false) := by
  cases v <;> cases r <;> cases c <;> simp [credMissing]

/-- the two tokens of a two-step history: the first login lacks the credential (300), the token it got is presented: still 300 -/
example : let s : GS := { ver := 22 }
    let step1 := loginV s (.ok "U1" lvlAuth true false false) (credMissing false true false)
    let step2 := loginV step1.1 (.ok "U1" lvlAuth true false false) (credMissing step1.2.2.2 true false)
    step1.2.1 = 300 ∧ step2.2.1 = 300 ∧ step2.1.uid = "" := by decide

/-- the protocol version cannot be changed after the handshake -/
theorem version_immutable (s : GS) (v : String) (h : s.ver ≠ 0) : (hello s v).1 = s := by
  unfold hello
  simp only [h, if_false]
  split <;> rfl

/-- a handshake only ever installs a supported version -/
theorem handshake_version_supported (s : GS) (v : String) (h0 : s.ver = 0) (h : (hello s v).1.ver ≠ 0) :
    tooOld (hello s v).1.ver = false ∧ (hello s v).2 = 201 := by
  unfold hello at h ⊢
  rw [if_pos h0] at h ⊢
  by_cases h1 : parseVersion v = 0
  · simp only [h1, if_true] at h; exact absurd h0 h
  · by_cases h2 : tooOld (parseVersion v) = true
    · simp only [h1, h2, if_true, if_false] at h; exact absurd h0 h
    · simp only [h1, h2, if_false, Bool.false_eq_true]
      simp only [Bool.not_eq_true] at h2
      simp [h2]

/-- a client can never choose the author recorded on a message: the server replaces the sender header (world model) -/
theorem sender_is_servers (a : Tinode.World.Actor) (head : List (String × String)) (v : String) :
    ("sender", v) ∈ Tinode.World.pubHead a head ↔ (a.sessUid ≠ a.uid ∧ v = a.sessUid) :=
  C02.sender_header a head v

example : gate { ver := 0x1600, uid := "U1", lvl := 20 } .pub none = .pass "U1" 20 := by decide
example : parseVersion "0.22" = 0x1600 ∧ parseVersion "v0.19.3-rc" = 0x1303 ∧ parseVersion "abc" = 0 := by decide

end Tinode.Props.C11
