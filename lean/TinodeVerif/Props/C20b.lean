import TinodeVerif.Model.PbJson
/-!
C20, protobuf clause (the part modelled): a text value put on the gRPC wire by `interfaceToBytes` is read back unchanged by
`bytesToInterface`, for every string of Unicode characters; a millisecond timestamp survives `int64ToTime` / `timeToInt64`.
-/
namespace Tinode.Props.C20
open Tinode.PbJson

theorem hex_roundtrip (d : Nat) (h : d < 16) : hexVal (hexDigit d) = some d := by
  have : d = 0 ∨ d = 1 ∨ d = 2 ∨ d = 3 ∨ d = 4 ∨ d = 5 ∨ d = 6 ∨ d = 7 ∨ d = 8 ∨ d = 9 ∨ d = 10 ∨ d = 11 ∨ d = 12 ∨ d = 13 ∨
      d = 14 ∨ d = 15 := by omega
  rcases this with rfl | rfl | rfl | rfl | rfl | rfl | rfl | rfl | rfl | rfl | rfl | rfl | rfl | rfl | rfl | rfl <;> decide

/-- decoding `\uXXXX` of a code point below 0x10000 gives the code point back -/
theorem unquote_uEscape (n : Nat) (h : n < 65536) (t : List Char) :
    unquoteBody (uEscape n ++ t) = (unquoteBody t).map (Char.ofNat n :: ·) := by
  unfold uEscape
  simp only [List.cons_append, List.nil_append]
  rw [unquoteBody]
  simp only [hex_roundtrip _ (Nat.mod_lt _ (by decide : 16 > 0)), Option.bind_eq_bind, Option.bind_some]
  have hn : n / 4096 % 16 * 4096 + n / 256 % 16 * 256 + n / 16 % 16 * 16 + n % 16 = n := by omega
  rw [hn]
  cases unquoteBody t <;> rfl

/-- one character: decoding its escape followed by `t` gives the character followed by the decoding of `t` -/
theorem unquote_escape (c : Char) (t : List Char) : unquoteBody (escape c ++ t) = (unquoteBody t).map (c :: ·) := by
  unfold escape
  by_cases h1 : c = '"'
  · subst h1; simp only [if_true, List.cons_append, List.nil_append]; rw [unquoteBody]; cases unquoteBody t <;> rfl
  by_cases h2 : c = '\\'
  · subst h2; simp only [h1, if_false, if_true, List.cons_append, List.nil_append]; rw [unquoteBody]
    cases unquoteBody t <;> rfl
  by_cases h3 : c = '\n'
  · subst h3; simp only [h1, h2, if_false, if_true, List.cons_append, List.nil_append]; rw [unquoteBody]
    cases unquoteBody t <;> rfl
  by_cases h4 : c = '\r'
  · subst h4; simp only [h1, h2, h3, if_false, if_true, List.cons_append, List.nil_append]; rw [unquoteBody]
    cases unquoteBody t <;> rfl
  by_cases h5 : c = '\t'
  · subst h5; simp only [h1, h2, h3, h4, if_false, if_true, List.cons_append, List.nil_append]; rw [unquoteBody]
    cases unquoteBody t <;> rfl
  by_cases h6 : c = Char.ofNat 8
  · subst h6; simp only [h1, h2, h3, h4, h5, if_false, if_true, List.cons_append, List.nil_append]; rw [unquoteBody]
    cases unquoteBody t <;> rfl
  by_cases h7 : c = Char.ofNat 12
  · subst h7; simp only [h1, h2, h3, h4, h5, h6, if_false, if_true, List.cons_append, List.nil_append]; rw [unquoteBody]
    cases unquoteBody t <;> rfl
  simp only [h1, h2, h3, h4, h5, h6, h7, if_false]
  have hof : Char.ofNat c.toNat = c := Char.ofNat_toNat c
  by_cases h8 : c.toNat < 0x20
  · simp only [h8, if_true]
    rw [unquote_uEscape _ (by omega), hof]
  by_cases h9 : c = '<' ∨ c = '>' ∨ c = '&'
  · simp only [h8, h9, if_false, if_true]
    rw [unquote_uEscape _ (by rcases h9 with rfl | rfl | rfl <;> decide), hof]
  by_cases h10 : c.toNat = 0x2028 ∨ c.toNat = 0x2029
  · simp only [h8, h9, h10, if_false, if_true]
    rw [unquote_uEscape _ (by omega), hof]
  simp only [h8, h9, h10, if_false, List.cons_append, List.nil_append]
  -- an ordinary character: the last equation of `unquoteBody`
  rw [unquoteBody]
  · simp [h8]
  all_goals (intros; simp_all)

theorem unquoteBody_flatMap (s : List Char) : unquoteBody (s.flatMap escape ++ ['"']) = some s := by
  induction s with
  | nil => simp [unquoteBody]
  | cons c cs ih =>
    simp only [List.flatMap_cons, List.append_assoc]
    rw [unquote_escape, ih]; rfl

/-- A text value survives the gRPC wire: what `bytesToInterface` reads from the bytes `interfaceToBytes` wrote is the string
that was sent - for every string of Unicode characters, including quotes, backslashes, every control character, the
HTML-sensitive characters and the line separators, which the encoder escapes in five different ways. -/
theorem text_survives_wire (s : List Char) : unquote (quote s) = some s := by
  unfold quote unquote
  exact unquoteBody_flatMap s

/-- a millisecond timestamp survives the conversion to a time value and back -/
theorem time_roundtrip (ms : Nat) : timeToInt64 (int64ToTime ms) = ms := by
  unfold timeToInt64 int64ToTime
  simp only
  omega

end Tinode.Props.C20
