import TinodeVerif.Model.TopicCross
/-!
C14, crossings: requests which are in flight while their topic is shut down (Model/TopicCross.lean: `hold`, `hubstep`, `tstep`,
`settle`; the harness holds the real requests in the real queues and steps the real handlers one at a time).

* the hub refuses a {sub} for a topic which is inactive and releases the session's slot (`hubJoinOne`);
* a topic which terminates answers everything which is still queued for it and releases the slots (`exitPart`: the repaired
  `handleTopicTermination` with `drainQueues`) - before the repair these requests were lost: never answered, the session's single
  in-flight slot taken for ever;
* a request processed in one piece is the session's part followed by the topic's part (`opLeave_split`, `opPub_split`,
  `opSub_split` in the model file), so what is proved about the parts is about the requests of the other histories too.
-/
namespace Tinode.Props.C14
open Tinode.World Tinode.Acs

/-! ### frames only grow, and by what -/

theorem emit_frames (c : Ctx) (s : Sid) (f : String) : (c.emit s f).frames = c.frames ++ [(s, f)] := rfl

/-- what a terminating topic does with one queued request: a {sub} and a {pub} are refused with 503, a {leave} too (if somebody
asked); the slot of a {sub} or {leave} is released; nothing else changes -/
theorem handleHeld_exiting (c : Ctx) (r : HeldReq) :
    (r.kind = "sub" → (c.handleHeld r true).frames = c.frames ++ [(r.a.sid, ctrl 503 r.tn)] ∧
        (c.handleHeld r true).w = c.w.setInflight r.a.sid false) ∧
    (r.kind = "pub" → (c.handleHeld r true).frames = c.frames ++ [(r.a.sid, ctrl 503 r.tn)] ∧ (c.handleHeld r true).w = c.w) ∧
    (r.kind = "leave" → (c.handleHeld r true).frames = c.frames ++ (if r.a.uid ≠ "" then [(r.a.sid, ctrl 503 r.tn)] else []) ∧
        (c.handleHeld r true).w = c.w.setInflight r.a.sid false) := by
  refine ⟨?_, ?_, ?_⟩
  · intro h; unfold Ctx.handleHeld; simp only [h]; exact ⟨rfl, rfl⟩
  · intro h; unfold Ctx.handleHeld; simp only [h]; exact ⟨rfl, rfl⟩
  · intro h; unfold Ctx.handleHeld; simp only [h]
    by_cases hu : r.a.uid = ""
    · simp [hu]
    · simp [hu, Ctx.emit]

/-- every step of the drain keeps what was already sent -/
theorem handleHeld_exiting_prefix (c : Ctx) (r : HeldReq) : ∃ l, (c.handleHeld r true).frames = c.frames ++ l := by
  unfold Ctx.handleHeld
  split
  · exact ⟨_, rfl⟩
  · by_cases hu : r.a.uid = ""
    · exact ⟨[], by simp [hu]⟩
    · exact ⟨[(r.a.sid, ctrl 503 r.tn)], by simp [hu, Ctx.emit]⟩
  · exact ⟨_, rfl⟩
  · exact ⟨[], by simp⟩

theorem drain_prefix (rs : List HeldReq) (c : Ctx) : ∃ l, (rs.foldl (fun c r => c.handleHeld r true) c).frames = c.frames ++ l := by
  induction rs generalizing c with
  | nil => exact ⟨[], by simp⟩
  | cons r rs ih =>
    obtain ⟨l1, h1⟩ := handleHeld_exiting_prefix c r
    obtain ⟨l2, h2⟩ := ih (c.handleHeld r true)
    exact ⟨l1 ++ l2, by simp only [List.foldl_cons]; rw [h2, h1, List.append_assoc]⟩

/-- a {sub} or a {pub} which the drain comes to is answered with 503 -/
theorem drain_answers (rs : List HeldReq) (c : Ctx) (r : HeldReq) (hr : r ∈ rs) (hk : r.kind = "sub" ∨ r.kind = "pub") :
    (r.a.sid, ctrl 503 r.tn) ∈ (rs.foldl (fun c r => c.handleHeld r true) c).frames := by
  induction rs generalizing c with
  | nil => cases hr
  | cons x rs ih =>
    simp only [List.foldl_cons]
    rcases List.mem_cons.mp hr with rfl | hin
    · obtain ⟨l, hl⟩ := drain_prefix rs (c.handleHeld r true)
      rw [hl]
      have : (r.a.sid, ctrl 503 r.tn) ∈ (c.handleHeld r true).frames := by
        rcases hk with hk | hk
        · rw [((handleHeld_exiting c r).1 hk).1]; simp
        · rw [((handleHeld_exiting c r).2.1 hk).1]; simp
      exact List.mem_append_left _ this
    · exact ih _ hin

/-! ### a topic which terminates answers what is queued for it -/

/-- **No request is lost when a topic stops.** Every {sub} and every {pub} which is still in the topic's queue when it terminates is
answered (503, the topic is gone) -/
theorem exit_answers_queued (c : Ctx) (t : Topic) (r : HeldReq) (hr : r ∈ t.q) (hk : r.kind = "sub" ∨ r.kind = "pub") :
    (r.a.sid, ctrl 503 r.tn) ∈ (c.exitPart t).frames := by
  unfold Ctx.exitPart
  apply drain_answers
  · simp only [List.mem_append, List.mem_filter, decide_eq_true_eq]
    rcases hk with hk | hk
    · exact Or.inl (Or.inl ⟨hr, hk⟩)
    · exact Or.inr ⟨hr, hk⟩
  · exact hk

/-! ### the slots -/

theorem setInflight_inflight (w : World) (sid : Sid) (b : Bool) (h : (w.sess? sid).isSome) :
    (w.setInflight sid b).inflight sid = b := by
  unfold World.setInflight World.inflight World.sess? at *
  simp only [List.find?_map]
  cases hf : w.sess.find? (fun x => x.sid = sid) with
  | none => simp [hf] at h
  | some s =>
    have hs : s.sid = sid := by simpa using List.find?_some hf
    have : (w.sess.find? ((fun x => decide (x.sid = sid)) ∘ fun x => if x.sid = sid then { x with inflight := b } else x)) = some s := by
      rw [← hf]
      congr 1
      funext x
      simp only [Function.comp]
      by_cases hx : x.sid = sid <;> simp [hx]
    simp [this, hs]

/-- releasing a slot keeps every session where it is and never takes a slot -/
theorem setInflight_false_sess (w : World) (a b : Sid) :
    ((w.setInflight a false).sess? b).isSome = (w.sess? b).isSome ∧
    (w.inflight b = false → (w.setInflight a false).inflight b = false) := by
  unfold World.setInflight World.inflight World.sess?
  simp only [List.find?_map]
  have hfun : ((fun x : Sess => decide (x.sid = b)) ∘ fun x => if x.sid = a then { x with inflight := false } else x) =
      (fun x : Sess => decide (x.sid = b)) := by
    funext x
    simp only [Function.comp]
    by_cases hx : x.sid = a <;> simp [hx]
  rw [hfun]
  constructor
  · cases w.sess.find? (fun x => decide (x.sid = b)) <;> simp
  · intro h
    cases hf : w.sess.find? (fun x => decide (x.sid = b)) with
    | none => simp
    | some s =>
      simp only [hf] at h
      simp only [Option.map_some]
      by_cases hx : s.sid = a <;> simp [hx, h]

/-- what a terminating topic does with one queued request never takes a slot and loses no session -/
theorem handleHeld_exiting_keeps (c : Ctx) (r : HeldReq) (b : Sid) :
    (((c.handleHeld r true).w.sess? b).isSome = (c.w.sess? b).isSome) ∧
    (c.w.inflight b = false → (c.handleHeld r true).w.inflight b = false) := by
  by_cases h1 : r.kind = "sub"
  · rw [((handleHeld_exiting c r).1 h1).2]; exact setInflight_false_sess _ _ _
  · by_cases h2 : r.kind = "leave"
    · rw [((handleHeld_exiting c r).2.2 h2).2]; exact setInflight_false_sess _ _ _
    · by_cases h3 : r.kind = "pub"
      · rw [((handleHeld_exiting c r).2.1 h3).2]; exact ⟨rfl, fun h => h⟩
      · have : c.handleHeld r true = c := by
          unfold Ctx.handleHeld
          split <;> simp_all
        rw [this]; exact ⟨rfl, fun h => h⟩

theorem drain_keeps (rs : List HeldReq) (c : Ctx) (b : Sid) :
    (((rs.foldl (fun c r => c.handleHeld r true) c).w.sess? b).isSome = (c.w.sess? b).isSome) ∧
    (c.w.inflight b = false → (rs.foldl (fun c r => c.handleHeld r true) c).w.inflight b = false) := by
  induction rs generalizing c with
  | nil => exact ⟨rfl, fun h => h⟩
  | cons r rs ih =>
    simp only [List.foldl_cons]
    have h1 := handleHeld_exiting_keeps c r b
    have h2 := ih (c.handleHeld r true)
    exact ⟨h2.1.trans h1.1, fun h => h2.2 (h1.2 h)⟩

/-- the slot of every {sub} and {leave} the drain comes to is released (and stays released) -/
theorem drain_releases (rs : List HeldReq) (c : Ctx) (r : HeldReq) (hr : r ∈ rs) (hk : r.kind = "sub" ∨ r.kind = "leave")
    (hs : (c.w.sess? r.a.sid).isSome) :
    (rs.foldl (fun c r => c.handleHeld r true) c).w.inflight r.a.sid = false := by
  induction rs generalizing c with
  | nil => cases hr
  | cons x rs ih =>
    simp only [List.foldl_cons]
    rcases List.mem_cons.mp hr with rfl | hin
    · apply (drain_keeps rs (c.handleHeld r true) r.a.sid).2
      have hw : (c.handleHeld r true).w = c.w.setInflight r.a.sid false := by
        rcases hk with hk | hk
        · exact ((handleHeld_exiting c r).1 hk).2
        · exact ((handleHeld_exiting c r).2.2 hk).2
      rw [hw]
      exact setInflight_inflight c.w r.a.sid false hs
    · apply ih _ hin
      rw [(handleHeld_exiting_keeps c x r.a.sid).1]
      exact hs

/-- **No session is left waiting when a topic stops.** The single in-flight slot of every session whose {sub} or {leave} is still in
the topic's queue when it terminates is released: the session's next {sub} or {leave}, and its cleanup, go on -/
theorem exit_releases_slots (c : Ctx) (t : Topic) (r : HeldReq) (hr : r ∈ t.q) (hk : r.kind = "sub" ∨ r.kind = "leave")
    (hs : (c.w.sess? r.a.sid).isSome) :
    (c.exitPart t).w.inflight r.a.sid = false := by
  unfold Ctx.exitPart
  apply drain_releases
  · simp only [List.mem_append, List.mem_filter, decide_eq_true_eq]
    rcases hk with hk | hk
    · exact Or.inl (Or.inl ⟨hr, hk⟩)
    · exact Or.inl (Or.inr ⟨hr, hk⟩)
  · exact hk
  · -- detaching the topic's sessions and telling the subscribers keeps every session where it is
    show ((_ : Ctx).w.sess? r.a.sid).isSome
    have hdet : ∀ (l : List (Sid × Uid)) (c0 : Ctx), (c0.w.sess? r.a.sid).isSome →
        ((l.foldl (fun c (p : Sid × Uid) => { c with w := c.w.detach p.1 t.name }) c0).w.sess? r.a.sid).isSome := by
      intro l
      induction l with
      | nil => intro c0 h; exact h
      | cons p l ih =>
        intro c0 h
        simp only [List.foldl_cons]
        apply ih
        show ((c0.w.detach p.1 t.name).sess? r.a.sid).isSome
        unfold World.detach
        cases hp : c0.w.sess? p.1 with
        | none => simpa using h
        | some sp =>
          simp only
          unfold World.setSess World.sess? at *
          simp only [List.find?_map]
          have hfun : ((fun x : Sess => decide (x.sid = r.a.sid)) ∘ fun x =>
              if x.sid = ({ sp with subs := sp.subs.filter (· ≠ t.name) } : Sess).sid then { sp with subs := sp.subs.filter (· ≠ t.name) } else x) =
              (fun x : Sess => decide (x.sid = r.a.sid)) := by
            funext x
            simp only [Function.comp]
            by_cases hx : x.sid = sp.sid
            · simp [hx]
            · simp [hx]
          rw [hfun]
          cases hq : c0.w.sess.find? (fun x => decide (x.sid = r.a.sid)) with
          | none => rw [hq] at h; simp at h
          | some _ => simp
    have hpre : ((if t.exitDeleted && t.isGrpCat then c.presSubsOffline t "gone" "" "" "" 0 0 { what := "gone" } "" false else c).w.sess? r.a.sid).isSome := by
      split
      · exact hs
      · exact hs
    exact hdet _ _ hpre

/-- the hub does not hand a {sub} to a topic which is inactive (paused, being deleted): it refuses it and releases the slot -/
theorem hub_refuses_inactive (c : Ctx) (r : HeldReq) (t : Topic) (hl : c.w.live? r.tn = some t) (hin : t.inactive = true) :
    (c.hubJoinOne r).frames = c.frames ++ [(r.a.sid, ctrl 503 r.tn)] ∧ (c.hubJoinOne r).w = c.w.setInflight r.a.sid false := by
  unfold Ctx.hubJoinOne Ctx.joinTopic
  simp only [hl, hin, if_true]
  refine ⟨?_, ?_⟩ <;> first | rfl | trivial

/-- … and hands it to one which is active: the request joins the topic's queue, nothing is answered yet -/
theorem hub_hands_over (c : Ctx) (r : HeldReq) (t : Topic) (hl : c.w.live? r.tn = some t) (hact : t.inactive = false) :
    (c.hubJoinOne r).frames = c.frames ∧ (c.hubJoinOne r).w = c.w.enqueue r.tn r := by
  unfold Ctx.hubJoinOne Ctx.joinTopic
  simp only [hl, hact, Bool.false_eq_true, if_false]
  refine ⟨?_, ?_⟩ <;> first | rfl | trivial

/-- a session takes its single slot when its {sub} is held; one which is attached already is told so and takes nothing -/
theorem holdSub_takes_slot (c : Ctx) (r : HeldReq) (hatt : c.w.attached r.a.sid r.tn = false) :
    (c.holdSub r).w.hubJoin = c.w.hubJoin ++ [r] ∧ (c.holdSub r).frames = c.frames := by
  unfold Ctx.holdSub
  simp only [hatt, Bool.false_eq_true, if_false]
  refine ⟨?_, ?_⟩ <;> first | rfl | trivial

/-- the premises are met: a topic which is shutting down with a {sub} and a {pub} queued -/
example :
    let r1 : HeldReq := { kind := "sub", a := { sid := "S3", sessUid := "U3", uid := "U3", lvl := .auth, bg := false }, tn := "T1" }
    let r2 : HeldReq := { kind := "pub", a := { sid := "S2", sessUid := "U2", uid := "U2", lvl := .auth, bg := false }, tn := "T1", content := "X" }
    let t : Topic := { name := "T1", owner := "U1", deleted := true, q := [r2, r1] }
    (("S3", ctrl 503 "T1") ∈ (({ w := { exiting := [t] } } : Ctx).exitPart t).frames) ∧
    (("S2", ctrl 503 "T1") ∈ (({ w := { exiting := [t] } } : Ctx).exitPart t).frames) := by
  intro r1 r2 t
  exact ⟨exit_answers_queued _ t r1 (by simp [t]) (Or.inl rfl), exit_answers_queued _ t r2 (by simp [t]) (Or.inr rfl)⟩

end Tinode.Props.C14
