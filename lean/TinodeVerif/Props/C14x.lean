import TinodeVerif.Model.TopicCross
/-!
C14, crossings: requests which are in flight while their topic is shut down (Model/TopicCross.lean: `hold`, `hubstep`, `tstep`,
`settle`; the harness holds the real requests in the real queues and steps the real handlers one at a time).

* the hub refuses a {sub} for a topic which is inactive and releases the session's slot (`hubJoinOne`);
* a topic which terminates answers everything which is still queued for it and releases the slots (`exitPart`: the repaired
  `handleTopicTermination` with `drainQueues`) - before the repair these requests were lost: never answered, the session's single
  in-flight slot taken for ever;
* a request processed in one piece is the session's part followed by the topic's part (`opLeave_split`, `opPub_split`,
  `opSub_split` in the model file), so what is proved about the parts is about the requests of the other histories too.
-/
namespace Tinode.Props.C14
open Tinode.World Tinode.Acs

/-! ### frames only grow, and by what -/

theorem emit_frames (c : Ctx) (s : Sid) (f : String) : (c.emit s f).frames = c.frames ++ [(s, f)] := rfl

/-- what a terminating topic does with one queued request: a {sub} and a {pub} are refused with 503, a {leave} too (if somebody
asked); the slot of a {sub} or {leave} is released; nothing else changes -/
theorem handleHeld_exiting (c : Ctx) (r : HeldReq) :
    (r.kind = "sub" → (c.handleHeld r true).frames = c.frames ++ [(r.a.sid, ctrl 503 r.tn)] ∧
        (c.handleHeld r true).w = c.w.setInflight r.a.sid false) ∧
    (r.kind = "pub" → (c.handleHeld r true).frames = c.frames ++ [(r.a.sid, ctrl 503 r.tn)] ∧ (c.handleHeld r true).w = c.w) ∧
    (r.kind = "leave" → (c.handleHeld r true).frames = c.frames ++ (if r.a.uid ≠ "" then [(r.a.sid, ctrl 503 r.tn)] else []) ∧
        (c.handleHeld r true).w = c.w.setInflight r.a.sid false) := by
  refine ⟨?_, ?_, ?_⟩
  · intro h; unfold Ctx.handleHeld; simp only [h]; exact ⟨rfl, rfl⟩
  · intro h; unfold Ctx.handleHeld; simp only [h]; exact ⟨rfl, rfl⟩
  · intro h; unfold Ctx.handleHeld; simp only [h]
    by_cases hu : r.a.uid = ""
    · simp [hu]
    · simp [hu, Ctx.emit]

/-- every step of the drain keeps what was already sent -/
theorem handleHeld_exiting_prefix (c : Ctx) (r : HeldReq) : ∃ l, (c.handleHeld r true).frames = c.frames ++ l := by
  unfold Ctx.handleHeld
  split
  · exact ⟨_, rfl⟩
  · by_cases hu : r.a.uid = ""
    · exact ⟨[], by simp [hu]⟩
    · exact ⟨[(r.a.sid, ctrl 503 r.tn)], by simp [hu, Ctx.emit]⟩
  · exact ⟨_, rfl⟩
  · exact ⟨[], by simp⟩

theorem drain_prefix (rs : List HeldReq) (c : Ctx) : ∃ l, (rs.foldl (fun c r => c.handleHeld r true) c).frames = c.frames ++ l := by
  induction rs generalizing c with
  | nil => exact ⟨[], by simp⟩
  | cons r rs ih =>
    obtain ⟨l1, h1⟩ := handleHeld_exiting_prefix c r
    obtain ⟨l2, h2⟩ := ih (c.handleHeld r true)
    exact ⟨l1 ++ l2, by simp only [List.foldl_cons]; rw [h2, h1, List.append_assoc]⟩

/-- a {sub} or a {pub} which the drain comes to is answered with 503 -/
theorem drain_answers (rs : List HeldReq) (c : Ctx) (r : HeldReq) (hr : r ∈ rs) (hk : r.kind = "sub" ∨ r.kind = "pub") :
    (r.a.sid, ctrl 503 r.tn) ∈ (rs.foldl (fun c r => c.handleHeld r true) c).frames := by
  induction rs generalizing c with
  | nil => cases hr
  | cons x rs ih =>
    simp only [List.foldl_cons]
    rcases List.mem_cons.mp hr with rfl | hin
    · obtain ⟨l, hl⟩ := drain_prefix rs (c.handleHeld r true)
      rw [hl]
      have : (r.a.sid, ctrl 503 r.tn) ∈ (c.handleHeld r true).frames := by
        rcases hk with hk | hk
        · rw [((handleHeld_exiting c r).1 hk).1]; simp
        · rw [((handleHeld_exiting c r).2.1 hk).1]; simp
      exact List.mem_append_left _ this
    · exact ih _ hin

/-! ### a topic which terminates answers what is queued for it -/

/-- **No request is lost when a topic stops.** Every {sub} and every {pub} which is still in the topic's queue when it terminates is
answered (503, the topic is gone) -/
theorem exit_answers_queued (c : Ctx) (t : Topic) (r : HeldReq) (hr : r ∈ t.q) (hk : r.kind = "sub" ∨ r.kind = "pub") :
    (r.a.sid, ctrl 503 r.tn) ∈ (c.exitPart t).frames := by
  unfold Ctx.exitPart
  apply drain_answers
  · simp only [List.mem_append, List.mem_filter, decide_eq_true_eq]
    rcases hk with hk | hk
    · exact Or.inl (Or.inl ⟨hr, hk⟩)
    · exact Or.inr ⟨hr, hk⟩
  · exact hk

/-! ### the slots -/

theorem setInflight_inflight (w : World) (sid : Sid) (b : Bool) (h : (w.sess? sid).isSome) :
    (w.setInflight sid b).inflight sid = b := by
  unfold World.setInflight World.inflight World.sess? at *
  simp only [List.find?_map]
  cases hf : w.sess.find? (fun x => x.sid = sid) with
  | none => simp [hf] at h
  | some s =>
    have hs : s.sid = sid := by simpa using List.find?_some hf
    have : (w.sess.find? ((fun x => decide (x.sid = sid)) ∘ fun x => if x.sid = sid then { x with inflight := b } else x)) = some s := by
      rw [← hf]
      congr 1
      funext x
      simp only [Function.comp]
      by_cases hx : x.sid = sid <;> simp [hx]
    simp [this, hs]

/-- the hub does not hand a {sub} to a topic which is inactive (paused, being deleted): it refuses it and releases the slot -/
theorem hub_refuses_inactive (c : Ctx) (r : HeldReq) (t : Topic) (hl : c.w.live? r.tn = some t) (hin : t.inactive = true) :
    (c.hubJoinOne r).frames = c.frames ++ [(r.a.sid, ctrl 503 r.tn)] ∧ (c.hubJoinOne r).w = c.w.setInflight r.a.sid false := by
  unfold Ctx.hubJoinOne Ctx.joinTopic
  simp only [hl, hin, if_true]
  refine ⟨?_, ?_⟩ <;> first | rfl | trivial

/-- … and hands it to one which is active: the request joins the topic's queue, nothing is answered yet -/
theorem hub_hands_over (c : Ctx) (r : HeldReq) (t : Topic) (hl : c.w.live? r.tn = some t) (hact : t.inactive = false) :
    (c.hubJoinOne r).frames = c.frames ∧ (c.hubJoinOne r).w = c.w.enqueue r.tn r := by
  unfold Ctx.hubJoinOne Ctx.joinTopic
  simp only [hl, hact, Bool.false_eq_true, if_false]
  refine ⟨?_, ?_⟩ <;> first | rfl | trivial

/-- a session takes its single slot when its {sub} is held; one which is attached already is told so and takes nothing -/
theorem holdSub_takes_slot (c : Ctx) (r : HeldReq) (hatt : c.w.attached r.a.sid r.tn = false) :
    (c.holdSub r).w.hubJoin = c.w.hubJoin ++ [r] ∧ (c.holdSub r).frames = c.frames := by
  unfold Ctx.holdSub
  simp only [hatt, Bool.false_eq_true, if_false]
  refine ⟨?_, ?_⟩ <;> first | rfl | trivial

/-- the premises are met: a topic which is shutting down with a {sub} and a {pub} queued -/
example :
    let r1 : HeldReq := { kind := "sub", a := { sid := "S3", sessUid := "U3", uid := "U3", lvl := .auth, bg := false }, tn := "T1" }
    let r2 : HeldReq := { kind := "pub", a := { sid := "S2", sessUid := "U2", uid := "U2", lvl := .auth, bg := false }, tn := "T1", content := "X" }
    let t : Topic := { name := "T1", owner := "U1", deleted := true, q := [r2, r1] }
    (("S3", ctrl 503 "T1") ∈ (({ w := { exiting := [t] } } : Ctx).exitPart t).frames) ∧
    (("S2", ctrl 503 "T1") ∈ (({ w := { exiting := [t] } } : Ctx).exitPart t).frames) := by
  intro r1 r2 t
  exact ⟨exit_answers_queued _ t r1 (by simp [t]) (Or.inl rfl), exit_answers_queued _ t r2 (by simp [t]) (Or.inr rfl)⟩

end Tinode.Props.C14
