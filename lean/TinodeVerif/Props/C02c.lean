import TinodeVerif.Props.C02
import TinodeVerif.Props.C09
import TinodeVerif.Model.TopicChan
/-!
C02 / C09, the channel clauses: on a channel-enabled topic

* a {data} message reaches exactly the attached sessions of users with read permission and the sessions attached as channel
  readers, once each, never the no-echo publisher;
* a relayed note never reaches a session attached as a channel reader;
* the push is addressed individually to the subscribers with read and presence, never to a channel reader (they are
  reached through the channel's broadcast address, which `deliverPubC` always names);
* whatever a channel reader asks for, the requested mode stays within join/read/presence and keeps join and read.

That the copy for a reader's session carries the `chn` spelling and no author is a rendering rule of the driver
(`Driver/World.lean: chanFor`), tied to the code by the differential run and checked on the implementation's own frames by the
C02 monitor.
-/
namespace Tinode.Props.C02
open Tinode.World Tinode.Acs

/-- the sessions that receive a {data} message on a channel-enabled topic -/
def dataRcptC (t : Topic) (skipSid : Sid) : List (Sid × Uid) :=
  t.sessions.filter (fun (sid, uid) => !(decide (sid = skipSid) || (!t.userIsReader uid && !t.isChanSess sid)))

theorem fanoutDataC_eq (c : Ctx) (t : Topic) (skipSid : Sid) (f : String) :
    c.fanoutDataC t skipSid f = { c with frames := c.frames ++ (dataRcptC t skipSid).map (fun x => (x.1, f)) } := by
  unfold Ctx.fanoutDataC dataRcptC
  have := foldl_emit_frames t.sessions (fun x => decide (x.1 = skipSid) || (!t.userIsReader x.2 && !t.isChanSess x.1)) (fun x => x.1) f c
  rw [← this]
  congr 1
  funext c x
  rcases x with ⟨sid, uid⟩
  by_cases h1 : sid = skipSid
  · simp [h1]
  · by_cases h2 : t.userIsReader uid = true
    · simp [h1, h2]
    · simp only [Bool.not_eq_true] at h2
      by_cases h3 : t.isChanSess sid = true
      · simp [h1, h2, h3]
      · simp only [Bool.not_eq_true] at h3; simp [h1, h2, h3]

/-- A session gets a copy iff it is attached, is not the no-echo publisher, and either acts for a user with read permission or is
attached as a channel reader. -/
theorem chan_recipient_iff (t : Topic) (skip : Sid) (sid : Sid) (uid : Uid) :
    (sid, uid) ∈ dataRcptC t skip ↔
      (sid, uid) ∈ t.sessions ∧ sid ≠ skip ∧ (isReader ((t.pud uid).want &&& (t.pud uid).given) = true ∨ t.isChanSess sid = true) := by
  unfold dataRcptC Topic.userIsReader eff
  simp only [List.mem_filter, Bool.not_eq_true', Bool.or_eq_false_iff, decide_eq_false_iff_not, Bool.and_eq_false_iff,
    Bool.not_eq_false']

/-- no session gets two copies -/
theorem chan_one_copy_each (t : Topic) (skip : Sid) (hnd : (t.sessions.map (·.1)).Nodup) : ((dataRcptC t skip).map (·.1)).Nodup := by
  unfold dataRcptC
  exact (List.Sublist.map _ List.filter_sublist).nodup hnd

/-- the push of a message on a channel: individually to the subscribers with R and P who are not channel readers -/
theorem chan_push_addressees (t : Topic) (u : Uid) :
    u ∈ pushRcptC t ↔ ∃ p, (u, p) ∈ t.perUser ∧ isReader (p.want &&& p.given) = true ∧ isPresencer (p.want &&& p.given) = true ∧
      p.deleted = false ∧ p.isChan = false := by
  unfold pushRcptC eff
  simp only [List.mem_map, List.mem_filter, decide_eq_true_eq, Bool.not_eq_true', Prod.exists]
  constructor
  · rintro ⟨u', p, ⟨hm, h⟩, rfl⟩; exact ⟨p, hm, h⟩
  · rintro ⟨p, hm, h⟩; exact ⟨u, p, ⟨hm, h⟩, rfl⟩

/-- a channel reader is never pushed individually -/
theorem reader_not_pushed (t : Topic) (u : Uid) (hu : ∀ p, (u, p) ∈ t.perUser → p.isChan = true) : u ∉ pushRcptC t := by
  intro h
  obtain ⟨p, hm, _, _, _, hc⟩ := (chan_push_addressees t u).mp h
  rw [hu p hm] at hc; cases hc

/-! ### notes -/

def infoRcptC (t : Topic) (skipSid : Sid) (sender : Uid) (what : String) : List (Sid × Uid) :=
  t.sessions.filter (fun (sid, uid) =>
    !(decide (sid = skipSid) || (t.isChanSess sid || !t.userIsReader uid) || (decide (what = "kp") && decide (sender = uid))))

theorem fanoutInfoC_eq (c : Ctx) (t : Topic) (skipSid : Sid) (sender : Uid) (what f : String) :
    c.fanoutInfoC t skipSid sender what f = { c with frames := c.frames ++ (infoRcptC t skipSid sender what).map (fun x => (x.1, f)) } := by
  unfold Ctx.fanoutInfoC infoRcptC
  have := foldl_emit_frames t.sessions
    (fun x => decide (x.1 = skipSid) || (t.isChanSess x.1 || !t.userIsReader x.2) || (decide (what = "kp") && decide (sender = x.2)))
    (fun x => x.1) f c
  rw [← this]
  congr 1
  funext c x
  rcases x with ⟨sid, uid⟩
  by_cases h1 : sid = skipSid
  · simp [h1]
  · by_cases h2 : t.isChanSess sid = true
    · simp [h1, h2]
    · simp only [Bool.not_eq_true] at h2
      by_cases h3 : t.userIsReader uid = true
      · by_cases h4 : what = "kp" ∧ sender = uid
        · simp [h1, h2, h3, h4]
        · have : (decide (what = "kp") && decide (sender = uid)) = false := by
            simp only [Bool.and_eq_false_iff, decide_eq_false_iff_not]
            by_cases hk : what = "kp"
            · exact Or.inr (fun hs => h4 ⟨hk, hs⟩)
            · exact Or.inl hk
          simp [h1, h2, h3, h4, this]
      · simp only [Bool.not_eq_true] at h3; simp [h1, h2, h3]

/-- a relayed note never reaches a session attached as a channel reader -/
theorem no_info_to_channel_readers (t : Topic) (skip : Sid) (sender : Uid) (what : String) (sid : Sid) (uid : Uid)
    (h : (sid, uid) ∈ infoRcptC t skip sender what) : t.isChanSess sid = false := by
  unfold infoRcptC at h
  simp only [List.mem_filter, Bool.not_eq_true', Bool.or_eq_false_iff] at h
  exact h.2.1.2.1

/-! ### the reader's requested mode -/

private theorem bit (m : Mode) (k : Nat) (hk : k < 32) (b : Mode) (hb : b = 1#32 <<< k) (hne : b ≠ 0) :
    decide (m &&& b ≠ 0) = m.getLsbD k := bit_test m k hk b hb hne

/-- whatever is asked for, a channel reader's requested mode has J and R -/
theorem chan_want_join_read (w old : Mode) (hw : w ≠ modeUnset) : isJoiner (chanWant w old) = true ∧ isReader (chanWant w old) = true := by
  unfold chanWant
  rw [if_pos hw, isJoiner_bit, isReader_bit]
  simp only [BitVec.getLsbD_or]
  have h1 : modeJoin.getLsbD 0 = true := by decide
  have h2 : modeRead.getLsbD 1 = true := by decide
  simp [h1, h2]

/-- … and nothing beyond join, read and presence -/
theorem chan_want_within (w old : Mode) (hw : w ≠ modeUnset) : chanWant w old &&& modeCChnReader = chanWant w old := by
  unfold chanWant
  rw [if_pos hw]
  apply BitVec.eq_of_getLsbD_eq; intro k _
  simp only [BitVec.getLsbD_and, BitVec.getLsbD_or]
  have hj : modeJoin.getLsbD k = true → modeCChnReader.getLsbD k = true := by
    intro h
    have := congrArg (fun x => x.getLsbD k) (show modeJoin &&& modeCChnReader = modeJoin by decide)
    simp only [BitVec.getLsbD_and, h, Bool.true_and] at this; exact this
  have hr : modeRead.getLsbD k = true → modeCChnReader.getLsbD k = true := by
    intro h
    have := congrArg (fun x => x.getLsbD k) (show modeRead &&& modeCChnReader = modeRead by decide)
    simp only [BitVec.getLsbD_and, h, Bool.true_and] at this; exact this
  cases h1 : w.getLsbD k <;> cases h2 : modeCChnReader.getLsbD k <;> cases h3 : modeRead.getLsbD k <;> cases h4 : modeJoin.getLsbD k <;> simp_all

example : chanWant modeCFull modeCChnReader = modeCChnReader ∧ chanWant modeNone modeCChnReader = modeJoin ||| modeRead := by
  constructor <;> decide

/-- a channel reader cannot publish: the reader's grant is join/read/presence, whatever is requested -/
theorem reader_cannot_publish (c : Ctx) (a : Actor) (tn : TName) (content : String) (head : List (String × String)) (noEcho : Bool)
    (t : Topic) (hatt : c.w.attached a.sid tn = true) (hl : c.w.live? tn = some t) (hi : t.inactive = false) (hro : t.readOnly = false)
    (hg : (t.pud a.uid).given = modeCChnReader) :
    c.opPubC a tn content head noEcho = c.emit a.sid (ctrl 403 tn) := by
  have hw : isWriter (eff (t.pud a.uid)) = false := by
    unfold eff; rw [isWriter_and, hg]
    have : isWriter modeCChnReader = false := by decide
    rw [this, Bool.and_false]
  unfold Ctx.opPubC
  simp [hatt, hl, hi, hro, hw]

end Tinode.Props.C02
