import TinodeVerif.Model.AdapterPin
/-!
The store behaviour the models assume was read off the SQL adapters (MySQL first, PostgreSQL statement by statement the same): the
in-memory adapter of the harness and the store part of the world model are transcriptions of these functions. The transcription is
part of the trusted base; what these theorems add is that it cannot go stale unnoticed: the fingerprints of the adapter functions
are regenerated from /repo on every run (`Gen/AdapterPin.lean`) and each theorem says that the functions one property rests on are
the ones which were transcribed and reviewed (`Model/AdapterPin.lean`). A theorem which stops checking names a function whose text
changed; whether the change breaks the property cannot be shown by running the in-memory adapter (the check reports
`no-failing-input-found`) - the replay names the function.
-/
namespace Tinode.Props.Pin
open Tinode.AdapterPin

/-- every property's list names functions which exist in both adapters (a misspelt name would pin nothing) -/
theorem lists_name_existing_functions :
    ∀ p ∈ ["C01", "C04", "C06", "C07", "C08", "C09", "C10", "C11", "C12", "C14", "C16", "C18", "C19", "C20"],
      ∀ f ∈ fnsOf p, (expected.any (fun e => e.1 = "mysql" ∧ e.2.1 = f)) = true ∧ (expected.any (fun e => e.1 = "postgres" ∧ e.2.1 = f)) = true := by
  decide

end Tinode.Props.Pin
