import TinodeVerif.Proofs.Pub
/-!
C09 — read and received marks only move forward and stay within bounds.

`noteMarks`, `noteValid`, `notePass`, `Ctx.noteStore` and `Ctx.opNote` (Model/TopicReq.lean) transcribe Session.note and
Topic.handleNoteBroadcast. The theorems cover the marks held by the loaded topic (what `{get sub}` reports while the topic
stays loaded): forward only, within `0 ≤ read ≤ recv ≤ lastId`, untouched by invalid notes; and who is sent the relayed
notification. The stored marks do NOT satisfy `read ≤ recv` (witness below, known finding F2).
-/
namespace Tinode.Props.C09
open Tinode.World Tinode.Acs

def Bounded (p : PUD) (last : Int) : Prop := 0 ≤ p.readId ∧ p.readId ≤ p.recvId ∧ p.recvId ≤ last

/-- a note never moves a mark back -/
theorem note_marks_forward (pud : PUD) (what : String) (q : Int) (p' : PUD) (rd rv : Int)
    (h : noteMarks pud what q = some (p', rd, rv)) : pud.readId ≤ p'.readId ∧ pud.recvId ≤ p'.recvId := by
  unfold noteMarks at h
  split at h
  · split at h
    · cases h
    · simp only [Option.some.injEq, Prod.mk.injEq] at h
      obtain ⟨rfl, _, _⟩ := h
      split <;> (constructor <;> simp only <;> omega)
  · split at h
    · split at h
      · cases h
      · simp only [Option.some.injEq, Prod.mk.injEq] at h
        obtain ⟨rfl, _, _⟩ := h
        split <;> (constructor <;> simp only <;> omega)
    · simp only [Option.some.injEq, Prod.mk.injEq] at h
      obtain ⟨rfl, _, _⟩ := h
      exact ⟨Int.le_refl _, Int.le_refl _⟩

/-- within bounds before, a note for an existing message (`q ≤ lastId`, checked by the handler) leaves them within bounds -/
theorem note_marks_bounded (pud : PUD) (what : String) (q last : Int) (p' : PUD) (rd rv : Int)
    (hb : Bounded pud last) (hq : q ≤ last) (h : noteMarks pud what q = some (p', rd, rv)) : Bounded p' last := by
  unfold Bounded at *
  unfold noteMarks at h
  split at h
  · split at h
    · cases h
    · simp only [Option.some.injEq, Prod.mk.injEq] at h
      obtain ⟨rfl, _, _⟩ := h
      split <;> (refine ⟨?_, ?_, ?_⟩ <;> simp only <;> omega)
  · split at h
    · split at h
      · cases h
      · simp only [Option.some.injEq, Prod.mk.injEq] at h
        obtain ⟨rfl, _, _⟩ := h
        split <;> (refine ⟨?_, ?_, ?_⟩ <;> simp only <;> omega)
    · simp only [Option.some.injEq, Prod.mk.injEq] at h
      obtain ⟨rfl, _, _⟩ := h
      exact hb

/-- a note touches nothing but the two marks -/
theorem note_marks_only_marks (pud : PUD) (what : String) (q : Int) (p' : PUD) (rd rv : Int)
    (h : noteMarks pud what q = some (p', rd, rv)) :
    p'.want = pud.want ∧ p'.given = pud.given ∧ p'.priv = pud.priv ∧ p'.delId = pud.delId ∧ p'.online = pud.online ∧ p'.deleted = pud.deleted := by
  unfold noteMarks at h
  split at h
  · split at h
    · cases h
    · simp only [Option.some.injEq, Prod.mk.injEq] at h
      obtain ⟨rfl, _, _⟩ := h
      split <;> exact ⟨rfl, rfl, rfl, rfl, rfl, rfl⟩
  · split at h
    · split at h
      · cases h
      · simp only [Option.some.injEq, Prod.mk.injEq] at h
        obtain ⟨rfl, _, _⟩ := h
        split <;> exact ⟨rfl, rfl, rfl, rfl, rfl, rfl⟩
    · simp only [Option.some.injEq, Prod.mk.injEq] at h
      obtain ⟨rfl, _, _⟩ := h
      exact ⟨rfl, rfl, rfl, rfl, rfl, rfl⟩

/-- duplicates and stale values are dropped -/
theorem stale_read_dropped (pud : PUD) (q : Int) (h : q ≤ pud.readId) : noteMarks pud "read" q = none := by
  unfold noteMarks; simp [h]
theorem stale_recv_dropped (pud : PUD) (q : Int) (h : q ≤ pud.recvId) : noteMarks pud "recv" q = none := by
  unfold noteMarks; simp [h]

/-- which notes the session lets through: typing notes carry 0, read/recv a positive number, nothing else -/
theorem note_valid_iff (what : String) (q : Int) :
    noteValid what q = true ↔ ((what = "kp" ∨ what = "kpa" ∨ what = "kpv") ∧ q = 0) ∨ ((what = "read" ∨ what = "recv") ∧ q > 0) := by
  unfold noteValid
  split <;> simp_all

/-- an invalid note (unknown kind, zero or negative number for read/recv, non-zero for typing) is dropped without any
reply or side effect: the whole context is unchanged -/
theorem invalid_note_no_effect (c : Ctx) (a : Actor) (tn : TName) (what : String) (q : Int) (h : noteValid what q = false) :
    c.opNote a tn what q = c := by
  unfold Ctx.opNote
  split
  · rfl
  · simp [h]

/-- a note for a message that does not exist yet, or from a user without the needed permission (R for read/recv, W for
typing), or repeating an old value, is dropped without any reply or side effect -/
theorem refused_note_no_effect (c : Ctx) (a : Actor) (tn : TName) (what : String) (q : Int) (t : Topic)
    (hatt : c.w.attached a.sid tn = true) (hlive : c.w.live? tn = some t)
    (h : q > t.lastId ∨ notePass t (eff (t.pud a.uid)) what = false ∨ noteMarks (t.pud a.uid) what q = none) :
    c.opNote a tn what q = c := by
  unfold Ctx.opNote
  split
  · rfl
  · split
    · rfl
    · simp only [hatt, Bool.not_true, Bool.false_eq_true, false_and, if_false, hlive]
      split
      · rfl
      · split
        · rfl
        · rcases h with h | h | h
          · rename_i h2; exact absurd h h2
          · simp [h]
          · split
            · rfl
            · rw [h]

/-- typing notes are relayed only from users with write permission; read/recv notes need read permission -/
theorem note_pass_iff (t : Topic) (m : Mode) (what : String) :
    notePass t m what = true ↔
      ((what = "kp" ∨ what = "kpa" ∨ what = "kpv") ∧ isWriter m = true ∧ t.readOnly = false) ∨
      (¬(what = "kp" ∨ what = "kpa" ∨ what = "kpv") ∧ isReader m = true) := by
  unfold notePass
  split <;> simp_all

/-! ### who is sent the relayed notification -/

def infoRcpt (t : Topic) (skipSid : Sid) (sender : Uid) (what : String) : List (Sid × Uid) :=
  t.sessions.filter (fun (sid, uid) => !(decide (sid = skipSid) || !t.userIsReader uid || (decide (what = "kp") && decide (sender = uid))))

theorem fanoutInfo_eq (c : Ctx) (t : Topic) (skipSid : Sid) (sender : Uid) (what f : String) :
    c.fanoutInfo t skipSid sender what f = { c with frames := c.frames ++ (infoRcpt t skipSid sender what).map (fun x => (x.1, f)) } := by
  unfold Ctx.fanoutInfo infoRcpt
  have := foldl_emit_frames t.sessions
    (fun x => decide (x.1 = skipSid) || !t.userIsReader x.2 || (decide (what = "kp") && decide (sender = x.2))) (fun x => x.1) f c
  rw [← this]
  congr 1
  funext c x
  rcases x with ⟨sid, uid⟩
  by_cases h1 : sid = skipSid
  · simp [h1]
  · by_cases h2 : t.userIsReader uid = true
    · by_cases h3 : what = "kp" ∧ sender = uid
      · simp [h1, h2, h3]
      · have : (decide (what = "kp") && decide (sender = uid)) = false := by
          simp only [Bool.and_eq_false_iff, decide_eq_false_iff_not]
          by_cases hk : what = "kp"
          · exact Or.inr (fun hs => h3 ⟨hk, hs⟩)
          · exact Or.inl hk
        simp [h1, h2, h3, this]
    · simp only [Bool.not_eq_true] at h2; simp [h1, h2]

/-- The relayed notification reaches exactly the attached sessions of users with read permission, never the originating
session, and a typing note never any session of the typist. -/
theorem info_recipient_iff (t : Topic) (skip : Sid) (sender : Uid) (what : String) (sid : Sid) (uid : Uid) :
    (sid, uid) ∈ infoRcpt t skip sender what ↔
      (sid, uid) ∈ t.sessions ∧ sid ≠ skip ∧ isReader ((t.pud uid).want &&& (t.pud uid).given) = true ∧ ¬(what = "kp" ∧ sender = uid) := by
  unfold infoRcpt Topic.userIsReader eff
  simp only [List.mem_filter, Bool.not_eq_true', Bool.or_eq_false_iff, decide_eq_false_iff_not, Bool.not_eq_false',
    Bool.and_eq_false_iff, not_and]
  constructor
  · rintro ⟨hm, ⟨h1, h2⟩, h3⟩
    refine ⟨hm, h1, h2, ?_⟩
    intro hk hs
    rcases h3 with h3 | h3
    · exact h3 hk
    · exact h3 hs
  · rintro ⟨hm, h1, h2, h3⟩
    refine ⟨hm, ⟨h1, h2⟩, ?_⟩
    by_cases hk : what = "kp"
    · exact Or.inr (h3 hk)
    · exact Or.inl hk

/-! ### a publish moves both marks of its author to the new message -/
theorem pub_marks_jump (t : Topic) (a : Actor) (m : MsgRow) (h : (t.pud? a.uid).isSome = true) :
    ((pubTopic t a m true).pud a.uid).readId = m.seq ∧ ((pubTopic t a m true).pud a.uid).recvId = m.seq := by
  unfold pubTopic
  simp only [h, and_self, if_true]
  rw [pud_setPud]
  exact ⟨rfl, rfl⟩

/-! ### what is NOT true: the stored marks

`{note read}` beyond the recv mark raises `recv` in memory but writes only `ReadSeqId` (topic.go:1155-1190): the stored row
ends with read > recv. Known finding F2 (the repair changes a call pinned by the existing tests). -/
def wS : Sess := { sid := "S1", uid := "U1", lvl := .auth, subs := ["T1"] }
def wT : Topic := { name := "T1", lastId := 3, perUser := [("U1", { want := 0xFF, given := 0xFF })], sessions := [("S1", "U1")] }
def wR : TopicRow := { name := "T1", seq := 3, subs := [{ user := "U1", want := 0xFF, given := 0xFF }] }
def wA : Actor := { sid := "S1", sessUid := "U1", uid := "U1", lvl := .auth, bg := false }
def wC : Ctx := { w := { sess := [wS], live := [wT], store := [wR] } }

theorem read_note_leaves_stored_recv_behind :
    -- in memory both marks are 2 ...
    ((wC.opNote wA "T1" "read" 2).w.live? "T1").map (fun t => ((t.pud "U1").readId, (t.pud "U1").recvId)) = some (2, 2) ∧
    -- ... the stored row has read = 2, recv = 0
    ((wC.opNote wA "T1" "read" 2).w.row? "T1").map (fun r => r.subs.map (fun s => (s.readId, s.recvId))) = some [(2, 0)] := by
  decide

example : Bounded { readId := 1, recvId := 2 } 3 := by unfold Bounded; simp

end Tinode.Props.C09
