import TinodeVerif.Props.C10m
import TinodeVerif.Proofs.World
/-!
C10, the exchange between two users' `me` topics carried through the hub's queue (`Ctx.deliverAll`, Model/TopicMe.lean).

`Props/C10m.lean` has the handshake step by step (`procPresReqCore`). Here the steps are composed the way the hub composes them:
one user's announcement "online" is on the queue, addressed to a partner who lists the user as an enabled contact and is listed
as one by the user. Draining the queue - whatever sessions are attached to either `me`, whatever else the world holds - ends with
both contact tables saying "online" about the other side and with an empty queue: the partner has been told, the user has been
answered, and nothing keeps circulating.
-/
namespace Tinode.Props.C10
open Tinode.World Tinode.Acs

/-! ### what forwarding to the sessions of a `me` topic leaves alone -/

theorem foldl_rest {α : Type} (f : Ctx → α → Ctx)
    (hf : ∀ c x, (f c x).w = c.w ∧ (f c x).off = c.off ∧ (f c x).routed = c.routed) (l : List α) (c : Ctx) :
    (l.foldl f c).w = c.w ∧ (l.foldl f c).off = c.off ∧ (l.foldl f c).routed = c.routed := by
  induction l generalizing c with
  | nil => exact ⟨rfl, rfl, rfl⟩
  | cons x xs ih =>
    rw [List.foldl_cons]
    have h1 := ih (f c x)
    have h2 := hf c x
    exact ⟨h1.1.trans h2.1, h1.2.1.trans h2.2.1, h1.2.2.trans h2.2.2⟩

theorem forwardOnMe_rest (t : Topic) (p : PresMsg) (what : String) (c : Ctx) :
    (c.forwardOnMe t p what).w = c.w ∧ (c.forwardOnMe t p what).off = c.off ∧ (c.forwardOnMe t p what).routed = c.routed := by
  unfold Ctx.forwardOnMe
  apply foldl_rest
  intro c x
  obtain ⟨sid, uid⟩ := x
  simp only
  repeat' split
  all_goals first | exact ⟨rfl, rfl, rfl⟩ | (unfold Ctx.emit; exact ⟨rfl, rfl, rfl⟩)

theorem deliverRouted_nil (c : Ctx) (h : c.routed = []) : c.deliverRouted = c := by
  unfold Ctx.deliverRouted
  rw [h]
  simp only [List.foldl_nil]
  cases c
  simp_all

/-- the news that a subscriber's account is gone is a matter for group topics: a `me` topic handles it like any other status -/
theorem goneMember_me (t : Topic) (p : PresMsg) (h : t.isMe = true) : goneMember t p = false := by
  unfold goneMember Topic.isGrpCat
  simp [h]

/-! ### one "online" taken off the queue by a `me` topic which lists the sender as an enabled contact -/

theorem deliverOff_on (c : Ctx) (t : Topic) (x : String) (wr ponl : Bool)
    (hl : c.w.live? t.name = some t) (hme : t.isMe = true) (hact : t.inactive = false)
    (hc : psGet t.perSubs x = some (ponl, true)) :
    let c' := c.deliverOff t.name { what := "on", src := x, wantReply := wr }
    (∃ t', c'.w.live? t.name = some t' ∧ t'.name = t.name ∧ t'.isMe = true ∧ t'.inactive = false ∧
        psGet t'.perSubs x = some (true, true) ∧ (∀ y, y ≠ x → psGet t'.perSubs y = psGet t.perSubs y)) ∧
    (∀ k, k ≠ t.name → c'.w.live? k = c.w.live? k) ∧
    c'.off = c.off ++ (if wr then [(x, { what := "on", src := t.name, wantReply := false })] else []) ∧
    c'.routed = c.routed := by
  intro c'
  have hp := on_from_enabled_contact t x wr ponl hme hact hc
  simp only at hp
  obtain ⟨hp1, hp2, hp3⟩ := hp
  -- the topic after the handshake step
  have htop := on_from_enabled_topic t x wr ponl hme hact hc
  have hname : (procPresReqCore t x "on" "" wr).1.name = t.name := by rw [htop]
  have hisme : (procPresReqCore t x "on" "" wr).1.isMe = true := by rw [htop]; exact hme
  have hinact : (procPresReqCore t x "on" "" wr).1.inactive = false := by
    rw [htop]; unfold Topic.inactive at hact ⊢; exact hact
  have hother : ∀ y, y ≠ x → psGet (procPresReqCore t x "on" "" wr).1.perSubs y = psGet t.perSubs y := by
    intro y hy
    rw [htop]
    exact psGet_psSet_other _ _ _ _ hy
  -- unfold the delivery
  show _ ∧ _ ∧ _ ∧ _
  have hc' : c' = c.deliverOff t.name { what := "on", src := x, wantReply := wr } := rfl
  unfold Ctx.deliverOff procPresReq at hc'
  simp only [hl, hact, goneMember_me t _ hme, Bool.false_eq_true, if_false] at hc'
  clear htop
  generalize hr : procPresReqCore t x "on" "" wr = r at hp1 hp2 hp3 hname hisme hinact hother hc'
  obtain ⟨t', fwd, reply⟩ := r
  simp only at hp1 hp2 hp3 hname hisme hinact hother hc'
  -- the context after storing the topic and queueing the answer
  obtain ⟨c1, hc1d⟩ : ∃ c1 : Ctx, c1 = (if t' ≠ t then c.putLive t' else c) := ⟨_, rfl⟩
  rw [← hc1d] at hc'
  have hmain : c'.w = c1.w ∧ c'.routed = c1.routed ∧
      c'.off = c1.off ++ (if wr then [(x, { what := "on", src := t.name, wantReply := false })] else []) := by
    rw [hc', hp3]
    cases wr
    · simp only [Bool.false_eq_true, if_false]
      split
      · have := forwardOnMe_rest t' { what := "on", src := x, wantReply := false } fwd c1
        exact ⟨this.1, this.2.2, by rw [this.2.1]; simp⟩
      · exact ⟨rfl, rfl, by simp⟩
    · simp only [if_true]
      split
      · have := forwardOnMe_rest t' { what := "on", src := x, wantReply := true } fwd
          (c1.offq x { what := "on", src := t.name, wantReply := false })
        exact ⟨this.1, this.2.2, by rw [this.2.1]; rfl⟩
      · exact ⟨rfl, rfl, rfl⟩
  have hc1r : c1.routed = c.routed := by rw [hc1d]; split <;> rfl
  have hc1o : c1.off = c.off := by rw [hc1d]; split <;> rfl
  have hc1live : c1.w.live? t.name = some t' := by
    rw [hc1d]
    by_cases heq : t' = t
    · rw [if_neg (by simpa using heq), heq]; exact hl
    · rw [if_pos heq, putLive_w, ← hname]; exact live_setLive _ _
  have hc1other : ∀ k, k ≠ t.name → c1.w.live? k = c.w.live? k := by
    intro k hk
    rw [hc1d]
    split
    · rw [putLive_w]; exact live_setLive_other _ _ _ (by rw [hname]; exact hk)
    · rfl
  refine ⟨⟨t', ?_, hname, hisme, hinact, hp1, hother⟩, ?_, ?_, ?_⟩
  · rw [hmain.1]; exact hc1live
  · intro k hk; rw [hmain.1]; exact hc1other k hk
  · rw [hmain.2.2, hc1o]
  · rw [hmain.2.1, hc1r]

/-! ### the whole exchange -/

/-- X's "online" (asking for an answer) is on the queue for O; O and X list each other as enabled contacts. After the hub has
drained the queue both tables say online about the other side, and the queue is empty. -/
theorem announce_converges (c : Ctx) (tO tX : Topic) (o1 o2 : Bool)
    (hne : tO.name ≠ tX.name)
    (hlO : c.w.live? tO.name = some tO) (hlX : c.w.live? tX.name = some tX)
    (hO : tO.isMe = true ∧ tO.inactive = false) (hX : tX.isMe = true ∧ tX.inactive = false)
    (hcO : psGet tO.perSubs tX.name = some (o1, true)) (hcX : psGet tX.perSubs tO.name = some (o2, true))
    (hr : c.routed = []) (hoff : c.off = [(tO.name, { what := "on", src := tX.name, wantReply := true })]) :
    (∃ t, c.deliverAll.w.live? tO.name = some t ∧ psGet t.perSubs tX.name = some (true, true)) ∧
    (∃ t, c.deliverAll.w.live? tX.name = some t ∧ psGet t.perSubs tO.name = some (true, true)) ∧
    c.deliverAll.off = [] := by
  -- first message: at O
  have s1 := deliverOff_on { c with off := [] } tO tX.name true o1 hlO hO.1 hO.2 hcO
  simp only at s1
  obtain ⟨⟨tO', hO'l, hO'n, hO'me, hO'act, hO'tab, _⟩, hoth1, hoff1, hr1⟩ := s1
  generalize hc1 : ({ c with off := [] } : Ctx).deliverOff tO.name { what := "on", src := tX.name, wantReply := true } = c1
    at hO'l hoth1 hoff1 hr1
  simp only [if_true, List.nil_append] at hoff1
  -- second message: O's answer at X
  have hlX1 : c1.w.live? tX.name = some tX := by rw [hoth1 tX.name (Ne.symm hne)]; exact hlX
  have s2 := deliverOff_on { c1 with off := [] } tX tO.name false o2 hlX1 hX.1 hX.2 hcX
  simp only at s2
  obtain ⟨⟨tX', hX'l, _, _, _, hX'tab, _⟩, hoth2, hoff2, hr2⟩ := s2
  generalize hc2 : ({ c1 with off := [] } : Ctx).deliverOff tX.name { what := "on", src := tO.name, wantReply := false } = c2
    at hX'l hoth2 hoff2 hr2
  simp only [Bool.false_eq_true, if_false, List.append_nil] at hoff2
  -- the hub's loop
  have hrun : c.deliverAll = c2 := by
    unfold Ctx.deliverAll
    show Ctx.deliverAllFuel (4095 + 1) c = c2
    unfold Ctx.deliverAllFuel
    simp only [deliverRouted_nil c hr, hoff]
    rw [hc1]
    show Ctx.deliverAllFuel (4094 + 1) c1 = c2
    unfold Ctx.deliverAllFuel
    have hr1' : c1.routed = [] := by rw [hr1]; exact hr
    simp only [deliverRouted_nil c1 hr1', hoff1]
    rw [hc2]
    show Ctx.deliverAllFuel (4093 + 1) c2 = c2
    unfold Ctx.deliverAllFuel
    have hr2' : c2.routed = [] := by rw [hr2]; exact hr1'
    simp only [deliverRouted_nil c2 hr2', hoff2]
  rw [hrun]
  refine ⟨⟨tO', ?_, hO'tab⟩, ⟨tX', hX'l, hX'tab⟩, hoff2⟩
  rw [hoth2 tO.name hne]; exact hO'l

/-! ### going offline -/

/-- one "offline" taken off the queue by a `me` topic which lists the sender as an enabled contact: the table says offline, nothing
is answered -/
theorem deliverOff_off (c : Ctx) (t : Topic) (x : String) (ponl : Bool)
    (hl : c.w.live? t.name = some t) (hme : t.isMe = true) (hact : t.inactive = false)
    (hc : psGet t.perSubs x = some (ponl, true)) :
    let c' := c.deliverOff t.name { what := "off", src := x }
    (∃ t', c'.w.live? t.name = some t' ∧ psGet t'.perSubs x = some (false, true)) ∧ c'.off = c.off ∧ c'.routed = c.routed := by
  intro c'
  have hp := off_from_enabled_contact t x false ponl hme hact hc
  simp only at hp
  obtain ⟨hp1, _, hp3⟩ := hp
  have htop := off_from_enabled_topic t x false ponl hme hact hc
  have hname : (procPresReqCore t x "off" "" false).1.name = t.name := by rw [htop]
  have hc' : c' = c.deliverOff t.name { what := "off", src := x } := rfl
  unfold Ctx.deliverOff procPresReq at hc'
  simp only [hl, hact, goneMember_me t _ hme, Bool.false_eq_true, if_false] at hc'
  clear htop
  generalize hr : procPresReqCore t x "off" "" false = r at hp1 hp3 hname hc'
  obtain ⟨t', fwd, reply⟩ := r
  simp only at hp1 hp3 hname hc'
  obtain ⟨c1, hc1d⟩ : ∃ c1 : Ctx, c1 = (if t' ≠ t then c.putLive t' else c) := ⟨_, rfl⟩
  rw [← hc1d] at hc'
  have hmain : c'.w = c1.w ∧ c'.routed = c1.routed ∧ c'.off = c1.off := by
    rw [hc', hp3]
    simp only
    split
    · have := forwardOnMe_rest t' { what := "off", src := x } fwd c1
      exact ⟨this.1, this.2.2, this.2.1⟩
    · exact ⟨rfl, rfl, rfl⟩
  have hc1r : c1.routed = c.routed := by rw [hc1d]; split <;> rfl
  have hc1o : c1.off = c.off := by rw [hc1d]; split <;> rfl
  have hc1live : c1.w.live? t.name = some t' := by
    rw [hc1d]
    by_cases heq : t' = t
    · rw [if_neg (by simpa using heq), heq]; exact hl
    · rw [if_pos heq, putLive_w, ← hname]; exact live_setLive _ _
  refine ⟨⟨t', ?_, hp1⟩, ?_, ?_⟩
  · rw [hmain.1]; exact hc1live
  · rw [hmain.2.2, hc1o]
  · rw [hmain.2.1, hc1r]

/-- X has gone offline (its `me` topic was unloaded: "off" is on the queue for every contact, `users_of_interest_complete`); O,
who lists X as an enabled contact, ends up with a table that says offline, and the queue is empty -/
theorem going_offline_converges (c : Ctx) (tO : Topic) (x : String) (o1 : Bool)
    (hlO : c.w.live? tO.name = some tO) (hO : tO.isMe = true ∧ tO.inactive = false)
    (hcO : psGet tO.perSubs x = some (o1, true))
    (hr : c.routed = []) (hoff : c.off = [(tO.name, { what := "off", src := x })]) :
    (∃ t, c.deliverAll.w.live? tO.name = some t ∧ psGet t.perSubs x = some (false, true)) ∧ c.deliverAll.off = [] := by
  have s1 := deliverOff_off { c with off := [] } tO x o1 hlO hO.1 hO.2 hcO
  simp only at s1
  obtain ⟨⟨tO', hO'l, hO'tab⟩, hoff1, hr1⟩ := s1
  generalize hc1 : ({ c with off := [] } : Ctx).deliverOff tO.name { what := "off", src := x } = c1 at hO'l hoff1 hr1
  have hrun : c.deliverAll = c1 := by
    unfold Ctx.deliverAll
    show Ctx.deliverAllFuel (4095 + 1) c = c1
    unfold Ctx.deliverAllFuel
    simp only [deliverRouted_nil c hr, hoff]
    rw [hc1]
    show Ctx.deliverAllFuel (4094 + 1) c1 = c1
    unfold Ctx.deliverAllFuel
    have hr1' : c1.routed = [] := by rw [hr1]; exact hr
    simp only [deliverRouted_nil c1 hr1', hoff1]
  rw [hrun]
  exact ⟨⟨tO', hO'l, hO'tab⟩, hoff1⟩

/-! ### the idle unload of a `me` topic -/

theorem terminateTopic_off (c : Ctx) (t : Topic) : (c.terminateTopic t).off = c.off := by
  unfold Ctx.terminateTopic
  have : ∀ (l : List (Sid × Uid)) (c : Ctx),
      (l.foldl (fun c (x : Sid × Uid) => { c with w := c.w.detach x.1 t.name }) c).off = c.off := by
    intro l
    induction l with
    | nil => intro c; rfl
    | cons x xs ih => intro c; rw [List.foldl_cons, ih]
  exact this t.sessions c

/-- when a user's `me` topic is unloaded (no session is attached any more), "offline" is put on the queue for every contact the
topic may tell: the p2p partners' `me` topics and the groups (`notifyOnOrSkip` leaves out channels) -/
theorem unload_me_tells_contacts (c : Ctx) (tn : TName) (t : Topic) (hl : c.w.live? tn = some t) (hs : t.sessions = [])
    (n : String) (o e : Bool) (hm : (n, o, e) ∈ t.perSubs) (hn : (notifyOnOrSkip n "off" o).isSome = true) :
    (n, { what := "off", src := t.name }) ∈ (c.opUnloadMe tn).1.off := by
  unfold Ctx.opUnloadMe
  simp only [hl, hs, List.isEmpty_nil, Bool.not_true, Bool.false_eq_true, if_false]
  rw [terminateTopic_off]
  unfold Ctx.presUsersOfInterest
  have := users_of_interest_complete c t "off" (decide ("off" = "on")) (decide ("" = "dis")) n o e hm hn
  simpa [Ctx.putLive] using this

/-! ### going invisible -/

theorem foldl_off {α : Type} (f : Ctx → α → Ctx) (hf : ∀ c x, (f c x).off = c.off) (l : List α) (c : Ctx) :
    (l.foldl f c).off = c.off := by
  induction l generalizing c with
  | nil => rfl
  | cons x xs ih => rw [List.foldl_cons, ih, hf]

theorem call_off (c : Ctx) (name : String) (eff : World → World) : (c.call name eff).1.off = c.off := by
  unfold Ctx.call
  simp only
  split
  · rfl
  · split <;> rfl

theorem call_ok (c : Ctx) (name : String) (eff : World → World) (h : c.failK = 0) : (c.call name eff).2 = true := by
  unfold Ctx.call
  simp [h]

theorem presDirect_off (c : Ctx) (t : Topic) (p : PresMsg) : (c.presDirect t p).off = c.off := by
  unfold Ctx.presDirect
  apply foldl_off
  intro c x
  obtain ⟨sid, uid⟩ := x
  simp only
  repeat' split
  all_goals first | rfl | (unfold Ctx.emit; rfl)

theorem evictMe_off (c : Ctx) (t : Topic) (u : Uid) (skip : Sid) : (c.evictMe t u skip).1.off = c.off := by
  unfold Ctx.evictMe
  simp only
  apply foldl_off
  intro c x
  obtain ⟨sid, uid⟩ := x
  simp only
  split
  · unfold Ctx.emit; rfl
  · rfl

/-- A user who takes presence permission out of the own subscription to `me` becomes invisible: every contact the topic may tell is
told "offline" together with the command to stop listening (`off+dis`), whatever else the change brings about. -/
theorem going_invisible_tells_contacts (c : Ctx) (t : Topic) (a : Actor) (ud : PUD) (oldWant oldGiven : Mode)
    (hold : isPresencer (oldWant &&& oldGiven) = true) (hnew : isPresencer (eff ud) = false)
    (n : String) (o e : Bool) (hm : (n, o, e) ∈ t.perSubs) (hn : (notifyOnOrSkip n "off" o).isSome = true) :
    (n, { what := "off", cmd := "dis", src := t.name }) ∈ (c.meModeChanged t a ud oldWant oldGiven).1.off := by
  have h1 : (n, { what := "off", cmd := "dis", src := t.name }) ∈ (c.presUsersOfInterest t "off" "dis").1.off := by
    unfold Ctx.presUsersOfInterest
    have := users_of_interest_complete c t "off" (decide ("off" = "on")) (decide ("dis" = "dis")) n o e hm hn "dis"
    simpa using this
  unfold Ctx.meModeChanged
  simp only [hold, hnew, Bool.not_false, and_self, if_true]
  split
  · -- the mode did change: a user without P is not announced; the user's other sessions see the new mode
    have hh : hearsPres (eff ud) = false := by unfold hearsPres; rw [hnew]; rfl
    simp only [hh, Bool.false_eq_true, false_and, if_false]
    rw [presDirect_off]
    exact h1
  · exact h1

/-- … and a user who gets presence permission back is announced again: every contact is told "online" with the command to listen
(`on+en`), asking for an answer -/
theorem becoming_visible_tells_contacts (c : Ctx) (t : Topic) (a : Actor) (ud : PUD) (oldWant oldGiven : Mode)
    (hold : hearsPres (oldWant &&& oldGiven) = false) (hnew : hearsPres (eff ud) = true)
    (hch : oldWant ≠ ud.want ∨ oldGiven ≠ ud.given)
    (n : String) (o e : Bool) (hm : (n, o, e) ∈ (t.setPud a.uid ud).perSubs) (hn : (notifyOnOrSkip n "on" o).isSome = true)
    (hp : isPresencer (oldWant &&& oldGiven) = false) :
    (n, { what := "on", cmd := "en", src := t.name, wantReply := true }) ∈ (c.meModeChanged t a ud oldWant oldGiven).1.off := by
  unfold Ctx.meModeChanged
  simp only [hp, Bool.false_eq_true, false_and, if_false, hch, if_true, hnew, hold, Bool.not_false, and_self]
  rw [presDirect_off]
  unfold Ctx.presUsersOfInterest
  have := users_of_interest_complete c (t.setPud a.uid ud) "on" (decide ("on" = "on")) (decide ("en" = "dis")) n o e hm hn "en"
  have hname : (t.setPud a.uid ud).name = t.name := by unfold Topic.setPud; rfl
  simpa [hname] using this

/-- the premises are met by a concrete world: two users on `me`, each listing the other as an enabled contact last seen offline -/
example :
    let tO : Topic := { name := "U1", isMe := true, perSubs := [("U2", false, true)] }
    let tX : Topic := { name := "U2", isMe := true, perSubs := [("U1", false, true)] }
    let c : Ctx := { w := { live := [tO, tX] }, off := [("U1", { what := "on", src := "U2", wantReply := true })] }
    c.w.live? "U1" = some tO ∧ c.w.live? "U2" = some tX ∧ psGet tO.perSubs "U2" = some (false, true) ∧
      psGet tX.perSubs "U1" = some (false, true) := by
  simp [World.live?, psGet]

end Tinode.Props.C10
