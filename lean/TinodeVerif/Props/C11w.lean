import TinodeVerif.Model.TopicMe
/-!
C11, a session which stops being authenticated while it is connected: loading the user's `me` topic reads the account
(`initTopicMe`, init_topic.go:135-147); when the account cannot be read - it is gone, or the store failed - the server logs the
session out. From then on the session is not logged in: dispatch refuses whatever it sends with 401 (a note is dropped), and a
request on behalf of somebody else is refused as one from a session which is not root (`resolveActor`), whatever level the session
had. `Ctx.initMe`, `Ctx.loggedOut` (Model/TopicMe.lean) and `resolveActor` (Model/TopicOps.lean) transcribe those three places; the
world stream ties them to the code and the C11 monitor checks the clause on every generated history.
-/
namespace Tinode.Props.C11
open Tinode.World Tinode.Acs

/-- the account cannot be read - the first store call fails, or finds nothing: the session is logged out and the request is
answered with an error; no topic is created -/
theorem logout_on_unreadable_account (c : Ctx) (a : Actor) (s : Sess)
    (hfail : (c.call "UserGet").2 = false ∨ ((c.call "UserGet").2 = true ∧ (c.call "UserGet").1.w.user? a.uid = none))
    (hsess : (c.call "UserGet").1.w.sess? a.sid = some s) :
    (c.initMe a).2 = none ∧
    ∃ c' : Ctx, (c.initMe a).1 = c'.emit a.sid (ctrl (if (c.call "UserGet").2 then 404 else 500) a.uid) ∧
      c'.w = (c.call "UserGet").1.w.setSess { s with out := true } := by
  unfold Ctx.initMe
  rcases hfail with hf | ⟨hf, hu⟩
  · simp only [hf, Bool.not_false, if_true, hsess, Bool.false_eq_true, if_false]
    exact ⟨trivial, _, rfl, rfl⟩
  · simp only [hf, Bool.not_true, Bool.false_eq_true, if_false, hu, hsess, if_true]
    exact ⟨trivial, _, rfl, rfl⟩

/-- whatever a logged-out session sends is refused with 401 - or dropped, if it is a note -, and nothing else happens: no store
call, no change of state, nothing for anybody else -/
theorem logged_out_refused (c : Ctx) (sid : Sid) (orig : String) (isNote : Bool) :
    (c.loggedOut sid orig isNote).w = c.w ∧ (c.loggedOut sid orig isNote).calls = c.calls ∧
    (c.loggedOut sid orig isNote).pushes = c.pushes ∧ (c.loggedOut sid orig isNote).off = c.off ∧
    (c.loggedOut sid orig isNote).frames = c.frames ++ (if isNote then [] else [(sid, ctrl 401 orig)]) := by
  unfold Ctx.loggedOut
  cases isNote
  · exact ⟨rfl, rfl, rfl, rfl, rfl⟩
  · simp

/-- a logged-out session cannot act on behalf of anybody, whatever level it had -/
theorem logged_out_cannot_act_for_others (c : Ctx) (s : Sess) (u : Uid) (lv : String) (h : s.out = true) :
    resolveActor c s (some (u, lv)) = .error (c.emit s.sid (ctrl 403 "-")) := by
  unfold resolveActor
  simp [h]

/-- the premises are met: a session of an account which is gone -/
example : let w : World := { sess := [{ sid := "S8", uid := "U5", lvl := .root }] }
    (({ w := w } : Ctx).call "UserGet").2 = true ∧ (({ w := w } : Ctx).call "UserGet").1.w.user? "U5" = none := by
  simp [Ctx.call, World.user?]

end Tinode.Props.C11
