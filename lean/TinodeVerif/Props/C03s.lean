import TinodeVerif.Props.C03
import TinodeVerif.Model.TopicChan
/-!
C03, the clause "nor suspended": when an account is suspended the hub marks the loaded group topics it owns (and its loaded p2p
topics) read-only; `C03.pub_refused_no_effect` then refuses every publish there. Re-activation makes them writable again.
-/
namespace Tinode.Props.C03
open Tinode.World Tinode.Acs

/-- after the hub has processed the suspension of `u`, every loaded topic owned by `u` is read-only -/
theorem suspended_owner_topics_readonly (c : Ctx) (u : Uid) (hu : u ≠ "") (t' : Topic)
    (h : t' ∈ (c.opUserState u true).w.live) (ho : t'.owner = u) : t'.readOnly = true := by
  unfold Ctx.opUserState at h
  simp only [List.mem_map] at h
  obtain ⟨t, _, rfl⟩ := h
  split at ho
  · split
    · rfl
    · rename_i hc _; exact absurd hc (by assumption)
  · rename_i hc
    exact absurd (Or.inr ⟨hu, ho⟩) hc

/-- … and a topic which is neither owned by `u` nor a p2p topic of `u` is left as it was -/
theorem suspension_leaves_others (c : Ctx) (u : Uid) (s : Bool) (t : Topic) (ht : t ∈ c.w.live)
    (h1 : t.owner ≠ u) (h2 : isP2PKey t.name = false) : t ∈ (c.opUserState u s).w.live := by
  unfold Ctx.opUserState
  simp only [List.mem_map]
  refine ⟨t, ht, ?_⟩
  have : ¬((isP2PKey t.name = true ∧ (t.pud? u).isSome = true) ∨ (u ≠ "" ∧ t.owner = u)) := by
    rintro (⟨hp, _⟩ | ⟨_, ho⟩)
    · rw [h2] at hp; cases hp
    · exact h1 ho
  rw [if_neg this]

end Tinode.Props.C03
